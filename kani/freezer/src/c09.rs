//! C09 — freezer: one operation from an arbitrary valid on-disk state, on the real freezer_files.rs
//! running over the cfg(kani) model file system (freezer/src/verif_fs.rs).
use ckb_freezer::FreezerFilesBuilder;
use ckb_freezer::verif_fs::{self as vfs, ctl, DATA_CAP, INDEX_INODE, NDATA};
use std::path::PathBuf;

pub fn file_name_stub(file_id: u32) -> String {
    ctl::name_file(file_id);
    String::new()
}

pub fn metrics_stub() -> Option<&'static ckb_metrics::Metrics> {
    None
}

pub fn format_stub(_args: std::fmt::Arguments<'_>) -> String {
    String::new()
}

// compression is switched off by the builder's own option in every harness; the snappy codec (third-party, loops over
// input) is cut so that symbolic execution does not wander into it: reaching these stubs fails the harness.
pub fn compress_stub(_e: &mut snap::raw::Encoder, _input: &[u8]) -> Result<Vec<u8>, snap::Error> {
    assert!(false, "compression path reached although compression is disabled");
    Err(snap::Error::Empty)
}

pub fn decompress_stub(_d: &mut snap::raw::Decoder, _input: &[u8]) -> Result<Vec<u8>, snap::Error> {
    assert!(false, "decompression path reached although compression is disabled");
    Err(snap::Error::Empty)
}

pub const MAXI: usize = 4; // ghost capacity (items)
pub const MAXLEN: usize = 2; // bytes per item

/// ghost description of the items that were appended
#[derive(Clone, Copy)]
pub struct Ghost {
    pub n: usize,
    pub len: [usize; MAXI],
    pub newfile: [bool; MAXI],
    pub bytes: [[u8; MAXLEN]; MAXI],
    // derived placement
    pub file: [u32; MAXI],
    pub end: [u64; MAXI],
}

fn put_index_entry(file_id: u32, offset: u64) {
    let a = file_id.to_le_bytes();
    let b = offset.to_le_bytes();
    ctl::push(INDEX_INODE, a[0]);
    ctl::push(INDEX_INODE, a[1]);
    ctl::push(INDEX_INODE, a[2]);
    ctl::push(INDEX_INODE, a[3]);
    ctl::push(INDEX_INODE, b[0]);
    ctl::push(INDEX_INODE, b[1]);
    ctl::push(INDEX_INODE, b[2]);
    ctl::push(INDEX_INODE, b[3]);
    ctl::push(INDEX_INODE, b[4]);
    ctl::push(INDEX_INODE, b[5]);
    ctl::push(INDEX_INODE, b[6]);
    ctl::push(INDEX_INODE, b[7]);
}

/// Builds the valid on-disk state (representation invariant by construction) whose layout is `shape`
/// (per item: length in bytes, starts-a-new-data-file) with arbitrary item bytes; returns the ghost description.
pub fn state_from(shape: &[(usize, bool)]) -> Ghost {
    let n = shape.len();
    let mut g = Ghost { n, len: [0; MAXI], newfile: [false; MAXI], bytes: [[0; MAXLEN]; MAXI], file: [0; MAXI], end: [0; MAXI] };
    ctl::create(INDEX_INODE);
    put_index_entry(0, 0);
    ctl::create(0);
    let mut cur_file: u32 = 0;
    let mut cur_off: u64 = 0;
    let mut i = 0;
    while i < n {
        let (l, nf) = shape[i];
        g.len[i] = l;
        g.newfile[i] = nf;
        if nf {
            cur_file += 1;
            ctl::create(cur_file as usize);
            cur_off = 0;
        }
        let mut k = 0;
        while k < l {
            let b: u8 = kani::any();
            g.bytes[i][k] = b;
            ctl::push(cur_file as usize, b);
            k += 1;
        }
        cur_off += l as u64;
        g.file[i] = cur_file;
        g.end[i] = cur_off;
        put_index_entry(cur_file, cur_off);
        i += 1;
    }
    g
}

fn idx_u32(at: usize) -> u32 {
    u32::from_le_bytes([ctl::byte(INDEX_INODE, at), ctl::byte(INDEX_INODE, at + 1), ctl::byte(INDEX_INODE, at + 2), ctl::byte(INDEX_INODE, at + 3)])
}

fn idx_u64(at: usize) -> u64 {
    let g = |k: usize| ctl::byte(INDEX_INODE, at + k);
    u64::from_le_bytes([g(0), g(1), g(2), g(3), g(4), g(5), g(6), g(7)])
}

/// independent reader of the on-disk format (the specification of where item `i` (1-based) lives): checks that
/// item `i` is stored byte for byte as `bytes[..len]`
pub fn disk_has_item(i: usize, len: usize, bytes: &[u8; MAXLEN]) -> bool {
    if ctl::len(INDEX_INODE) < (i + 1) * 12 {
        return false;
    }
    let end_file = idx_u32(i * 12);
    let end_off = idx_u64(i * 12 + 4);
    let start_file = idx_u32((i - 1) * 12);
    let start_off = if start_file == end_file { idx_u64((i - 1) * 12 + 4) } else { 0 };
    if (end_file as usize) >= NDATA || !ctl::exists(end_file as usize) {
        return false;
    }
    if end_off < start_off || (end_off - start_off) as usize != len {
        return false;
    }
    if ctl::len(end_file as usize) < end_off as usize {
        return false;
    }
    let mut k = 0;
    while k < MAXLEN {
        if k < len && ctl::byte(end_file as usize, start_off as usize + k) != bytes[k] {
            return false;
        }
        k += 1;
    }
    true
}

fn vec_is(v: &Vec<u8>, len: usize, bytes: &[u8; MAXLEN]) -> bool {
    if v.len() != len {
        return false;
    }
    let mut k = 0;
    while k < MAXLEN {
        if k < len && v[k] != bytes[k] {
            return false;
        }
        k += 1;
    }
    true
}

macro_rules! harness {
    ($name:ident, $unwind:expr, $body:block) => {
        #[kani::proof]
        #[kani::unwind($unwind)]
        #[kani::stub(ckb_freezer::freezer_files::helper::file_name, file_name_stub)]
        #[kani::stub(ckb_metrics::handle, metrics_stub)]
        #[kani::stub(alloc::fmt::format, format_stub)]
        #[kani::stub(snap::raw::Encoder::compress_vec, compress_stub)]
        #[kani::stub(snap::raw::Decoder::decompress_vec, decompress_stub)]
        fn $name() $body
    };
}

harness!(c09_smoke_build_empty, 6, {
    let ff = FreezerFilesBuilder::new(PathBuf::new()).max_file_size(4).enable_compression(false).build();
    assert!(ff.is_ok());
    let ff = ff.unwrap();
    assert_eq!(ff.number(), 1);
    assert!(ctl::exists(INDEX_INODE));
    assert_eq!(ctl::len(INDEX_INODE), 12);
    kani::cover!(true, "end reached");
    std::mem::forget(ff);
});

// k2: re-open a valid state, retrieve any item: byte for byte, None outside 1..=n
pub fn k2_retrieve(shape: &[(usize, bool)]) {
    let g = state_from(shape);
    assert!(inv(&g, g.n)); // the constructed state satisfies the invariant (sanity of the ghost reader)
    let mut ff = FreezerFilesBuilder::new(PathBuf::new()).max_file_size(8).enable_compression(false).build().unwrap();
    ff.preopen().unwrap();
    assert_eq!(ff.number(), g.n as u64 + 1);
    let i: u64 = kani::any();
    kani::assume(i <= g.n as u64 + 2);
    let r = ff.retrieve(i);
    assert!(r.is_ok());
    let r = r.unwrap();
    if i >= 1 && (i as usize) <= g.n {
        let ix = (i - 1) as usize;
        assert!(r.is_some());
        assert!(vec_is(r.as_ref().unwrap(), g.len[ix], &g.bytes[ix]));
    } else {
        assert!(r.is_none());
    }
    kani::cover!(g.n == 0 || i as usize == g.n, "last item retrieved");
    std::mem::forget(r);
    std::mem::forget(ff);
}


fn all_items_on_disk(g: &Ghost, upto: usize) -> bool {
    let mut i = 0;
    let mut ok = true;
    while i < MAXI {
        if i < upto && !disk_has_item(i + 1, g.len[i], &g.bytes[i]) {
            ok = false;
        }
        i += 1;
    }
    ok
}

fn sym_item() -> (usize, [u8; MAXLEN]) {
    let l: usize = kani::any();
    kani::assume(l >= 1 && l <= MAXLEN);
    let mut b = [0u8; MAXLEN];
    let mut k = 0;
    while k < MAXLEN {
        if k < l {
            b[k] = kani::any();
        }
        k += 1;
    }
    (l, b)
}

fn sym_bytes(l: usize) -> [u8; MAXLEN] {
    let mut b = [0u8; MAXLEN];
    let mut k = 0;
    while k < l {
        b[k] = kani::any();
        k += 1;
    }
    b
}

/// the representation invariant of the on-disk state for the first `m` ghost items: index has m+1 whole entries,
/// every item is where the index says, byte for byte, and the head data file ends exactly at the last offset
fn inv(g: &Ghost, m: usize) -> bool {
    if ctl::len(INDEX_INODE) != (m + 1) * 12 {
        return false;
    }
    if !all_items_on_disk(g, m) {
        return false;
    }
    let hf = idx_u32(m * 12) as usize;
    let ho = idx_u64(m * 12 + 4) as usize;
    hf < NDATA && ctl::exists(hf) && ctl::len(hf) == ho
}

// k1: from a re-opened valid state whose handle positions were moved by an arbitrary earlier retrieve,
// append one item of `l` bytes under file-size limit `ms`: invariant holds for items ++ [new]
pub fn k1_append(shape: &[(usize, bool)], l: usize, ms: u64) {
    let mut g = state_from(shape);
    let n = g.n;
    let mut ff = FreezerFilesBuilder::new(PathBuf::new()).max_file_size(ms).enable_compression(false).build().unwrap();
    ff.preopen().unwrap();
    let j: u64 = kani::any();
    kani::assume(j <= n as u64);
    let r0 = ff.retrieve(j);
    assert!(r0.is_ok());
    let b = sym_bytes(l);
    let head_file = if n == 0 { 0 } else { g.file[n - 1] };
    let head_bytes = if n == 0 { 0 } else { g.end[n - 1] };
    let rollover = head_bytes + l as u64 > ms;
    let r = ff.append(n as u64 + 1, &b[..l]);
    assert!(r.is_ok());
    assert_eq!(ff.number(), n as u64 + 2);
    g.len[n] = l;
    g.bytes[n] = b;
    assert!(inv(&g, n + 1));
    assert_eq!(idx_u32((n + 1) * 12), if rollover { head_file + 1 } else { head_file });
    kani::cover!(j >= 1 || n == 0, "append after a retrieve that moved the shared offset");
    std::mem::forget(r0);
    std::mem::forget(ff);
}

// k3: truncate to any threshold: invariant for the prefix, later files removed
pub fn k3_truncate(shape: &[(usize, bool)]) {
    let g = state_from(shape);
    let n = g.n;
    let mut ff = FreezerFilesBuilder::new(PathBuf::new()).max_file_size(DATA_CAP as u64).enable_compression(false).build().unwrap();
    ff.preopen().unwrap();
    let t: u64 = kani::any();
    kani::assume(t <= n as u64 + 2);
    let r = ff.truncate(t);
    assert!(r.is_ok());
    if t >= 1 && t + 1 < n as u64 + 1 {
        let t = t as usize;
        assert_eq!(ff.number(), t as u64 + 1);
        assert!(inv(&g, t));
        let hf = g.file[t - 1] as usize;
        let mut f = 0;
        while f < NDATA {
            if f > hf {
                assert!(!ctl::exists(f));
            }
            f += 1;
        }
        kani::cover!(true, "truncate took effect");
    } else {
        assert_eq!(ff.number(), n as u64 + 1);
        assert!(inv(&g, n));
    }
    std::mem::forget(ff);
}

// k5: crash during an append of `l` bytes under limit `ms`: data file and index file independently cut anywhere between
// their pre-append and post-append sizes (a freshly rolled-over head file may also be missing), then re-open
pub fn k5_crash(shape: &[(usize, bool)], l: usize, ms: u64) {
    let mut g = state_from(shape);
    let n = g.n;
    let mut ff = FreezerFilesBuilder::new(PathBuf::new()).max_file_size(ms).enable_compression(false).build().unwrap();
    ff.preopen().unwrap();
    let b = sym_bytes(l);
    let head_file = if n == 0 { 0 } else { g.file[n - 1] };
    let head_bytes = if n == 0 { 0 } else { g.end[n - 1] };
    let rollover = head_bytes + l as u64 > ms;
    let r = ff.append(n as u64 + 1, &b[..l]);
    assert!(r.is_ok());
    g.len[n] = l;
    g.bytes[n] = b;
    std::mem::forget(ff);
    // ---- crash
    ctl::close_all();
    let new_file = if rollover { head_file as usize + 1 } else { head_file as usize };
    let pre_data = if rollover { 0 } else { head_bytes as usize };
    let post_data = pre_data + l;
    let cd: usize = kani::any();
    kani::assume(cd >= pre_data && cd <= post_data);
    ctl::cut(new_file, cd);
    let missing: bool = kani::any();
    if rollover && cd == 0 && missing {
        ctl::remove(new_file);
    }
    let pre_idx = (n + 1) * 12;
    let ci: usize = kani::any();
    kani::assume(ci >= pre_idx && ci <= pre_idx + 12);
    ctl::cut(INDEX_INODE, ci);
    // ---- re-open
    let ff2 = FreezerFilesBuilder::new(PathBuf::new()).max_file_size(ms).enable_compression(false).build();
    assert!(ff2.is_ok());
    let ff2 = ff2.unwrap();
    let m = ff2.number();
    assert!(m >= 1);
    let m = (m - 1) as usize;
    let complete = cd == post_data && ci == pre_idx + 12;
    assert!(m <= n + 1);
    assert!(m >= if complete { n + 1 } else { n });
    assert!(inv(&g, m));
    kani::cover!(cd < post_data && ci == pre_idx + 12, "index entry on disk, data short");
    kani::cover!(cd == post_data && ci < pre_idx + 12, "data complete, index entry torn");
    kani::cover!(complete, "nothing lost");
    std::mem::forget(ff2);
}

// k8: a crash at a rollover left the index entry of the interrupted append on disk while the new data file holds fewer bytes than the entry
// claims (the state is written directly; one harness per shorter length, arbitrary bytes); re-open: the repair must drop the entry and slip back into
// the previous data file; then a further append that FITS into that file: the handle state the repair leaves behind (head file, head id,
// item count) must be the one the surviving prefix needs -- the on-disk invariant holds for prefix ++ [new]
pub fn k8_crash_reopen_append_read(shape: &[(usize, bool)], l: usize, ms: u64, l2: usize, cd: usize) {
    let mut g = state_from(shape);
    let n = g.n;
    let head_file = if n == 0 { 0 } else { g.file[n - 1] };
    let head_bytes = if n == 0 { 0 } else { g.end[n - 1] };
    assert!(head_bytes + l as u64 > ms); // generated for rollover parameters only
    let new_file = head_file as usize + 1;
    ctl::create(new_file);
    assert!(cd < l); // the data of the interrupted append is short by at least one byte (length concrete per harness, bytes arbitrary)
    let mut k = 0;
    while k < cd {
        let b: u8 = kani::any();
        ctl::push(new_file, b);
        k += 1;
    }
    put_index_entry(new_file as u32, l as u64);
    // ---- re-open
    let ff2 = FreezerFilesBuilder::new(PathBuf::new()).max_file_size(ms).enable_compression(false).build();
    assert!(ff2.is_ok());
    let mut ff2 = ff2.unwrap();
    ff2.preopen().unwrap();
    let m = (ff2.number() - 1) as usize;
    assert!(m == n);
    // ---- a further append on the repaired state
    let b2 = sym_bytes(l2);
    let ra = ff2.append(m as u64 + 1, &b2[..l2]);
    assert!(ra.is_ok());
    g.len[m] = l2;
    g.bytes[m] = b2;
    assert!(inv(&g, m + 1));
    kani::cover!(head_bytes + (l2 as u64) <= ms, "repair slipped back into a data file with room for the next item");
    std::mem::forget(ff2);
}

// k6: truncate inside/below the head file, then append: the prefix and the new item satisfy the invariant
pub fn k6_truncate_append(shape: &[(usize, bool)], t: usize, l: usize) {
    let mut g = state_from(shape);
    let n = g.n;
    let mut ff = FreezerFilesBuilder::new(PathBuf::new()).max_file_size(DATA_CAP as u64).enable_compression(false).build().unwrap();
    ff.preopen().unwrap();
    let r = ff.truncate(t as u64);
    assert!(r.is_ok());
    assert_eq!(ff.number(), t as u64 + 1);
    let b = sym_bytes(l);
    let ra = ff.append(t as u64 + 1, &b[..l]);
    assert!(ra.is_ok());
    g.len[t] = l;
    g.bytes[t] = b;
    assert!(inv(&g, t + 1));
    // API level read-back of the new item and of an arbitrary kept one
    let i: u64 = kani::any();
    kani::assume(i >= 1 && i <= t as u64 + 1);
    let rr = ff.retrieve(i);
    assert!(rr.is_ok());
    let rr = rr.unwrap();
    assert!(rr.is_some());
    assert!(vec_is(rr.as_ref().unwrap(), g.len[(i - 1) as usize], &g.bytes[(i - 1) as usize]));
    kani::cover!(true, "truncate then append");
    std::mem::forget(rr);
    std::mem::forget(ff);
}

// k7: crash at a rollover that left the new head data file partially written (index entry not written), re-open,
// then append again (rolls over into the stale file): subsequent appends and retrievals work on the prefix
pub fn k7_crash_reopen_append(shape: &[(usize, bool)], l: usize, ms: u64, l2: usize) {
    let mut g = state_from(shape);
    let n = g.n;
    let mut ff = FreezerFilesBuilder::new(PathBuf::new()).max_file_size(ms).enable_compression(false).build().unwrap();
    ff.preopen().unwrap();
    let b = sym_bytes(l);
    let head_file = if n == 0 { 0 } else { g.file[n - 1] };
    let r = ff.append(n as u64 + 1, &b[..l]);
    assert!(r.is_ok());
    std::mem::forget(ff);
    ctl::close_all();
    // data of the new head file survived (any prefix, possibly all), the index entry did not
    let new_file = head_file as usize + 1;
    let cd: usize = kani::any();
    kani::assume(cd <= l);
    ctl::cut(new_file, cd);
    ctl::cut(INDEX_INODE, (n + 1) * 12);
    let ff2 = FreezerFilesBuilder::new(PathBuf::new()).max_file_size(ms).enable_compression(false).build();
    assert!(ff2.is_ok());
    let mut ff2 = ff2.unwrap();
    ff2.preopen().unwrap();
    assert_eq!(ff2.number(), n as u64 + 1);
    assert!(all_items_on_disk(&g, n));
    let b2 = sym_bytes(l2);
    let ra = ff2.append(n as u64 + 1, &b2[..l2]);
    assert!(ra.is_ok());
    g.len[n] = l2;
    g.bytes[n] = b2;
    assert!(inv(&g, n + 1));
    kani::cover!(cd > 0, "stale bytes in the next data file");
    std::mem::forget(ff2);
}

include!("gen_c09_quick.rs");
#[cfg(feature = "thorough")]
include!("gen_c09_thorough.rs");
