#![allow(unused)]
#[cfg(kani)]
mod c09;
