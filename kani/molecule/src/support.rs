//! helpers shared by the generated molecule harnesses.
//! Containment of every returned sub-slice in the input is enforced by Kani's own pointer/bounds checks on the real
//! reader code (an out-of-range slice is a failed check), so the helpers only compare lengths: pointer-to-integer
//! casts make the SAT problem explode (measured: 14M variables for a 65-byte Script buffer).
pub fn inside(part: &[u8], whole: &[u8]) -> bool {
    part.len() <= whole.len()
}

pub fn u32_at(s: &[u8], at: usize) -> usize {
    u32::from_le_bytes([s[at], s[at + 1], s[at + 2], s[at + 3]]) as usize
}

/// `part` has the length of the sub-slice [off, off+len) of `whole` and that range lies inside `whole`
pub fn is_at(part: &[u8], whole: &[u8], off: usize, len: usize) -> bool {
    part.len() == len && off <= whole.len() && len <= whole.len() - off
}
