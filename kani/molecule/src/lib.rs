#![allow(unused, non_snake_case, clippy::all)]
#[cfg(kani)]
mod support;
#[cfg(kani)]
mod gen_quick;
#[cfg(all(kani, feature = "thorough"))]
mod gen_thorough;
