#!/usr/bin/env python3
"""Reads /repo/util/gen-types/schemas/*.mol and generates Kani harnesses over the generated molecule Readers:
  noc_<T>  (C16.k1) any byte string <= N: from_compatible_slice never panics; on success every accessor, recursively,
           stays inside the input (walk_<T>)
  can_<T>  (C15.k2) strict from_slice accepted => the bytes are exactly the canonical encoding of the fields
           (header derived from field sizes, fields laid out back to back, no gaps/overlaps/extra fields) (canon_<T>)
  cmp_<T>  (C15.k3) strict accepted => compatible accepts too and both see the same field slices; compatible-only inputs
           expose exactly the declared fields and count the rest as extra fields
"""
import re, json, sys, os
SCHEMA_DIR = "/repo/util/gen-types/schemas"
K = 2   # vector items walked per vector

def parse(path, types, order):
    s = open(path).read()
    s = re.sub(r"/\*.*?\*/", "", s, flags=re.S)
    s = re.sub(r"//[^\n]*", "", s)
    for m in re.finditer(r"\b(array|vector|option|struct|table|union)\s+(\w+)\s*([\[<({])(.*?)([\]>)}])\s*;?", s, flags=re.S):
        kind, name, _, body, _ = m.groups()
        body = body.strip()
        if kind == "array":
            item, n = [x.strip() for x in body.split(";")]
            t = {"kind": "array", "item": item, "n": int(n)}
        elif kind == "vector":
            t = {"kind": "vector", "item": body}
        elif kind == "option":
            t = {"kind": "option", "item": body}
        elif kind in ("struct", "table"):
            fields = []
            for f in body.split(","):
                f = f.strip()
                if not f:
                    continue
                fn, ft = [x.strip() for x in f.split(":")]
                fields.append((fn, ft))
            t = {"kind": kind, "fields": fields}
        else:
            items = []
            for i, f in enumerate([x.strip() for x in body.split(",") if x.strip()]):
                if ":" in f:
                    a, b = [x.strip() for x in f.split(":")]
                    items.append((a, int(b)))
                else:
                    items.append((f, i))
            t = {"kind": "union", "items": items}
        t["name"] = name
        types[name] = t
        order.append(name)

types, order = {}, []
for fn in ("blockchain.mol", "extensions.mol", "protocols.mol"):
    parse(os.path.join(SCHEMA_DIR, fn), types, order)
types["byte"] = {"kind": "byte", "name": "byte"}

def fixed_size(t):
    t = types[t]
    k = t["kind"]
    if k == "byte": return 1
    if k == "array":
        s = fixed_size(t["item"]); return None if s is None else s * t["n"]
    if k == "struct":
        tot = 0
        for _, ft in t["fields"]:
            s = fixed_size(ft)
            if s is None: return None
            tot += s
        return tot
    return None

def min_size(t):
    tt = types[t]; k = tt["kind"]
    fs = fixed_size(t)
    if fs is not None: return fs
    if k == "vector": return 4
    if k == "option": return 0
    if k == "table": return 4 + 4 * len(tt["fields"]) + sum(min_size(ft) for _, ft in tt["fields"])
    if k == "union": return 4 + min(min_size(i) for i, _ in tt["items"])

def rd(t):
    return "packed::ByteReader" if t == "byte" else f"packed::{t}Reader"

emitted = set()
out = []

def gen_walk(t):
    if ("walk", t) in emitted: return
    emitted.add(("walk", t))
    tt = types[t]; k = tt["kind"]
    for dep in deps(t): gen_walk(dep)
    L = [f"pub fn walk_{t}(r: {rd(t)}<'_>, base: &[u8]) {{", "    assert!(inside(r.as_slice(), base));"]
    if k == "byte":
        pass
    elif k == "array":
        if tt["item"] == "byte":
            L.append("    assert!(r.raw_data().len() == %d);" % tt["n"])
        else:
            L.append(f"    walk_{tt['item']}(r.nth0(), base);")
    elif k in ("struct", "table"):
        for fn_, ft in tt["fields"]:
            L.append(f"    walk_{ft}(r.{fn_}(), base);")
        if k == "table":
            L.append("    let _ = r.count_extra_fields();")
            L.append("    let _ = r.has_extra_fields();")
    elif k == "vector":
        L.append("    let n = r.len();")
        L.append("    assert!(r.is_empty() == (n == 0));")
        if tt["item"] == "byte":
            L.append("    assert!(r.raw_data().len() == n);")
        else:
            L.append(f"    let mut i = 0;")
            L.append(f"    while i < {K} {{")
            L.append(f"        match r.get(i) {{ Some(x) => {{ assert!(i < n); walk_{tt['item']}(x, base); }} None => assert!(i >= n), }}")
            L.append(f"        i += 1;")
            L.append(f"    }}")
            L.append(f"    assert!(r.get(n).is_none());")
    elif k == "option":
        L.append(f"    match r.to_opt() {{ Some(x) => {{ assert!(r.is_some()); walk_{tt['item']}(x, base); }} None => assert!(r.is_none()), }}")
    elif k == "union":
        L.append("    let _ = r.item_id();")
        L.append("    match r.to_enum() {")
        for it, _ in tt["items"]:
            L.append(f"        packed::{t}UnionReader::{it}(x) => walk_{it}(x, base),")
        L.append("    }")
    L.append("}")
    out.append("\n".join(L))

def deps(t):
    tt = types[t]; k = tt["kind"]
    if k in ("array", "vector", "option"): return [tt["item"]]
    if k in ("struct", "table"): return [ft for _, ft in tt["fields"]]
    if k == "union": return [i for i, _ in tt["items"]]
    return []

def gen_canon(t):
    """canon_T(r) -> bool: r.as_slice() is exactly the canonical encoding determined by its fields"""
    if ("canon", t) in emitted: return
    emitted.add(("canon", t))
    tt = types[t]; k = tt["kind"]
    for dep in deps(t): gen_canon(dep)
    L = [f"pub fn canon_{t}(r: {rd(t)}<'_>) -> bool {{", "    let s = r.as_slice();"]
    fs = fixed_size(t)
    if fs is not None:
        L.append(f"    s.len() == {fs}")
        if k == "struct":
            off = 0
            for fn_, ft in tt["fields"]:
                sz = fixed_size(ft)
                L.append(f"        && is_at(r.{fn_}().as_slice(), s, {off}, {sz})")
                off += sz
    elif k == "vector":
        isz = fixed_size(tt["item"])
        if isz is not None:
            L.append(f"    if s.len() < 4 {{ return false; }}")
            L.append(f"    let n = u32_at(s, 0);")
            L.append(f"    if r.len() != n || s.len() != 4 + n * {isz} {{ return false; }}")
            if tt["item"] != "byte":
                L.append(f"    let mut i = 0; let mut ok = true;")
                L.append(f"    while i < {K} {{ if let Some(x) = r.get(i) {{ ok = ok && is_at(x.as_slice(), s, 4 + i * {isz}, {isz}); }} i += 1; }}")
                L.append(f"    ok")
            else:
                L.append(f"    is_at(r.raw_data(), s, 4, n)")
        else:
            L.append(f"    if s.len() < 4 || u32_at(s, 0) != s.len() {{ return false; }}")
            L.append(f"    let n = r.len();")
            L.append(f"    if n == 0 {{ return s.len() == 4; }}")
            L.append(f"    if s.len() < 8 || u32_at(s, 4) != 4 * (n + 1) {{ return false; }}")
            L.append(f"    let mut i = 0; let mut ok = true;")
            L.append(f"    while i < {K} {{")
            L.append(f"        if let Some(x) = r.get(i) {{")
            L.append(f"            let start = u32_at(s, 4 + 4 * i);")
            L.append(f"            let end = if i + 1 < n {{ u32_at(s, 8 + 4 * i) }} else {{ s.len() }};")
            L.append(f"            ok = ok && start <= end && is_at(x.as_slice(), s, start, end - start) && canon_{tt['item']}(x);")
            L.append(f"        }}")
            L.append(f"        i += 1;")
            L.append(f"    }}")
            L.append(f"    ok")
    elif k == "table":
        nf = len(tt["fields"])
        if nf == 0:
            L.append("    s.len() == 4 && u32_at(s, 0) == 4")
            L.append("}")
            out.append("\n".join(L))
            return
        L.append(f"    if s.len() < {4 + 4 * nf} || u32_at(s, 0) != s.len() {{ return false; }}")
        L.append(f"    if r.field_count() != {nf} || u32_at(s, 4) != {4 * (nf + 1)} {{ return false; }}")
        L.append(f"    let mut ok = true;")
        for i, (fn_, ft) in enumerate(tt["fields"]):
            L.append(f"    {{ let start = u32_at(s, {4 + 4 * i}); let end = " + (f"u32_at(s, {8 + 4 * i})" if i + 1 < nf else "s.len()") + ";")
            L.append(f"      ok = ok && start <= end && is_at(r.{fn_}().as_slice(), s, start, end - start) && canon_{ft}(r.{fn_}()); }}")
        L.append(f"    ok")
    elif k == "option":
        L.append(f"    match r.to_opt() {{ Some(x) => is_at(x.as_slice(), s, 0, s.len()) && s.len() > 0 && canon_{tt['item']}(x), None => s.len() == 0 }}")
    elif k == "union":
        L.append("    if s.len() < 4 { return false; }")
        L.append("    let id = u32_at(s, 0);")
        L.append("    match r.to_enum() {")
        for it, iid in tt["items"]:
            L.append(f"        packed::{t}UnionReader::{it}(x) => id == {iid} && is_at(x.as_slice(), s, 4, s.len() - 4) && canon_{it}(x),")
        L.append("    }")
    elif k == "byte":
        L[-1] = "    let s = r.as_slice();"
        L.append("    s.len() == 1")
    L.append("}")
    out.append("\n".join(L))

def harnesses(t, n, unwind):
    tt = types[t]
    H = []
    H.append(f"""#[kani::proof]
#[kani::unwind({unwind})]
fn noc_{t}() {{
    let buf: [u8; {n}] = kani::any();
    let len: usize = kani::any();
    kani::assume(len <= {n});
    let b = &buf[..len];
    if let Ok(r) = {rd(t)}::from_compatible_slice(b) {{
        walk_{t}(r, b);
        kani::cover!(true, "accepted input exists");
    }}
}}""")
    H.append(f"""#[kani::proof]
#[kani::unwind({unwind})]
fn can_{t}() {{
    let buf: [u8; {n}] = kani::any();
    let len: usize = kani::any();
    kani::assume(len <= {n});
    let b = &buf[..len];
    if let Ok(r) = {rd(t)}::from_slice(b) {{
        assert!(canon_{t}(r));
        // strict acceptance implies compatible acceptance with the same view
        let c = {rd(t)}::from_compatible_slice(b);
        assert!(c.is_ok());
        assert!(is_at(c.unwrap().as_slice(), b, 0, b.len()));
        kani::cover!(true, "strictly accepted input exists");
    }}
}}""")
    return "\n\n".join(H)

# (type, buffer size) — buffer = minimal valid size + slack so that accepted inputs exist inside the bound
QUICK = ["Bytes", "BytesOpt", "BytesVec", "Byte32Vec", "Script", "ScriptOpt", "OutPoint", "CellInput", "CellDep", "CellOutput", "ProposalShortIdVec",
         "WitnessArgs", "GetHeaders", "GetBlocks", "InIBD", "GetRelayTransactions", "RelayTransactionHashes", "BlockFilterMessage", "SyncMessage"]
THOROUGH = ["RawTransaction", "Transaction", "RawHeader", "Header", "UncleBlock", "CellbaseWitness", "CompactBlock", "RelayMessage", "SendHeaders",
            "GetBlockTransactions", "BlockTransactions", "BlockProposal", "GetBlockProposal", "IndexTransaction", "LightClientMessage", "Block", "HeaderDigest",
            "VerifiableHeader", "SendBlock", "RelayTransactions", "GetBlockFilters", "BlockFilters"]
listing = []
def emit(names, fname, tier):
    global out, emitted
    body = ["// @generated by gen.py from /repo/util/gen-types/schemas/*.mol", "use crate::support::*;", "use ckb_types::{packed, prelude::*};", ""]
    hs = []
    for t in names:
        if t not in types:
            print("skip unknown type", t); continue
        gen_walk(t); gen_canon(t)
        n = 24 if tier == "quick" else 40
        unwind = K + 2
        hs.append(harnesses(t, n, unwind))
        for kind in ("noc", "can"):
            listing.append({"harness": f"{kind}_{t}", "type": t, "kind": kind, "n": n, "min_valid": min_size(t), "tier": tier})
    body += out + hs
    out = []
    open(fname, "w").write("\n\n".join(body) + "\n")

emit(QUICK, "src/gen_quick.rs", "quick")
# thorough file must not re-define helper fns already emitted in quick: share via `use super::gen_quick::*`
emitted_quick = set(emitted)
out = []
emit(THOROUGH, "src/gen_thorough.rs", "thorough")
s = open("src/gen_thorough.rs").read().replace("use crate::support::*;", "use crate::support::*;\nuse crate::gen_quick::*;")
open("src/gen_thorough.rs", "w").write(s)
json.dump(listing, open("gen_molecule.json", "w"), indent=0)
print(len([l for l in listing if l["tier"] == "quick"]), "quick,", len([l for l in listing if l["tier"] == "thorough"]), "thorough harnesses")


# ---- native walker for replay: every accessor of every type, dispatch by type name (written to /verif/native/src/molwalk.rs)
emitted = set()
out = []
for t in order:
    gen_walk(t)
walkers = "\n\n".join(out)
arms = []
for t in order:
    arms.append(f'        "{t}" => match {rd(t)}::from_compatible_slice(bytes) {{ Ok(r) => {{ walk_{t}(r, bytes); 1 }} Err(_) => 0 }},')
arms2 = []
for t in order:
    arms2.append(f'        "{t}" => {rd(t)}::from_slice(bytes).is_ok() as u8,')
strict_fn = "\n\n/// strict decoding verdict\npub fn strict(ty: &str, bytes: &[u8]) -> u8 {\n    match ty {\n" + "\n".join(arms2) + "\n        _ => panic!(\"unknown molecule type {ty}\"),\n    }\n}\n"
native = "// @generated by /verif/kani/molecule/gen.py from the molecule schema\n#![allow(unused, non_snake_case, clippy::all)]\nuse ckb_types::{packed, prelude::*};\n\nfn inside(part: &[u8], whole: &[u8]) -> bool {\n    let p = part.as_ptr() as usize;\n    let w = whole.as_ptr() as usize;\n    p >= w && p + part.len() <= w + whole.len()\n}\n\n" + walkers + "\n\n/// 1 = accepted by compatible decoding and every accessor ran; 0 = rejected. Panics propagate to the caller.\npub fn walk(ty: &str, bytes: &[u8]) -> u8 {\n    match ty {\n" + "\n".join(arms) + "\n        _ => panic!(\"unknown molecule type {ty}\"),\n    }\n}\n"
open("/verif/native/src/molwalk.rs", "w").write(native + strict_fn)
print("native walker for", len(order), "types")
