#![allow(unused)]
#[cfg(kani)]
mod c07;
