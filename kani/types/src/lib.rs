#![allow(unused)]
#[cfg(kani)]
mod c07;
// c03.rs (past-median time over a mock chain) is kept for reference but not compiled: the harness did not finish in 900 s
