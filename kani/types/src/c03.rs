//! C03.k1 — past-median time: the real default method `HeaderFieldsProvider::block_median_time` over a mock chain.
use ckb_traits::{HeaderFields, HeaderFieldsProvider};
use ckb_types::{core::EpochNumberWithFraction, packed::Byte32, prelude::*};

const N: usize = 4;

struct MockChain {
    ts: [u64; N],
}

fn hash_of(height: u8) -> Byte32 {
    let mut b = [0u8; 32];
    b[0] = height;
    Byte32::new(b)
}

impl HeaderFieldsProvider for MockChain {
    fn get_header_fields(&self, hash: &Byte32) -> Option<HeaderFields> {
        let h = hash.as_slice()[0] as usize;
        if h >= N {
            return None;
        }
        Some(HeaderFields {
            hash: hash.clone(),
            number: h as u64,
            epoch: EpochNumberWithFraction::new_unchecked(0, 0, 0),
            timestamp: self.ts[h],
            parent_hash: hash_of(if h == 0 { 0 } else { h as u8 - 1 }),
        })
    }
}

/// median over the last k = min(count, height+1) blocks; for an even k the greater middle element
#[kani::proof]
#[kani::unwind(6)]
fn c03_k1_block_median_time() {
    let chain = MockChain { ts: kani::any() };
    let height: u8 = kani::any();
    kani::assume((height as usize) < N);
    let count: usize = kani::any();
    kani::assume(count >= 1 && count <= N);
    let got = chain.block_median_time(&hash_of(height), count);
    let k = if count < height as usize + 1 { count } else { height as usize + 1 };
    // specification by counting: `got` is one of the k timestamps, at least k/2 of the others... rank characterisation:
    // #(t < got) <= k/2  and  #(t <= got) >= k/2 + 1
    let mut less = 0usize;
    let mut le = 0usize;
    let mut member = false;
    let mut i = 0usize;
    while i < N {
        let h = height as usize;
        if i <= h && h - i < k {
            let t = chain.ts[i];
            if t < got {
                less += 1;
            }
            if t <= got {
                le += 1;
            }
            if t == got {
                member = true;
            }
        }
        i += 1;
    }
    assert!(member);
    assert!(less <= k / 2);
    assert!(le >= k / 2 + 1);
    kani::cover!(k == 4 && less == 2, "even window with distinct middle elements");
    kani::cover!(k == 3, "odd window");
}
