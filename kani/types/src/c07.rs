//! C07.k* — compact target / difficulty conversions on the real numext U256 code.
use ckb_types::{
    U256,
    utilities::{compact_to_difficulty, compact_to_target, difficulty_to_compact, target_to_compact},
};

/// canonical compact: produced by target_to_compact of its own decoding
#[kani::proof]
#[kani::unwind(6)]
fn c07_k1_compact_roundtrip() {
    let c: u32 = kani::any();
    let (t, overflow) = compact_to_target(c);
    let exp = c >> 24;
    let man = c & 0x00ff_ffff;
    // overflow flag exactly as specified
    assert_eq!(overflow, man != 0 && exp > 32);
    if !overflow && !t.is_zero() {
        // decode -> encode -> decode is a fixpoint on targets
        let c2 = target_to_compact(t.clone());
        let (t2, o2) = compact_to_target(c2);
        assert!(!o2);
        assert!(t2 == t);
        // encode is canonical: re-encoding the decoded canonical compact is the identity
        assert_eq!(target_to_compact(t2), c2);
        // canonical mantissa has its top byte set unless exponent <= 3
        kani::cover!(c2 != c, "non-canonical compacts exist");
    }
    kani::cover!(true, "reached end");
}

// ------------------------------------------------------------------ k1b: monotonicity
/// for canonical compacts produced by `target_to_compact`, ordering of compacts = ordering of targets
#[kani::proof]
#[kani::unwind(6)]
fn c07_k1_compact_monotone() {
    let c1: u32 = kani::any();
    let c2: u32 = kani::any();
    let (t1, o1) = compact_to_target(c1);
    let (t2, o2) = compact_to_target(c2);
    kani::assume(!o1 && !o2 && !t1.is_zero() && !t2.is_zero());
    // restrict to canonical encodings
    kani::assume(target_to_compact(t1.clone()) == c1);
    kani::assume(target_to_compact(t2.clone()) == c2);
    if c1 < c2 {
        assert!(t1 <= t2);
    }
    if t1 < t2 {
        assert!(c1 <= c2);
    }
    kani::cover!(c1 < c2 && t1 < t2, "ordered pair reachable");
}

// ------------------------------------------------------------------ k3: PoW accepted iff hash <= target
use ckb_pow::{EaglesongPowEngine, PowEngine};
use ckb_types::{packed, prelude::*};

static mut POW_OUT: [u8; 32] = [0u8; 32];

fn eaglesong_stub(output: &mut [u8], _output_length: usize, _input: &[u8], _input_length: usize) {
    // the hash function is outside the claim: it returns an arbitrary 32-byte digest
    let o: [u8; 32] = kani::any();
    unsafe {
        POW_OUT = o;
    }
    output[..32].copy_from_slice(&o);
}

fn pow_hash_stub<'r>(_r: &packed::HeaderReader<'r>) -> packed::Byte32 where 'r: 'r {
    packed::Byte32::default()
}

#[kani::proof]
#[kani::unwind(34)]
#[kani::stub(eaglesong::eaglesong::eaglesong_sponge, eaglesong_stub)]
#[kani::stub(ckb_types::packed::HeaderReader::calc_pow_hash, pow_hash_stub)]
fn c07_k3_pow_accept_iff_hash_le_target() {
    let compact: u32 = kani::any();
    let raw = packed::RawHeader::new_builder().compact_target(compact).build();
    let header = packed::Header::new_builder().raw(raw).build();
    let ok = EaglesongPowEngine.verify(&header);
    let out = unsafe { POW_OUT };
    let (target, overflow) = compact_to_target(compact);
    // independent big-endian comparison hash <= target
    let tb = {
        let mut b = [0u8; 32];
        target.into_big_endian(&mut b).unwrap();
        b
    };
    let mut le = true; // out <= tb
    let mut i = 0;
    while i < 32 {
        if out[i] != tb[i] {
            le = out[i] < tb[i];
            break;
        }
        i += 1;
    }
    let expect = !target.is_zero() && !overflow && le;
    assert_eq!(ok, expect);
    kani::cover!(ok, "accepting run reachable");
    kani::cover!(!ok && !target.is_zero() && !overflow, "rejected by hash comparison reachable");
}
