//! C07.k* — compact target / difficulty conversions on the real numext U256 code.
use ckb_types::{
    U256,
    utilities::{compact_to_difficulty, compact_to_target, difficulty_to_compact, target_to_compact},
};

/// canonical compact: produced by target_to_compact of its own decoding
#[kani::proof]
#[kani::unwind(6)]
fn c07_k1_compact_roundtrip() {
    let c: u32 = kani::any();
    let (t, overflow) = compact_to_target(c);
    let exp = c >> 24;
    let man = c & 0x00ff_ffff;
    // overflow flag exactly as specified
    assert_eq!(overflow, man != 0 && exp > 32);
    if !overflow && !t.is_zero() {
        // decode -> encode -> decode is a fixpoint on targets
        let c2 = target_to_compact(t.clone());
        let (t2, o2) = compact_to_target(c2);
        assert!(!o2);
        assert!(t2 == t);
        // encode is canonical: re-encoding the decoded canonical compact is the identity
        assert_eq!(target_to_compact(t2), c2);
        // canonical mantissa has its top byte set unless exponent <= 3
        kani::cover!(c2 != c, "non-canonical compacts exist");
    }
    kani::cover!(true, "reached end");
}
