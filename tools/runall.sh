#!/bin/bash
cd /verif
for p in "$@"; do
  s=$(date +%s)
  ./check $p --tier quick > /tmp/q_$p.log 2>&1
  rc=$?
  echo "$p exit=$rc $(( $(date +%s) - s ))s" >> /tmp/runall.summary
done
echo DONE >> /tmp/runall.summary
