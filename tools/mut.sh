#!/bin/bash
# usage: tools/mut.sh <file relative to /repo> <sed expression> <property> [--only names]   — apply a one-line mutation, run the check, revert
F=$1; EXPR=$2; ID=$3; shift 3
cd /repo && git diff --quiet || { echo "repo dirty"; exit 2; }
sed -i "$EXPR" "$F"
if git diff --quiet; then echo "MUTATION-NO-CHANGE"; exit 2; fi
git diff | grep '^[+-][^+-]' | head -6
cd /verif && VERIF_WORK=${VERIF_WORK:-/verif/work} ./check $ID "$@" 2>&1 | grep -E "^\[|VIOLATION|INCONCLUSIVE|KNOWN" | cut -c1-250 | head -8
git -C /repo checkout -- .
