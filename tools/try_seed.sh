#!/bin/bash
# usage: tools/try_seed.sh <seed dir name> <property id> [check args...]
# applies seeded/<name>/patch.diff to /repo, runs the check, reverts. /repo must be clean (committed) before.
# Holds an exclusive lock on /tmp/repo.lock while /repo is modified (tools/lcheck takes the shared side).
set -u
name=$1; pid=$2; shift 2
exec 9>/tmp/repo.lock
flock -x 9
cd /repo || exit 9
if [ -n "$(git status --porcelain --untracked-files=no)" ]; then echo "/repo not clean"; exit 9; fi
git apply /verif/seeded/$name/patch.diff || { echo "patch does not apply"; exit 9; }
cd /verif && ./check $pid "$@" 2>&1 | tail -8
rc=${PIPESTATUS[0]}
cd /repo && git checkout -- . 
echo "seed=$name property=$pid exit=$rc"
