#!/bin/bash
# usage: confirm_seed.sh <seed dir with patch.diff demo.diff meta.json> <scratch worktree>
# Confirms: with patch+demo the demo test fails and every other test of the crate passes; without the patch the demo passes.
S=$1; WT=$2
export CARGO_NET_OFFLINE=true CARGO_INCREMENTAL=0 CARGO_PROFILE_DEV_DEBUG=0 CARGO_PROFILE_TEST_DEBUG=0 CARGO_TARGET_DIR=$WT/target TMPDIR=$WT/tmp
mkdir -p $TMPDIR
cd $WT || exit 2
git checkout -q -- . && git clean -fdq -e target -e tmp -e out
read PKG TEST < <(python3 - "$S/meta.json" <<'PY'
import json,re,sys
m=json.load(open(sys.argv[1])); c=m["demo_cmd"]
pk=re.search(r"-p\s+(\S+)",c).group(1)
t=re.search(r"test\(([^)]+)\)",c)
if t: t=t.group(1)
else:
    c2=c.split("(")[0].strip().split()
    t=c2[-1]
print(pk,t)
PY
)
echo "seed=$S pkg=$PKG test=$TEST"
git apply $S/patch.diff || { echo "RESULT $S patch-does-not-apply"; exit 1; }
git apply $S/demo.diff || { echo "RESULT $S demo-does-not-apply"; exit 1; }
cargo nextest run --offline -j 8 -p $PKG --no-fail-fast > $WT/with.log 2>&1
W_FAIL=$(grep -E "^\s+(FAIL|SIGABRT|SIGSEGV|TIMEOUT)" $WT/with.log | awk '{print $NF}' | sort -u | tr '\n' ' ')
W_SUM=$(grep -E "Summary" $WT/with.log | tail -1)
git apply -R $S/patch.diff
cargo nextest run --offline -j 8 -p $PKG --no-fail-fast > $WT/without.log 2>&1
O_FAIL=$(grep -E "^\s+(FAIL|SIGABRT|SIGSEGV|TIMEOUT)" $WT/without.log | awk '{print $NF}' | sort -u | tr '\n' ' ')
O_SUM=$(grep -E "Summary" $WT/without.log | tail -1)
git checkout -q -- . && git clean -fdq -e target -e tmp -e out
rm -rf $TMPDIR/* $TMPDIR/.tmp* 2>/dev/null
echo "RESULT $S with-patch: [$W_SUM] failing: $W_FAIL | without-patch: [$O_SUM] failing: $O_FAIL"
