#!/usr/bin/env python3
"""Own mutation sanity run: each entry edits one place of /repo (must compile), runs one check with --only, reverts.
usage: own_mutations.py [name ...]    (no args = all).  Prints one line per mutation: name, exit code, first VIOLATION line."""
import subprocess, sys, os
R = "/repo"
MUT = [
 ("hv-drop-epoch", "verification/src/header_verifier.rs", "        EpochVerifier::new(parent_fields.epoch, header).verify()?;\n", "", "C03", "m8"),
 ("hv-number-self", "verification/src/header_verifier.rs", "NumberVerifier::new(parent_fields.number, header)", "NumberVerifier::new(header.number().saturating_sub(1), header)", "C03", "m8"),
 ("bv-drop-duplicate", "verification/src/block_verifier.rs", "        DuplicateVerifier::new().verify(target)?;\n", "", "C03", "m9"),
 ("cbv-reward-flag", "verification/contextual/src/contextual_block_verifier.rs", "if !self.switch.disable_reward() {", "if !self.switch.disable_daoheader() {", "C03", "m10"),
 ("cbv-drop-extension", "verification/contextual/src/contextual_block_verifier.rs", "                .verify(block)?;\n        }\n\n        let ret = BlockTxsVerifier::new(", "                .verify(block).ok();\n        }\n\n        let ret = BlockTxsVerifier::new(", "C03", "m10"),
 ("tr-drop-since", "verification/src/transaction_verifier.rs", "        self.maturity.verify()?;\n        self.since.verify()?;\n", "        self.maturity.verify()?;\n", "C04", "m7"),
 ("ctv-ignore-capacity", "verification/src/transaction_verifier.rs", "        self.time_relative.verify()?;\n        self.capacity.verify()?;\n        let cycles = if skip_script_verify {\n            0\n        } else {\n            self.script.verify(max_cycles)?", "        self.time_relative.verify()?;\n        let _ = self.capacity.verify();\n        let cycles = if skip_script_verify {\n            0\n        } else {\n            self.script.verify(max_cycles)?", "C04", "m7"),
 ("cache-key-tx-hash", "verification/contextual/src/contextual_block_verifier.rs", "                let wtx_hash = tx.transaction.witness_hash();\n\n                if let Some(completed)", "                let wtx_hash = tx.transaction.hash();\n\n                if let Some(completed)", "C14", "m1"),
 ("cache-hit-skips-time-relative", "verification/contextual/src/contextual_block_verifier.rs", "                        .verify()\n                        .map_err(|error| {\n                            BlockTransactionsError {\n                                index: index as u32,\n                                error,\n                            }\n                            .into()\n                        })\n                        .map(|_| (wtx_hash, *completed))", "                        .verify()\n                        .or(Ok::<(), Error>(()))\n                        .map(|_| (wtx_hash, *completed))", "C14", "m1"),
 ("freeze-max", "shared/src/shared.rs", "        let threshold = cmp::min(", "        let threshold = cmp::max(", "C10", "m1"),
 ("freeze-epoch-off-by-one", "shared/src/shared.rs", ".get_epoch_index(current_epoch + 1 - THRESHOLD_EPOCH)", ".get_epoch_index(current_epoch + 2 - THRESHOLD_EPOCH)", "C10", "m1"),
 ("store-freezer-le", "store/src/store.rs", "            && header.number() < freezer.number()", "            && header.number() <= freezer.number()", "C10", "m3"),
 ("store-txinfo-index", "store/src/store.rs", "                .retrieve(tx_info.block_number)", "                .retrieve(tx_info.block_number - 1)", "C10", "m3"),
 ("pool-gap-counter", "tx-pool/src/component/pool_map.rs", "            Some(Status::Gap) => self.gap_count -= 1,", "            Some(Status::Gap) => self.pending_count -= 1,", "C11", "m7"),
 ("score-tiebreak-reversed", "tx-pool/src/component/sort_key.rs", "            self.ancestors_weight.cmp(&other.ancestors_weight)", "            other.ancestors_weight.cmp(&self.ancestors_weight)", "C11", "m3"),
 ("tip-ge", "chain/src/verify.rs", "let new_best_block = cannon_total_difficulty > current_total_difficulty;", "let new_best_block = cannon_total_difficulty >= current_total_difficulty;", "C01", "m1"),
 ("tip-ignores-reconcile-error", "chain/src/verify.rs", "            self.reconcile_main_chain(Arc::clone(&db_txn), &mut fork, switch)?;", "            let _ = self.reconcile_main_chain(Arc::clone(&db_txn), &mut fork, switch);", "C01", "m1"),
 ("snapshot-old-difficulty", "chain/src/verify.rs", ".new_snapshot(tip_header, cannon_total_difficulty, epoch, new_proposals);", ".new_snapshot(tip_header, current_total_difficulty, epoch, new_proposals);", "C01", "m1"),
 ("locator-step-late", "sync/src/types/mod.rs", "            if locator.len() >= 10 {\n                step <<= 1;", "            if locator.len() > 10 {\n                step <<= 1;", "C17", "m4"),
 ("locator-base-stale", "sync/src/types/mod.rs", "            index -= step;\n            base = header_hash;", "            index -= step;", "C17", "m4"),
 ("prefilled-last-index-le", "sync/src/relayer/compact_block_verifier.rs", "            if index >= txs_len {", "            if index > txs_len {", "C16", "m5"),
 ("evict-key-min", "tx-pool/src/component/entry.rs", "            fee_rate: descendants_feerate.max(feerate),", "            fee_rate: descendants_feerate.min(feerate),", "C11", "m4"),
 ("c02-detach-skips-uncles", "store/src/transaction.rs", "            self.delete(COLUMN_UNCLES, uncle.hash().as_slice())?;\n", "            let _ = uncle;\n", "C02", "m1"),
 ("c02-attach-txinfo-index-const", "store/src/transaction.rs", "                .block_hash(block_hash.clone())\n                .index(index)\n", "                .block_hash(block_hash.clone())\n                .index(0usize)\n", "C02", "m1"),
 ("c02-detach-index-by-number-only", "store/src/transaction.rs", "        self.delete(COLUMN_INDEX, block_number.as_slice())?;\n        self.delete(COLUMN_INDEX, block.hash().as_slice())\n", "        self.delete(COLUMN_INDEX, block_number.as_slice())?;\n        self.delete(COLUMN_INDEX, block_number.as_slice())\n", "C02", "m1"),
 ("c02-attach-cells-delete-first", "store/src/cell.rs", "    txn.insert_cells(new_cells)?;\n\n    // mark inputs dead\n    // skip cellbase\n    let deads = transactions\n        .iter()\n        .skip(1)\n        .flat_map(|tx| tx.input_pts_iter());\n    txn.delete_cells(deads)?;\n", "    let deads = transactions\n        .iter()\n        .skip(1)\n        .flat_map(|tx| tx.input_pts_iter());\n    txn.delete_cells(deads)?;\n    txn.insert_cells(new_cells)?;\n", "C02", "m2"),
 ("c02-attach-cells-no-skip", "store/src/cell.rs", "    let deads = transactions\n        .iter()\n        .skip(1)\n        .flat_map(|tx| tx.input_pts_iter());", "    let deads = transactions\n        .iter()\n        .flat_map(|tx| tx.input_pts_iter());", "C02", "m2"),
 ("c02-detach-restores-with-detached-block-number", "store/src/cell.rs", "                    let block_number = info.block_number;\n                    let block_epoch = info.block_epoch;\n                    let tx_index = info.index;", "                    let block_number = block.number();\n                    let block_epoch = info.block_epoch;\n                    let tx_index = info.index;", "C02", "m3"),
 ("c02-delete-cells-forgets-hash-column", "store/src/transaction.rs", "            self.delete(COLUMN_CELL_DATA, &key)?;\n            self.delete(COLUMN_CELL_DATA_HASH, &key)?;", "            self.delete(COLUMN_CELL_DATA, &key)?;", "C02", "m4"),
 ("c02-rollback-oldest-first", "chain/src/verify.rs", "        for block in fork.detached_blocks().iter().rev() {", "        for block in fork.detached_blocks().iter() {", "C02", "m5"),
 ("c12-restage-uses-old-snapshot", "tx-pool/src/process.rs", "            if snapshot.proposals().contains_proposed(&short_id) {\n                proposals.push((short_id, entry.inner.clone()));", "            if tx_pool.snapshot.proposals().contains_proposed(&short_id) {\n                proposals.push((short_id, entry.inner.clone()));", "C12", "m1"),
 ("c12-detached-before-committed", "tx-pool/src/process.rs", "    tx_pool.remove_committed_txs(attached.iter(), callbacks, detached_headers);\n    tx_pool.remove_by_detached_proposal(detached_proposal_id.iter());", "    tx_pool.remove_by_detached_proposal(detached_proposal_id.iter());\n    tx_pool.remove_committed_txs(attached.iter(), callbacks, detached_headers);", "C12", "m1"),
 ("c12-pending-gap-first", "tx-pool/src/process.rs", "            if snapshot.proposals().contains_proposed(&short_id) {\n                proposals.push(elem);\n            } else if snapshot.proposals().contains_gap(&short_id) {\n                gaps.push(elem);", "            if snapshot.proposals().contains_gap(&short_id) {\n                gaps.push(elem);\n            } else if snapshot.proposals().contains_proposed(&short_id) {\n                proposals.push(elem);", "C12", "m1"),
 ("c12-header-dep-always-skipped", "tx-pool/src/pool.rs", "        if !detached_headers.is_empty() {\n            self.resolve_conflict_header_dep(detached_headers, callbacks)", "        if detached_headers.is_empty() {\n            self.resolve_conflict_header_dep(detached_headers, callbacks)", "C12", "m2"),
 ("c12-retain-attached-minus-detached", "tx-pool/src/process.rs", "let retain: Vec<TransactionView> = detached.difference(&attached).cloned().collect();", "let retain: Vec<TransactionView> = attached.difference(&detached).cloned().collect();", "C12", "m3"),
 ("c12-readd-before-update", "tx-pool/src/process.rs", "            _update_tx_pool_for_reorg(\n                &mut tx_pool,\n                &attached,\n                &detached_headers,\n                detached_proposal_id,\n                snapshot,\n                &self.callbacks,\n                mine_mode,\n            );\n\n            // notice: readd_detached_tx don't update cache\n            self.readd_detached_tx(&mut tx_pool, retain, fetched_cache)\n                .await;", "            self.readd_detached_tx(&mut tx_pool, retain, fetched_cache)\n                .await;\n            _update_tx_pool_for_reorg(\n                &mut tx_pool,\n                &attached,\n                &detached_headers,\n                detached_proposal_id,\n                snapshot,\n                &self.callbacks,\n                mine_mode,\n            );", "C12", "m3"),
 ("c13-total-by-uncles-adds-old", "tx-pool/src/block_assembler/mod.rs", "            self.total.saturating_add(new_uncles_size - self.uncles)", "            self.total.saturating_add(new_uncles_size)", "C13", "m1"),
 ("c13-update-proposals-le", "tx-pool/src/block_assembler/mod.rs", "        let new_total_size = current.size.calc_total_by_proposals(new_proposals_size);\n        let max_block_bytes = consensus.max_block_bytes() as usize;\n        if new_total_size < max_block_bytes {", "        let new_total_size = current.size.calc_total_by_proposals(new_proposals_size);\n        let max_block_bytes = consensus.max_block_bytes() as usize;\n        if new_total_size < max_block_bytes + new_proposals_size {", "C13", "m4"),
 ("c13-update-full-cycles-from-bytes", "tx-pool/src/block_assembler/mod.rs", "            let max_block_cycles = consensus.max_block_cycles();\n            let (txs, _txs_size, _cycles) =\n                tx_pool_reader.package_txs(max_block_cycles, txs_size_limit);", "            let max_block_cycles = consensus.max_block_bytes();\n            let (txs, _txs_size, _cycles) =\n                tx_pool_reader.package_txs(max_block_cycles, txs_size_limit);", "C13", "m2"),
 ("c13-uncle-number-le", "tx-pool/src/block_assembler/candidate_uncles.rs", "                && uncle.number() < candidate_number", "                && uncle.number() <= candidate_number", "C13", "m3"),
 ("c13-uncle-parent-check-dropped", "tx-pool/src/block_assembler/candidate_uncles.rs", "                    || snapshot.is_main_chain(&parent_hash)\n                    || snapshot.is_uncle(&parent_hash))", "                    || snapshot.is_main_chain(&parent_hash)\n                    || !snapshot.is_uncle(&parent_hash))", "C13", "m3"),
 ("c18-rollback-keeps-tx-type-rows", "util/indexer/src/indexer.rs", "                                    CellType::Output,\n                                )\n                                .into_vec(),\n                            )?;\n                        };\n                        batch.delete(out_point_key)?;", "                                    CellType::Input,\n                                )\n                                .into_vec(),\n                            )?;\n                        };\n                        batch.delete(out_point_key)?;", "C18", "m1"),
 ("c18-append-live-cell-wrong-tx-index", "util/indexer/src/indexer.rs", "                    Value::Cell(block_number, tx_index, &output, &output_data),", "                    Value::Cell(block_number, output_index, &output, &output_data),", "C18", "m1"),
 ("c17-orphan-no-leader-dedupe", "chain/src/utils/orphan_block_pool.rs", "        self.leaders.remove(&hash);\n", "", "C17", "m8"),
 ("c17-orphan-leader-always", "chain/src/utils/orphan_block_pool.rs", "        if !self.parents.contains_key(&parent_hash) {", "        if !self.parents.contains_key(&hash) {", "C17", "m8"),
 ("c17-orphan-release-children-only", "chain/src/utils/orphan_block_pool.rs", "                queue.extend(hashes);\n", "                let _ = &hashes;\n", "C17", "m8"),
 ("c17-orphan-parents-not-cleared", "chain/src/utils/orphan_block_pool.rs", "                for hash in hashes.iter() {\n                    self.parents.remove(hash);\n                }", "                for hash in hashes.iter().skip(1) {\n                    self.parents.remove(hash);\n                }", "C17", "m8"),
 ("c17-inflight-block-stays-in-peer-set", "sync/src/types/mod.rs", "                    set.hashes.remove(&block);\n                    if adjustment {", "                    if adjustment {", "C17", "m9"),
 ("c17-inflight-peer-leaves-states", "sync/src/types/mod.rs", "                for block in blocks.hashes {\n                    state.remove(&block);", "                for block in blocks.hashes {", "C17", "m9"),
 ("c17-inflight-trace-strict", "sync/src/types/mod.rs", "        if self.restart_number >= block.number {", "        if self.restart_number > block.number {", "C17", "m9"),
 ("c17-inflight-second-request-overwrites", "sync/src/types/mod.rs", "            Entry::Occupied(_entry) => return false,", "            Entry::Occupied(mut entry) => entry.insert(InflightState::new(peer)),", "C17", "m9"),
 ("c11-links-children-reads-parents", "tx-pool/src/component/links.rs", "            Relation::Children => &self.children,", "            Relation::Children => &self.parents,", "C11", "m13"),
 ("c11-links-closure-one-level", "tx-pool/src/component/links.rs", "                    if !relation_ids.contains(direct_id) {\n                        stage.insert(direct_id.clone());\n                    }", "                    if relation_ids.contains(direct_id) {\n                        stage.insert(direct_id.clone());\n                    }", "C11", "m13"),
]
sel = set(sys.argv[1:])
for name, path, old, new, pid, only in MUT:
    if sel and name not in sel:
        continue
    import fcntl
    lk = open("/tmp/repo.lock", "w")
    fcntl.flock(lk, fcntl.LOCK_EX)
    p = os.path.join(R, path)
    s = open(p).read()
    if s.count(old) != 1:
        print(f"{name}: pattern occurs {s.count(old)} times -- skipped", flush=True)
        continue
    open(p, "w").write(s.replace(old, new))
    try:
        r = subprocess.run(["./check", pid, "--tier", "quick", "--only", only], cwd="/verif", capture_output=True, text=True, timeout=1800)
        lines = [l for l in r.stdout.split("\n") if l.startswith("VIOLATION") or l.startswith("INCONCLUSIVE")]
        print(f"{name}: exit={r.returncode} {lines[0][:200] if lines else ''}", flush=True)
    finally:
        subprocess.run(["git", "checkout", "--", path], cwd=R)
        fcntl.flock(lk, fcntl.LOCK_UN)
        lk.close()
