#!/usr/bin/env python3
"""Regenerate /verif/MANIFEST.json from the obligation modules (claimed) and NOT_APPLICABLE below."""
import importlib, json, os, sys
sys.path.insert(0, "/verif")
os.environ.setdefault("VERIF_NO_SOLVER", "1")

NOT_APPLICABLE = {
    "C01": "tip selection over block trees x arrival orders x thread interleavings runs in ChainService/OrphanBroker/verify_block on RocksDB (C++ behind FFI) across three threads; CBMC/Kani execute neither FFI nor concurrency, and the difficulty comparison is not separable from the DB transaction it sits in",
    "C02": "persisted state = replay of the main chain: attach/detach of blocks and cells are sequences of RocksDB column writes and snapshots under concurrency; there is no in-memory state a solver can quantify over",
    "C05": "chunked script execution is a property of the CKB-VM (RISC-V interpreter, third-party ckb-vm) over arbitrary programs x split points; far beyond bounded symbolic execution, and no pure kernel of /repo bears on the statement",
    "C08": "crash at any point of block import: process death and RocksDB WAL recovery are properties of the FFI library and the OS, not of code the solver can execute",
    "C10": "freezing is invisible to chain queries: Shared::freeze / wipe_out_frozen_data / ChainStore freezer branches are RocksDB iterators and batches plus a background thread; the file-level half is covered by C09",
    "C11": "pool bookkeeping lives in multi_index_map + HashMap/HashSet links keyed by hashes; measured: one HashSet insert with a symbolic key does not finish in 600 s under Kani, and the remaining arithmetic decides no clause of the statement",
    "C12": "pool vs reorg: same hash containers as C11 plus the asynchronous pool service and store snapshots",
    "C13": "block template validity needs the pool, the store, reward/DAO calculators over the store and the node's full verification: whole-program, RocksDB-backed",
    "C14": "caches never change an answer: a relational property between two whole-node runs; the caches are LruCache/HashMap (hashbrown) keyed by hashes, out of reach for symbolic keys",
    "C18": "indexer = filter of the chain: RocksDB-backed key/value rows and iterators (and an SQL back end for the rich indexer)",
}
ORDER = [f"C{i:02d}" for i in range(1, 21)]

def main():
    checks = []
    na = []
    engines = [
        {"name": "M (mir2smt)", "path": "mir2smt/", "serves_properties": [], "kind_free_text": "symbolic execution of rustc MIR of /repo crates into integer-theory SMT-LIB2, decided by cvc5 and z3 5.1"},
        {"name": "K (kani)", "path": "kani/", "serves_properties": [], "kind_free_text": "Kani proof harnesses (path dependencies on /repo crates) decided by CBMC/CaDiCaL with unwinding assertions"},
    ]
    for pid in ORDER:
        p = os.path.join("/verif/obligations", pid.lower() + ".py")
        if os.path.exists(p):
            m = importlib.import_module("obligations." + pid.lower())
            if getattr(m, "CLAIMED", True):
                checks.append({
                    "property_id": pid,
                    "quick_cmd": f"./check {pid} --tier quick",
                    "thorough_cmd": f"./check {pid} --tier thorough",
                    "evidence_file": f"evidence/{pid}.json",
                    "replay_cmd_template": f"./check {pid} --replay {{path}}",
                    "engine": m.ENGINE if hasattr(m, "ENGINE") else "M+K",
                    "level_claimed": {"category": getattr(m, "LEVEL", "other"), "text": m.LEVEL_TEXT, "design_ref": getattr(m, "DESIGN_REF", "DESIGN.md section 2")},
                    "level_note": m.LEVEL_NOTE,
                    "technique": m.TECHNIQUE,
                })
                if getattr(m, "OBLIGATIONS", None):
                    engines[0]["serves_properties"].append(pid)
                if getattr(m, "KANI", None):
                    engines[1]["serves_properties"].append(pid)
                continue
            na.append({"property_id": pid, "reason": m.NA_REASON})
            continue
        na.append({"property_id": pid, "reason": NOT_APPLICABLE.get(pid, "check not built yet; see DESIGN.md")})
    hooks = json.load(open("/verif/hooks.json")) if os.path.exists("/verif/hooks.json") else {}
    man = {
        "version": 1,
        "setup_cmd": "./setup.sh",
        "hooks": {
            "guard": "cfg(kani)",
            "enable": "set by kani-compiler only (cargo kani); ordinary cargo builds never see the hook code",
            "baseline_off_cmd": "cd /repo && cargo nextest run --workspace --no-fail-fast --offline --test-threads 8",
            "source_commits": hooks.get("source_commits", []),
            "add_only": True,
        },
        "engines": engines,
        "checks": checks,
        "notes": "Solver-based checking of the real code only. Exit codes of ./check: 0 all obligations discharged; 1 replayed violation (VIOLATION line); 2 inconclusive/broken (timeout, solver error, non-reproducing counterexample, vacuous harness). See DESIGN.md.",
        "not_applicable": na,
    }
    json.dump(man, open("/verif/MANIFEST.json", "w"), indent=1)
    print("claimed:", [c["property_id"] for c in checks])

main()
