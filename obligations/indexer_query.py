"""C18 query side (registered by c18.py as m4): `IndexerHandle::get_transactions` on two index rows under the searched prefix."""
import os
import re
from mir2smt.ob import *
from mir2smt import terms as T
from mir2smt.exec import StrV, OpaqueV, IntV, BoolV, AggV, EnumV, RefV, ListV, UNIT, Stop, mk_option, mk_result
from mir2smt import envlib as E
from mir2smt.builtins import deref
from mir2smt.srcinfo import field_index

JT = "util/jsonrpc-types/src/indexer.rs"


def _enum(rel, name):
    s = open(os.path.join(os.environ.get("VERIF_REPO", "/repo"), rel)).read()
    m = re.search(r"pub enum " + name + r"(?:<'a>)?\s*\{(.*?)\n\}", s, re.S)
    if not m:
        raise Inconclusive(f"enum {name} not found in {rel}")
    out = []
    for line in re.sub(r"#\[[^\]]*\]|///[^\n]*|//[^\n]*", "", m.group(1)).split("\n"):
        mm = re.match(r"\s*([A-Z]\w*)\s*(\(|,|=|\{|$)", line)
        if mm:
            out.append(mm.group(1))
    return out


def _enum_values(rel, name):
    """explicit discriminants of a C-like enum"""
    s = open(os.path.join(os.environ.get("VERIF_REPO", "/repo"), rel)).read()
    m = re.search(r"pub enum " + name + r"\s*\{(.*?)\n\}", s, re.S)
    if not m:
        raise Inconclusive(f"enum {name} not found in {rel}")
    out, cur = {}, -1
    for line in re.sub(r"#\[[^\]]*\]|///[^\n]*|//[^\n]*", "", m.group(1)).split("\n"):
        mm = re.match(r"\s*([A-Z]\w*)\s*(?:=\s*(\d+))?\s*,?\s*$", line)
        if mm:
            cur = int(mm.group(2)) if mm.group(2) else cur + 1
            out[mm.group(1)] = cur
    return out


def _struct(rel, name, vals, ty=None):
    ix = field_index(rel, name)
    missing = set(ix) - set(vals)
    if missing:
        raise Inconclusive(f"{name}: fields {sorted(missing)} not provided")
    return AggV(tuple(vals[k] for k, _ in sorted(ix.items(), key=lambda kv: kv[1])), ty or name)


def run_get_transactions(S, ob, search_type, grouped, exact, nrows=2, limit_value=None):
    """one scenario: the searched script type (Lock/Type), grouped or not, exact mode or prefix mode; `nrows` index rows follow the start key, each with symbolic membership in
    the searched prefix, symbolic coordinates and a symbolic answer of the filter lookup"""
    f = [x for x in S.prog.funcs if x.kind == "fn" and x.short == "get_transactions" and "indexer/src/service.rs" in x.name and "{closure" not in x.name]
    if len(f) != 1:
        raise Inconclusive(f"get_transactions: {len(f)} candidates")
    f = f[0]
    keyv = _enum("util/indexer/src/indexer.rs", "Key")
    stype = _enum(JT, "IndexerScriptType")
    smode = _enum(JT, "IndexerSearchMode")
    ctype = _enum(JT, "IndexerCellType")
    ictype = _enum("util/indexer/src/indexer.rs", "CellType")
    ctx = S.ctx(unwind=nrows + 3)
    ctx.uninterpreted_unknown_calls = True
    tag = f"{search_type}_{'grouped' if grouped else 'flat'}_{'exact' if exact else 'prefix'}"
    limit = ctx.int("limit", "u32") if limit_value is None else IntV(limit_value, "u32")
    r0, r1 = ctx.int("range_start", "u64"), ctx.int("range_end", "u64")
    has_range = ctx.bool("filter_has_block_range")
    inpre = [ctx.bool(f"row{k}_in_prefix") for k in range(nrows)]
    klen_ok = [ctx.bool(f"row{k}_key_has_exact_length") for k in range(nrows)]
    bn = [ctx.int(f"row{k}_block_number", "u64") for k in range(nrows)]
    txi = [ctx.int(f"row{k}_tx_index", "u32") for k in range(nrows)]
    ioi = [ctx.int(f"row{k}_io_index", "u32") for k in range(nrows)]
    iot = [ctx.int(f"row{k}_io_type_byte", "u8") for k in range(nrows)]
    frow = [ctx.bool(f"row{k}_filter_row_exists") for k in range(nrows)]
    same_tx = ctx.bool("rows_have_the_same_tx_hash")
    gets, qopts, prefixes = [], [], set()

    def rowno(ex, v):
        v = deref(ex, v)
        m = re.search(r"row(\d+)", getattr(v, "name", "") or "")
        if not m:
            raise Stop(f"not a row value: {str(v)[:80]}")
        return int(m.group(1))

    filt = _struct(JT, "IndexerSearchKeyFilter", {
        "script": mk_option(True, OpaqueV("filter_script_json", "Script"), "Option<Script>"), "script_len_range": mk_option(False, None, "Option<IndexerRange>"),
        "output_data": mk_option(False, None, "Option<JsonBytes>"), "output_data_filter_mode": mk_option(False, None, "Option<IndexerSearchMode>"),
        "output_data_len_range": mk_option(False, None, "Option<IndexerRange>"), "output_capacity_range": mk_option(False, None, "Option<IndexerRange>"),
        "block_range": mk_option(has_range.t, OpaqueV("block_range_json", "IndexerRange"), "Option<IndexerRange>")})
    sk = _struct(JT, "IndexerSearchKey", {
        "script": OpaqueV("search_script_json", "Script"), "script_type": EnumV(stype.index(search_type), (), "IndexerScriptType"),
        "script_search_mode": mk_option(True, EnumV(smode.index("Exact" if exact else "Prefix"), (), "IndexerSearchMode"), "Option<IndexerSearchMode>"),
        "filter": mk_option(True, filt, "Option<IndexerSearchKeyFilter>"), "with_data": mk_option(False, None, "Option<bool>"),
        "group_by_transaction": mk_option(True, BoolV(grouped), "Option<bool>")})
    handle = _struct("util/indexer/src/service.rs", "IndexerHandle", {"store": OpaqueV("store", "RocksdbStore"), "pool": mk_option(False, None, "Option<Arc>"),
                                                                       "request_limit": ctx.int("request_limit", "usize"), "timeout_limit": OpaqueV("timeout", "Duration")})
    rows = [AggV((OpaqueV(f"row{k}_key", "Box<[u8]>"), OpaqueV(f"row{k}_value", "Box<[u8]>")), "(Box<[u8]>, Box<[u8]>)") for k in range(nrows)]

    def key_len(ex, v):
        k = rowno(ex, v)
        return T.add(ctx.int("prefix_len", "usize").t, T.ite(klen_ok[k].t, 17, 18))       # a longer key: a script with more args under the same prefix

    def index_range(ex, c_, a, d):
        k = rowno(ex, a[0])
        rng = deref(ex, a[1])
        lo, hi = rng.fields[0].t, rng.fields[1].t
        # both bounds are `key.len() - constant` of the same length term
        if not (isinstance(lo, tuple) and isinstance(hi, tuple) and lo[0] == "-" and hi[0] == "-" and lo[2] == hi[2] and ("row%d_key" % k) in str(lo[2])):
            raise Stop(f"unexpected key slice [{lo}..{hi}]")
        for name, (x, y) in {"block_number": (17, 9), "tx_index": (9, 5), "io_index": (5, 1)}.items():
            if lo[3] == x and hi[3] == y:
                return ex.ctx.ref_to(OpaqueV(f"row{k}_bytes_of_{name}", "[u8]"))
        raise Stop(f"unexpected key slice [{lo}..{hi}]")

    def from_be(ex, c_, a, d):
        v = deref(ex, a[0])
        m = re.fullmatch(r"row(\d+)_bytes_of_(\w+)", getattr(v, "name", "") or "")
        if not m:
            raise Stop(f"from_be_bytes of {str(v)[:60]}")
        return {"block_number": bn, "tx_index": txi, "io_index": ioi}[m.group(2)][int(m.group(1))]

    def key_fields(ex, v):
        v = deref(ex, v)
        if not (isinstance(v, EnumV) and isinstance(v.disc, int)):
            raise Stop(f"key is not a concrete Key variant: {str(v)[:80]}")
        out = [keyv[v.disc]]
        for x in v.payload(v.disc):
            x = deref(ex, x) if isinstance(x, RefV) else x
            if isinstance(x, IntV):
                out.append(x.t)
            elif isinstance(x, EnumV):
                out.append(("celltype", x.disc))
            else:
                out.append(getattr(x, "name", str(x)[:40]))
        return tuple(out)

    def into_vec(ex, c_, a, d):
        kf = key_fields(ex, a[0])
        h = OpaqueV("keybytes#" + str(len(gets)) + "#" + str(len(ex.pc)), "Vec<u8>")
        ex.log.append(("c18", "key", [h.name, kf], list(ex.pc)))
        return h

    def get(ex, c_, a, d):
        h = deref(ex, a[1]) if isinstance(a[1], RefV) else a[1]
        kf = next((e[2][1] for e in reversed(ex.log) if e[0] == "c18" and e[1] == "key" and e[2][0] == getattr(h, "name", None)), None)
        if kf is None:
            raise Stop(f"get of an unknown key {str(h)[:60]}")
        # which row is being processed: the one whose coordinates are in the key
        k = next((j for j in range(nrows) if bn[j].t in kf), None)
        gets.append((k, kf, list(ex.pc)))
        ex.log.append(("c18", "get", [k], list(ex.pc)))
        if k is None:
            raise Stop(f"lookup with coordinates of no row: {kf}")
        return mk_result(True, mk_option(frow[k].t, OpaqueV("dbvector", "DBVector"), "Option<DBVector>"), OpaqueV("dberr", "Error"), d)

    def starts_with(ex, c_, a, d):
        prefixes.add(getattr(deref(ex, a[1]), "name", str(deref(ex, a[1]))[:40]))
        return BoolV(inpre[rowno(ex, a[0])].t)

    def last_byte(ex, c_, a, d):
        return mk_option(True, ex.ctx.ref_to(iot[rowno(ex, a[0])]), d)

    def tx_hash_of(ex, c_, a, d):
        k = rowno(ex, a[0])
        return mk_result(True, OpaqueV(f"row{k}_tx_hash", "Byte32"), OpaqueV("verr", "VerificationError"), d)

    def h256_ne(ex, c_, a, d):
        x, y = deref(ex, a[0]), deref(ex, a[1])
        nx, ny = getattr(x, "name", "?"), getattr(y, "name", "?")
        if nx == ny:
            return BoolV(False)
        return BoolV(T.not_(same_tx.t))

    def h256_eq(ex, c_, a, d):
        x, y = deref(ex, a[0]), deref(ex, a[1])
        nx, ny = getattr(x, "name", "?"), getattr(y, "name", "?")
        if nx == ny:
            return BoolV(True)
        return BoolV(same_tx.t)
    def last_mut(ex, c_, a, d):
        """`&mut` to the last element of the entries collected so far (aliasing the vector, so that `last.cells.push(..)` lands in it)"""
        r = a[0]
        lst = deref(ex, r)
        if not (isinstance(r, RefV) and isinstance(lst, ListV)):
            raise Stop(f"last_mut of {str(lst)[:60]}")
        if not lst.items:
            return mk_option(False, None, d)
        return mk_option(True, RefV(r.frame, r.local, r.proj + (("cindex", len(lst.items) - 1),), "&mut IndexerTxWithCells"), d)

    def vec_macro(ex, c_, a, d):
        """`vec![x]`: the boxed array written through the raw pointer is read back as the vector's items"""
        b = a[0]
        for _ in range(6):
            if isinstance(b, AggV) and b.fields:
                b = b.fields[0]
        v = deref(ex, b) if isinstance(b, RefV) else b
        if isinstance(v, AggV):
            return ListV(tuple(v.fields), d)
        if isinstance(v, ListV):
            return v
        raise Stop(f"vec! of {str(v)[:60]}")
    passthru = lambda ex, c_, a, d: (lambda v: OpaqueV(v.name, d) if isinstance(v, OpaqueV) else a[0])(deref(ex, a[0]) if isinstance(a[0], RefV) else a[0])
    ctx.env = list(E.LOGGING_OFF) + [
        (E.rx(r"JsonUint::<u32>::value$"), lambda ex, c_, a, d: limit),
        (E.rx(r"Error::invalid_params::<"), lambda ex, c_, a, d: OpaqueV("invalid_params", d)),
        (E.rx(r"^build_query_options$"), lambda ex, c_, a, d: (qopts.append((getattr(a[1], "disc", str(a[1])), getattr(a[2], "disc", str(a[2])))), 0)[1] or mk_result(True, AggV((OpaqueV("prefix", "Vec<u8>"), OpaqueV("from_key", "Vec<u8>"), OpaqueV("direction", "Direction"), ctx.int("skip", "usize")), "(Vec<u8>, Vec<u8>, Direction, usize)"), OpaqueV("qerr", "Error"), d)),
        (E.rx(r"<(ckb_jsonrpc_types::)?Script as Clone>::clone$"), passthru),
        (E.rx(r"<(ckb_jsonrpc_types::)?Script as Into<(ckb_types::)?packed::Script>>::into$"), lambda ex, c_, a, d: OpaqueV("packed(" + getattr(deref(ex, a[0]) if isinstance(a[0], RefV) else a[0], "name", "?") + ")", d)),
        (E.rx(r"IndexerRange::start$"), lambda ex, c_, a, d: OpaqueV("range_start_json", d)),
        (E.rx(r"IndexerRange::end$"), lambda ex, c_, a, d: OpaqueV("range_end_json", d)),
        (E.rx(r"JsonUint<u64> as Into<u64>>::into$|<u64 as From<.*JsonUint<u64>>>::from$"), lambda ex, c_, a, d: r0 if "start" in getattr(a[0], "name", "") else r1),
        (E.rx(r"RocksdbStore::inner$"), lambda ex, c_, a, d: ex.ctx.ref_to(OpaqueV("db", "DB"))),
        (E.rx(r"DB::snapshot$"), lambda ex, c_, a, d: OpaqueV("snapshot", d)),
        (E.rx(r"Snapshot<'_> as .*Iterate>::iterator::<"), lambda ex, c_, a, d: E._owned(rows)),
        (E.rx(r"<DBIterator<'_> as Iterator>::skip$"), lambda ex, c_, a, d: a[0]),
        (E.rx(r"TimeoutIterator::<.*>::new$"), lambda ex, c_, a, d: a[0]),
        (E.rx(r"TimeoutIterator::<.*>::is_timed_out$"), E.const_bool(False)),
        (E.rx(r"TimeoutIterator<.*> as Iterator>::by_ref$"), lambda ex, c_, a, d: a[0]),
        (E.rx(r"<Vec<u8> as AsRef<\[u8\]>>::as_ref$|<Box<\[u8\]> as Deref>::deref$"), lambda ex, c_, a, d: a[0]),
        (E.rx(r"slice::<impl \[u8\]>::starts_with$"), starts_with),
        (E.rx(r"slice::<impl \[u8\]>::last$"), last_byte),
        (E.rx(r"slice::<impl \[u8\]>::to_vec$"), lambda ex, c_, a, d: OpaqueV("copy_of_row%d_key" % rowno(ex, a[0]), d)),
        (E.rx(r"<\[u8\] as Index<(std::ops::)?Range<usize>>>::index$"), index_range),
        (E.rx(r"<&\[u8\] as TryInto<\[u8; \d\]>>::try_into$"), lambda ex, c_, a, d: mk_result(True, OpaqueV(getattr(deref(ex, a[0]), "name", "?"), "[u8; N]"), OpaqueV("tryerr", "TryFromSliceError"), d)),
        (E.rx(r"core::num::<impl u(32|64)>::from_be_bytes$"), from_be),
        (E.rx(r"Byte32 as (ckb_types::prelude::)?Entity>::from_slice$"), tx_hash_of),
        (E.rx(r"<(ckb_types::packed::)?Byte32 as Into<H256>>::into$"), passthru),
        (E.rx(r"<H256 as PartialEq>::ne$"), h256_ne),
        (E.rx(r"<H256 as PartialEq>::eq$"), h256_eq),
        (E.rx(r"Key::<'_>::into_vec$"), into_vec),
        (E.rx(r"Snapshot<'_> as .*Get<.*>>::get::<"), get),
        (E.rx(r"JsonBytes::from_vec$"), passthru),
        (E.rx(r"<u(32|64) as Into<.*JsonUint<u(32|64)>>>::into$"), lambda ex, c_, a, d: a[0]),
        (E.rx(r"IndexerPagination::<.*>::new$"), lambda ex, c_, a, d: AggV((a[0], a[1]), "IndexerPagination")),
        (E.rx(r"^format$|must_use::<"), E.opaque_call()),
        (E.rx(r"slice::<impl \[IndexerTxWithCells\]>::last_mut$"), last_mut),
        (E.rx(r"^(IndexerTx::)?Grouped$"), lambda ex, c_, a, d: AggV((a[0],), "Grouped")),
        (E.rx(r"^slice::<impl \[.*\]>::into_vec::<"), vec_macro),
    ] + list(E.LIST_ADAPTORS)
    orig_len = {}
    ps = S.run(ctx, f, [ctx.ref_to(handle), sk, EnumV(0, (), "IndexerOrder"), OpaqueV("limit_json", "JsonUint<u32>"), mk_option(False, None, "Option<JsonBytes>")])
    return dict(ctx=ctx, ps=ps, gets=gets, qopts=qopts, prefixes=prefixes, tag=tag, keyv=keyv, ctype=ctype, ictype=ictype, inpre=inpre, klen_ok=klen_ok, bn=bn, txi=txi, ioi=ioi, iot=iot, frow=frow, same_tx=same_tx,
                limit=limit, r0=r0, r1=r1, has_range=has_range, nrows=nrows)


def _sym(ctx, rx):
    c = [n for n in ctx.decls if re.fullmatch(rx, n)]
    if len(c) != 1:
        raise Inconclusive(f"symbol {rx}: {c}")
    return T.var(c[0], T.INT)


def _included(R, ctx, exact):
    """per row: the condition under which the row belongs to the answer (the specification, written from the documentation of the RPC)"""
    inc = []
    for k in range(R["nrows"]):
        c = [R["inpre"][j].t for j in range(k + 1)]                      # the scan stops at the first key outside the searched prefix
        if exact:
            c.append(T.eq(_sym(ctx, r"len\.row%d_key[\w.]*" % k), T.add(_sym(ctx, r"uf\.len_prefix_\w*"), 17)))     # exact mode: the key holds exactly the script + 17 bytes of coordinates
        c.append(R["frow"][k].t)                                          # the cell also carries the filter script (row of the other script kind under the same coordinates)
        c.append(T.implies(R["has_range"].t, T.and_(T.le(R["r0"].t, R["bn"][k].t), T.lt(R["bn"][k].t, R["r1"].t))))
        inc.append(T.and_(*c))
    return inc


def _row_of(term, R):
    for k in range(R["nrows"]):
        if term == R["bn"][k].t:
            return k
    return None


def _grouped_answer(S, ctx, ob, tag, R, ps, pre, limit_value, exact=True):
    """grouped answers (limit = number of rows): consecutive answered rows with the same transaction hash form one entry with the coordinates of its first row and one
    (cell type, index) pair per row, in scan order"""
    GX = field_index(JT, "IndexerTxWithCells")
    inc = _included(R, ctx, exact)
    goals, shape = [], True
    for p_ in returns(ps):
        v = p_.value
        if not (isinstance(v, EnumV) and isinstance(v.disc, int)):
            shape = False
            continue
        if v.disc == 1:
            continue
        pag = v.payload(0)[0]
        lst = pag.fields[0] if isinstance(pag, AggV) else None
        if not isinstance(lst, ListV):
            shape = False
            continue
        groups = []
        for it in lst.items:
            g = it.fields[0] if isinstance(it, AggV) and it.ty == "Grouped" else None
            if not isinstance(g, AggV):
                shape = False
                continue
            k = _row_of(g.fields[GX["block_number"]].t, R)
            cells = g.fields[GX["cells"]]
            if k is None or g.fields[GX["tx_index"]].t != R["txi"][k].t or getattr(g.fields[GX["tx_hash"]], "name", None) != f"row{k}_tx_hash" or not isinstance(cells, ListV):
                shape = False
                continue
            rows = []
            for c_ in cells.items:
                io, idx = c_.fields
                kk = next((j for j in range(R["nrows"]) if idx.t == R["ioi"][j].t), None)
                if kk is None:
                    shape = False
                    continue
                rows.append(kk)
                goals.append(T.implies(p_.cond(), T.iff(T.eq(R["iot"][kk].t, 0), bool(isinstance(io, EnumV) and io.disc == R["ctype"].index("Input")))))
            groups.append((k, rows))
        # expectation for two rows
        both = T.and_(inc[0], inc[1])
        exp = {
            "none": T.and_(T.not_(inc[0]), T.not_(inc[1])), "only0": T.and_(inc[0], T.not_(inc[1])), "only1": T.and_(T.not_(inc[0]), inc[1]),
            "joined": T.and_(both, R["same_tx"].t), "separate": T.and_(both, T.not_(R["same_tx"].t))}
        if limit_value == 1:          # at most one transaction: a second answered row is reported only when it belongs to the same transaction
            exp["only0"] = T.and_(inc[0], T.or_(T.not_(inc[1]), T.not_(R["same_tx"].t)))
            exp["separate"] = False
        shape_of = {"none": [], "only0": [(0, [0])], "only1": [(1, [1])], "joined": [(0, [0, 1])], "separate": [(0, [0]), (1, [1])]}
        mine = [n for n, sh in shape_of.items() if sh == groups]
        goals.append(T.implies(p_.cond(), exp[mine[0]]) if mine else T.not_(p_.cond()))
    S.prove(ctx, ob, f"{tag}_every_answer_entry_carries_the_coordinates_and_hash_of_one_row", [], bool(shape))
    S.prove(ctx, ob, f"{tag}_the_answer_groups_exactly_the_answered_rows_by_transaction_in_scan_order", pre, T.and_(*goals) if goals else False)
    S.witness(ctx, ob, f"{tag}_reach_one_entry_with_two_cells", pre, T.and_(inc[0], inc[1], R["same_tx"].t))


def m4_get_transactions(S):
    ob = "C18.m4"
    JTX = field_index(JT, "IndexerTxWithCell")
    for search_type in ("Lock", "Type"):
        for grouped in (False, True):
            for limit_value, exact in ((2, True), (1, True), (2, False)):
                R = run_get_transactions(S, ob, search_type, grouped, exact=exact, limit_value=limit_value)
                ctx, ps = R["ctx"], R["ps"]
                tag = R["tag"] + f"_limit{limit_value}"
                if exact:
                    pre = [T.ge(ctx.int("request_limit", "usize").t, limit_value), T.le(_sym(ctx, r"uf\.len_prefix_\w*"), 1 << 20), T.ge(_sym(ctx, r"uf\.len_prefix_\w*"), 0)]
                else:       # storage invariant: every key of the transaction index ends with 17 bytes of coordinates
                    pre = [T.ge(ctx.int("request_limit", "usize").t, limit_value)] + [T.ge(_sym(ctx, r"len\.row%d_key[\w.]*" % k), 17) for k in range(R["nrows"])]
                S.prove(ctx, ob, f"{tag}_no_panic", pre, T.not_(cond_of(panics(ps))))
                kp = _enum_values("util/indexer/src/indexer.rs", "KeyPrefix")
                S.prove(ctx, ob, f"{tag}_the_scan_runs_over_the_transaction_index_of_the_searched_script_kind", [], bool(R["qopts"] and all(q == (kp["TxLockScript"], kp["TxTypeScript"]) for q in R["qopts"]) and bool(R["prefixes"]) and all(re.fullmatch(r"(uf\.deref_)?prefix[_.]*", x) for x in R["prefixes"])),
                        extra={"note": str((R["qopts"][:2], sorted(R["prefixes"])))})
                want_variant = "TxTypeScript" if search_type == "Lock" else "TxLockScript"
                good = bool(R["gets"])
                goals = []
                for k, kf, pc in R["gets"]:
                    if k is None or kf[0] != want_variant or kf[1] != "packed(filter_script_json)" or kf[2] != R["bn"][k].t or kf[3] != R["txi"][k].t or kf[4] != R["ioi"][k].t or not (isinstance(kf[5], tuple) and kf[5][0] == "celltype"):
                        good = False
                        continue
                    goals.append(T.implies(T.and_(*pc), T.iff(T.eq(R["iot"][k].t, 0), bool(kf[5][1] == R["ictype"].index("Input")))))
                S.prove(ctx, ob, f"{tag}_the_filter_lookup_reads_the_row_of_the_other_script_kind_under_the_coordinates_of_the_row_at_hand", [], good, extra={"note": str([(k, kf) for k, kf, _ in R["gets"]][:3])})
                S.prove(ctx, ob, f"{tag}_the_filter_lookup_uses_the_cell_type_of_the_row_at_hand", pre, T.and_(*goals) if goals else False)
                if grouped:
                    _grouped_answer(S, ctx, ob, tag, R, ps, pre, limit_value, exact)
                    continue
                inc = _included(R, ctx, exact)
                goals, shape = [], True
                for p_ in returns(ps):
                    v = p_.value
                    if not (isinstance(v, EnumV) and isinstance(v.disc, int)):
                        shape = False
                        continue
                    if v.disc == 1:
                        continue                    # parameter errors (partial mode etc.)
                    pag = v.payload(0)[0]
                    lst = pag.fields[0] if isinstance(pag, AggV) else None
                    if not isinstance(lst, ListV):
                        shape = False
                        continue
                    got = []
                    for it in lst.items:
                        cell = it.payload(it.disc)[0] if isinstance(it, EnumV) and isinstance(it.disc, int) else None
                        k = _row_of(cell.fields[JTX["block_number"]].t, R) if isinstance(cell, AggV) else None
                        if k is None or cell.fields[JTX["tx_index"]].t != R["txi"][k].t or cell.fields[JTX["io_index"]].t != R["ioi"][k].t or getattr(cell.fields[JTX["tx_hash"]], "name", None) != f"row{k}_tx_hash":
                            shape = False
                            continue
                        got.append(k)
                        io = cell.fields[JTX["io_type"]]
                        goals.append(T.implies(p_.cond(), T.iff(T.eq(R["iot"][k].t, 0), bool(isinstance(io, EnumV) and io.disc == R["ctype"].index("Input")))))
                    # the answer is, in scan order, the first `limit` rows that belong to it
                    exp_first = [inc[k] for k in range(R["nrows"])]
                    if limit_value >= R["nrows"]:
                        goals.append(T.implies(p_.cond(), T.and_(*[T.iff(exp_first[k], bool(k in got)) for k in range(R["nrows"])])))
                    else:
                        first = T.ite(inc[0], 0, T.ite(inc[1], 1, -1))
                        goals.append(T.implies(p_.cond(), T.eq(first, got[0] if got else -1)))
                    goals.append(T.implies(p_.cond(), bool(got == sorted(got) and len(got) <= limit_value)))
                S.prove(ctx, ob, f"{tag}_every_answer_item_carries_the_coordinates_and_hash_of_one_row", [], bool(shape))
                S.prove(ctx, ob, f"{tag}_the_answer_is_exactly_the_rows_under_the_prefix_that_pass_the_filters_in_scan_order", pre, T.and_(*goals) if goals else False)
                S.witness(ctx, ob, f"{tag}_reach_two_rows_answered" if limit_value >= 2 else f"{tag}_reach_second_row_answered", pre, T.and_(inc[1], inc[0]) if limit_value >= 2 else T.and_(inc[1], T.not_(inc[0])))
