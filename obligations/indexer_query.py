"""C18 query side (registered by c18.py as m4): `IndexerHandle::get_transactions` on two index rows under the searched prefix."""
import os
import re
from mir2smt.ob import *
from mir2smt import terms as T
from mir2smt.exec import StrV, OpaqueV, IntV, BoolV, AggV, EnumV, RefV, ListV, UNIT, Stop, mk_option, mk_result
from mir2smt import envlib as E
from mir2smt.builtins import deref
from mir2smt.srcinfo import field_index

JT = "util/jsonrpc-types/src/indexer.rs"


def _enum(rel, name):
    s = open(os.path.join(os.environ.get("VERIF_REPO", "/repo"), rel)).read()
    m = re.search(r"pub enum " + name + r"(?:<'a>)?\s*\{(.*?)\n\}", s, re.S)
    if not m:
        raise Inconclusive(f"enum {name} not found in {rel}")
    out = []
    for line in re.sub(r"#\[[^\]]*\]|///[^\n]*|//[^\n]*", "", m.group(1)).split("\n"):
        mm = re.match(r"\s*([A-Z]\w*)\s*(\(|,|=|\{|$)", line)
        if mm:
            out.append(mm.group(1))
    return out


def _enum_values(rel, name):
    """explicit discriminants of a C-like enum"""
    s = open(os.path.join(os.environ.get("VERIF_REPO", "/repo"), rel)).read()
    m = re.search(r"pub enum " + name + r"\s*\{(.*?)\n\}", s, re.S)
    if not m:
        raise Inconclusive(f"enum {name} not found in {rel}")
    out, cur = {}, -1
    for line in re.sub(r"#\[[^\]]*\]|///[^\n]*|//[^\n]*", "", m.group(1)).split("\n"):
        mm = re.match(r"\s*([A-Z]\w*)\s*(?:=\s*(\d+))?\s*,?\s*$", line)
        if mm:
            cur = int(mm.group(2)) if mm.group(2) else cur + 1
            out[mm.group(1)] = cur
    return out


def _struct(rel, name, vals, ty=None):
    ix = field_index(rel, name)
    missing = set(ix) - set(vals)
    if missing:
        raise Inconclusive(f"{name}: fields {sorted(missing)} not provided")
    return AggV(tuple(vals[k] for k, _ in sorted(ix.items(), key=lambda kv: kv[1])), ty or name)


def run_get_transactions(S, ob, search_type, grouped, exact, nrows=2, limit_value=None, script_filter=True):
    """one scenario: the searched script type (Lock/Type), grouped or not, exact mode or prefix mode; `nrows` index rows follow the start key, each with symbolic membership in
    the searched prefix, symbolic coordinates and a symbolic answer of the filter lookup"""
    f = [x for x in S.prog.funcs if x.kind == "fn" and x.short == "get_transactions" and "indexer/src/service.rs" in x.name and "{closure" not in x.name]
    if len(f) != 1:
        raise Inconclusive(f"get_transactions: {len(f)} candidates")
    f = f[0]
    keyv = _enum("util/indexer/src/indexer.rs", "Key")
    stype = _enum(JT, "IndexerScriptType")
    smode = _enum(JT, "IndexerSearchMode")
    ctype = _enum(JT, "IndexerCellType")
    ictype = _enum("util/indexer/src/indexer.rs", "CellType")
    ctx = S.ctx(unwind=nrows + 3)
    ctx.uninterpreted_unknown_calls = True
    tag = f"{search_type}_{'grouped' if grouped else 'flat'}_{'exact' if exact else 'prefix'}"
    limit = ctx.int("limit", "u32") if limit_value is None else IntV(limit_value, "u32")
    r0, r1 = ctx.int("range_start", "u64"), ctx.int("range_end", "u64")
    has_range = ctx.bool("filter_has_block_range")
    inpre = [ctx.bool(f"row{k}_in_prefix") for k in range(nrows)]
    klen_ok = [ctx.bool(f"row{k}_key_has_exact_length") for k in range(nrows)]
    bn = [ctx.int(f"row{k}_block_number", "u64") for k in range(nrows)]
    txi = [ctx.int(f"row{k}_tx_index", "u32") for k in range(nrows)]
    ioi = [ctx.int(f"row{k}_io_index", "u32") for k in range(nrows)]
    iot = [ctx.int(f"row{k}_io_type_byte", "u8") for k in range(nrows)]
    frow = [ctx.bool(f"row{k}_filter_row_exists") for k in range(nrows)]
    same_tx = ctx.bool("rows_have_the_same_tx_hash")
    gets, qopts, prefixes = [], [], set()

    def rowno(ex, v):
        v = deref(ex, v)
        m = re.search(r"row(\d+)", getattr(v, "name", "") or "")
        if not m:
            raise Stop(f"not a row value: {str(v)[:80]}")
        return int(m.group(1))

    filt = _struct(JT, "IndexerSearchKeyFilter", {
        "script": mk_option(True, OpaqueV("filter_script_json", "Script"), "Option<Script>") if script_filter else mk_option(False, None, "Option<Script>"), "script_len_range": mk_option(False, None, "Option<IndexerRange>"),
        "output_data": mk_option(False, None, "Option<JsonBytes>"), "output_data_filter_mode": mk_option(False, None, "Option<IndexerSearchMode>"),
        "output_data_len_range": mk_option(False, None, "Option<IndexerRange>"), "output_capacity_range": mk_option(False, None, "Option<IndexerRange>"),
        "block_range": mk_option(has_range.t, OpaqueV("block_range_json", "IndexerRange"), "Option<IndexerRange>")})
    sk = _struct(JT, "IndexerSearchKey", {
        "script": OpaqueV("search_script_json", "Script"), "script_type": EnumV(stype.index(search_type), (), "IndexerScriptType"),
        "script_search_mode": mk_option(True, EnumV(smode.index("Exact" if exact else "Prefix"), (), "IndexerSearchMode"), "Option<IndexerSearchMode>"),
        "filter": mk_option(True, filt, "Option<IndexerSearchKeyFilter>"), "with_data": mk_option(False, None, "Option<bool>"),
        "group_by_transaction": mk_option(True, BoolV(grouped), "Option<bool>")})
    handle = _struct("util/indexer/src/service.rs", "IndexerHandle", {"store": OpaqueV("store", "RocksdbStore"), "pool": mk_option(False, None, "Option<Arc>"),
                                                                       "request_limit": ctx.int("request_limit", "usize"), "timeout_limit": OpaqueV("timeout", "Duration")})
    rows = [AggV((OpaqueV(f"row{k}_key", "Box<[u8]>"), OpaqueV(f"row{k}_value", "Box<[u8]>")), "(Box<[u8]>, Box<[u8]>)") for k in range(nrows)]

    def key_len(ex, v):
        k = rowno(ex, v)
        return T.add(ctx.int("prefix_len", "usize").t, T.ite(klen_ok[k].t, 17, 18))       # a longer key: a script with more args under the same prefix

    def index_range(ex, c_, a, d):
        k = rowno(ex, a[0])
        rng = deref(ex, a[1])
        lo, hi = rng.fields[0].t, rng.fields[1].t
        # both bounds are `key.len() - constant` of the same length term
        if not (isinstance(lo, tuple) and isinstance(hi, tuple) and lo[0] == "-" and hi[0] == "-" and lo[2] == hi[2] and ("row%d_key" % k) in str(lo[2])):
            raise Stop(f"unexpected key slice [{lo}..{hi}]")
        for name, (x, y) in {"block_number": (17, 9), "tx_index": (9, 5), "io_index": (5, 1)}.items():
            if lo[3] == x and hi[3] == y:
                return ex.ctx.ref_to(OpaqueV(f"row{k}_bytes_of_{name}", "[u8]"))
        raise Stop(f"unexpected key slice [{lo}..{hi}]")

    def from_be(ex, c_, a, d):
        v = deref(ex, a[0])
        m = re.fullmatch(r"row(\d+)_bytes_of_(\w+)", getattr(v, "name", "") or "")
        if not m:
            raise Stop(f"from_be_bytes of {str(v)[:60]}")
        return {"block_number": bn, "tx_index": txi, "io_index": ioi}[m.group(2)][int(m.group(1))]

    def key_fields(ex, v):
        v = deref(ex, v)
        if not (isinstance(v, EnumV) and isinstance(v.disc, int)):
            raise Stop(f"key is not a concrete Key variant: {str(v)[:80]}")
        out = [keyv[v.disc]]
        for x in v.payload(v.disc):
            x = deref(ex, x) if isinstance(x, RefV) else x
            if isinstance(x, IntV):
                out.append(x.t)
            elif isinstance(x, EnumV):
                out.append(("celltype", x.disc))
            else:
                out.append(getattr(x, "name", str(x)[:40]))
        return tuple(out)

    def into_vec(ex, c_, a, d):
        kf = key_fields(ex, a[0])
        h = OpaqueV("keybytes#" + str(len(gets)) + "#" + str(len(ex.pc)), "Vec<u8>")
        ex.log.append(("c18", "key", [h.name, kf], list(ex.pc)))
        return h

    def get(ex, c_, a, d):
        h = deref(ex, a[1]) if isinstance(a[1], RefV) else a[1]
        kf = next((e[2][1] for e in reversed(ex.log) if e[0] == "c18" and e[1] == "key" and e[2][0] == getattr(h, "name", None)), None)
        if kf is None:
            raise Stop(f"get of an unknown key {str(h)[:60]}")
        # which row is being processed: the one whose coordinates are in the key
        k = next((j for j in range(nrows) if bn[j].t in kf), None)
        gets.append((k, kf, list(ex.pc)))
        ex.log.append(("c18", "get", [k], list(ex.pc)))
        if k is None:
            raise Stop(f"lookup with coordinates of no row: {kf}")
        return mk_result(True, mk_option(frow[k].t, OpaqueV("dbvector", "DBVector"), "Option<DBVector>"), OpaqueV("dberr", "Error"), d)

    def starts_with(ex, c_, a, d):
        prefixes.add(getattr(deref(ex, a[1]), "name", str(deref(ex, a[1]))[:40]))
        return BoolV(inpre[rowno(ex, a[0])].t)

    def last_byte(ex, c_, a, d):
        return mk_option(True, ex.ctx.ref_to(iot[rowno(ex, a[0])]), d)

    def tx_hash_of(ex, c_, a, d):
        k = rowno(ex, a[0])
        return mk_result(True, OpaqueV(f"row{k}_tx_hash", "Byte32"), OpaqueV("verr", "VerificationError"), d)

    def h256_ne(ex, c_, a, d):
        x, y = deref(ex, a[0]), deref(ex, a[1])
        nx, ny = getattr(x, "name", "?"), getattr(y, "name", "?")
        if nx == ny:
            return BoolV(False)
        return BoolV(T.not_(same_tx.t))

    def h256_eq(ex, c_, a, d):
        x, y = deref(ex, a[0]), deref(ex, a[1])
        nx, ny = getattr(x, "name", "?"), getattr(y, "name", "?")
        if nx == ny:
            return BoolV(True)
        return BoolV(same_tx.t)
    def last_mut(ex, c_, a, d):
        """`&mut` to the last element of the entries collected so far (aliasing the vector, so that `last.cells.push(..)` lands in it)"""
        r = a[0]
        lst = deref(ex, r)
        if not (isinstance(r, RefV) and isinstance(lst, ListV)):
            raise Stop(f"last_mut of {str(lst)[:60]}")
        if not lst.items:
            return mk_option(False, None, d)
        return mk_option(True, RefV(r.frame, r.local, r.proj + (("cindex", len(lst.items) - 1),), "&mut IndexerTxWithCells"), d)

    def vec_macro(ex, c_, a, d):
        """`vec![x]`: the boxed array written through the raw pointer is read back as the vector's items"""
        b = a[0]
        for _ in range(6):
            if isinstance(b, AggV) and b.fields:
                b = b.fields[0]
        v = deref(ex, b) if isinstance(b, RefV) else b
        if isinstance(v, AggV):
            return ListV(tuple(v.fields), d)
        if isinstance(v, ListV):
            return v
        raise Stop(f"vec! of {str(v)[:60]}")
    passthru = lambda ex, c_, a, d: (lambda v: OpaqueV(v.name, d) if isinstance(v, OpaqueV) else a[0])(deref(ex, a[0]) if isinstance(a[0], RefV) else a[0])
    ctx.env = list(E.LOGGING_OFF) + [
        (E.rx(r"JsonUint::<u32>::value$"), lambda ex, c_, a, d: limit),
        (E.rx(r"Error::invalid_params::<"), lambda ex, c_, a, d: OpaqueV("invalid_params", d)),
        (E.rx(r"^build_query_options$"), lambda ex, c_, a, d: (qopts.append((getattr(a[1], "disc", str(a[1])), getattr(a[2], "disc", str(a[2])))), 0)[1] or mk_result(True, AggV((OpaqueV("prefix", "Vec<u8>"), OpaqueV("from_key", "Vec<u8>"), OpaqueV("direction", "Direction"), ctx.int("skip", "usize")), "(Vec<u8>, Vec<u8>, Direction, usize)"), OpaqueV("qerr", "Error"), d)),
        (E.rx(r"<(ckb_jsonrpc_types::)?Script as Clone>::clone$"), passthru),
        (E.rx(r"<(ckb_jsonrpc_types::)?Script as Into<(ckb_types::)?packed::Script>>::into$"), lambda ex, c_, a, d: OpaqueV("packed(" + getattr(deref(ex, a[0]) if isinstance(a[0], RefV) else a[0], "name", "?") + ")", d)),
        (E.rx(r"IndexerRange::start$"), lambda ex, c_, a, d: OpaqueV("range_start_json", d)),
        (E.rx(r"IndexerRange::end$"), lambda ex, c_, a, d: OpaqueV("range_end_json", d)),
        (E.rx(r"JsonUint<u64> as Into<u64>>::into$|<u64 as From<.*JsonUint<u64>>>::from$"), lambda ex, c_, a, d: r0 if "start" in getattr(a[0], "name", "") else r1),
        (E.rx(r"RocksdbStore::inner$"), lambda ex, c_, a, d: ex.ctx.ref_to(OpaqueV("db", "DB"))),
        (E.rx(r"DB::snapshot$"), lambda ex, c_, a, d: OpaqueV("snapshot", d)),
        (E.rx(r"Snapshot<'_> as .*Iterate>::iterator::<"), lambda ex, c_, a, d: E._owned(rows)),
        (E.rx(r"<DBIterator<'_> as Iterator>::skip$"), lambda ex, c_, a, d: a[0]),
        (E.rx(r"TimeoutIterator::<.*>::new$"), lambda ex, c_, a, d: a[0]),
        (E.rx(r"TimeoutIterator::<.*>::is_timed_out$"), E.const_bool(False)),
        (E.rx(r"TimeoutIterator<.*> as Iterator>::by_ref$"), lambda ex, c_, a, d: a[0]),
        (E.rx(r"<Vec<u8> as AsRef<\[u8\]>>::as_ref$|<Box<\[u8\]> as Deref>::deref$"), lambda ex, c_, a, d: a[0]),
        (E.rx(r"slice::<impl \[u8\]>::starts_with$"), starts_with),
        (E.rx(r"slice::<impl \[u8\]>::last$"), last_byte),
        (E.rx(r"slice::<impl \[u8\]>::to_vec$"), lambda ex, c_, a, d: OpaqueV("copy_of_row%d_key" % rowno(ex, a[0]), d)),
        (E.rx(r"<\[u8\] as Index<(std::ops::)?Range<usize>>>::index$"), index_range),
        (E.rx(r"<&\[u8\] as TryInto<\[u8; \d\]>>::try_into$"), lambda ex, c_, a, d: mk_result(True, OpaqueV(getattr(deref(ex, a[0]), "name", "?"), "[u8; N]"), OpaqueV("tryerr", "TryFromSliceError"), d)),
        (E.rx(r"core::num::<impl u(32|64)>::from_be_bytes$"), from_be),
        (E.rx(r"Byte32 as (ckb_types::prelude::)?Entity>::from_slice$"), tx_hash_of),
        (E.rx(r"<(ckb_types::packed::)?Byte32 as Into<H256>>::into$"), passthru),
        (E.rx(r"<H256 as PartialEq>::ne$"), h256_ne),
        (E.rx(r"<H256 as PartialEq>::eq$"), h256_eq),
        (E.rx(r"Key::<'_>::into_vec$"), into_vec),
        (E.rx(r"Snapshot<'_> as .*Get<.*>>::get::<"), get),
        (E.rx(r"JsonBytes::from_vec$"), passthru),
        (E.rx(r"<u(32|64) as Into<.*JsonUint<u(32|64)>>>::into$"), lambda ex, c_, a, d: a[0]),
        (E.rx(r"IndexerPagination::<.*>::new$"), lambda ex, c_, a, d: AggV((a[0], a[1]), "IndexerPagination")),
        (E.rx(r"^format$|must_use::<"), E.opaque_call()),
        (E.rx(r"slice::<impl \[IndexerTxWithCells\]>::last_mut$"), last_mut),
        (E.rx(r"^(IndexerTx::)?Grouped$"), lambda ex, c_, a, d: AggV((a[0],), "Grouped")),
        (E.rx(r"^slice::<impl \[.*\]>::into_vec::<"), vec_macro),
    ] + list(E.LIST_ADAPTORS)
    orig_len = {}
    ps = S.run(ctx, f, [ctx.ref_to(handle), sk, EnumV(0, (), "IndexerOrder"), OpaqueV("limit_json", "JsonUint<u32>"), mk_option(False, None, "Option<JsonBytes>")])
    return dict(ctx=ctx, ps=ps, gets=gets, qopts=qopts, prefixes=prefixes, tag=tag, keyv=keyv, ctype=ctype, ictype=ictype, inpre=inpre, klen_ok=klen_ok, bn=bn, txi=txi, ioi=ioi, iot=iot, frow=frow, same_tx=same_tx,
                limit=limit, r0=r0, r1=r1, has_range=has_range, nrows=nrows, script_filter=script_filter)


def _sym(ctx, rx):
    c = [n for n in ctx.decls if re.fullmatch(rx, n)]
    if len(c) != 1:
        raise Inconclusive(f"symbol {rx}: {c}")
    return T.var(c[0], T.INT)


def _included(R, ctx, exact):
    """per row: the condition under which the row belongs to the answer (the specification, written from the documentation of the RPC)"""
    inc = []
    for k in range(R["nrows"]):
        c = [R["inpre"][j].t for j in range(k + 1)]                      # the scan stops at the first key outside the searched prefix
        if exact:
            c.append(T.eq(_sym(ctx, r"len\.row%d_key[\w.]*" % k), T.add(_sym(ctx, r"uf\.len_prefix_\w*"), 17)))     # exact mode: the key holds exactly the script + 17 bytes of coordinates
        if R.get("script_filter", True):
            c.append(R["frow"][k].t)                                      # the cell also carries the filter script (row of the other script kind under the same coordinates)
        c.append(T.implies(R["has_range"].t, T.and_(T.le(R["r0"].t, R["bn"][k].t), T.lt(R["bn"][k].t, R["r1"].t))))
        inc.append(T.and_(*c))
    return inc


def _answer_goal(cond, inc, got, limit_value):
    """the answer is, in scan order, the first `limit` rows that belong to it"""
    gs = []
    for k in range(len(inc)):
        before = 0
        for j in range(k):
            before = T.add(before, T.ite(inc[j], 1, 0))
        gs.append(T.iff(T.and_(inc[k], T.lt(before, limit_value)), bool(k in got)))
    gs.append(bool(got == sorted(got) and len(got) <= limit_value and len(set(got)) == len(got)))
    return T.implies(cond, T.and_(*gs))


def _row_of(term, R):
    for k in range(R["nrows"]):
        if term == R["bn"][k].t:
            return k
    return None


def _grouped_answer(S, ctx, ob, tag, R, ps, pre, limit_value, exact=True):
    """grouped answers (limit = number of rows): consecutive answered rows with the same transaction hash form one entry with the coordinates of its first row and one
    (cell type, index) pair per row, in scan order"""
    GX = field_index(JT, "IndexerTxWithCells")
    inc = _included(R, ctx, exact)
    goals, shape = [], True
    for p_ in returns(ps):
        v = p_.value
        if not (isinstance(v, EnumV) and isinstance(v.disc, int)):
            shape = False
            continue
        if v.disc == 1:
            continue
        pag = v.payload(0)[0]
        lst = pag.fields[0] if isinstance(pag, AggV) else None
        if not isinstance(lst, ListV):
            shape = False
            continue
        groups = []
        for it in lst.items:
            g = it.fields[0] if isinstance(it, AggV) and it.ty == "Grouped" else None
            if not isinstance(g, AggV):
                shape = False
                continue
            k = _row_of(g.fields[GX["block_number"]].t, R)
            cells = g.fields[GX["cells"]]
            if k is None or g.fields[GX["tx_index"]].t != R["txi"][k].t or getattr(g.fields[GX["tx_hash"]], "name", None) != f"row{k}_tx_hash" or not isinstance(cells, ListV):
                shape = False
                continue
            rows = []
            for c_ in cells.items:
                io, idx = c_.fields
                kk = next((j for j in range(R["nrows"]) if idx.t == R["ioi"][j].t), None)
                if kk is None:
                    shape = False
                    continue
                rows.append(kk)
                goals.append(T.implies(p_.cond(), T.iff(T.eq(R["iot"][kk].t, 0), bool(isinstance(io, EnumV) and io.disc == R["ctype"].index("Input")))))
            groups.append((k, rows))
        # expectation for two rows
        both = T.and_(inc[0], inc[1])
        exp = {
            "none": T.and_(T.not_(inc[0]), T.not_(inc[1])), "only0": T.and_(inc[0], T.not_(inc[1])), "only1": T.and_(T.not_(inc[0]), inc[1]),
            "joined": T.and_(both, R["same_tx"].t), "separate": T.and_(both, T.not_(R["same_tx"].t))}
        if limit_value == 1:          # at most one transaction: a second answered row is reported only when it belongs to the same transaction
            exp["only0"] = T.and_(inc[0], T.or_(T.not_(inc[1]), T.not_(R["same_tx"].t)))
            exp["separate"] = False
        shape_of = {"none": [], "only0": [(0, [0])], "only1": [(1, [1])], "joined": [(0, [0, 1])], "separate": [(0, [0]), (1, [1])]}
        mine = [n for n, sh in shape_of.items() if sh == groups]
        goals.append(T.implies(p_.cond(), exp[mine[0]]) if mine else T.not_(p_.cond()))
    S.prove(ctx, ob, f"{tag}_every_answer_entry_carries_the_coordinates_and_hash_of_one_row", [], bool(shape))
    S.prove(ctx, ob, f"{tag}_the_answer_groups_exactly_the_answered_rows_by_transaction_in_scan_order", pre, T.and_(*goals) if goals else False)
    S.witness(ctx, ob, f"{tag}_reach_one_entry_with_two_cells", pre, T.and_(inc[0], inc[1], R["same_tx"].t))


def m4_get_transactions(S):
    ob = "C18.m4"
    JTX = field_index(JT, "IndexerTxWithCell")
    for search_type in ("Lock", "Type"):
        for grouped in (False, True):
            for limit_value, exact, script_filter in ((2, True, True), (1, True, True), (2, False, True), (2, True, False)):
                R = run_get_transactions(S, ob, search_type, grouped, exact=exact, limit_value=limit_value, nrows=(3 if (S.tier == "thorough" and not grouped) else 2), script_filter=script_filter)
                ctx, ps = R["ctx"], R["ps"]
                tag = R["tag"] + f"_limit{limit_value}" + ("" if script_filter else "_no_script_filter")
                if exact:
                    pre = [T.ge(ctx.int("request_limit", "usize").t, limit_value), T.le(_sym(ctx, r"uf\.len_prefix_\w*"), 1 << 20), T.ge(_sym(ctx, r"uf\.len_prefix_\w*"), 0)]
                else:       # storage invariant: every key of the transaction index ends with 17 bytes of coordinates
                    pre = [T.ge(ctx.int("request_limit", "usize").t, limit_value)] + [T.ge(_sym(ctx, r"len\.row%d_key[\w.]*" % k), 17) for k in range(R["nrows"])]
                S.prove(ctx, ob, f"{tag}_no_panic", pre, T.not_(cond_of(panics(ps))))
                kp = _enum_values("util/indexer/src/indexer.rs", "KeyPrefix")
                S.prove(ctx, ob, f"{tag}_the_scan_runs_over_the_transaction_index_of_the_searched_script_kind", [], bool(R["qopts"] and all(q == (kp["TxLockScript"], kp["TxTypeScript"]) for q in R["qopts"]) and bool(R["prefixes"]) and all(re.fullmatch(r"(uf\.deref_)?prefix[_.]*", x) for x in R["prefixes"])),
                        extra={"note": str((R["qopts"][:2], sorted(R["prefixes"])))})
                want_variant = "TxTypeScript" if search_type == "Lock" else "TxLockScript"
                if not script_filter:
                    S.prove(ctx, ob, f"{tag}_no_lookup_without_a_script_filter", [], bool(not R["gets"]))
                good = bool(R["gets"]) or not script_filter
                goals = []
                for k, kf, pc in R["gets"]:
                    if k is None or kf[0] != want_variant or kf[1] != "packed(filter_script_json)" or kf[2] != R["bn"][k].t or kf[3] != R["txi"][k].t or kf[4] != R["ioi"][k].t or not (isinstance(kf[5], tuple) and kf[5][0] == "celltype"):
                        good = False
                        continue
                    goals.append(T.implies(T.and_(*pc), T.iff(T.eq(R["iot"][k].t, 0), bool(kf[5][1] == R["ictype"].index("Input")))))
                S.prove(ctx, ob, f"{tag}_the_filter_lookup_reads_the_row_of_the_other_script_kind_under_the_coordinates_of_the_row_at_hand", [], good, extra={"note": str([(k, kf) for k, kf, _ in R["gets"]][:3])})
                S.prove(ctx, ob, f"{tag}_the_filter_lookup_uses_the_cell_type_of_the_row_at_hand", pre, T.and_(*goals) if goals else bool(not script_filter))
                if grouped:
                    _grouped_answer(S, ctx, ob, tag, R, ps, pre, limit_value, exact)
                    continue
                inc = _included(R, ctx, exact)
                goals, shape, cursor_ok = [], True, True
                for p_ in returns(ps):
                    v = p_.value
                    if not (isinstance(v, EnumV) and isinstance(v.disc, int)):
                        shape = False
                        continue
                    if v.disc == 1:
                        continue                    # parameter errors (partial mode etc.)
                    pag = v.payload(0)[0]
                    lst = pag.fields[0] if isinstance(pag, AggV) else None
                    if not isinstance(lst, ListV):
                        shape = False
                        continue
                    got = []
                    for it in lst.items:
                        cell = it.payload(it.disc)[0] if isinstance(it, EnumV) and isinstance(it.disc, int) else None
                        k = _row_of(cell.fields[JTX["block_number"]].t, R) if isinstance(cell, AggV) else None
                        if k is None or cell.fields[JTX["tx_index"]].t != R["txi"][k].t or cell.fields[JTX["io_index"]].t != R["ioi"][k].t or getattr(cell.fields[JTX["tx_hash"]], "name", None) != f"row{k}_tx_hash":
                            shape = False
                            continue
                        got.append(k)
                        io = cell.fields[JTX["io_type"]]
                        goals.append(T.implies(p_.cond(), T.iff(T.eq(R["iot"][k].t, 0), bool(isinstance(io, EnumV) and io.disc == R["ctype"].index("Input")))))
                    # the answer is, in scan order, the first `limit` rows that belong to it
                    goals.append(_answer_goal(p_.cond(), inc, got, limit_value))
                    cur = pag.fields[1]
                    # (the executor evaluates iterator adaptors eagerly: rows beyond the limit are mapped too, so the cursor is only judged when the limit covers all rows)
                    if limit_value >= R["nrows"] and not (getattr(cur, "name", None) == f"copy_of_row{got[-1]}_key" if got else (isinstance(cur, ListV) and not cur.items)):
                        cursor_ok = False
                if limit_value >= R["nrows"]:
                    S.prove(ctx, ob, f"{tag}_the_cursor_is_the_key_of_the_last_answered_row", [], bool(cursor_ok))
                S.prove(ctx, ob, f"{tag}_every_answer_item_carries_the_coordinates_and_hash_of_one_row", [], bool(shape))
                S.prove(ctx, ob, f"{tag}_the_answer_is_exactly_the_rows_under_the_prefix_that_pass_the_filters_in_scan_order", pre, T.and_(*goals) if goals else False)
                S.witness(ctx, ob, f"{tag}_reach_two_rows_answered" if limit_value >= 2 else f"{tag}_reach_second_row_answered", pre, T.and_(inc[1], inc[0]) if limit_value >= 2 else T.and_(inc[1], T.not_(inc[0])))


# ------------------------------------------------------------------------------------------------ get_cells
FILTERS = ["none", "script_prefix", "script_len_range", "output_data_prefix", "output_data_exact", "output_data_partial", "output_data_len_range", "output_capacity_range", "block_range"]


def run_get_cells(S, search_type, which, exact, limit_value, with_data, nrows=2, fname="get_cells", pool=False):
    """one scenario of `get_cells`: the searched script kind, ONE filter of `FILTERS` present, exact or prefix mode; `nrows` rows of the live-cell index follow the start key"""
    f = [x for x in S.prog.funcs if x.kind == "fn" and x.short == fname and "indexer/src/service.rs" in x.name and "{closure" not in x.name]
    if len(f) != 1:
        raise Inconclusive(f"{fname}: {len(f)} candidates")
    f = f[0]
    keyv = _enum("util/indexer/src/indexer.rs", "Key")
    stype = _enum(JT, "IndexerScriptType")
    smode = _enum(JT, "IndexerSearchMode")
    ctx = S.ctx(unwind=nrows + 3)
    ctx.uninterpreted_unknown_calls = True
    inpre = [ctx.bool(f"row{k}_in_prefix") for k in range(nrows)]
    oix = [ctx.int(f"row{k}_output_index", "u32") for k in range(nrows)]
    bn = [ctx.int(f"row{k}_block_number", "u64") for k in range(nrows)]
    txi = [ctx.int(f"row{k}_tx_index", "u32") for k in range(nrows)]
    has_type = [ctx.bool(f"row{k}_cell_has_type_script") for k in range(nrows)]
    sp_lock = [ctx.bool(f"row{k}_lock_script_starts_with_filter") for k in range(nrows)]
    sp_type = [ctx.bool(f"row{k}_type_script_starts_with_filter") for k in range(nrows)]
    len_lock = [ctx.int(f"row{k}_lock_script_len", "usize") for k in range(nrows)]
    len_type = [ctx.int(f"row{k}_type_script_len", "usize") for k in range(nrows)]
    data_pre = [ctx.bool(f"row{k}_data_starts_with_filter") for k in range(nrows)]
    data_ne = [ctx.bool(f"row{k}_data_differs_from_filter") for k in range(nrows)]
    data_find = [ctx.bool(f"row{k}_data_contains_filter") for k in range(nrows)]
    data_len = [ctx.int(f"row{k}_data_len", "usize") for k in range(nrows)]
    cap = [ctx.int(f"row{k}_capacity", "u64") for k in range(nrows)]
    r0, r1 = ctx.int("range_start", "u64"), ctx.int("range_end", "u64")
    gets, qopts, prefixes, used = [], [], set(), []

    def rowno(ex, v):
        v = deref(ex, v) if isinstance(v, RefV) else v
        m = re.search(r"row(\d+)", getattr(v, "name", "") or "")
        if not m:
            raise Stop(f"not a row value: {str(v)[:80]}")
        return int(m.group(1))
    none = lambda ty: mk_option(False, None, ty)
    rng_usize = AggV((IntV(r0.t, "usize"), IntV(r1.t, "usize")), "[usize; 2]")
    rng_u64 = AggV((r0, r1), "[u64; 2]")
    rng_cap = AggV((AggV((r0,), "Capacity"), AggV((r1,), "Capacity")), "[Capacity; 2]")
    mode_of = {"output_data_prefix": "Prefix", "output_data_exact": "Exact", "output_data_partial": "Partial", "all": "Prefix"}
    fo = _struct("util/indexer/src/service.rs", "FilterOptions", {
        "script_prefix": mk_option(True, OpaqueV("filter_script_prefix", "Vec<u8>"), "Option<Vec<u8>>") if which in ("script_prefix", "all") else none("Option<Vec<u8>>"),
        "script_len_range": mk_option(True, rng_usize, "Option<[usize; 2]>") if which in ("script_len_range", "all") else none("Option<[usize; 2]>"),
        "output_data": mk_option(True, AggV((OpaqueV("filter_data", "Vec<u8>"), EnumV(smode.index(mode_of[which]), (), "IndexerSearchMode")), "(Vec<u8>, IndexerSearchMode)"), "Option<(Vec<u8>, IndexerSearchMode)>") if which in mode_of else none("Option<(Vec<u8>, IndexerSearchMode)>"),
        "output_data_len_range": mk_option(True, rng_usize, "Option<[usize; 2]>") if which in ("output_data_len_range", "all") else none("Option<[usize; 2]>"),
        "output_capacity_range": mk_option(True, rng_cap, "Option<[Capacity; 2]>") if which in ("output_capacity_range", "all") else none("Option<[Capacity; 2]>"),
        "block_range": mk_option(True, rng_u64, "Option<[u64; 2]>") if which in ("block_range", "all") else none("Option<[u64; 2]>"),
        "with_data": BoolV(with_data)})
    sk = _struct(JT, "IndexerSearchKey", {
        "script": OpaqueV("search_script_json", "Script"), "script_type": EnumV(stype.index(search_type), (), "IndexerScriptType"),
        "script_search_mode": mk_option(True, EnumV(smode.index("Exact" if exact else "Prefix"), (), "IndexerSearchMode"), "Option<IndexerSearchMode>"),
        "filter": none("Option<IndexerSearchKeyFilter>"), "with_data": none("Option<bool>"), "group_by_transaction": none("Option<bool>")})
    handle = _struct("util/indexer/src/service.rs", "IndexerHandle", {"store": OpaqueV("store", "RocksdbStore"), "pool": mk_option(True, OpaqueV("pool_handle", "Arc<RwLock<Pool>>"), "Option<Arc>") if pool else none("Option<Arc>"),
                                                                       "request_limit": ctx.int("request_limit", "usize"), "timeout_limit": OpaqueV("timeout", "Duration")})
    rows = [AggV((OpaqueV(f"row{k}_key", "Box<[u8]>"), OpaqueV(f"row{k}_value", "Box<[u8]>")), "(Box<[u8]>, Box<[u8]>)") for k in range(nrows)]
    in_pool = [ctx.bool(f"row{k}_cell_is_consumed_by_a_pool_transaction") for k in range(nrows)]

    def consumed_by_pool(ex, c_, a, d):
        if "pool_guard" not in str(getattr(deref(ex, a[0]) if isinstance(a[0], RefV) else a[0], "name", "")):
            raise Stop("pool test on something that is not the pool")
        k = rowno(ex, a[1])
        if getattr(deref(ex, a[1]) if isinstance(a[1], RefV) else a[1], "name", None) != f"row{k}_out_point":
            raise Stop("pool test with something that is not the row's out-point")
        used.append(("pool", None, k, list(ex.pc)))
        return BoolV(in_pool[k].t)

    def index_from(ex, c_, a, d):
        k = rowno(ex, a[0])
        rng = deref(ex, a[1]) if isinstance(a[1], RefV) else a[1]
        lo = rng.fields[0].t
        if not (isinstance(lo, tuple) and lo[0] == "-" and lo[3] == 4 and ("row%d_key" % k) in str(lo[2])):
            raise Stop(f"unexpected key slice [{lo}..]")
        return ex.ctx.ref_to(OpaqueV(f"row{k}_bytes_of_output_index", "[u8]"))

    def from_be(ex, c_, a, d):
        v = deref(ex, a[0]) if isinstance(a[0], RefV) else a[0]
        m = re.fullmatch(r"row(\d+)_bytes_of_output_index", getattr(v, "name", "") or "")
        if not m:
            raise Stop(f"from_be_bytes of {str(v)[:60]}")
        return oix[int(m.group(1))]

    def op_new(ex, c_, a, d):
        h, i = a[0], a[1]
        k = rowno(ex, h)
        if getattr(h, "name", None) != f"row{k}_tx_hash" or i.t != oix[k].t:
            raise Stop(f"out-point of mixed rows: {h} {i}")
        return OpaqueV(f"row{k}_out_point", d)

    def into_vec(ex, c_, a, d):
        v = deref(ex, a[0]) if isinstance(a[0], RefV) else a[0]
        if not (isinstance(v, EnumV) and isinstance(v.disc, int)):
            raise Stop(f"key is not a concrete Key variant: {str(v)[:80]}")
        x = v.payload(v.disc)[0]
        x = deref(ex, x) if isinstance(x, RefV) else x
        return OpaqueV(f"keybytes({keyv[v.disc]},{getattr(x, 'name', '?')})", "Vec<u8>")

    def get(ex, c_, a, d):
        h = deref(ex, a[1]) if isinstance(a[1], RefV) else a[1]
        m = re.fullmatch(r"keybytes\((\w+),row(\d+)_out_point\)", getattr(h, "name", "") or "")
        gets.append((getattr(h, "name", str(h)[:50]), list(ex.pc)))
        if not m:           # a lookup that is not "the out-point of a row": recorded (the obligation on the lookups fails), answered with an unrelated cell
            return mk_result(True, mk_option(True, OpaqueV("row0_cell_value[OutPoint]", "DBVector"), "Option<DBVector>"), OpaqueV("dberr", "Error"), d)
        return mk_result(True, mk_option(True, OpaqueV(f"row{m.group(2)}_cell_value[{m.group(1)}]", "DBVector"), "Option<DBVector>"), OpaqueV("dberr", "Error"), d)

    def parse_cell_value(ex, c_, a, d):
        v = deref(ex, a[0]) if isinstance(a[0], RefV) else a[0]
        m = re.fullmatch(r"row(\d+)_cell_value\[\w+\]", getattr(v, "name", "") or "")
        if not m:
            raise Stop(f"parse_cell_value of {str(v)[:60]}")
        k = int(m.group(1))
        return AggV((bn[k], txi[k], OpaqueV(f"row{k}_output", "CellOutput"), OpaqueV(f"row{k}_data", "Bytes")), "(u64, u32, CellOutput, Bytes)")
    named = lambda fmt: (lambda ex, c_, a, d: OpaqueV(fmt % getattr(deref(ex, a[0]) if isinstance(a[0], RefV) else a[0], "name", "?"), d))

    def starts_with(ex, c_, a, d):
        x = deref(ex, a[0]) if isinstance(a[0], RefV) else a[0]
        y = deref(ex, a[1]) if isinstance(a[1], RefV) else a[1]
        nx, ny = getattr(x, "name", "?"), getattr(y, "name", "?")
        m = re.match(r"row(\d+)_key", nx)
        if m:
            prefixes.add(ny)
            return BoolV(inpre[int(m.group(1))].t)
        m = re.fullmatch(r"raw\((lock|type)\(row(\d+)_output\)\)", nx)
        if m and "filter_script_prefix" in ny:
            used.append(("script_prefix", m.group(1), int(m.group(2)), list(ex.pc)))
            return BoolV((sp_lock if m.group(1) == "lock" else sp_type)[int(m.group(2))].t)
        m = re.fullmatch(r"rawdata\(row(\d+)_data\)", nx)
        if m and "filter_data" in ny:
            used.append(("data_prefix", None, int(m.group(1)), list(ex.pc)))
            return BoolV(data_pre[int(m.group(1))].t)
        raise Stop(f"starts_with({nx}, {ny})")

    def some_len(ex, c_, a, d):
        x = deref(ex, a[0]) if isinstance(a[0], RefV) else a[0]
        nx = getattr(x, "name", "?")
        m = re.fullmatch(r"raw\((lock|type)\(row(\d+)_output\)\)", nx)
        if m:
            used.append(("script_len", m.group(1), int(m.group(2)), list(ex.pc)))
            return (len_lock if m.group(1) == "lock" else len_type)[int(m.group(2))]
        m = re.fullmatch(r"row(\d+)_data", nx)
        if m:
            used.append(("data_len", None, int(m.group(1)), list(ex.pc)))
            return data_len[int(m.group(1))]
        from mir2smt.exec import ENV_PASS
        return ENV_PASS

    def type_is_none(ex, c_, a, d):
        return BoolV(T.not_(has_type[rowno(ex, a[0])].t))

    def to_opt(ex, c_, a, d):
        k = rowno(ex, a[0])
        return mk_option(has_type[k].t, OpaqueV(f"type(row{k}_output)", "Script"), d)

    def data_cmp_ne(ex, c_, a, d):
        used.append(("data_exact", None, rowno(ex, a[0]), list(ex.pc)))
        return BoolV(data_ne[rowno(ex, a[0])].t)

    def memfind(ex, c_, a, d):
        k = rowno(ex, a[0])
        used.append(("data_partial", None, k, list(ex.pc)))
        return mk_option(data_find[k].t, IntV(0, "usize"), d)

    def capacity(ex, c_, a, d):
        k = rowno(ex, a[0])
        used.append(("capacity", None, k, list(ex.pc)))
        return OpaqueV(f"capacity_of_row{k}", d)

    def to_capacity(ex, c_, a, d):
        m = re.fullmatch(r"capacity_of_row(\d+)", getattr(a[0], "name", "") or "")
        if not m:
            raise Stop(f"capacity conversion of {a[0]}")
        return AggV((cap[int(m.group(1))],), "Capacity")
    cap_t = lambda ex, v: as_int(deref(ex, v) if isinstance(v, RefV) else v)
    passthru = lambda ex, c_, a, d: (lambda v: OpaqueV(v.name, d) if isinstance(v, OpaqueV) else a[0])(deref(ex, a[0]) if isinstance(a[0], RefV) else a[0])
    has_tip = ctx.bool("index_has_a_tip_row")

    def iterator(ex, c_, a, d):
        """first scan: the rows after the start key; second scan (get_cells_capacity): the newest header row"""
        n = len([e for e in ex.log if e[0] == "c18" and e[1] == "scan"])
        ex.log.append(("c18", "scan", [n], list(ex.pc)))
        if n == 0:
            return E._owned(rows)
        if ex.decide(has_tip.t):
            return E._owned([AggV((OpaqueV("tip_key", "Box<[u8]>"), OpaqueV("tip_value", "Box<[u8]>")), "(Box<[u8]>, Box<[u8]>)")])
        return E._owned([])

    def it_sum(ex, c_, a, d):
        it = deref(ex, a[0]) if isinstance(a[0], RefV) else a[0]
        if not E._is_it(it):
            raise Stop(f"sum over {str(it)[:60]}")
        tot = 0
        for x in E._rest(ex, it):
            tot = T.add(tot, as_int(x))
        return IntV(tot, "u64")

    def tip_slice(ex, c_, a, d):
        v = deref(ex, a[0]) if isinstance(a[0], RefV) else a[0]
        rng = deref(ex, a[1]) if isinstance(a[1], RefV) else a[1]
        if not str(getattr(v, "name", "")).startswith("tip_key"):
            raise Stop(f"slice of {str(v)[:60]}")
        lo, hi = rng.fields[0].t, rng.fields[1].t
        if (lo, hi) == (9, 41):
            return ex.ctx.ref_to(OpaqueV("tip_key_hash_bytes", "[u8]"))
        if (lo, hi) == (1, 9):
            return ex.ctx.ref_to(OpaqueV("tip_key_number_bytes", "[u8]"))
        return ex.ctx.ref_to(OpaqueV(f"tip_key_other_bytes_{lo}_{hi}", "[u8]"))       # not the documented layout: the answer's shape check fails
    ctx.env = list(E.LOGGING_OFF) + [
        (E.rx(r"JsonUint::<u32>::value$"), lambda ex, c_, a, d: IntV(limit_value, "u32")),
        (E.rx(r"Error::invalid_params::<"), lambda ex, c_, a, d: OpaqueV("invalid_params", d)),
        (E.rx(r"^build_query_options$"), lambda ex, c_, a, d: (qopts.append((getattr(a[1], "disc", str(a[1])), getattr(a[2], "disc", str(a[2])))), 0)[1] or mk_result(True, AggV((OpaqueV("prefix", "Vec<u8>"), OpaqueV("from_key", "Vec<u8>"), OpaqueV("direction", "Direction"), ctx.int("skip", "usize")), "(Vec<u8>, Vec<u8>, Direction, usize)"), OpaqueV("qerr", "Error"), d)),
        (E.rx(r"IndexerSearchKey as TryInto<FilterOptions>>::try_into$"), lambda ex, c_, a, d: mk_result(True, fo, OpaqueV("ferr", "Error"), d)),
        (E.rx(r"RocksdbStore::inner$"), lambda ex, c_, a, d: ex.ctx.ref_to(OpaqueV("db", "DB"))),
        (E.rx(r"<Arc<.*RwLock<.*Pool>> as Deref>::deref$"), lambda ex, c_, a, d: ex.ctx.ref_to(OpaqueV("pool_lock", "RwLock<Pool>"))),
        (E.rx(r"RwLock::<.*Pool>::read$"), lambda ex, c_, a, d: mk_result(True, OpaqueV("pool_guard", "RwLockReadGuard<Pool>"), OpaqueV("poison", "PoisonError"), d)),
        (E.rx(r"RwLockReadGuard<'_, .*Pool> as Deref>::deref$"), lambda ex, c_, a, d: ex.ctx.ref_to(OpaqueV("pool_guard.pool", "Pool"))),
        (E.rx(r"Pool::is_consumed_by_pool_tx$"), consumed_by_pool),
        (E.rx(r"DB::snapshot$"), lambda ex, c_, a, d: OpaqueV("snapshot", d)),
        (E.rx(r"Snapshot<'_> as .*Iterate>::iterator::<"), iterator),
        (E.rx(r"<DBIterator<'_> as Iterator>::skip$"), lambda ex, c_, a, d: a[0]),
        (E.rx(r"TimeoutIterator::<.*>::new$"), lambda ex, c_, a, d: a[0]),
        (E.rx(r"TimeoutIterator::<.*>::is_timed_out$"), E.const_bool(False)),
        (E.rx(r"TimeoutIterator<.*> as Iterator>::by_ref$"), lambda ex, c_, a, d: a[0]),
        (E.rx(r" as Iterator>::sum::<u64>$"), it_sum),
        (E.rx(r"Capacity::as_u64$"), lambda ex, c_, a, d: IntV(cap_t(ex, a[0]), "u64")),
        (E.rx(r"<\[u8\] as Index<(std::ops::)?Range<usize>>>::index$"), tip_slice),
        (E.rx(r"core::num::<impl u64>::from_be_bytes$"), lambda ex, c_, a, d: ctx.int("tip_number" if "tip_key_number_bytes" in str(getattr(deref(ex, a[0]) if isinstance(a[0], RefV) else a[0], "name", "")) else "number_decoded_from_other_bytes", "u64")),
        (E.rx(r"<(ckb_types::packed::)?Byte32 as Into<H256>>::into$"), passthru),
        (E.rx(r"<Box<\[u8\]> as AsRef<\[u8\]>>::as_ref$"), lambda ex, c_, a, d: a[0]),
        (E.rx(r"<Vec<u8> as AsRef<\[u8\]>>::as_ref$|<Box<\[u8\]> as Deref>::deref$|<Vec<u8> as Deref>::deref$|Vec::<u8>::as_slice$|<DBVector as Deref>::deref$|<(ckb_types::bytes::)?Bytes as Deref>::deref$"), lambda ex, c_, a, d: a[0]),
        (E.rx(r"slice::<impl \[u8\]>::starts_with$"), starts_with),
        (E.rx(r"slice::<impl \[u8\]>::to_vec$"), lambda ex, c_, a, d: OpaqueV("copy_of_row%d_key" % rowno(ex, a[0]), d)),
        (E.rx(r"<\[u8\] as Index<(std::ops::)?RangeFrom<usize>>>::index$"), index_from),
        (E.rx(r"<&\[u8\] as TryInto<\[u8; \d\]>>::try_into$"), lambda ex, c_, a, d: mk_result(True, OpaqueV(getattr(deref(ex, a[0]), "name", "?"), "[u8; N]"), OpaqueV("tryerr", "TryFromSliceError"), d)),
        (E.rx(r"core::num::<impl u32>::from_be_bytes$"), from_be),
        (E.rx(r"Byte32 as (ckb_types::prelude::)?Entity>::from_slice$"), lambda ex, c_, a, d: mk_result(True, OpaqueV("tip_hash", "Byte32") if "tip_key_hash_bytes" in str(getattr(deref(ex, a[0]) if isinstance(a[0], RefV) else a[0], "name", "")) else (OpaqueV("hash_decoded_from_other_bytes", "Byte32") if "tip_key" in str(getattr(deref(ex, a[0]) if isinstance(a[0], RefV) else a[0], "name", "")) else OpaqueV("row%d_tx_hash" % rowno(ex, a[0]), "Byte32")), OpaqueV("verr", "VerificationError"), d)),
        (E.rx(r"<impl (ckb_types::packed::)?OutPoint>::new$"), op_new),
        (E.rx(r"Key::<'_>::into_vec$"), into_vec),
        (E.rx(r"Snapshot<'_> as .*Get<.*>>::get::<"), get),
        (E.rx(r"Value::<'_>::parse_cell_value$"), parse_cell_value),
        (E.rx(r"CellOutput::lock$"), named("lock(%s)")),
        (E.rx(r"CellOutput::type_$"), named("typeopt(%s)")),
        (E.rx(r"ScriptOpt::is_none$"), type_is_none),
        (E.rx(r"ScriptOpt::to_opt$"), to_opt),
        (E.rx(r"^extract_raw_data$"), named("raw(%s)")),
        (E.rx(r"(ckb_types::packed::)?Bytes::raw_data$"), named("rawdata(%s)")),
        (E.rx(r"Vec::<u8>::len$|(ckb_types::packed::)?Bytes::len$"), some_len),
        (E.rx(r"Bytes as PartialEq<&Vec<u8>>>::ne$"), data_cmp_ne),
        (E.rx(r"memmem::find$"), memfind),
        (E.rx(r"CellOutput::capacity$"), capacity),
        (E.rx(r"<Uint64 as Into<Capacity>>::into$"), to_capacity),
        (E.rx(r"<Capacity as PartialOrd>::lt$"), lambda ex, c_, a, d: BoolV(T.lt(cap_t(ex, a[0]), cap_t(ex, a[1])))),
        (E.rx(r"<Capacity as PartialOrd>::ge$"), lambda ex, c_, a, d: BoolV(T.ge(cap_t(ex, a[0]), cap_t(ex, a[1])))),
        (E.rx(r"<(ckb_types::packed::)?(OutPoint|CellOutput|Bytes) as Into<.*>>::into$"), passthru),
        (E.rx(r"JsonBytes::from_vec$"), passthru),
        (E.rx(r"<u(32|64) as Into<.*JsonUint<u(32|64)>>>::into$"), lambda ex, c_, a, d: a[0]),
        (E.rx(r"IndexerPagination::<.*>::new$"), lambda ex, c_, a, d: AggV((a[0], a[1]), "IndexerPagination")),
        (E.rx(r"^format$|must_use::<"), E.opaque_call()),
    ] + list(E.LIST_ADAPTORS)
    if fname == "get_cells":
        ps = S.run(ctx, f, [ctx.ref_to(handle), sk, EnumV(0, (), "IndexerOrder"), OpaqueV("limit_json", "JsonUint<u32>"), mk_option(False, None, "Option<JsonBytes>")])
    else:
        ps = S.run(ctx, f, [ctx.ref_to(handle), sk])
    in_range = lambda t: T.and_(T.le(r0.t, t), T.lt(t, r1.t))
    other = "type" if search_type == "Lock" else "lock"
    passes = []
    for k in range(nrows):
        if other == "lock":
            sp, ln = sp_lock[k].t, len_lock[k].t
        else:           # a cell without a type script fails a type-script prefix filter and has script length 0
            sp, ln = T.and_(has_type[k].t, sp_type[k].t), T.ite(has_type[k].t, len_type[k].t, 0)
        table = {"none": True, "script_prefix": sp, "script_len_range": in_range(ln), "output_data_prefix": data_pre[k].t, "output_data_exact": T.not_(data_ne[k].t),
                       "output_data_partial": data_find[k].t, "output_data_len_range": in_range(data_len[k].t), "output_capacity_range": in_range(cap[k].t), "block_range": in_range(bn[k].t)}
        # several filters: a cell is answered iff it passes every one of them
        table["all"] = T.and_(*[table[w] for w in ("script_prefix", "script_len_range", "output_data_prefix", "output_data_len_range", "output_capacity_range", "block_range")])
        passes.append(T.and_(T.not_(in_pool[k].t) if pool else True, table[which]))
    return dict(ctx=ctx, ps=ps, gets=gets, qopts=qopts, prefixes=prefixes, used=used, inpre=inpre, oix=oix, bn=bn, txi=txi, passes=passes, nrows=nrows, other=other, cap=cap, has_tip=has_tip)


def m5_get_cells(S):
    """`IndexerHandle::get_cells` on two rows of the live-cell index: Lock/Type search x one filter at a time (none, script prefix, script length range, output data prefix / exact /
    partial, data length range, capacity range, block range) x exact mode (limit 2; limit 1 for two filters) and prefix mode (no filter)"""
    ob = "C18.m5"
    CX = field_index(JT, "IndexerCell")
    kp = _enum_values("util/indexer/src/indexer.rs", "KeyPrefix")
    scen = [(w, True, 2, False, False) for w in FILTERS] + [("none", False, 2, True, False), ("script_prefix", True, 1, True, False), ("block_range", True, 1, False, False), ("none", True, 2, False, True), ("block_range", True, 2, False, True), ("all", True, 1, True, True)]
    for search_type in ("Lock", "Type"):
        for which, exact, limit_value, with_data, pool in scen:
            R = run_get_cells(S, search_type, which, exact, limit_value, with_data, pool=pool, nrows=(1 if which == "all" else (3 if S.tier == "thorough" else 2)))
            ctx, ps = R["ctx"], R["ps"]
            tag = f"{search_type}_{which}_{'exact' if exact else 'prefix'}_limit{limit_value}" + ("_pool" if pool else "")
            if pool:
                S.prove(ctx, ob, f"{tag}_every_scanned_cell_is_tested_against_the_pool_by_its_own_out_point", [], bool(any(t_ == "pool" for t_, *_ in R["used"])))
            lens = [_sym(ctx, r"len\.row%d_key[\w.]*" % k) for k in range(R["nrows"])]
            if exact:
                pre = [T.ge(ctx.int("request_limit", "usize").t, limit_value), T.le(_sym(ctx, r"uf\.len_prefix_\w*"), 1 << 20), T.ge(_sym(ctx, r"uf\.len_prefix_\w*"), 0)]
            else:       # storage invariant: every key of the cell index ends with 16 bytes of coordinates
                pre = [T.ge(ctx.int("request_limit", "usize").t, limit_value)] + [T.ge(l, 16) for l in lens]
            S.prove(ctx, ob, f"{tag}_no_panic", pre, T.not_(cond_of(panics(ps))))
            S.prove(ctx, ob, f"{tag}_the_scan_runs_over_the_cell_index_and_cells_are_loaded_by_the_out_point_of_the_row", [],
                    bool(R["qopts"] and all(q == (kp["CellLockScript"], kp["CellTypeScript"]) for q in R["qopts"]) and R["prefixes"] and all(re.fullmatch(r"(uf\.deref_)?prefix[_.]*", x) for x in R["prefixes"])
                         and R["gets"] and all(re.fullmatch(r"keybytes\(OutPoint,row\d+_out_point\)", g) for g, _ in R["gets"])), extra={"note": str((R["qopts"][:1], sorted(R["prefixes"]), [g for g, _ in R["gets"]][:2]))})
            # a script filter looks at the script of the OTHER kind of the cell at hand
            S.prove(ctx, ob, f"{tag}_script_filters_look_at_the_other_script_of_the_cell", [], bool(all(kind == R["other"] for t_, kind, _, _ in R["used"] if t_ in ("script_prefix", "script_len"))
                                                                                                 and (which not in ("script_prefix", "script_len_range") or any(t_ in ("script_prefix", "script_len") for t_, *_ in R["used"]))), extra={"note": str([(u[0], u[1], u[2]) for u in R["used"]][:4])})
            inc = []
            for k in range(R["nrows"]):
                c = [R["inpre"][j].t for j in range(k + 1)]
                if exact:
                    c.append(T.eq(lens[k], T.add(_sym(ctx, r"uf\.len_prefix_\w*"), 16)))
                c.append(R["passes"][k])
                inc.append(T.and_(*c))
            goals, shape, cursor_ok = [], True, True
            for p_ in returns(ps):
                v = p_.value
                if not (isinstance(v, EnumV) and isinstance(v.disc, int)):
                    shape = False
                    continue
                if v.disc == 1:
                    continue
                pag = v.payload(0)[0]
                lst = pag.fields[0] if isinstance(pag, AggV) else None
                if not isinstance(lst, ListV):
                    shape = False
                    continue
                got = []
                for it in lst.items:
                    k = _row_of(it.fields[CX["block_number"]].t, R) if isinstance(it, AggV) else None
                    od = it.fields[CX["output_data"]] if isinstance(it, AggV) else None
                    ok = (k is not None and it.fields[CX["tx_index"]].t == R["txi"][k].t and getattr(it.fields[CX["out_point"]], "name", None) == f"row{k}_out_point"
                          and getattr(it.fields[CX["output"]], "name", None) == f"row{k}_output" and isinstance(od, EnumV) and od.disc == (1 if with_data else 0)
                          and (not with_data or getattr(od.payload(1)[0], "name", None) == f"row{k}_data"))
                    if not ok:
                        shape = False
                        continue
                    got.append(k)
                goals.append(_answer_goal(p_.cond(), inc, got, limit_value))
                cur = pag.fields[1]
                if limit_value >= R["nrows"] and not (getattr(cur, "name", None) == f"copy_of_row{got[-1]}_key" if got else (isinstance(cur, ListV) and not cur.items)):
                    cursor_ok = False
            if limit_value >= R["nrows"]:
                S.prove(ctx, ob, f"{tag}_the_cursor_is_the_key_of_the_last_answered_row", [], bool(cursor_ok))
            S.prove(ctx, ob, f"{tag}_every_answer_item_is_the_cell_of_one_row_with_its_out_point_coordinates_and_data_iff_asked", [], bool(shape))
            S.prove(ctx, ob, f"{tag}_the_answer_is_exactly_the_rows_under_the_prefix_that_pass_the_filter_in_scan_order", pre, T.and_(*goals) if goals else False)
            if R["nrows"] == 1:
                S.witness(ctx, ob, f"{tag}_reach_the_row_answered", pre, inc[0])
                continue
            S.witness(ctx, ob, f"{tag}_reach_second_row_answered", pre, T.and_(inc[1], inc[0]) if limit_value >= 2 else T.and_(inc[1], T.not_(inc[0])))


def m6_get_cells_capacity(S):
    """`IndexerHandle::get_cells_capacity`: the same scan and filters as get_cells (two rows, one filter at a time), the answer is the SUM of the capacities of exactly the passing
    rows, together with the hash and number decoded from the newest header row; no header row: no answer"""
    ob = "C18.m6"
    CC = field_index(JT, "IndexerCellsCapacity")
    kp = _enum_values("util/indexer/src/indexer.rs", "KeyPrefix")
    for search_type in ("Lock", "Type"):
        for which, exact, pool in [(w, True, False) for w in FILTERS] + [("none", False, False), ("none", True, True), ("all", True, True)]:
            R = run_get_cells(S, search_type, which, exact, 2, False, fname="get_cells_capacity", pool=pool, nrows=(1 if which == "all" else (3 if S.tier == "thorough" else 2)))
            ctx, ps = R["ctx"], R["ps"]
            tag = f"{search_type}_{which}_{'exact' if exact else 'prefix'}" + ("_pool" if pool else "")
            lens = [_sym(ctx, r"len\.row%d_key[\w.]*" % k) for k in range(R["nrows"])]
            tot_ = 0
            for c_ in R["cap"]:
                tot_ = T.add(tot_, c_.t)
            capsum = [T.le(tot_, (1 << 64) - 1)]          # the total capacity of live cells fits u64 (issuance bound)
            if exact:
                pre = capsum + [T.le(_sym(ctx, r"uf\.len_prefix_\w*"), 1 << 20), T.ge(_sym(ctx, r"uf\.len_prefix_\w*"), 0)]
            else:
                pre = capsum + [T.ge(l, 16) for l in lens]
            S.prove(ctx, ob, f"{tag}_no_panic", pre, T.not_(cond_of(panics(ps))))
            S.prove(ctx, ob, f"{tag}_the_scan_runs_over_the_cell_index_and_cells_are_loaded_by_the_out_point_of_the_row", [],
                    bool(R["qopts"] and all(q == (kp["CellLockScript"], kp["CellTypeScript"]) for q in R["qopts"]) and R["prefixes"] and all(re.fullmatch(r"(uf\.deref_)?prefix[_.]*", x) for x in R["prefixes"])
                         and R["gets"] and all(re.fullmatch(r"keybytes\(OutPoint,row\d+_out_point\)", g) for g, _ in R["gets"])), extra={"note": str((R["qopts"][:1], sorted(R["prefixes"]), [g for g, _ in R["gets"]][:2]))})
            S.prove(ctx, ob, f"{tag}_script_filters_look_at_the_other_script_of_the_cell", [], bool(all(kind == R["other"] for t_, kind, _, _ in R["used"] if t_ in ("script_prefix", "script_len"))
                                                                                                 and (which not in ("script_prefix", "script_len_range") or any(t_ in ("script_prefix", "script_len") for t_, *_ in R["used"]))))
            inc = []
            for k in range(R["nrows"]):
                c = [R["inpre"][j].t for j in range(k + 1)]
                if exact:
                    c.append(T.eq(lens[k], T.add(_sym(ctx, r"uf\.len_prefix_\w*"), 16)))
                c.append(R["passes"][k])
                inc.append(T.and_(*c))
            want = 0
            for k in range(R["nrows"]):
                want = T.add(want, T.ite(inc[k], R["cap"][k].t, 0))
            goals, shape, some = [], True, []
            for p_ in returns(ps):
                v = p_.value
                if not (isinstance(v, EnumV) and isinstance(v.disc, int)):
                    shape = False
                    continue
                if v.disc == 1:
                    continue
                o = v.payload(0)[0]
                if not isinstance(o, EnumV):
                    shape = False
                    continue
                if isinstance(o.disc, int) and o.disc == 0:
                    goals.append(T.implies(p_.cond(), T.not_(R["has_tip"].t)))
                    continue
                rec = o.payload(1)[0]
                if not (isinstance(rec, AggV) and getattr(rec.fields[CC["block_hash"]], "name", None) == "tip_hash" and as_int(rec.fields[CC["block_number"]]) == ctx.int("tip_number", "u64").t):
                    shape = False
                    continue
                some.append(p_.cond())
                goals.append(T.implies(p_.cond(), T.and_(R["has_tip"].t, T.eq(as_int(rec.fields[CC["capacity"]]), want))))
            S.prove(ctx, ob, f"{tag}_the_answer_carries_the_hash_and_number_of_the_newest_header_row", [], bool(shape and some))
            S.prove(ctx, ob, f"{tag}_the_capacity_is_the_sum_over_exactly_the_rows_under_the_prefix_that_pass_the_filter", pre, T.and_(*goals) if goals else False)
            S.witness(ctx, ob, f"{tag}_reach_all_rows_counted", pre, T.and_(*inc, R["has_tip"].t, *[T.gt(c.t, 0) for c in R["cap"]]))


# ------------------------------------------------------------------------------------------------ search key -> filter options, query options
def m7_filter_options(S):
    """`TryInto<FilterOptions> for IndexerSearchKey`: every filter option comes from the same-named field of the JSON filter and from nothing else: the script prefix is the raw
    data of the filter script; each range is [start, end] of its own JSON range in that order; the output data filter carries the given bytes and the given mode (Prefix when none
    is given); `with_data` defaults to true; a missing filter gives no option at all"""
    ob = "C18.m7"
    f = [x for x in S.prog.funcs if x.kind == "fn" and x.short == "try_into" and "indexer/src/service.rs" in x.name and "{closure" not in x.name and "FilterOptions" in (x.ret or "")]
    if len(f) != 1:
        raise Inconclusive(f"TryInto<FilterOptions>: {len(f)} candidates")
    f = f[0]
    smode = _enum(JT, "IndexerSearchMode")
    FO = field_index("util/indexer/src/service.rs", "FilterOptions")
    none = lambda ty: mk_option(False, None, ty)
    for scen in ("all_given", "mode_not_given", "no_filter", "with_data_false"):
        ctx = S.ctx()
        ctx.uninterpreted_unknown_calls = True
        nmx = lambda ex, v: getattr(deref(ex, v) if isinstance(v, RefV) else v, "name", "?")

        def into_u64(ex, c_, a, d):
            return ctx.int("u64(" + nmx(ex, a[0]) + ")", "u64")
        ctx.env = list(E.LOGGING_OFF) + [
            (E.rx(r"<(ckb_jsonrpc_types::)?Script as Into<(ckb_types::)?packed::Script>>::into$"), lambda ex, c_, a, d: OpaqueV("packed(" + nmx(ex, a[0]) + ")", d)),
            (E.rx(r"packed::Script::args$"), lambda ex, c_, a, d: OpaqueV("args(" + nmx(ex, a[0]) + ")", d)),
            (E.rx(r"packed::Bytes::len$"), lambda ex, c_, a, d: ctx.int("filter_script_args_len", "usize")),
            (E.rx(r"^extract_raw_data$"), lambda ex, c_, a, d: OpaqueV("raw(" + nmx(ex, a[0]) + ")", d)),
            (E.rx(r"Vec::<u8>::as_slice$|<Vec<u8> as Deref>::deref$"), lambda ex, c_, a, d: a[0]),
            (E.rx(r"Vec::<u8>::extend_from_slice$"), lambda ex, c_, a, d: (__import__("mir2smt.builtins", fromlist=["_wr"])._wr(ex, a[0], ListV(tuple(deref(ex, a[0]).items) + (OpaqueV("bytes_of(" + nmx(ex, a[1]) + ")", "segment"),), "Vec<u8>")), UNIT)[1]),
            (E.rx(r"IndexerRange::start$"), lambda ex, c_, a, d: OpaqueV("start(" + nmx(ex, a[0]) + ")", d)),
            (E.rx(r"IndexerRange::end$"), lambda ex, c_, a, d: OpaqueV("end(" + nmx(ex, a[0]) + ")", d)),
            (E.rx(r"JsonUint<u64> as Into<u64>>::into$|<u64 as From<.*JsonUint<u64>>>::from$"), into_u64),
            (E.rx(r"Capacity::shannons$"), lambda ex, c_, a, d: AggV((a[0],), "Capacity")),
            (E.rx(r"JsonBytes::as_bytes$"), lambda ex, c_, a, d: OpaqueV("bytes_of(" + nmx(ex, a[0]) + ")", d)),
            (E.rx(r"slice::<impl \[u8\]>::to_vec$"), lambda ex, c_, a, d: ListV((OpaqueV(nmx(ex, a[0]), "segment"),), "Vec<u8>")),
            (E.rx(r"Error::invalid_params::<"), lambda ex, c_, a, d: OpaqueV("invalid_params", d)),
            (E.rx(r"Option::<(ckb_jsonrpc_types::)?IndexerSearchKeyFilter>::unwrap_or_default$"), lambda ex, c_, a, d: a[0].payload(1)[0] if (isinstance(a[0], EnumV) and a[0].disc == 1) else _struct(JT, "IndexerSearchKeyFilter", {k: none("Option") for k in field_index(JT, "IndexerSearchKeyFilter")})),
            (E.rx(r"<IndexerSearchKeyFilter as Default>::default$"), lambda ex, c_, a, d: _struct(JT, "IndexerSearchKeyFilter", {k: none("Option") for k in field_index(JT, "IndexerSearchKeyFilter")})),
            (E.rx(r"^format$|must_use::<"), E.opaque_call()),
        ]
        given = scen != "no_filter"
        filt = _struct(JT, "IndexerSearchKeyFilter", {
            "script": mk_option(True, OpaqueV("json_filter_script", "Script"), "Option<Script>"),
            "script_len_range": mk_option(True, OpaqueV("json_script_len_range", "IndexerRange"), "Option<IndexerRange>"),
            "output_data": mk_option(True, OpaqueV("json_output_data", "JsonBytes"), "Option<JsonBytes>"),
            "output_data_filter_mode": mk_option(True, EnumV(smode.index("Exact"), (), "IndexerSearchMode"), "Option<IndexerSearchMode>") if scen != "mode_not_given" else none("Option<IndexerSearchMode>"),
            "output_data_len_range": mk_option(True, OpaqueV("json_output_data_len_range", "IndexerRange"), "Option<IndexerRange>"),
            "output_capacity_range": mk_option(True, OpaqueV("json_output_capacity_range", "IndexerRange"), "Option<IndexerRange>"),
            "block_range": mk_option(True, OpaqueV("json_block_range", "IndexerRange"), "Option<IndexerRange>")})
        sk = _struct(JT, "IndexerSearchKey", {
            "script": OpaqueV("search_script_json", "Script"), "script_type": EnumV(0, (), "IndexerScriptType"), "script_search_mode": none("Option<IndexerSearchMode>"),
            "filter": mk_option(True, filt, "Option<IndexerSearchKeyFilter>") if given else none("Option<IndexerSearchKeyFilter>"),
            "with_data": mk_option(True, BoolV(False), "Option<bool>") if scen == "with_data_false" else none("Option<bool>"), "group_by_transaction": none("Option<bool>")})
        ps = S.run(ctx, f, [sk])
        pre = [T.le(ctx.int("filter_script_args_len", "usize").t, 65535)]
        S.prove(ctx, ob, f"{scen}_no_panic", pre, T.not_(cond_of(panics(ps))))
        oks = [p_ for p_ in returns(ps) if isinstance(p_.value, EnumV) and p_.value.disc == 0]
        good = bool(oks)
        note = ""
        for p_ in oks:
            o = p_.value.payload(0)[0]
            g = lambda k: o.fields[FO[k]]
            def rng(v, src, conv):
                if not (isinstance(v, EnumV) and v.disc == 1):
                    return False
                arr = v.payload(1)[0]
                x, y = [conv(z) for z in arr.fields]
                return x == ctx.int(f"u64(start({src}))", "u64").t and y == ctx.int(f"u64(end({src}))", "u64").t
            if not given:
                ok = all(isinstance(g(k), EnumV) and g(k).disc == 0 for k in FO if k != "with_data") and g("with_data").t is True
            else:
                sp = g("script_prefix")
                od = g("output_data")
                ok = (isinstance(sp, EnumV) and sp.disc == 1 and [getattr(x, "name", None) for x in sp.payload(1)[0].items] == ["bytes_of(raw(packed(json_filter_script)))"]
                      and rng(g("script_len_range"), "json_script_len_range", lambda z: z.t) and rng(g("output_data_len_range"), "json_output_data_len_range", lambda z: z.t)
                      and rng(g("output_capacity_range"), "json_output_capacity_range", as_int) and rng(g("block_range"), "json_block_range", lambda z: z.t)
                      and isinstance(od, EnumV) and od.disc == 1 and [getattr(x, "name", None) for x in od.payload(1)[0].fields[0].items] == ["bytes_of(json_output_data)"]
                      and od.payload(1)[0].fields[1].disc == smode.index("Prefix" if scen == "mode_not_given" else "Exact")
                      and g("with_data").t is (scen != "with_data_false"))
            if not ok:
                good = False
                note = str(o)[:400]
        S.prove(ctx, ob, f"{scen}_every_option_comes_from_the_same_named_json_field", [], good, extra={"note": note})
        errs = [p_ for p_ in returns(ps) if isinstance(p_.value, EnumV) and p_.value.disc == 1]
        if given:
            S.prove(ctx, ob, f"{scen}_rejected_iff_the_filter_script_args_are_too_long", [], T.iff(T.or_(*[p_.cond() for p_ in errs]) if errs else False, T.gt(ctx.int("filter_script_args_len", "usize").t, 65535)))


def m8_build_query_options(S):
    """`build_query_options` (byte strings as lists of segments): the scanned prefix is the prefix byte of the searched script kind (the lock or the type table handed in) followed by
    the raw data of the searched script; ascending without cursor starts at the prefix going forward, descending without cursor starts at the prefix padded with 0xff up to the
    maximal args length going backward, with a cursor the scan starts at the cursor in the same direction and skips that one row; scripts with too long args are refused"""
    ob = "C18.m8"
    f = [x for x in S.prog.funcs if x.kind == "fn" and x.short == "build_query_options" and "{closure" not in x.name]
    if len(f) != 1:
        raise Inconclusive(f"build_query_options: {len(f)} candidates")
    f = f[0]
    stype = _enum(JT, "IndexerScriptType")
    order = _enum(JT, "IndexerOrder")
    kp = _enum_values("util/indexer/src/indexer.rs", "KeyPrefix")
    direction = ["Forward", "Reverse"]          # rocksdb::Direction, declaration order
    none = lambda ty: mk_option(False, None, ty)
    from mir2smt.builtins import _wr
    for search_type in ("Lock", "Type"):
        for ordr in ("Asc", "Desc"):
            for cursor in (False, True):
                ctx = S.ctx()
                ctx.uninterpreted_unknown_calls = True
                nmx = lambda ex, v: getattr(deref(ex, v) if isinstance(v, RefV) else v, "name", "?")
                args_len = ctx.int("search_script_args_len", "usize")

                def vec_macro(ex, c_, a, d):
                    b = a[0]
                    for _ in range(6):
                        if isinstance(b, AggV) and b.fields:
                            b = b.fields[0]
                    v = deref(ex, b) if isinstance(b, RefV) else b
                    if isinstance(v, AggV):
                        return ListV(tuple(v.fields), d)
                    raise Stop(f"vec! of {str(v)[:60]}")

                def seg(v):
                    return tuple(v.items) if isinstance(v, ListV) else (OpaqueV(getattr(v, "name", "?"), "segment"),)
                ctx.env = list(E.LOGGING_OFF) + [
                    (E.rx(r"^slice::<impl \[.*\]>::into_vec::<"), vec_macro),
                    (E.rx(r"<(ckb_jsonrpc_types::)?Script as Clone>::clone$"), lambda ex, c_, a, d: OpaqueV(nmx(ex, a[0]), d)),
                    (E.rx(r"<(ckb_jsonrpc_types::)?Script as Into<(ckb_types::)?packed::Script>>::into$"), lambda ex, c_, a, d: OpaqueV("packed(" + nmx(ex, a[0]) + ")", d)),
                    (E.rx(r"packed::Script::args$"), lambda ex, c_, a, d: OpaqueV("args(" + nmx(ex, a[0]) + ")", d)),
                    (E.rx(r"packed::Bytes::len$"), lambda ex, c_, a, d: args_len),
                    (E.rx(r"^extract_raw_data$"), lambda ex, c_, a, d: OpaqueV("raw(" + nmx(ex, a[0]) + ")", d)),
                    (E.rx(r"Vec::<u8>::as_slice$|<Vec<u8> as Deref>::deref$"), lambda ex, c_, a, d: a[0]),
                    (E.rx(r"Vec::<u8>::extend_from_slice$"), lambda ex, c_, a, d: (_wr(ex, a[0], ListV(tuple(deref(ex, a[0]).items) + seg(deref(ex, a[1]) if isinstance(a[1], RefV) else a[1]), "Vec<u8>")), UNIT)[1]),
                    (E.rx(r"<Vec<u8> as Clone>::clone$"), lambda ex, c_, a, d: deref(ex, a[0])),
                    (E.rx(r"^from_elem::<u8>$|vec::from_elem::<u8>$"), lambda ex, c_, a, d: ListV((AggV((a[0], a[1]), "fill"),), "Vec<u8>")),
                    (E.rx(r"slice::<impl \[Vec<u8>\]>::concat::<u8>$"), lambda ex, c_, a, d: ListV(tuple(x for part in (deref(ex, a[0]) if isinstance(a[0], RefV) else a[0]).fields for x in seg(part)), "Vec<u8>") if isinstance((deref(ex, a[0]) if isinstance(a[0], RefV) else a[0]), AggV) else ListV(tuple(x for part in (deref(ex, a[0]) if isinstance(a[0], RefV) else a[0]).items for x in seg(part)), "Vec<u8>")),
                    (E.rx(r"JsonBytes::as_bytes$"), lambda ex, c_, a, d: OpaqueV("bytes_of(" + nmx(ex, a[0]) + ")", d)),
                    (E.rx(r"<&\[u8\] as Into<Vec<u8>>>::into$"), lambda ex, c_, a, d: ListV(seg(deref(ex, a[0]) if isinstance(a[0], RefV) else a[0]), "Vec<u8>")),
                    (E.rx(r"Error::invalid_params::<"), lambda ex, c_, a, d: OpaqueV("invalid_params", d)),
                    (E.rx(r"^format$|must_use::<"), E.opaque_call()),
                ]
                sk = _struct(JT, "IndexerSearchKey", {
                    "script": OpaqueV("search_script_json", "Script"), "script_type": EnumV(stype.index(search_type), (), "IndexerScriptType"), "script_search_mode": none("Option<IndexerSearchMode>"),
                    "filter": none("Option<IndexerSearchKeyFilter>"), "with_data": none("Option<bool>"), "group_by_transaction": none("Option<bool>")})
                lockp, typep = kp["CellLockScript"], kp["CellTypeScript"]
                ps = S.run(ctx, f, [ctx.ref_to(sk), EnumV(lockp, (), "KeyPrefix"), EnumV(typep, (), "KeyPrefix"), EnumV(order.index(ordr), (), "IndexerOrder"),
                                    mk_option(True, OpaqueV("cursor_json", "JsonBytes"), "Option<JsonBytes>") if cursor else none("Option<JsonBytes>")])
                tag = f"{search_type}_{ordr}_{'cursor' if cursor else 'start'}"
                S.prove(ctx, ob, f"{tag}_no_panic", [], T.not_(cond_of(panics(ps))))
                oks = [p_ for p_ in returns(ps) if isinstance(p_.value, EnumV) and p_.value.disc == 0]
                errs = [p_ for p_ in returns(ps) if isinstance(p_.value, EnumV) and p_.value.disc == 1]
                S.prove(ctx, ob, f"{tag}_refused_iff_the_args_are_longer_than_the_maximum", [], T.iff(T.or_(*[p_.cond() for p_ in errs]) if errs else False, T.gt(args_len.t, 65535)))
                good, note = bool(oks), ""

                def show(v):
                    out = []
                    for x in (v.items if isinstance(v, ListV) else ()):
                        if isinstance(x, IntV):
                            out.append(x.t)
                        elif isinstance(x, AggV) and x.ty == "fill":
                            out.append(("fill",) + tuple(getattr(z, "t", getattr(z, "name", str(z)[:30])) for z in x.fields))
                        else:
                            out.append(getattr(x, "name", str(x)[:30]))
                    return out
                want_prefix = [lockp if search_type == "Lock" else typep, "raw(packed(search_script_json))"]
                fill_byte = next((x[1] for p_ in oks for x in show(p_.value.payload(0)[0].fields[1]) if isinstance(x, tuple) and x[0] == "fill"), None)
                if fill_byte not in (255, "const.u8__MAX", None):           # 0xff is written `u8::MAX` by the compiler
                    fill_byte = "not 0xff"
                for p_ in oks:
                    prefix, from_key, dirv, skip = p_.value.payload(0)[0].fields
                    ok = show(prefix) == want_prefix
                    if cursor:
                        ok = ok and show(from_key) == ["bytes_of(cursor_json)"] and skip.t == 1
                    elif ordr == "Asc":
                        ok = ok and show(from_key) == want_prefix and skip.t == 0
                    else:
                        ok = ok and show(from_key) == want_prefix + [("fill", fill_byte, T.sub(65535, args_len.t))] and skip.t == 0
                    wantd = "Forward" if ordr == "Asc" else "Reverse"
                    ok = ok and ((isinstance(dirv, EnumV) and dirv.disc == direction.index(wantd)) or re.fullmatch(r"enumconst\.(\w+__)?" + wantd, str(getattr(dirv, "name", ""))) is not None)
                    if not ok:
                        good = False
                        note = str((show(prefix), show(from_key), str(dirv)[:40], skip.t))
                S.prove(ctx, ob, f"{tag}_prefix_start_key_direction_and_skip", [], good, extra={"note": note})
