"""C17 — sync bookkeeping: skip-list ancestor lookup and locator arithmetic (engine M).
The orphan pool, in-flight table and header map are hash/B-tree/sled containers with symbolic keys and are outside."""
from mir2smt.ob import *
from mir2smt import terms as T
from mir2smt.exec import OpaqueV, IntV, BoolV, AggV, EnumV, RefV, UNIT, Stop, mk_option
from mir2smt import envlib as E
from mir2smt.builtins import deref

CRATES = ["ckb-constant", "ckb-occupied-capacity-core", "ckb-types", "ckb-shared", "ckb-sync", "ckb-chain"]
U64 = (1 << 64) - 1
I63 = (1 << 63) - 1


def skip_paths(S, ctx, h):
    return S.run(ctx, "get_skip_height", [h])


def m1_skip_height(S):
    ob = "C17.m1"
    ctx = S.ctx()
    h = ctx.int("h", "u64")
    ps = skip_paths(S, ctx, h)
    v = merged(ps, as_int)
    S.prove(ctx, ob, "no_panic", [T.le(h.t, I63)], T.not_(cond_of(panics(ps))))
    S.prove(ctx, ob, "zero_below_two", [T.lt(h.t, 2)], T.eq(v, 0))
    S.prove(ctx, ob, "strictly_below_height", [T.ge(h.t, 1), T.le(h.t, I63)], T.lt(v, h.t))
    S.prove(ctx, ob, "non_negative_and_casts_exact", [T.le(h.t, I63)], T.and_(T.le(0, v), T.le(v, I63)))
    S.witness(ctx, ob, "reach_even", [T.ge(h.t, 2), T.eq(T.emod(h.t, 2), 0)], T.gt(v, 0))
    S.witness(ctx, ob, "reach_odd", [T.ge(h.t, 3), T.eq(T.emod(h.t, 2), 1)], T.gt(v, 1))


def m2_ancestor_step(S):
    """one iteration of HeaderIndexView::get_ancestor: progress without overshoot, skip pointer only when it lands
    at or above the target; with the data invariant (skip_hash -> ancestor at skip(h), parent_hash -> h-1) the loop
    invariant `current is the ancestor at number_walk` is inductive, so the result equals parent-by-parent walking"""
    ob = "C17.m2"
    ctx = S.ctx()
    cur = OpaqueV("cur", "HeaderIndexView")
    number = ctx.int("number", "u64")
    tip = ctx.int("tip", "u64")
    cn = ctx.int("cur.1", "u64").t          # HeaderIndexView.number (field index checked by the getter below)
    ps0 = S.run(ctx, "HeaderIndexView::number", [ctx.ref_to(cur)])
    S.prove(ctx, ob, "layout_number_field", [], T.eq(merged(ps0, as_int), cn))

    def call_closure(ex, callee, args, dty):
        fv = deref(ex, args[0])
        tup = args[1]
        name = getattr(fv, "name", "?")
        vals = [E.snapshot(ex, a) for a in (tup.fields if isinstance(tup, AggV) else [])]
        if name == "get_header_view":
            nw = E.debug_value(ex, "number_walk")
            ex.log.append(("fetch", callee, vals, list(ex.pc), nw))
            n = len([e for e in ex.log if e[0] == "fetch"])
            return mk_option(True, OpaqueV(f"fetched{n}", "HeaderIndexView"), dty)
        if name == "fast_scanner":
            nw = E.debug_value(ex, "number_walk")
            ex.log.append(("scan", callee, vals, list(ex.pc), nw))
            return mk_option(True, OpaqueV("scanned", "HeaderIndexView"), dty)    # ends the loop after this iteration
        raise Inconclusive("unknown closure " + name)

    ctx.env = [(E.rx(r"as Fn(Mut|Once)?<\(.*\)>>::call(_mut|_once)?$"), call_closure),
               (E.rx(r"HeaderIndexView as Clone>::clone"), lambda ex, c, a, d: deref(ex, a[0])),
               (E.rx(r"Byte32 as Clone>::clone|HeaderIndexView::(hash|parent_hash)$"), lambda ex, c, a, d: OpaqueV("hashof." + deref(ex, a[0]).name, "Byte32")),
               (E.rx(r"BlockNumberAndHash as From|Into<BlockNumberAndHash>"), E.opaque_call())]
    fn = S.fn("HeaderIndexView::get_ancestor")
    args = [ctx.ref_to(cur), tip, number, OpaqueV("get_header_view", "F"), OpaqueV("fast_scanner", "G")]
    pre = [T.le(cn, I63)]
    ps = S.run(ctx, fn, args, assume=pre)
    S.prove(ctx, ob, "no_panic", pre, T.not_(cond_of(panics(ps))))
    none = T.or_(*[T.and_(p.cond(), T.eq(p.value.disc, 0)) for p in returns(ps)])
    S.prove(ctx, ob, "none_iff_target_above_start", pre, T.iff(none, T.gt(number.t, cn)))
    # skip height of the current position, from the real function
    hsym = ctx.int("cur.1", "u64")
    sk = merged(skip_paths(S, ctx, hsym), as_int)
    took_skip_any = []
    for k, p in enumerate(returns(ps)):
        fetch = [e for e in p.log if e[0] == "fetch"]
        scan = [e for e in p.log if e[0] == "scan"]
        c = pre + [p.cond()]
        if not fetch:
            # no iteration: target == start height
            S.prove(ctx, ob, f"path{k}_no_walk_means_target_reached_or_above", c, T.ge(number.t, cn))
            continue
        arg_hash = fetch[0][2][0]
        store_first = fetch[0][2][1]
        nw_after = as_int(scan[0][4]) if scan else None
        is_skip = isinstance(arg_hash, OpaqueV) and arg_hash.name.startswith("cur.6")
        is_parent = isinstance(arg_hash, OpaqueV) and arg_hash.name == "hashof.cur"
        S.prove(ctx, ob, f"path{k}_fetch_is_skip_or_parent_pointer_of_current", c, bool(is_skip or is_parent))
        S.prove(ctx, ob, f"path{k}_store_first_flag", c, T.iff(as_bool(store_first), T.le(cn, tip.t)))
        if nw_after is None:
            raise Inconclusive("fast_scanner call not observed")
        S.prove(ctx, ob, f"path{k}_progress_without_overshoot", c, T.and_(T.le(number.t, nw_after), T.lt(nw_after, cn)))
        if is_skip:
            S.prove(ctx, ob, f"path{k}_skip_lands_on_skip_height", c, T.eq(nw_after, sk))
            took_skip_any.append(p.cond())
        else:
            S.prove(ctx, ob, f"path{k}_parent_step_is_minus_one", c, T.eq(nw_after, T.sub(cn, 1)))
        # the scanner is consulted with the target number
        S.prove(ctx, ob, f"path{k}_scanner_gets_target_number", c, T.eq(as_int(scan[0][2][0]), number.t))
    S.witness(ctx, ob, "reach_skip_branch", pre, T.or_(*took_skip_any) if took_skip_any else False)


def m3_header_view_codec(S):
    """HeaderIndexView spills to the backend as bytes: `from_slice_should_be_ok` reads every field from exactly the byte range
    `to_vec` wrote it to (layout symmetry of the private codec), incl. the optional skip hash (88 vs 120 bytes)"""
    ob = "C17.m3"
    from mir2smt.exec import SliceV, ListV, mk_result
    # ---- encoder: order and widths of the writes
    ctx = S.ctx()
    ctx.uninterpreted_unknown_calls = True
    writes = []

    def nm(ex, v):
        v = deref(ex, v)
        if isinstance(v, IntV):
            return T.to_smt(v.t)
        return getattr(v, "name", None) or type(v).__name__

    def extend(ex, callee, args, dty):
        a = deref(ex, args[1])
        writes.append((ex_path_id(ex), getattr(a, "name", "?"), getattr(a, "ty", "")))
        return UNIT

    def ex_path_id(ex):
        return id(ex)

    ctx.env = [
        (E.rx(r"Vec::<u8>::new$"), lambda ex, c, a, d: OpaqueV("out", d)),
        (E.rx(r"impl u64>::to_le_bytes$"), lambda ex, c, a, d: OpaqueV("le8(" + T.to_smt(as_int(a[0])) + ")", "8")),
        (E.rx(r"impl \[u8; 8\]>::as_slice$"), lambda ex, c, a, d: deref(ex, a[0])),
        (E.rx(r"Byte32 as .*Entity>::as_slice$"), lambda ex, c, a, d: OpaqueV("b32(" + nm(ex, a[0]) + ")", "32")),
        (E.rx(r"U256>::to_le_bytes$"), lambda ex, c, a, d: OpaqueV("le32(" + nm(ex, a[0]) + ")", "32")),
        (E.rx(r"impl \[u8; 32\]>::as_slice$"), lambda ex, c, a, d: deref(ex, a[0])),
        (E.rx(r"Vec::<u8>::extend_from_slice$"), extend),
    ]
    hv = OpaqueV("hv", "HeaderIndexView")
    enc = S.fn("HeaderIndexView::to_vec")
    ps = S.run(ctx, enc, [ctx.ref_to(hv)])
    S.prove(ctx, ob, "to_vec_no_panic", [], T.not_(cond_of(panics(ps))))
    # group writes per path: two paths (skip hash present / absent)
    by_path = {}
    for pid, name, w in writes:
        by_path.setdefault(pid, []).append((name, int(w)))
    layouts = set()
    for pid, ws in by_path.items():
        off = 0
        lay = []
        for name, w in ws:
            lay.append((name, off, off + w))
            off += w
        layouts.add((tuple(lay), off))
    # field symbol names of hv: number .1, epoch .2(.0), timestamp .3, parent_hash .4, total_difficulty .5, skip_hash .6
    # ---- decoder: which range feeds which field
    ctx2 = S.ctx()
    ctx2.uninterpreted_unknown_calls = True
    L = ctx2.int("len", "usize")
    sl = SliceV("spill", 0, L.t)

    def rng(v):
        v = v if isinstance(v, SliceV) else None
        return (v.off, T.add(v.off, v.len)) if v is not None else None

    def from_le(ex, callee, args, dty):
        a = deref(ex, args[0])
        return ex.ctx.int("u64le_" + getattr(a, "name", "x"), "u64")

    def try_into(ex, callee, args, dty):
        a = deref(ex, args[0])
        r = rng(a)
        return mk_result(T.eq(a.len, 8), OpaqueV(f"r{r[0]}_{r[1]}", "[u8; 8]"), OpaqueV("tfe", "TryFromSliceError"), dty)

    def b32(ex, callee, args, dty):
        a = deref(ex, args[0])
        r = rng(a)
        if isinstance(a, SliceV):
            if not ex.decide(T.eq(a.len, 32)):
                from mir2smt.exec import Panic
                raise Panic("from_slice_should_be_ok on a slice that is not 32 bytes")
            return OpaqueV(f"b32_{a.buf}_{r[0]}_{r[1]}", dty)
        return OpaqueV("b32_" + getattr(a, "name", "x"), dty)

    def u256le(ex, callee, args, dty):
        a = deref(ex, args[0])
        r = rng(a)
        return mk_result(T.eq(a.len, 32), OpaqueV(f"u256le_{r[0]}_{r[1]}", "U256"), OpaqueV("fue", "FixedUintError"), dty)

    ctx2.env = [
        (E.rx(r"FromSliceShouldBeOk<'_>>::from_slice_should_be_ok$"), b32),
        (E.rx(r"Reader<'_>>::to_entity$"), lambda ex, c, a, d: deref(ex, a[0])),
        (E.rx(r"as TryInto<\[u8; 8\]>>::try_into$"), try_into),
        (E.rx(r"impl u64>::from_le_bytes$"), from_le),
        (E.rx(r"U256>::from_little_endian$"), u256le),
    ]
    dec = S.fn("HeaderIndexView::from_slice_should_be_ok")
    hashsl = SliceV("hashbuf", 0, 32)
    ps2 = S.run(ctx2, dec, [hashsl, sl])
    pre_len = [T.or_(T.eq(L.t, 88), T.eq(L.t, 120))]
    S.prove(ctx2, ob, "decode_no_panic_on_88_or_120_bytes", pre_len, T.not_(cond_of(panics(ps2))))
    expected = {1: ("u64le_r0_8", None), 3: ("u64le_r16_24", None), 4: ("b32_spill_24_56", None), 5: ("u256le_56_88", None)}
    for k, p in enumerate(returns(ps2)):
        v = p.value
        fs = v.fields
        got = {i: (getattr(fs[i], "name", None) or T.to_smt(as_int(fs[i]) if not isinstance(fs[i], (OpaqueV, EnumV)) else 0)) for i in (1, 3, 4, 5)}
        okflow = got[1] == "u64le_r0_8" and got[3] == "u64le_r16_24" and got[4] == "b32_spill_24_56" and got[5] == "u256le_56_88"
        ep = T.to_smt(as_int(fs[2]))
        okflow = okflow and "u64le_r8_16" in ep and "u64le_r0_8" not in ep and "u64le_r16_24" not in ep
        skip = fs[6]
        if isinstance(skip, EnumV) and skip.disc == 1:
            okskip = getattr(skip.payload(1)[0], "name", "") == "b32_spill_88_120"
            S.prove(ctx2, ob, f"path{k}_skip_hash_read_from_bytes_88_120_only_when_len_120", [p.cond()], T.and_(bool(okskip), T.eq(L.t, 120)))
        else:
            S.prove(ctx2, ob, f"path{k}_no_skip_hash_when_len_is_not_120", [p.cond()], T.ne(L.t, 120))
        S.prove(ctx2, ob, f"path{k}_fields_read_from_their_own_ranges", [p.cond()], bool(okflow))
    # encoder layout equals the ranges the decoder reads
    want88 = (("le8(hv.1)", 0, 8), ("le8", 8, 16), ("le8(hv.3)", 16, 24), ("b32(hv.4)", 24, 56), ("le32(hv.5)", 56, 88))
    layouts = {(lay, tot) for (lay, tot) in layouts if tot in (88, 120) or True}
    def lay_ok(lay, total):
        if total not in (88, 120) or len(lay) not in (5, 6):
            return False
        for (name, a, b), (wn, wa, wb) in zip(lay, want88):
            if (a, b) != (wa, wb) or not name.startswith(wn.split("(")[0]) or (("hv." in wn) and wn != name):
                return False
        if "hv.2" not in lay[1][0]:
            return False
        if total == 120:
            return lay[5][1:] == (88, 120) and lay[5][0].startswith("b32(") and "hv.6" in lay[5][0]
        return len(lay) == 5
    S.prove(ctx, ob, "to_vec_writes_fields_at_the_offsets_the_decoder_reads", [], bool(len(layouts) == 2 and all(lay_ok(l, t) for l, t in layouts)))


def locator_spec(n, one_day=8192):
    """heights a locator built from a start at height n must contain (the documented schedule: the 10 most recent heights one by one,
    then the step doubles after every entry; below twice the step: halve the height while it is above ONE_DAY and fewer than 52 entries, then
    genesis) -- written from the RFC/comment, independent of the code's control flow"""
    hs, step, idx = [], 1, n
    while True:
        hs.append(idx)
        if len(hs) >= 10:
            step *= 2
        if idx < step * 2:
            if len(hs) < 52 and idx > one_day:
                idx //= 2
                continue
            if idx != 0:
                hs.append(0)
            return hs
        idx -= step


def m4_locator(S):
    """ActiveChain::get_locator: every entry is the hash of `get_ancestor(previous entry, height)` -- i.e. an ancestor of the start block found by
    the same ancestor lookup C17.m2 decides -- the first lookup starts from the start block itself at its own height, heights strictly decrease
    following the locator schedule, the subtraction never underflows, and the list ends with the genesis hash; start heights 0..N
    (N = 600 quick / 3000 thorough; above ONE_DAY_BLOCK_NUMBER the halving branch is outside the bound)"""
    ob = "C17.m4"
    N = 600 if getattr(S, "tier", "quick") == "quick" else 3000
    f = [x for x in S.prog.funcs if x.kind == "fn" and x.short == "get_locator" and "sync/src/types/mod.rs" in x.name]
    if len(f) != 1:
        raise Inconclusive(f"get_locator: {len(f)} candidates")
    ctx = S.ctx(unwind=80)
    ctx.uninterpreted_unknown_calls = True
    ctx.max_paths = 5000
    ctx.prune_with_solver = True      # loop exits depend on the path condition (n - k >= 2*step): infeasible sides are pruned by the solver
    n = ctx.int("start_number", "u64")
    ctx.add_side(T.le(n.t, N))

    def nm(ex, v):
        v = deref(ex, v)
        return getattr(v, "name", None) or type(v).__name__

    def get_ancestor(ex, c, a, d):
        k = len([e for e in ex.log if e[0] == "ancestor"])
        ex.log.append(("ancestor", c, [nm(ex, a[1]), deref(ex, a[2]).t], list(ex.pc)))
        return mk_option(True, OpaqueV(f"anc{k}", "HeaderIndexView"), d)
    ctx.env = [
        (E.rx(r"BlockNumberAndHash::number$"), lambda ex, c, a, d: n),
        (E.rx(r"BlockNumberAndHash::hash$"), lambda ex, c, a, d: OpaqueV("start_hash", d)),
        (E.rx(r"ActiveChain::get_ancestor$"), get_ancestor),
        (E.rx(r"HeaderIndexView::hash$"), lambda ex, c, a, d: OpaqueV("hash_of." + nm(ex, a[0]), d)),
        (E.rx(r"Consensus::genesis_hash$"), lambda ex, c, a, d: OpaqueV("genesis_hash", d)),
        (E.rx(r"SyncShared::consensus$"), E.opaque_call()),
        (E.rx(r"Byte32 as Clone>::clone$"), lambda ex, c, a, d: deref(ex, a[0])),
    ]
    ps = S.run(ctx, f[0], [ctx.ref_to(OpaqueV("chain", "ActiveChain")), OpaqueV("start", "BlockNumberAndHash")])
    S.prove(ctx, ob, "no_panic_no_underflow", [], T.not_(cond_of(panics(ps))))
    rs = returns(ps)
    covered = T.or_(*[p.cond() for p in rs])
    S.prove(ctx, ob, "every_start_height_in_the_bound_returns", [], covered)
    from mir2smt.exec import ListV
    bad_chain, bad_sched, bad_list = [], [], []
    for p in rs:
        anc = [e[2] for e in p.log if e[0] == "ancestor"]
        # chaining: first from the start hash, then from the previous entry
        for k, (base, idx) in enumerate(anc):
            want = "start_hash" if k == 0 else f"hash_of.anc{k - 1}"
            if base != want:
                bad_chain.append(p.cond())
        # returned list = hashes of the ancestors in order (+ genesis)
        v = p.value
        items = [getattr(x, "name", "?") for x in v.items] if isinstance(v, ListV) else None
        if items is None:
            bad_list.append(p.cond())
            continue
        exp = [f"hash_of.anc{k}" for k in range(len(anc))]
        if items not in (exp, exp + ["genesis_hash"]):
            bad_list.append(p.cond())
        # schedule: under this path's condition the heights are exactly the specified ones for every n it covers
        eqs = []
        for nn in range(N + 1):
            hs = locator_spec(nn)
            looked = hs if hs[-1] != 0 or len(hs) == 1 or nn == 0 else hs[:-1]
            # the last 0 is the appended genesis (not a lookup) unless the walk itself reached height 0
            walk = locator_walk_heights(nn)
            ok_shape = len(walk) == len(anc) and (items == exp + ["genesis_hash"]) == (walk[-1] != 0)
            if ok_shape:
                eqs.append(T.and_(T.eq(n.t, nn), *[T.eq(idx, h) for (_, idx), h in zip(anc, walk)]))
            else:
                eqs.append(T.and_(T.eq(n.t, nn), False))
        bad_sched.append(T.and_(p.cond(), T.not_(T.or_(*eqs))))
    S.prove(ctx, ob, "each_lookup_starts_from_the_previous_entry", [], T.not_(T.or_(*bad_chain)) if bad_chain else True)
    S.prove(ctx, ob, "locator_is_the_ancestor_hashes_then_genesis", [], T.not_(T.or_(*bad_list)) if bad_list else True)
    S.prove(ctx, ob, "heights_follow_the_locator_schedule", [], T.not_(T.or_(*bad_sched)), timeout_s=300)
    S.witness(ctx, ob, "reach_doubling", [], T.and_(covered, T.gt(n.t, 40)))


def locator_walk_heights(n, one_day=8192):
    """heights actually looked up (the spec list without the appended genesis entry)"""
    hs = locator_spec(n, one_day)
    # locator_spec appends 0 for the genesis hash when the walk stopped above 0
    walk, step, idx = [], 1, n
    out = []
    k = 0
    # recompute the walk part only: all entries except a trailing appended genesis
    full = hs
    if len(full) >= 2 and full[-1] == 0 and full[-2] != 0 and not (full[-2] - 0 == 0):
        # trailing 0 may be either a real lookup at height 0 or the appended genesis: decide by re-simulating
        pass
    hs2, step, idx = [], 1, n
    while True:
        hs2.append(idx)
        if len(hs2) >= 10:
            step *= 2
        if idx < step * 2:
            if len(hs2) < 52 and idx > one_day:
                idx //= 2
                continue
            return hs2
        idx -= step


def m5_fast_path_reads_one_snapshot(S):
    """The main-chain shortcut of `ActiveChain::get_ancestor_internal` (used by get_ancestor, get_locator, last_common_ancestor) replaces the parent walk by a number->hash lookup
    when the current block is on the main chain and not above the tip.  That is only equal to walking parent links if the three answers -- `is_main_chain`, `tip_number` and
    `get_block_hash` -- come from the *same* chain view: all three must read the snapshot captured in the ActiveChain (a live-store read could already reflect a later reorganisation).
    Also: the closure takes the shortcut only under `current.number <= tip_number && on_chain(current.hash)` (read from the source of the closure, which MIR keeps as a separate body)."""
    ob = "C17.m5"
    from mir2smt.srcinfo import struct_fields
    fields = struct_fields("sync/src/types/mod.rs", "ActiveChain")
    for short, snap_method in (("get_block_hash", "get_block_hash"), ("is_main_chain", "is_main_chain"), ("tip_number", "tip_number")):
        f = [x for x in S.prog.funcs if x.kind == "fn" and x.short == short and re.search(r"impl ActiveChain\b", x.impl_header or "")]
        if len(f) != 1:
            raise Inconclusive(f"ActiveChain::{short}: {len(f)} candidates")
        ctx = S.ctx()
        reads = []

        def nmv(ex, v):
            v = deref(ex, v)
            return getattr(v, "name", None) or type(v).__name__

        def read(ex, c, a, d, reads=reads):
            reads.append((c, nmv(ex, a[0])))
            return ex.ctx.fresh_of_type("answer", d) if d.strip() in ("bool", "u64") else OpaqueV("answer", d)
        ctx.env = [
            (E.rx(r"SyncShared::(store|shared|state)$"), lambda ex, c, a, d: ex.ctx.ref_to(OpaqueV("live_" + c.split("::")[-1], "?"))),
            (E.rx(r"as Deref>::deref$"), lambda ex, c, a, d: ex.ctx.ref_to(OpaqueV(nmv(ex, a[0]), "?"))),
            (E.rx(r"(Snapshot|ChainDB|ChainStore>?|Shared)::" + snap_method + "$"), read),
        ]
        me = AggV(tuple(OpaqueV("field_" + n, "?") for n in fields), "ActiveChain")
        args = [ctx.ref_to(me)] + ([ctx.int("number", "u64")] if short == "get_block_hash" else [ctx.ref_to(OpaqueV("hash", "Byte32"))] if short == "is_main_chain" else [])
        ps = S.run(ctx, f[0], args)
        S.prove(ctx, ob, f"ActiveChain_{short}_answers_from_the_captured_snapshot", [], bool(len(reads) == 1 and reads[0][1] == "field_snapshot" and not panics(ps) and len(returns(ps)) >= 1),
                extra={"note": str(reads)})
    # the shortcut closure itself (a separate MIR body): taken iff current.number <= tip_number and the on-chain test of current.hash holds; it then asks get_block_hash for
    # the *target* number and looks that hash up in the header index
    cl = [x for x in S.prog.funcs if "get_ancestor_internal::{closure#" in x.name and len(x.params) == 3 and "BlockNumberAndHash" in x.params[2][1]]
    if len(cl) != 1:
        raise Inconclusive(f"fast scanner closure: {len(cl)} candidates")
    ctx = S.ctx()
    on_chain = ctx.bool("current_is_on_chain"); known = ctx.bool("number_has_main_chain_hash")
    number = ctx.int("target_number", "u64")
    asked, looked, tested = [], [], []

    def nmv(ex, v):
        v = deref(ex, v)
        return getattr(v, "name", None) or type(v).__name__

    def gbh(ex, c, a, d):
        asked.append((deref(ex, a[1]).t, list(ex.pc)))
        return mk_option(known.t, OpaqueV("main_chain_hash_at_target", "Byte32"), d)

    def ghiv(ex, c, a, d):
        looked.append((nmv(ex, a[1]), list(ex.pc)))
        return mk_option(ex.ctx.bool("view_known").t, OpaqueV("view_of_main_chain_hash", "HeaderIndexView"), d)

    def onchain(ex, c, a, d):
        x = deref(ex, a[1]) if len(a) > 1 else None
        if isinstance(x, AggV) and x.fields:      # Fn::call passes the arguments as a tuple
            x = x.fields[0]
        tested.append(nmv(ex, x) if x is not None else "?")
        return on_chain
    ctx.env = [
        (E.rx(r"ActiveChain::get_block_hash$"), gbh),
        (E.rx(r"SyncShared::get_header_index_view$"), ghiv),
        (E.rx(r"\{closure@sync/src/types/mod\.rs:[^}]*\} as Fn<\(&.*Byte32,\)>>::call$|ActiveChain::(is_main_chain|is_unverified_chain)$"), onchain),
    ]
    cur = AggV((ctx.int("current_number", "u64"), OpaqueV("current_hash", "Byte32")), "BlockNumberAndHash")
    fi = {n: i for i, n in enumerate(struct_fields("util/types/src/core/extras.rs", "BlockNumberAndHash"))} if False else None
    ps = S.run(ctx, cl[0], [ctx.ref_to(OpaqueV("captures", cl[0].params[0][1].lstrip("&"))), number, cur])
    S.prove(ctx, ob, "shortcut_closure_no_panic", [], T.not_(cond_of(panics(ps))))
    tipsyms = [n for n in ctx.decls if n.startswith("captures.")]
    taken = T.or_(*[T.and_(*pc) for _, pc in asked]) if asked else False
    S.prove(ctx, ob, "shortcut_reads_exactly_one_captured_integer_the_tip_number", [], bool(len(tipsyms) == 1), extra={"note": str(tipsyms)})
    if len(tipsyms) == 1:
        tipn = T.var(tipsyms[0])
        S.prove(ctx, ob, "shortcut_taken_iff_current_not_above_tip_and_on_chain", [], T.iff(taken, T.and_(T.le(T.var("current_number"), tipn), on_chain.t)))
    S.prove(ctx, ob, "on_chain_test_is_about_the_current_hash", [], bool(tested and all(t == "current_hash" for t in tested)), extra={"note": str(tested)})
    S.prove(ctx, ob, "shortcut_asks_for_the_target_number", [], bool(asked) and T.and_(*[T.implies(T.and_(*pc), T.eq(t, number.t)) for t, pc in asked]))
    S.prove(ctx, ob, "shortcut_looks_up_the_main_chain_hash_it_got", [], bool(looked and all(n == "main_chain_hash_at_target" for n, _ in looked)), extra={"note": str(looked)})
    rs = returns(ps)
    some = [p for p in rs if isinstance(p.value, EnumV) and p.value.disc != 0 and p.value.payload(1)]
    S.prove(ctx, ob, "shortcut_result_is_the_view_of_that_hash", [], bool(some and all(nmv(None, p.value.payload(1)[0]) == "view_of_main_chain_hash" for p in some)),
            extra={"note": str([nmv(None, p.value.payload(1)[0]) for p in some])})
    S.witness(ctx, ob, "reach_shortcut", [], taken)


def m6_header_map_two_tiers_refine_a_plain_map(S):
    """`HeaderMapKernel` (memory tier + spill backend) answers like ONE plain map, whatever is where: with the abstract lookup
    A(k) = memory(k) if present else backend(k), one call of contains_key / get / insert / remove from an ARBITRARY tier state (key h in memory, in the backend, in both -- a stale
    spilled copy under a re-inserted key -- or in neither) has exactly the plain-map effect on h and touches no other key: contains_key = (A(h) present), get returns A(h) and
    leaves A unchanged (the entry moves to memory), insert makes A(h) the inserted view, remove makes A(h) absent in BOTH tiers.  Inductive step, so any history of operations
    and spills.  The tiers themselves (MemoryMap = LinkedHashMap, sled/rocksdb backend) are environment symbols with the contract of a map; `limit_memory` is judged by
    provenance: what is written to the backend is what is then removed from memory."""
    ob = "C17.m6"
    from mir2smt.srcinfo import struct_fields
    fields = struct_fields("shared/src/types/header_map/kernel_lru.rs", "HeaderMapKernel")
    fields = [f for f in fields if f != "stats"]

    def fn(short):
        f = [x for x in S.prog.funcs if x.kind == "fn" and x.short == short and "header_map/kernel_lru.rs" in x.name and re.search(r"HeaderMapKernel<Backend>", x.params[0][1] if x.params else "")]
        if len(f) != 1:
            raise Inconclusive(f"HeaderMapKernel::{short}: {len(f)} candidates")
        return f[0]

    def setup():
        ctx = S.ctx()
        st0 = {"mem": ctx.bool("h_in_memory").t, "mv": ctx.int("memory_view_of_h", "u64").t, "back": ctx.bool("h_in_backend").t, "bv": ctx.int("backend_view_of_h", "u64").t}
        back_empty = ctx.bool("backend_is_empty")
        inv = [T.implies(back_empty.t, T.not_(st0["back"]))]

        def nmv(ex, v):
            v = deref(ex, v)
            return getattr(v, "name", None) or type(v).__name__

        def fold(log):
            st = dict(st0)
            for e in log:
                if e[0] != "tier":
                    continue
                op, arg = e[2][0], e[2][2]
                if op == "mem_remove":
                    st["mem"] = False
                elif op == "mem_insert":
                    st["mem"] = True
                    st["mv"] = arg
                elif op in ("back_remove", "back_remove_no_return"):
                    st["back"] = False
            return st

        def tier(op, ret):
            def h(ex, c, a, d):
                st = fold(ex.log)
                key = nmv(ex, a[1]) if len(a) > 1 else ""
                arg = deref(ex, a[1]).t if len(a) > 1 and isinstance(deref(ex, a[1]), IntV) else None
                ex.log.append(("tier", c, [op, key, arg], list(ex.pc)))
                return ret(ex, st, d)
            return h
        me = AggV(tuple(OpaqueV("tier_" + n, "?") for n in fields), "HeaderMapKernel")
        ctx.env = list(E.LOGGING_OFF) + [
            (E.rx(r"as Deref>::deref$"), lambda ex, c, a, d: ex.ctx.ref_to(OpaqueV(nmv(ex, a[0]), "?"))),
            (E.rx(r"AtomicBool::load$"), lambda ex, c, a, d: ex.ctx.bool("ibd_finished")),
            (E.rx(r"MemoryMap::contains_key$"), tier("mem_contains", lambda ex, st, d: BoolV(st["mem"]))),
            (E.rx(r"MemoryMap::get_refresh$"), tier("mem_get", lambda ex, st, d: mk_option(st["mem"], IntV(st["mv"], "u64"), d))),
            (E.rx(r"MemoryMap::insert$"), tier("mem_insert", lambda ex, st, d: mk_option(ex.ctx.bool("was_new").t, UNIT, d))),
            (E.rx(r"MemoryMap::remove$"), tier("mem_remove", lambda ex, st, d: UNIT if d.strip() in ("()", "") else mk_option(st["mem"], IntV(st["mv"], "u64"), d))),
            (E.rx(r"KeyValueBackend>::is_empty$"), lambda ex, c, a, d: back_empty),
            (E.rx(r"KeyValueBackend>::contains_key$"), tier("back_contains", lambda ex, st, d: BoolV(st["back"]))),
            (E.rx(r"KeyValueBackend>::remove$"), tier("back_remove", lambda ex, st, d: mk_option(st["back"], IntV(st["bv"], "u64"), d))),
            (E.rx(r"KeyValueBackend>::remove_no_return$"), tier("back_remove_no_return", lambda ex, st, d: UNIT)),
            (E.rx(r"HeaderIndexView as Clone>::clone$"), lambda ex, c, a, d: deref(ex, a[0])),
        ]
        return ctx, st0, inv, fold, me

    def lookup(st):
        """abstract lookup of h: (present, view)"""
        return T.or_(st["mem"], st["back"]), T.ite(st["mem"], st["mv"], st["bv"])

    def frame(ps):
        keys = [(e[2][0], e[2][1]) for p in ps for e in p.log if e[0] == "tier"]
        return keys
    WRITES = ("mem_remove", "mem_insert", "back_remove", "back_remove_no_return")
    # ---- contains_key
    ctx, st0, inv, fold, me = setup()
    ps = S.run(ctx, fn("contains_key"), [ctx.ref_to(me), ctx.ref_to(OpaqueV("h", "Byte32"))])
    S.prove(ctx, ob, "contains_key_no_panic", inv, T.not_(cond_of(panics(ps))))
    S.prove(ctx, ob, "contains_key_is_presence_in_the_abstract_map", inv, T.iff(merged(ps, as_bool), lookup(st0)[0]))
    S.prove(ctx, ob, "contains_key_reads_only_key_h_and_writes_nothing", [], bool(all(k == "h" and op not in WRITES for op, k in frame(ps))), extra={"note": str(frame(ps))})
    # ---- get
    ctx, st0, inv, fold, me = setup()
    ps = S.run(ctx, fn("get"), [ctx.ref_to(me), ctx.ref_to(OpaqueV("h", "Byte32"))])
    S.prove(ctx, ob, "get_no_panic", inv, T.not_(cond_of(panics(ps))))
    pres0, val0 = lookup(st0)
    bad = []
    for p in returns(ps):
        v = p.value
        some = T.eq(v.disc, 1) if isinstance(v, EnumV) and not isinstance(v.disc, int) else (bool(v.disc == 1) if isinstance(v, EnumV) else None)
        if some is None:
            raise Inconclusive("get: unexpected return value")
        pay = v.payload(1)[0].t if isinstance(v, EnumV) and v.disc != 0 and v.payload(1) else None
        st1 = fold(p.log)
        pres1, val1 = lookup(st1)
        ok = T.and_(T.iff(some, pres0), T.implies(pres0, T.eq(pay, val0)) if pay is not None else T.not_(pres0), T.iff(pres1, pres0), T.implies(pres0, T.eq(val1, val0)))
        bad.append(T.and_(p.cond(), T.not_(ok)))
    S.prove(ctx, ob, "get_returns_the_abstract_lookup_and_leaves_the_abstract_map_unchanged", inv, T.not_(T.or_(*bad)))
    S.prove(ctx, ob, "get_touches_only_key_h", [], bool(all(k == "h" or op == "mem_insert" for op, k in frame(ps))), extra={"note": str(frame(ps))})
    ins = [(e[2][2], e[3]) for p in ps for e in p.log if e[0] == "tier" and e[2][0] == "mem_insert"]
    S.prove(ctx, ob, "get_promotes_exactly_the_view_taken_out_of_the_backend", inv, bool(ins) and T.and_(*[T.implies(T.and_(*pc), T.eq(a, st0["bv"])) for a, pc in ins]))
    # ---- insert
    ctx, st0, inv, fold, me = setup()
    view = ctx.int("inserted_view", "u64")
    ps = S.run(ctx, fn("insert"), [ctx.ref_to(me), view])
    S.prove(ctx, ob, "insert_no_panic", inv, T.not_(cond_of(panics(ps))))
    bad = []
    for p in returns(ps):
        pres1, val1 = lookup(fold(p.log))
        bad.append(T.and_(p.cond(), T.not_(T.and_(pres1, T.eq(val1, view.t)))))
    S.prove(ctx, ob, "insert_makes_the_abstract_lookup_return_the_inserted_view", inv, T.not_(T.or_(*bad)))
    S.prove(ctx, ob, "insert_writes_only_the_inserted_view", [], bool([op for op, k in frame(ps)] == ["mem_insert"] * len(returns(ps))), extra={"note": str(frame(ps))})
    # ---- remove
    ctx, st0, inv, fold, me = setup()
    ps = S.run(ctx, fn("remove"), [ctx.ref_to(me), ctx.ref_to(OpaqueV("h", "Byte32"))])
    S.prove(ctx, ob, "remove_no_panic", inv, T.not_(cond_of(panics(ps))))
    bad = []
    for p in returns(ps):
        pres1, _ = lookup(fold(p.log))
        bad.append(T.and_(p.cond(), pres1))
    S.prove(ctx, ob, "remove_leaves_h_absent_from_both_tiers", inv, T.not_(T.or_(*bad)))
    S.prove(ctx, ob, "remove_touches_only_key_h", [], bool(all(k == "h" for op, k in frame(ps))), extra={"note": str(frame(ps))})
    S.witness(ctx, ob, "reach_remove_with_stale_spilled_copy", inv, T.and_(st0["mem"], st0["back"], T.or_(*[p.cond() for p in returns(ps)])))
    # ---- limit_memory: provenance
    ctx = S.ctx()
    ctx.uninterpreted_unknown_calls = True
    calls = []

    def nmv2(ex, v):
        v = deref(ex, v)
        return getattr(v, "name", None) or type(v).__name__

    def lg(tag, ret=None):
        def h(ex, c, a, d):
            calls.append((tag, [nmv2(ex, x) for x in a[1:]], list(ex.pc)))
            return ret(ex, d) if ret else UNIT
        return h
    some_vals = ctx.bool("over_limit")
    ctx.env = list(E.LOGGING_OFF) + [
        (E.rx(r"Option::<.*>::map::<.*HistogramTimer"), lambda ex, c, a, d: mk_option(False, None, d)),
        (E.rx(r"as Deref>::deref$"), lambda ex, c, a, d: ex.ctx.ref_to(OpaqueV(nmv2(ex, a[0]), "?"))),
        (E.rx(r"AtomicBool::load$"), lambda ex, c, a, d: ex.ctx.bool("ibd_finished")),
        (E.rx(r"MemoryMap::front_n$"), lg("front_n", lambda ex, d: mk_option(some_vals.t, OpaqueV("spilled_values", "Vec<HeaderIndexView>"), d))),
        (E.rx(r"KeyValueBackend>::insert_batch$"), lg("insert_batch")),
        (E.rx(r"MemoryMap::remove_batch::<"), lg("remove_batch")),
        (E.rx(r"block_in_place::<"), lambda ex, c, a, d: ex.call_value(ex.top_frame, a[0], [], d)),
    ]
    me = AggV(tuple(OpaqueV("tier_" + n, "?") if n != "memory_limit" else ctx.int("memory_limit", "usize") for n in fields), "HeaderMapKernel")
    ps = S.run(ctx, fn("limit_memory"), [ctx.ref_to(me)])
    S.prove(ctx, ob, "limit_memory_no_panic", [], T.not_(cond_of(panics(ps))))
    ib = [c for c in calls if c[0] == "insert_batch"]
    rb = [c for c in calls if c[0] == "remove_batch"]
    S.prove(ctx, ob, "limit_memory_spills_the_values_it_took_then_removes_the_same_values_from_memory", [],
            bool(ib and rb and all("spilled_values" in a[0] for _, a, _ in ib) and all("spilled_values" in a[0] for _, a, _ in rb)), extra={"note": str([(t, a) for t, a, _ in calls])})
    S.prove(ctx, ob, "limit_memory_writes_backend_before_dropping_from_memory", [], bool(calls and [t for t, _, _ in calls if t != "front_n"][:2] == ["insert_batch", "remove_batch"]), extra={"note": str([t for t, _, _ in calls])})
    S.prove(ctx, ob, "limit_memory_asks_for_the_configured_limit", [], bool([a for t, a, _ in calls if t == "front_n"] and all(a[0] == "IntV" for t, a, _ in calls if t == "front_n")), extra={"note": str(calls[:1])})


def m7_inflight_timeout_releases_both_sides(S):
    """In-flight table, the slow-block trace branch of `InflightBlocks::prune` (its `retain` closure, a separate MIR body, executed directly with the captured variables as
    symbols): when a traced request has exceeded the low-time limit, the block's in-flight state is removed AND -- whenever that state existed and its peer is still tracked --
    the block is removed from that peer's own `hashes` set, whether or not the peer is punished (so no peer ever lists a block that is not in flight from it); the peer is
    punished iff punishing is on and adjustment is enabled; the trace entry is dropped iff it timed out, otherwise nothing is touched"""
    ob = "C17.m7"
    cl = [x for x in S.prog.funcs if re.search(r"::prune::\{closure#\d+\}$", x.name) and "sync/src/types/mod.rs" in x.name and len(x.params) == 3 and "BlockNumberAndHash" in x.params[1][1]]
    if len(cl) != 1:
        raise Inconclusive(f"prune trace closure: {len(cl)} candidates")
    f = cl[0]
    caps = {}
    for name, place in f.debug.items():
        m = re.match(r"\(\*\(\(\*_1\)\.(\d+): ", place)
        if m:
            caps[name] = int(m.group(1))
    need = ["now", "timeout_limit", "states", "download_schedulers", "should_punish", "adjustment", "restart_number"]
    if any(n not in caps for n in need):
        raise Inconclusive(f"prune closure captures: {caps}")
    ctx = S.ctx()
    ctx.uninterpreted_unknown_calls = True
    now = ctx.int("now", "u64"); limit = ctx.int("timeout_limit", "u64"); t0 = ctx.int("trace_time", "u64")
    punish = ctx.bool("should_punish"); adj = ctx.bool("adjustment"); rn = ctx.int("restart_number", "u64")
    has_state = ctx.bool("block_is_in_flight"); has_peer = ctx.bool("its_peer_is_tracked")
    knum = ctx.int("key_number", "u64")
    log = []

    def nmv(ex, v):
        v = deref(ex, v)
        return getattr(v, "name", None) or type(v).__name__

    def lg(tag, ret):
        def h(ex, c, a, d):
            log.append((tag, [nmv(ex, x) for x in a], list(ex.pc)))
            return ret(ex, a, d)
        return h
    from mir2smt.srcinfo import struct_fields
    sf = struct_fields("sync/src/types/mod.rs", "InflightState")
    df = struct_fields("sync/src/types/mod.rs", "DownloadScheduler")
    state = AggV(tuple(OpaqueV("state_" + n, "?") for n in sf), "InflightState")
    sched = AggV(tuple(OpaqueV("sched_" + n, "?") for n in df), "DownloadScheduler")
    ctx.env = list(E.LOGGING_OFF) + [
        (E.rx(r"BTreeMap::<.*BlockNumberAndHash, .*InflightState>::remove"), lg("states_remove", lambda ex, a, d: mk_option(has_state.t, state, d))),
        (E.rx(r"HashMap::<.*SessionId, .*DownloadScheduler.*>::get_mut"), lg("scheduler_of", lambda ex, a, d: mk_option(has_peer.t, ex.ctx.ref_to(sched), d))),
        (E.rx(r"DownloadScheduler::punish$"), lg("punish", lambda ex, a, d: UNIT)),
        (E.rx(r"HashSet::<.*BlockNumberAndHash.*>::remove"), lg("peer_hashes_remove", lambda ex, a, d: ex.ctx.bool("was_listed"))),
    ]
    vals = [None] * (max(caps.values()) + 1)
    vals[caps["now"]] = ctx.ref_to(now); vals[caps["timeout_limit"]] = ctx.ref_to(limit)
    vals[caps["states"]] = ctx.ref_to(OpaqueV("states", "BTreeMap")); vals[caps["download_schedulers"]] = ctx.ref_to(OpaqueV("schedulers", "HashMap"))
    vals[caps["should_punish"]] = ctx.ref_to(punish); vals[caps["adjustment"]] = ctx.ref_to(adj)
    rref = ctx.ref_to(rn)
    vals[caps["restart_number"]] = rref
    vals = [v if v is not None else ctx.ref_to(OpaqueV(f"cap{i}", "?")) for i, v in enumerate(vals)]
    kf = struct_fields("util/types/src/core/extras.rs", "BlockNumberAndHash") if False else None
    key = AggV((knum, OpaqueV("key_hash", "Byte32")), "BlockNumberAndHash")
    ps = S.run(ctx, f, [ctx.ref_to(AggV(tuple(vals), "closure")), ctx.ref_to(key), ctx.ref_to(t0)])
    pre = [T.le(T.add(limit.t, t0.t), (1 << 64) - 1)]
    S.prove(ctx, ob, "no_panic", pre, T.not_(cond_of(panics(ps))))
    timed_out = T.gt(now.t, T.add(limit.t, t0.t))

    def when(tag, pred=lambda a: True):
        return T.or_(*[T.and_(*pc) for t, a, pc in log if t == tag and pred(a)])
    keep = merged(ps, as_bool)
    S.prove(ctx, ob, "trace_entry_is_dropped_iff_it_timed_out", pre, T.iff(keep, T.not_(timed_out)))
    S.prove(ctx, ob, "in_flight_state_is_removed_iff_timed_out", pre, T.iff(when("states_remove"), timed_out))
    S.prove(ctx, ob, "state_removed_is_that_of_the_traced_block", [], bool(all(a[0] == "states" for t, a, _ in log if t == "states_remove")) and bool([1 for t, a, _ in log if t == "states_remove"]))
    S.prove(ctx, ob, "block_leaves_the_peers_own_set_whenever_its_state_was_removed_and_the_peer_is_tracked", pre, T.iff(when("peer_hashes_remove"), T.and_(timed_out, has_state.t, has_peer.t)))
    S.prove(ctx, ob, "peer_looked_up_is_the_one_recorded_in_the_state", [], bool(all(a[1] == "state_peer" for t, a, _ in log if t == "scheduler_of")), extra={"note": str([a for t, a, _ in log if t == "scheduler_of"][:2])})
    S.prove(ctx, ob, "the_set_touched_is_that_peers_hashes", [], bool(all(a[0] == "sched_hashes" for t, a, _ in log if t == "peer_hashes_remove")), extra={"note": str([a for t, a, _ in log if t == "peer_hashes_remove"][:2])})
    S.prove(ctx, ob, "peer_is_punished_iff_punishing_and_adjustment_are_on", pre, T.iff(when("punish"), T.and_(timed_out, has_state.t, has_peer.t, punish.t, adj.t)))
    S.witness(ctx, ob, "reach_release_without_punishment", pre, T.and_(when("peer_hashes_remove"), T.not_(punish.t)))


def m8_orphan_pool_release(S):
    """`InnerPool::insert` x n then `remove_blocks_by_parent` / `get_block` (chain/src/utils/orphan_block_pool.rs) with the three hash containers modelled as association lists
    with SYMBOLIC keys (mir2smt/symmap.py): every hash and parent hash of the n inserted blocks and the released hash are symbols, each container lookup forks on key equality and
    the solver prunes, so the obligations hold for EVERY shape of the parent relation over n blocks (chains, forks, unrelated blocks, children inserted before parents) and every
    release point.  Decided: after the inserts the pool holds exactly the inserted blocks with their parents and its leaders are exactly the parents that are not themselves
    pooled; releasing a leader returns exactly its pooled descendants, each once, and keeps exactly the rest (with their leaders); releasing a hash that is not a leader
    returns nothing and changes nothing; `get_block` answers exactly for pooled hashes with the block stored under that hash."""
    from mir2smt import symmap as SM
    from mir2smt.exec import Driver, ListV, post_value
    from mir2smt.srcinfo import field_index
    ob = "C17.m8"
    FI = field_index("chain/src/utils/orphan_block_pool.rs", "InnerPool")
    imp = r"orphan_block_pool::<impl at chain/src/utils/orphan_block_pool.rs:\d+:1: \d+:15>::"
    fn = lambda short, np: _one(S, lambda x: re.search(imp + short + "$", x.name) and len(x.params) == np, "InnerPool::" + short)
    f_ins, f_rem, f_get = fn("insert", 2), fn("remove_blocks_by_parent", 2), fn("get_block", 2)
    for n in ((2, 3) if S.tier == "quick" else (2, 3, 4)):
        ctx = S.ctx(unwind=2 * n + 6)
        ctx.uninterpreted_unknown_calls = True
        ctx.prune_with_solver = True
        ctx.max_paths = 60000
        h = [ctx.int(f"id!hash_b{i}", "u64").t for i in range(n)]
        p = [ctx.int(f"id!parent_b{i}", "u64").t for i in range(n)]
        r = ctx.int("id!release", "u64").t
        ht = [ctx.int(f"height_b{i}", "u64").t for i in range(n)]
        # real blocks: different blocks have different hashes, and the parent relation is acyclic (a hash commits to the parent hash)
        side = [T.ne(h[i], h[j]) for i in range(n) for j in range(i)] + [T.implies(T.eq(p[i], h[j]), T.gt(ht[i], ht[j])) for i in range(n) for j in range(n)]
        for c_ in side:
            ctx.add_side(c_)
        pool = ctx.ref_to(AggV(tuple({"blocks": SM.MapV((), "HashMap<Byte32, HashMap<Byte32, LonelyBlockHash>>"), "parents": SM.MapV((), "HashMap<Byte32, Byte32>"),
                                     "leaders": SM.MapV((), "HashSet<Byte32>", True)}[k] for k, _ in sorted(FI.items(), key=lambda kv: kv[1])), "InnerPool"))
        blocks = [OpaqueV(f"b{i}", "LonelyBlockHash") for i in range(n)]
        snap = {}

        def who(ex, v):
            return re.sub(r"\..*$", "", getattr(deref(ex, v), "name", "?"))
        ctx.env = list(E.LOGGING_OFF) + [
            (E.rx(r"LonelyBlockHash::hash$"), lambda ex, c, a, d: OpaqueV("hash_" + who(ex, a[0]), d)),
            (E.rx(r"LonelyBlockHash::parent_hash$"), lambda ex, c, a, d: OpaqueV("parent_" + who(ex, a[0]), d)),
            (E.rx(r"<Byte32 as (Clone|ToOwned)>::(clone|to_owned)$"), lambda ex, c, a, d: deref(ex, a[0])),
        ] + SM.handlers(r"Byte32") + SM.EXTRAS + list(E.LIST_ADAPTORS)

        def body(ex):
            for b in blocks:
                ex.call_function(f_ins, [pool, b])
            st = deref(ex, pool)
            mid = _pool_state(ex, st, FI)
            got = ex.call_function(f_get, [pool, ex.ctx.ref_to(OpaqueV("release", "Byte32"))])
            out = ex.call_function(f_rem, [pool, ex.ctx.ref_to(OpaqueV("release", "Byte32"))])
            gd = got.disc if isinstance(got, EnumV) and isinstance(got.disc, int) else None
            gname = getattr(deref(ex, got.payload(1)[0]), "name", None) if gd == 1 else None
            return AggV((ListV(tuple(out.items), "ret") if isinstance(out, ListV) else out, (gd, gname)), "(removed, get)"), mid, _pool_state(ex, deref(ex, pool), FI)
        ps = S.run(ctx, Driver(f"orphan_pool_{n}_inserts_then_release", body), [])
        tag = f"{n}_blocks"
        S.prove(ctx, ob, f"{tag}_no_panic", [], T.not_(cond_of(panics(ps))))
        rs = returns(ps)
        S.prove(ctx, ob, f"{tag}_explored", [], bool(len(rs) >= n))
        pooled = lambda x: T.or_(*[T.eq(x, h[j]) for j in range(n)])
        # descendants of r among the pooled blocks: depth-bounded closure (depth <= n suffices for n blocks)
        desc = [T.eq(p[i], r) for i in range(n)]
        for _ in range(n):
            desc = [T.or_(T.eq(p[i], r), *[T.and_(T.eq(p[i], h[j]), desc[j]) for j in range(n) if j != i]) for i in range(n)]
        is_leader = T.and_(T.not_(pooled(r)), T.or_(*[T.eq(p[i], r) for i in range(n)]))
        g_mid, g_ret, g_keep, g_get = [], [], [], []
        for pth in rs:
            (val, mid, fin) = pth.value
            removed, got = val.fields
            c = pth.cond()
            # --- state after the inserts: exactly the inserted blocks; leaders = parents that are not pooled
            ok_mid = (sorted(mid["parents"]) == sorted((str(h[i]), f"parent_b{i}") for i in range(n)) and sorted(x for g in mid["blocks"].values() for x in g) == sorted((str(h[i]), f"b{i}") for i in range(n)))
            g_mid.append(T.implies(c, T.and_(bool(ok_mid),
                                             *[T.iff(T.or_(*[T.eq(p[i], _kt(ctx, k)) for k in mid["leaders"]]) if mid["leaders"] else False, T.not_(pooled(p[i]))) for i in range(n)],
                                             *[T.or_(*[T.eq(_kt(ctx, k), p[i]) for i in range(n)]) for k in mid["leaders"]],
                                             *[T.eq(_kt(ctx, gk), p[int(bname[1:])]) for gk, grp in mid["blocks"].items() for _, bname in grp])))
            # --- what is returned
            names = [getattr(x, "name", "?") for x in removed.items] if isinstance(removed, ListV) else None
            if names is None or len(set(names)) != len(names):
                g_ret.append(T.not_(c))
                continue
            g_ret.append(T.implies(c, T.and_(*[T.iff(bool(f"b{i}" in names), T.and_(is_leader, desc[i])) for i in range(n)])))
            # --- what stays
            kept = sorted(x for g in fin["blocks"].values() for x in g)
            want_kept = sorted((str(h[i]), f"b{i}") for i in range(n) if f"b{i}" not in names)
            g_keep.append(T.implies(c, T.and_(bool(kept == want_kept and sorted(fin["parents"]) == sorted((str(h[i]), f"parent_b{i}") for i in range(n) if f"b{i}" not in names)),
                                              *[T.implies(bool(f"b{i}" not in names), T.iff(T.or_(*[T.eq(p[i], _kt(ctx, k)) for k in fin["leaders"]]) if fin["leaders"] else False, T.not_(T.or_(*[T.eq(p[i], h[j]) for j in range(n) if f"b{j}" not in names]) if [j for j in range(n) if f"b{j}" not in names] else False))) for i in range(n)],
                                              *[T.or_(*[T.and_(T.eq(_kt(ctx, k), p[i]), bool(f"b{i}" not in names)) for i in range(n)]) for k in fin["leaders"]])))
            # --- get_block before the release
            gd, gname = got
            if gd is not None:
                g_get.append(T.implies(c, T.and_(T.iff(bool(gd == 1), pooled(r)), *[T.implies(T.eq(r, h[i]), bool(gname == f"b{i}")) for i in range(n)])))
            else:
                g_get.append(T.not_(c))
        S.prove(ctx, ob, f"{tag}_after_inserts_pool_holds_exactly_the_blocks_and_leaders_are_the_absent_parents", [], T.and_(*g_mid))
        S.prove(ctx, ob, f"{tag}_release_returns_exactly_the_descendants_of_a_leader_each_once_and_nothing_otherwise", [], T.and_(*g_ret))
        S.prove(ctx, ob, f"{tag}_release_keeps_exactly_the_rest_with_its_leaders", [], T.and_(*g_keep))
        S.prove(ctx, ob, f"{tag}_get_block_answers_exactly_for_pooled_hashes_with_that_block", [], T.and_(*g_get))
        S.witness(ctx, ob, f"{tag}_reach_chain_released_from_its_root", [], T.and_(is_leader, *[desc[i] for i in range(n)], *[T.eq(p[i], h[i - 1]) for i in range(1, n)]))
        S.witness(ctx, ob, f"{tag}_reach_child_inserted_before_parent", [], T.and_(is_leader, T.eq(p[0], h[1]), desc[0]))


def _kt(ctx, k):
    """key term from its printed form (a variable name)"""
    return ctx.int(k, "u64").t


def _one(S, pred, what):
    f = [x for x in S.prog.funcs if x.kind == "fn" and pred(x)]
    if len(f) != 1:
        raise Inconclusive(f"{what}: {len(f)} candidates")
    return f[0]


def _pool_state(ex, st, FI):
    """python snapshot of the three containers: key terms are variables `id!...`, printed by name"""
    from mir2smt import symmap as SM
    kn = lambda t: t[2] if isinstance(t, tuple) and t[0] == "var" else str(t)
    blocks = st.fields[FI["blocks"]]
    out = {"blocks": {}, "parents": [], "leaders": []}
    for k, cell, kv in blocks.items:
        inner = deref(ex, cell)
        out["blocks"][kn(k)] = [(str(k2), getattr(deref(ex, c2), "name", "?")) for k2, c2, _ in inner.items]
    for k, cell, kv in st.fields[FI["parents"]].items:
        out["parents"].append((str(k), getattr(deref(ex, cell), "name", "?")))
    for k, cell, kv in st.fields[FI["leaders"]].items:
        out["leaders"].append(kn(k))
    return out


def m9_inflight_table(S):
    """`InflightBlocks::insert` x k, then `remove_by_block` or `remove_by_peer` (sync/src/types/mod.rs) from the empty table, with the peer -> scheduler map, the block -> state map and
    the trace map as association lists with SYMBOLIC keys: peers, block numbers and block hashes are symbols, so every coincidence of peers and blocks among the k requests and the
    released block / peer is covered.  Decided: a block is never in flight from two peers (the first request wins, a repeated request is refused and changes nothing); every
    block listed for a peer is in flight from exactly that peer and vice versa; the trace holds exactly the accepted blocks at or below the restart number; when a block
    arrives exactly that block is released (state, its peer's set, trace), when a peer leaves exactly its blocks and its scheduler are released, everything else is kept."""
    from mir2smt import symmap as SM
    from mir2smt.exec import Driver, ListV
    from mir2smt.srcinfo import field_index
    ob = "C17.m9"
    FI = field_index("sync/src/types/mod.rs", "InflightBlocks")
    DS = field_index("sync/src/types/mod.rs", "DownloadScheduler")
    ST = field_index("sync/src/types/mod.rs", "InflightState")
    imp = r"types::<impl at sync/src/types/mod.rs:\d+:1: \d+:20>::"
    fn = lambda short, np: _one(S, lambda x: re.search(imp + short + "$", x.name) and len(x.params) == np and "InflightBlocks" in x.params[0][1], "InflightBlocks::" + short)
    f_ins, f_rb, f_rp = fn("insert", 3), fn("remove_by_block", 2), fn("remove_by_peer", 2)
    f_dsdef = _one(S, lambda x: x.short == "default" and x.ret.endswith("DownloadScheduler") and "sync/src/types/mod.rs" in x.name, "DownloadScheduler::default")
    for k, op in ((2, "block"), (2, "peer")) + (((3, "block"), (3, "peer")) if S.tier != "quick" else ()):
        ctx = S.ctx(unwind=2 * k + 6)
        ctx.uninterpreted_unknown_calls = True
        ctx.prune_with_solver = True
        ctx.max_paths = 60000
        q = [ctx.int(f"peer{i}", "usize") for i in range(k)]
        bn = [ctx.int(f"number{i}", "u64") for i in range(k)]
        bh = [ctx.int(f"id!hash{i}", "u64").t for i in range(k)]
        rq, rn, rh = ctx.int("released_peer", "usize"), ctx.int("released_number", "u64"), ctx.int("id!released_hash", "u64").t
        restart = ctx.int("restart_number", "u64")
        mkpeer = lambda v: AggV((v,), "SessionId")
        mkblock = lambda nv, name: AggV((nv, OpaqueV(name, "Byte32")), "BlockNumberAndHash") if _bnh_number_first() else AggV((OpaqueV(name, "Byte32"), nv), "BlockNumberAndHash")
        init = {"download_schedulers": SM.MapV((), "HashMap<SessionId, DownloadScheduler>"), "inflight_states": SM.MapV((), "BTreeMap<BlockNumberAndHash, InflightState>"),
                "trace_number": SM.MapV((), "HashMap<BlockNumberAndHash, u64>"), "restart_number": restart, "time_analyzer": OpaqueV("time_analyzer", "TimeAnalyzer"),
                "adjustment": BoolV(False), "protect_num": ctx.int("protect_num", "usize")}
        table = ctx.ref_to(AggV(tuple(init[name] for name, _ in sorted(FI.items(), key=lambda kv: kv[1])), "InflightBlocks"))
        ctx.env = list(E.LOGGING_OFF) + [
            (E.rx(r"unix_time_as_millis$"), lambda ex, c, a, d: ex.ctx.int("now", "u64")),
            (E.rx(r"<(BlockNumberAndHash|SessionId|Byte32) as Clone>::clone$"), lambda ex, c, a, d: deref(ex, a[0])),
            (E.rx(r" as ExactSizeIterator>::len$"), lambda ex, c, a, d: IntV(len(E._rest(ex, deref(ex, a[0]))), "usize")),
        ] + SM.handlers(r"(SessionId|BlockNumberAndHash)", default_value=lambda ex, c, d: ex.call_function(f_dsdef, [])) + SM.EXTRAS + list(E.LIST_ADAPTORS)

        def snapshot(ex):
            t = deref(ex, table)
            kt = lambda key: tuple(key)       # KeyTuple -> plain tuple of terms
            st = [(kt(key), deref(ex, cell).fields[ST["peer"]]) for key, cell, _ in t.fields[FI["inflight_states"]].items]
            sch = [(kt(key), [kt(x[0]) for x in deref(ex, cell).fields[DS["hashes"]].items]) for key, cell, _ in t.fields[FI["download_schedulers"]].items]
            tr = [kt(key) for key, _, _ in t.fields[FI["trace_number"]].items]
            return st, sch, tr

        def body(ex):
            rets = []
            for i in range(k):
                r_ = ex.call_function(f_ins, [table, mkpeer(q[i]), mkblock(bn[i], f"hash{i}")])
                rets.append(r_.t if isinstance(r_, BoolV) else None)
            mid = snapshot(ex)
            if op == "block":
                out = ex.call_function(f_rb, [table, mkblock(rn, "released_hash")])
            else:
                out = ex.call_function(f_rp, [table, mkpeer(rq)])
            return rets, mid, (out.t if isinstance(out, (BoolV, IntV)) else None), snapshot(ex)
        ps = S.run(ctx, Driver(f"inflight_{k}_requests_then_{op}_released", body), [])
        tag = f"{k}_requests_then_{op}_released"
        S.prove(ctx, ob, f"{tag}_no_panic", [], T.not_(cond_of(panics(ps))))
        rs = returns(ps)
        B = [(bn[i].t, bh[i]) for i in range(k)] if _bnh_number_first() else [(bh[i], bn[i].t) for i in range(k)]
        RB = (rn.t, rh) if _bnh_number_first() else (rh, rn.t)
        numof = (lambda key: key[0]) if _bnh_number_first() else (lambda key: key[1])
        keq = lambda x, y: T.and_(*[T.eq(u, v) for u, v in zip(x, y)])
        acc = [T.and_(*[T.not_(keq(B[i], B[j])) for j in range(i)]) for i in range(k)]

        def consistent(snap, live):
            """the three maps hold exactly the requests i with live[i] (live[i] implies acc[i])"""
            st, sch, tr = snap
            g = []
            for i in range(k):
                # every live request is recorded (the converse -- nothing else is recorded -- follows from the per-entry clauses below)
                g.append(T.implies(live[i], T.or_(*[T.and_(keq(key, B[i]), T.eq(as_int(peer), q[i].t)) for key, peer in st]) if st else False))
                g.append(T.implies(live[i], T.or_(*[T.and_(T.eq(pk[0], q[i].t), T.or_(*[keq(x, B[i]) for x in items]) if items else False) for pk, items in sch]) if sch else False))
                g.append(T.implies(T.and_(live[i], T.ge(restart.t, numof(B[i]))), T.or_(*[keq(x, B[i]) for x in tr]) if tr else False))
            for key, peer in st:
                g.append(T.or_(*[T.and_(keq(key, B[i]), live[i], T.eq(as_int(peer), q[i].t)) for i in range(k)]))
            for pk, items in sch:
                for x in items:
                    g.append(T.or_(*[T.and_(keq(x, B[i]), live[i], T.eq(pk[0], q[i].t)) for i in range(k)]))
            for x in tr:
                g.append(T.or_(*[T.and_(keq(x, B[i]), live[i], T.ge(restart.t, numof(B[i]))) for i in range(k)]))
            # keys are stored once
            for a_ in range(len(st)):
                for b_ in range(a_ + 1, len(st)):
                    g.append(T.not_(keq(st[a_][0], st[b_][0])))
            # no block listed under two peers
            for a_ in range(len(sch)):
                for b_ in range(a_ + 1, len(sch)):
                    for x in sch[a_][1]:
                        for y in sch[b_][1]:
                            g.append(T.not_(keq(x, y)))
            return T.and_(*g)
        g_ret, g_mid, g_out, g_fin, g_sched = [], [], [], [], []
        for pth in rs:
            rets, mid, out, fin = pth.value
            c = pth.cond()
            g_ret.append(T.implies(c, T.and_(*[T.iff(rets[i], acc[i]) if rets[i] is not None else False for i in range(k)])))
            g_mid.append(T.implies(c, consistent(mid, acc)))
            if op == "block":
                hit = T.or_(*[T.and_(acc[i], keq(B[i], RB)) for i in range(k)])
                live = [T.and_(acc[i], T.not_(keq(B[i], RB))) for i in range(k)]
                g_out.append(T.implies(c, T.iff(out, hit) if out is not None else False))
                g_fin.append(T.implies(c, consistent(fin, live)))
                # schedulers themselves stay (only the block leaves its peer's set)
                g_sched.append(T.implies(c, T.and_(*[T.iff(T.or_(*[T.eq(pk[0], q[i].t) for pk, _ in fin[1]]) if fin[1] else False, T.or_(*[T.and_(acc[j], T.eq(q[j].t, q[i].t)) for j in range(k)])) for i in range(k)])))
            else:
                cnt = 0
                for i in range(k):
                    cnt = T.add(cnt, T.ite(T.and_(acc[i], T.eq(q[i].t, rq.t)), 1, 0))
                live = [T.and_(acc[i], T.ne(q[i].t, rq.t)) for i in range(k)]
                g_out.append(T.implies(c, T.eq(out, cnt) if out is not None else False))
                g_fin.append(T.implies(c, consistent(fin, live)))
                g_sched.append(T.implies(c, T.and_(*[T.ne(pk[0], rq.t) for pk, _ in fin[1]])))
        S.prove(ctx, ob, f"{tag}_a_request_is_accepted_iff_the_block_is_not_already_in_flight", [], T.and_(*g_ret))
        S.prove(ctx, ob, f"{tag}_after_the_requests_states_peer_sets_and_trace_hold_exactly_the_accepted_requests_one_peer_per_block", [], T.and_(*g_mid))
        S.prove(ctx, ob, f"{tag}_release_reports_exactly_what_was_in_flight", [], T.and_(*g_out))
        S.prove(ctx, ob, f"{tag}_release_removes_exactly_the_affected_entries_and_keeps_the_rest", [], T.and_(*g_fin))
        S.prove(ctx, ob, f"{tag}_scheduler_of_a_leaving_peer_is_dropped_of_an_arriving_block_kept", [], T.and_(*g_sched))
        S.witness(ctx, ob, f"{tag}_reach_same_block_requested_from_two_peers", [], T.and_(keq(B[0], B[1]), T.ne(q[0].t, q[1].t)))
        S.witness(ctx, ob, f"{tag}_reach_release_hits", [], (T.and_(keq(B[1], RB), T.not_(keq(B[0], B[1]))) if op == "block" else T.and_(T.eq(q[0].t, rq.t), T.eq(q[1].t, rq.t), T.not_(keq(B[0], B[1])))))


def _bnh_number_first():
    from mir2smt.srcinfo import struct_fields
    for rel in ("util/types/src/lib.rs", "util/types/src/block_number_and_hash.rs"):
        try:
            f = struct_fields(rel, "BlockNumberAndHash")
            if f:
                return f[0] == "number"
        except Exception:
            pass
    raise Inconclusive("struct BlockNumberAndHash not found")


OBLIGATIONS = [m1_skip_height, m2_ancestor_step, m3_header_view_codec, m4_locator, m5_fast_path_reads_one_snapshot, m6_header_map_two_tiers_refine_a_plain_map, m7_inflight_timeout_releases_both_sides, m8_orphan_pool_release, m9_inflight_table]

ENGINE = "M"
LEVEL = "other"
EXPLANATION = ("Skip-list ancestor lookup: get_skip_height and one iteration of HeaderIndexView::get_ancestor are symbolically executed from MIR; the solver shows progress, "
               "no overshoot and that only the current header's own skip/parent pointer is followed, which makes `current = ancestor at number_walk` inductive for chains of any length.")
BOUNDS = {"heights": "all u64 below 2^63 (the code casts to i64)", "loop": "unbounded by induction over one iteration",
          "outside": "orphan pool, in-flight table, header map (HashMap/BTreeMap/sled with symbolic keys: measured out of reach); locator construction (ckb-sync)"}
ASSUMPTIONS = ["data invariant of stored headers: skip_hash points to the ancestor at get_skip_height(number), parent_hash to number-1 (established by build_skip, which itself calls get_ancestor)",
               "bitwise-and on i64 is an uninterpreted function with the sound lemma 0 <= x&y <= min(x,y) for non-negative operands"]
TRUSTED = []
LEVEL_TEXT = ("Only the ancestor-lookup clause of C17 is decided (SMT over the real MIR, all heights, inductive step); the three container structures named by the statement "
              "are outside the reach of solver-based checking and are not claimed.")
LEVEL_NOTE = "Claim = skip-list ancestor lookup equals parent walking (inductive step + data invariant). Orphan pool / in-flight table / header map: not covered."
TECHNIQUE = "symbolic execution of rustc MIR -> integer-theory SMT (cvc5 + z3), one loop iteration as inductive step"

# ---- extended claim (session 3)
BOUNDS = dict(BOUNDS, m5_m7="one call from an arbitrary state (closure bodies executed with their captures as symbols)", m6="one operation on one key from an arbitrary two-tier state (key in memory / backend / both / neither); inductive step")
LEVEL_TEXT = LEVEL_TEXT + " Also decided: m5 the main-chain shortcut of get_ancestor reads is_main_chain / tip_number / get_block_hash from ONE captured snapshot and is guarded by `not above tip and on chain`; m6 the header map's memory+backend tiers refine a plain map for contains_key/get/insert/remove and limit_memory moves exactly what it spilled; m7 a timed-out traced in-flight request is released on both sides (state table and the peer's own set) whether or not the peer is punished."
LEVEL_NOTE = "Claim = skip-list ancestor lookup incl. snapshot-consistent shortcut, locator schedule, header-map tier composition (kernel), in-flight trace timeout step. Orphan pool, the rest of the in-flight table, MemoryMap/sled containers: outside."

# ---- extended claim (session 4)
LEVEL_TEXT = LEVEL_TEXT + ' m8: the orphan pool (insert / get_block / release by parent) for every parent relation over <= 3 (thorough 4) blocks with symbolic hashes; m9: the in-flight table (requests, arrival of a block, departure of a peer) for every coincidence of <= 2 (thorough 3) symbolic peers and blocks.'
LEVEL_NOTE = LEVEL_NOTE + ' Orphan pool and in-flight table: bounded number of operations from the empty state, containers modelled as association lists with symbolic keys.'
