"""C20 — the node's proposal view equals the on-chain proposal window: cross-check of the index arithmetic of
ProposalTable::finalize, TwoPhaseCommitVerifier::verify, SharedBuilder::init_proposal_table and
ConsumeUnverifiedBlockProcessor::reload_proposal_table (engine M, prefix/observation obligations)."""
from mir2smt.ob import *
from mir2smt import terms as T
from mir2smt.exec import OpaqueV, IntV, BoolV, AggV, EnumV, RefV, UNIT, Stop, mk_option
from mir2smt import envlib as E
from mir2smt.builtins import deref

CRATES = ["ckb-constant", "ckb-occupied-capacity-core", "ckb-types", "ckb-chain-spec", "ckb-proposal-table",
          "ckb-verification-contextual", "ckb-shared", "ckb-chain"]
U64 = (1 << 64) - 1
WMAX = (1 << 32)

VAL = []


def validate(S, native):
    cases, mism = 0, []
    for (S_x, ctx, inputs) in VAL:
        c, m = S.validate(ctx, inputs)
        cases += c
        mism += m
    del VAL[:]
    return {"cases": cases, "mismatches": mism}


def window(ctx, name):
    """symbolic ProposalWindow(close, far) with 1 <= close <= far < 2^32 (the constructor contract of the spec)"""
    c = ctx.int(name + ".0", "u64").t
    f = ctx.int(name + ".1", "u64").t
    return c, f, [T.le(1, c), T.le(c, f), T.lt(f, WMAX)]


def bound_pred(b, h, lower):
    """membership predicate of one `Bound<&u64>` (Included=0, Excluded=1, Unbounded=2)"""
    assert isinstance(b, EnumV), b
    d = b.disc
    if d == 2:
        return True
    v = as_int(b.payload(d)[0]) if b.payload(d) else None
    if d == 0:
        return T.le(v, h) if lower else T.le(h, v)
    if d == 1:
        return T.lt(v, h) if lower else T.lt(h, v)
    raise Inconclusive(f"symbolic bound kind {d}")


def _nm(ex, v):
    v = deref(ex, v)
    return getattr(v, "name", None) or type(v).__name__


def finalize_paths(S, ctx, n, tab_name="tab"):
    """environment of ProposalTable::finalize: the BTreeMap/HashSet/iterator calls return opaque values *named after their
    provenance*, so that the obligation can read off which range each returned set was collected from"""
    tab = OpaqueV(tab_name, "ProposalTable")
    origin = OpaqueV("origin", "ProposalView")

    def rng(ex, callee, args, dty):
        k = len([e for e in ex.log if e[0] == "range"])
        ex.log.append(("range", callee, [E.snapshot(ex, a) for a in args], list(ex.pc)))
        return OpaqueV(f"range{k}", dty)

    def passthrough(suffix):
        def h(ex, callee, args, dty):
            return OpaqueV(_nm(ex, args[0]) + suffix, dty)
        return h

    def difference(ex, callee, args, dty):
        return OpaqueV(f"diff({_nm(ex, args[0])},{_nm(ex, args[1])})", dty)

    def view_new(ex, callee, args, dty):
        ex.log.append(("view_new", callee, [_nm(ex, args[0]), _nm(ex, args[1])], list(ex.pc)))
        return OpaqueV(f"view({_nm(ex, args[0])},{_nm(ex, args[1])})", dty)

    ctx.env = list(E.LOGGING_OFF) + [
        (E.rx(r"BTreeMap::<.*>::split_off"), E.opaque_call("split_off")),
        (E.rx(r"BTreeMap::<.*>::range"), rng),
        (E.rx(r"as Iterator>::(flat_map|cloned)"), passthrough("")),
        (E.rx(r"as Iterator>::collect"), passthrough(".collect")),
        (E.rx(r"HashSet::<.*>::new$"), lambda ex, c, a, d: OpaqueV("empty", d)),
        (E.rx(r"HashSet::<.*>::difference"), difference),
        (E.rx(r"ProposalView::set$"), lambda ex, c, a, d: ex.ctx.ref_to(OpaqueV(_nm(ex, a[0]) + ".set", "HashSet"))),
        (E.rx(r"ProposalView::new$"), view_new),
        (E.rx(r"max_level|__private_api|fmt::rt::|Arguments"), E.opaque_call()),
    ]
    paths = S.run(ctx, "ProposalTable::finalize", [ctx.ref_to(tab), ctx.ref_to(origin), n])
    return paths


def m1_finalize(S):
    ob = "C20.m1"
    ctx = S.ctx()
    n = ctx.int("n", "u64")
    c, f, wpre = window(ctx, "tab.1")
    h = ctx.int("h", "u64").t
    paths = finalize_paths(S, ctx, n)
    VAL.append((S, ctx, [{"n": nn, "tab.1.0": cc, "tab.1.1": ff} for nn in list(range(0, 16)) + [100, 1000, 1 << 40] for (cc, ff) in ((1, 1), (2, 10), (1, 3), (3, 3), (4, 9))]))
    S.native_oracle(ctx, "proposal_finalize", [n.t, c, f], [1, 1, 1, 1], pre=T.and_(T.lt(n.t, U64 - 4), T.le(1, c), T.le(c, f), T.lt(f, 64)))
    S.prove(ctx, ob, "panics_iff_tip_is_u64_max", wpre, T.iff(cond_of(panics(paths)), T.eq(n.t, U64)))
    cand = T.add(n.t, 1)
    dist = T.sub(cand, h)
    spec_set = T.and_(T.le(1, h), T.le(h, n.t), T.le(c, dist), T.le(dist, f))
    spec_gap = T.and_(T.le(1, h), T.le(h, n.t), T.lt(dist, c))
    rs = returns(paths)
    S.witness(ctx, ob, "reach_some_path", wpre, cond_of(rs))
    any_set = []
    for k, p in enumerate(rs):
        ranges = [e for e in p.log if e[0] == "range"]
        splits = [e for e in p.log if e[0] == "split_off"]
        pre = wpre + [p.cond(), T.le(1, h)]
        # the (lower, upper) tuple is the 2nd argument of range()
        preds = []
        for e in ranges:
            tup = e[2][1]
            lo, hi = tup.fields
            preds.append(T.and_(bound_pred(lo, h, True), bound_pred(hi, h, False)))
        # order in the source: (new_ids range, gap range) -- when candidate <= closest only the gap range exists
        if len(ranges) == 1:
            in_set, in_gap = False, preds[0]
        elif len(ranges) == 2:
            in_set, in_gap = preds
        else:
            raise Inconclusive(f"unexpected number of range() calls: {len(ranges)}")
        any_set.append(T.and_(p.cond(), in_set if in_set is not False else False))
        S.prove(ctx, ob, f"path{k}_set_range_is_window_close_to_far", pre, T.iff(in_set, spec_set))
        S.prove(ctx, ob, f"path{k}_gap_range_is_closer_than_close", pre, T.iff(in_gap, spec_gap))
        # rows dropped by split_off are exactly those below the window (never a row inside set or gap)
        if splits:
            key = as_int(splits[0][2][1])
            dropped = T.lt(h, key)
            S.prove(ctx, ob, f"path{k}_split_off_drops_only_below_window", pre, T.implies(dropped, T.gt(dist, f)))
            S.prove(ctx, ob, f"path{k}_split_off_drops_everything_below_window", pre + [T.le(h, n.t)], T.implies(T.gt(dist, f), dropped))
        else:
            # no split: nothing at height >= 1 may lie below the window except height 1 itself (proposal_start <= 1)
            S.prove(ctx, ob, f"path{k}_no_split_means_window_starts_at_chain_start", pre + [T.le(h, n.t), T.gt(dist, f)], T.le(h, 1))
        # provenance of what is returned: (removed, view) with view = ProposalView::new(gap, set), set collected from the window
        # range (or empty below w_close), gap from the gap range, removed = origin.set() \\ set
        rv = p.value
        views = [e for e in p.log if e[0] == "view_new"]
        if not (isinstance(rv, AggV) and len(rv.fields) == 2 and len(views) == 1):
            raise Inconclusive(f"finalize path {k}: unexpected return shape {rv} / {len(views)} ProposalView::new calls")
        removed_nm, view_nm = [getattr(x, "name", "?") for x in rv.fields]
        gap_nm, set_nm = views[0][2]
        want_set = "empty" if len(ranges) == 1 else "range0.collect"
        want_gap = "range0.collect" if len(ranges) == 1 else "range1.collect"
        S.prove(ctx, ob, f"path{k}_view_is_built_from_the_two_ranges", pre, bool(set_nm == want_set and gap_nm == want_gap and view_nm == f"view({gap_nm},{set_nm})"),
                extra={"note": f"set={set_nm} gap={gap_nm} returned view={view_nm}"})
        S.prove(ctx, ob, f"path{k}_removed_is_old_set_minus_new_set", pre, bool(removed_nm in (f"diff(origin.set,{set_nm})", f"diff(origin.set,{set_nm}).collect")),
                extra={"note": f"returned removed={removed_nm}"})
    S.witness(ctx, ob, "reach_set_window", wpre + [T.le(1, h)], T.or_(*any_set))
    return


def verifier_walk(S, ctx, bn, c, f, max_iter, assume=()):
    """run TwoPhaseCommitVerifier::verify with the store as environment; returns paths whose log contains one
    ('visit', height) entry per block whose proposals are collected"""
    blockv = OpaqueV("blk", "BlockView")
    vctx = OpaqueV("vctx", "VerifyContext<CS>")
    me = AggV((ctx.ref_to(vctx), ctx.ref_to(blockv)), "TwoPhaseCommitVerifier<'a, CS>")

    def get_header(ex, callee, args, dty):
        pe = E.debug_value(ex, "proposal_end")
        ex.log.append(("header_at", callee, [pe], list(ex.pc)))
        return mk_option(True, AggV((pe,), "HeaderView#h"), dty)

    def is_genesis_hdr(ex, callee, args, dty):
        a = deref(ex, args[0])
        if isinstance(a, AggV) and a.ty == "HeaderView#h":
            return BoolV(T.eq(as_int(a.fields[0]), 0))
        raise Inconclusive("is_genesis on unknown header")

    def proposals_of(ex, callee, args, dty):
        pe = E.debug_value(ex, "proposal_end")
        ex.log.append(("visit", callee, [pe], list(ex.pc)))
        return mk_option(False, None, dty)

    def block_is_genesis(ex, callee, args, dty):
        return BoolV(T.eq(bn.t, 0))

    ctx.env = list(E.LOGGING_OFF) + [
        (E.rx(r"BlockView::is_genesis"), block_is_genesis),
        (E.rx(r"HeaderView::is_genesis"), is_genesis_hdr),
        (E.rx(r"HeaderView::number"), lambda ex, cal, a, d: bn),
        (E.rx(r"BlockView::header"), E.opaque_call()),
        (E.rx(r"Consensus::tx_proposal_window"), lambda ex, cal, a, d: AggV((IntV(c, "u64"), IntV(f, "u64")), "ProposalWindow")),
        (E.rx(r"get_block_hash"), lambda ex, cal, a, d: mk_option(True, OpaqueV("hash", "Byte32"), d)),
        (E.rx(r"get_block_header"), get_header),
        (E.rx(r"get_block_proposal_txs_ids"), proposals_of),
        (E.rx(r"get_block_uncles"), lambda ex, cal, a, d: mk_option(False, None, d)),
        (E.rx(r"HashSet::<.*>::new"), E.opaque_call()),
        (E.rx(r"HeaderView::data|Header::raw|RawHeader::parent_hash"), E.opaque_call()),
        (E.rx(r"BlockView::transactions"), E.stop_here("after_walk")),
    ]
    ctx.unwind = max_iter + 2
    f_ = S.fn("TwoPhaseCommitVerifier::verify")
    return S.run(ctx, f_, [ctx.ref_to(me)], allow=("return", "panic", "stop"), assume=assume)


def m2_verifier_vs_finalize(S):
    """the verifier's walk for block n+1 visits exactly the `set` heights of finalize(n) (height 0 excluded)"""
    ob = "C20.m2"
    K = 6 if S.tier == "quick" else 14
    ctx = S.ctx()
    bn = ctx.int("bn", "u64")
    c = ctx.int("w.0", "u64").t
    f = ctx.int("w.1", "u64").t
    h = ctx.int("h", "u64").t
    wpre = [T.le(1, c), T.le(c, f), T.lt(f, WMAX), T.le(T.sub(f, c), K - 1)]
    paths = verifier_walk(S, ctx, bn, c, f, K, assume=wpre)
    S.prove(ctx, ob, "walk_no_panic", wpre, T.not_(cond_of(panics(paths))))
    dist = T.sub(bn.t, h)
    spec = T.and_(T.le(1, h), T.lt(h, bn.t), T.le(c, dist), T.le(dist, f))
    stops = [p for p in paths if p.outcome == "stop"]
    S.witness(ctx, ob, "reach_full_window", wpre + [T.eq(T.sub(f, c), K - 1)], T.or_(*[T.and_(p.cond(), len([e for e in p.log if e[0] == "visit"]) == K) for p in stops]))
    # every terminating path: visited set == spec (as a predicate over an arbitrary height h)
    for k, p in enumerate(stops):
        visited = T.or_(*[T.eq(as_int(e[2][0]), h) for e in p.log if e[0] == "visit"])
        S.prove(ctx, ob, f"path{k}_visited_heights_are_the_window", wpre + [p.cond()], T.iff(visited, spec))
    # genesis block is accepted without walk
    gen = [p for p in paths if p.outcome == "return"]
    S.prove(ctx, ob, "early_return_only_for_genesis_or_missing_ancestor", wpre + [cond_of(gen)], T.eq(bn.t, 0))
    # cross-check with finalize(n) for n = bn-1: same membership predicate
    ctx2 = S.ctx()
    n = ctx2.int("n", "u64")
    c2, f2, wpre2 = window(ctx2, "tab.1")
    h2 = ctx2.int("h", "u64").t
    fps = finalize_paths(S, ctx2, n)
    cand = T.add(n.t, 1)
    spec2 = T.and_(T.le(1, h2), T.lt(h2, cand), T.le(c2, T.sub(cand, h2)), T.le(T.sub(cand, h2), f2))
    for k, p in enumerate(returns(fps)):
        ranges = [e for e in p.log if e[0] == "range"]
        if len(ranges) == 2:
            lo, hi = ranges[0][2][1].fields
            in_set = T.and_(bound_pred(lo, h2, True), bound_pred(hi, h2, False))
        else:
            in_set = False
        S.prove(ctx2, ob, f"finalize_path{k}_set_equals_verifier_window_for_next_block", wpre2 + [p.cond(), T.le(1, h2)], T.iff(in_set, spec2))


def m3_init(S):
    """start-up loads every height finalize(tip) reads"""
    ob = "C20.m3"
    ctx = S.ctx()
    tip = ctx.int("tip", "u64")
    c = ctx.int("w.0", "u64").t
    f = ctx.int("w.1", "u64").t
    h = ctx.int("h", "u64").t
    wpre = [T.le(1, c), T.le(c, f), T.lt(f, WMAX)]

    def range_new(ex, callee, args, dty):
        return AggV((E.snapshot(ex, args[0]), E.snapshot(ex, args[1]), BoolV(False)), "RangeInclusive<u64>")

    def into_iter(ex, callee, args, dty):
        # the loop over block numbers: `a..=b` (RangeInclusive::new) or `a..b` (a Range aggregate); record the heights it covers
        from mir2smt.exec import ENV_PASS
        r = deref(ex, args[0])
        if isinstance(r, AggV) and r.ty.startswith("RangeInclusive") and len(r.fields) == 3:
            lo, hi = as_int(r.fields[0]), as_int(r.fields[1])
        elif isinstance(r, AggV) and len(r.fields) == 2 and all(isinstance(x, IntV) for x in r.fields):
            lo, hi = r.fields[0].t, T.sub(r.fields[1].t, 1)
        else:
            return ENV_PASS
        ex.log.append(("load_range", callee, [IntV(lo, "u64"), IntV(hi, "u64")], list(ex.pc)))
        raise Stop("range")

    ctx.env = list(E.LOGGING_OFF) + [
        (E.rx(r"Consensus::tx_proposal_window"), lambda ex, cal, a, d: AggV((IntV(c, "u64"), IntV(f, "u64")), "ProposalWindow")),
        (E.rx(r"get_tip_header"), lambda ex, cal, a, d: mk_option(True, OpaqueV("tiph", "HeaderView"), d)),
        (E.rx(r"HeaderView::number"), lambda ex, cal, a, d: tip),
        (E.rx(r"ProposalTable::new"), E.opaque_call()),
        (E.rx(r"RangeInclusive::<u64>::new"), range_new),
        (E.rx(r"Range(Inclusive)?<u64> as (?:std::iter::|core::iter::)?IntoIterator>::into_iter$"), into_iter),
    ]
    fn = S.fn("SharedBuilder::init_proposal_table")
    paths = S.run(ctx, fn, [ctx.ref_to(OpaqueV("store", "ChainDB")), ctx.ref_to(OpaqueV("cons", "Consensus"))], allow=("stop", "panic"))
    S.prove(ctx, ob, "no_panic_before_loop", wpre, T.not_(cond_of(panics(paths))))
    stops = [p for p in paths if p.outcome == "stop"]
    assert stops
    cand = T.add(tip.t, 1)
    read_by_finalize = T.and_(T.le(1, h), T.le(h, tip.t), T.le(T.sub(cand, h), f))
    for k, p in enumerate(stops):
        lo, hi = [as_int(x) for x in p.log[-1][2]]
        loaded = T.and_(T.le(lo, h), T.le(h, hi))
        S.prove(ctx, ob, f"path{k}_loaded_range_covers_window", wpre + [p.cond(), T.lt(tip.t, U64)], T.implies(read_by_finalize, loaded))
        S.prove(ctx, ob, f"path{k}_loaded_range_ends_at_tip", wpre + [p.cond()], T.eq(hi, tip.t))
        S.witness(ctx, ob, f"path{k}_reach", wpre + [p.cond()], T.gt(lo, 5))


def m4_reload(S):
    """after a rollback the re-loaded range plus the attached heights cover everything finalize(new_tip) reads"""
    ob = "C20.m4"
    ctx = S.ctx()
    c = ctx.int("w.0", "u64").t
    f = ctx.int("w.1", "u64").t
    h = ctx.int("h", "u64").t
    dfront = ctx.int("detached_front", "u64")
    has_att = ctx.bool("has_attached")
    att_back = ctx.int("attached_back", "u64")
    wpre = [T.le(1, c), T.le(c, f), T.lt(f, WMAX)]

    def range_new(ex, callee, args, dty):
        ex.log.append(("load_range", callee, [E.snapshot(ex, a) for a in args], list(ex.pc)))
        raise Stop("range")

    ctx.env = list(E.LOGGING_OFF) + [
        (E.rx(r"ForkChanges::has_detached"), E.const_bool(True)),
        (E.rx(r"Consensus::tx_proposal_window"), lambda ex, cal, a, d: AggV((IntV(c, "u64"), IntV(f, "u64")), "ProposalWindow")),
        (E.rx(r"Shared::consensus"), E.opaque_call()),
        (E.rx(r"ForkChanges::detached_blocks|ForkChanges::attached_blocks"), E.opaque_call()),
        (E.rx(r"VecDeque::<.*>::front"), lambda ex, cal, a, d: mk_option(True, OpaqueV("dblk", "BlockView"), d)),
        (E.rx(r"VecDeque::<.*>::back"), lambda ex, cal, a, d: mk_option(has_att.t, OpaqueV("ablk", "BlockView"), d)),
        (E.rx(r"BlockView::header"), lambda ex, cal, a, d: OpaqueV("hdr_" + deref(ex, a[0]).name, "HeaderView")),
        (E.rx(r"HeaderView::number"), lambda ex, cal, a, d: dfront if deref(ex, a[0]).name == "hdr_dblk" else att_back),
        (E.rx(r"RangeInclusive::<u64>::new"), range_new),
        (E.rx(r"max_level|__private_api|fmt::rt::|Arguments"), E.opaque_call()),
    ]
    fn = S.fn("ConsumeUnverifiedBlockProcessor::reload_proposal_table")
    me = OpaqueV("proc", "ConsumeUnverifiedBlockProcessor")
    fork = OpaqueV("fork", "ForkChanges")
    paths = S.run(ctx, fn, [ctx.ref_to(me), ctx.ref_to(fork)], allow=("stop", "panic", "return"))
    # chain facts: attached blocks follow the common ancestor: attached_back >= detached_front (= common + 1) when present
    facts = wpre + [T.ge(dfront.t, 1), T.implies(has_att.t, T.ge(att_back.t, dfront.t)), T.lt(att_back.t, U64)]
    S.prove(ctx, ob, "no_panic", facts, T.not_(cond_of(panics(paths))))
    common = T.sub(dfront.t, 1)
    new_tip = T.ite(has_att.t, att_back.t, common)
    cand = T.add(new_tip, 1)
    read_by_finalize = T.and_(T.le(1, h), T.le(h, new_tip), T.le(T.sub(cand, h), f))
    attached = T.and_(has_att.t, T.gt(h, common), T.le(h, new_tip))     # re-inserted by update_proposal_table's attach loop
    for k, p in enumerate([p for p in paths if p.outcome == "stop"]):
        lo, hi = [as_int(x) for x in p.log[-1][2]]
        loaded = T.and_(T.le(lo, h), T.le(h, hi))
        S.prove(ctx, ob, f"path{k}_reloaded_plus_attached_cover_window", facts + [p.cond()], T.implies(read_by_finalize, T.or_(loaded, attached)))
        S.prove(ctx, ob, f"path{k}_reload_never_reads_detached_heights", facts + [p.cond()], T.le(hi, common))
        S.witness(ctx, ob, f"path{k}_reach", facts + [p.cond()], T.and_(T.gt(lo, 3), T.lt(lo, hi)))
    # early return (detached_front < 2): common is genesis (height 0) -- nothing but height 0 below the fork, which holds no proposals
    early = [p for p in paths if p.outcome == "return"]
    S.prove(ctx, ob, "early_return_only_when_fork_at_genesis", facts + [cond_of(early)], T.lt(dfront.t, 2))
    S.prove(ctx, ob, "early_return_loses_nothing", facts + [cond_of(early), read_by_finalize], attached)


def m5_reload_dataflow(S):
    """one iteration of the reload loop: the row inserted at height bn is the UNION of the block's and its uncles'
    proposal ids of the main-chain block stored at height bn"""
    ob = "C20.m5"
    ctx = S.ctx()
    c = ctx.int("w.0", "u64").t
    f = ctx.int("w.1", "u64").t
    dfront = ctx.int("detached_front", "u64")
    has_att = ctx.bool("has_attached")
    att_back = ctx.int("attached_back", "u64")
    bn = ctx.int("bn", "u64")
    wpre = [T.le(1, c), T.le(c, f), T.lt(f, WMAX)]
    state = {}

    def range_new(ex, callee, args, dty):
        ex.log.append(("load_range", callee, [E.snapshot(ex, a) for a in args], list(ex.pc)))
        return OpaqueV("range", dty)

    def it_next(ex, callee, args, dty):
        n = len([e for e in ex.log if e[0] == "next"])
        ex.log.append(("next", callee, [], list(ex.pc)))
        if n == 0:
            return mk_option(True, bn, dty)
        return mk_option(False, None, dty)

    def get_block_hash(ex, callee, args, dty):
        a = deref(ex, args[-1])
        ex.log.append(("get_block_hash", callee, [a], list(ex.pc)))
        return mk_option(True, OpaqueV("hash_at_bn", "Byte32"), dty)

    def get_block(ex, callee, args, dty):
        a = deref(ex, args[-1])
        return mk_option(True, OpaqueV("block_of." + getattr(a, "name", "?"), "BlockView"), dty)

    def union_ids(ex, callee, args, dty):
        a = deref(ex, args[0])
        return OpaqueV("union_ids." + getattr(a, "name", "?"), dty)

    def insert(ex, callee, args, dty):
        ex.log.append(("insert", callee, [E.snapshot(ex, a) for a in args[1:]], list(ex.pc)))
        return BoolV(True)

    ctx.env = list(E.LOGGING_OFF) + [
        (E.rx(r"ForkChanges::has_detached"), E.const_bool(True)),
        (E.rx(r"Consensus::tx_proposal_window"), lambda ex, cal, a, d: AggV((IntV(c, "u64"), IntV(f, "u64")), "ProposalWindow")),
        (E.rx(r"Shared::consensus|Shared::store"), E.opaque_call()),
        (E.rx(r"ForkChanges::detached_blocks|ForkChanges::attached_blocks"), E.opaque_call()),
        (E.rx(r"VecDeque::<.*>::front"), lambda ex, cal, a, d: mk_option(True, OpaqueV("dblk", "BlockView"), d)),
        (E.rx(r"VecDeque::<.*>::back"), lambda ex, cal, a, d: mk_option(has_att.t, OpaqueV("ablk", "BlockView"), d)),
        (E.rx(r"BlockView::header"), lambda ex, cal, a, d: OpaqueV("hdr_" + deref(ex, a[0]).name, "HeaderView")),
        (E.rx(r"HeaderView::number"), lambda ex, cal, a, d: dfront if deref(ex, a[0]).name == "hdr_dblk" else att_back),
        (E.rx(r"RangeInclusive::<u64>::new"), range_new),
        (E.rx(r"IntoIterator>::into_iter"), lambda ex, cal, a, d: a[0]),
        (E.rx(r"RangeInclusive<u64> as Iterator>::next"), it_next),
        (E.rx(r"get_block_hash"), get_block_hash),
        (E.rx(r"ChainStore>::get_block$|::get_block$"), get_block),
        (E.rx(r"BlockView::union_proposal_ids"), union_ids),
        (E.rx(r"ProposalTable::insert"), insert),
        (E.rx(r"max_level|__private_api|fmt::rt::|Arguments"), E.opaque_call()),
    ]
    ctx.uninterpreted_unknown_calls = True
    fn = S.fn("ConsumeUnverifiedBlockProcessor::reload_proposal_table")
    me = OpaqueV("proc", "ConsumeUnverifiedBlockProcessor")
    fork = OpaqueV("fork", "ForkChanges")
    facts = wpre + [T.ge(dfront.t, 2), T.implies(has_att.t, T.ge(att_back.t, dfront.t)), T.lt(att_back.t, U64)]
    paths = S.run(ctx, fn, [ctx.ref_to(me), ctx.ref_to(fork)], allow=("panic", "return"), assume=facts)
    S.prove(ctx, ob, "no_panic", facts, T.not_(cond_of(panics(paths))))
    seen = 0
    for k, p in enumerate(returns(paths)):
        ins = [e for e in p.log if e[0] == "insert"]
        if not ins:
            continue
        seen += 1
        if len(ins) != 1:
            raise Inconclusive("more than one insert in one iteration")
        num, ids = ins[0][2]
        hashes = [e for e in p.log if e[0] == "get_block_hash"]
        ok_flow = isinstance(ids, OpaqueV) and ids.name == "union_ids.block_of.hash_at_bn" and len(hashes) == 1
        S.prove(ctx, ob, f"path{k}_row_is_union_of_block_and_uncle_proposals_of_the_block_at_bn", facts + [p.cond()], bool(ok_flow))
        S.prove(ctx, ob, f"path{k}_row_inserted_at_the_iterated_height", facts + [p.cond()],
                T.and_(T.eq(as_int(num), bn.t), T.eq(as_int(hashes[0][2][0]), bn.t)) if hashes else False)
    if seen == 0:
        raise Inconclusive("loop body not reached")


OBLIGATIONS = [m1_finalize, m2_verifier_vs_finalize, m3_init, m4_reload, m5_reload_dataflow]

ENGINE = "M"
LEVEL = "other"
EXPLANATION = ("The window index arithmetic of the four places that must agree (incremental table, block verifier, start-up rebuild, "
               "reload after rollback) is extracted from the real functions by symbolic execution of their MIR with store/container calls as "
               "logged environment symbols, and compared by the solver for all tips and all windows.")
BOUNDS = {"tips": "all u64", "windows": "1 <= close <= far < 2^32", "verifier walk": "window length far-close+1 <= 6 (quick) / 14 (thorough); the loop is unwound with an unwinding check"}
ASSUMPTIONS = ["height 0 (genesis) carries no proposals", "store lookups succeed (a missing ancestor is the AncestorNotFound error path, outside)",
               "attached blocks extend the common ancestor: attached_back >= detached_front", "logging disabled (log level checks return false)"]
TRUSTED = []
LEVEL_TEXT = ("All four window computations are decided equal by SMT queries over all tips/windows (engine M). The id sets themselves live in "
              "HashSet/BTreeMap and are outside: the claim is about which block heights feed the sets, which is the clause the property's own diagnosis names.")
LEVEL_NOTE = ("Trusted: MIR->SMT translator, environment contracts listed in assumptions. Outside: contents of the id sets, removed_ids set difference, "
              "pool notification, restart mechanics beyond init_proposal_table's range.")
TECHNIQUE = "symbolic execution of rustc MIR prefixes -> SMT (cvc5 + z3), call-site observation of range/split_off arguments"
