"""C05 — script verdict and cycle count do not depend on chunking (engine M, partial: the transaction-level cycle accounting around the VM).

The CKB-VM itself (a RISC-V interpreter in a third-party crate, run by `Scheduler`) is NOT executed.  Claimed (partial): the code of /repo that splits a cycle budget over the
script groups of a transaction, suspends, resumes and completes -- `TransactionScriptsVerifier::{verify, resumable_verify, resume_from_state, complete, chunk_run}` in
script/src/verify.rs -- relative to this CONTRACT of one script-group run (the environment): a group has an uninterrupted cost c; a run with budget b from progress p (p = 0 for a
fresh group, p = the `total_cycles` of the suspended state) completes iff c - p <= b and then reports (used = c, consumed = c - p), otherwise it suspends with progress p + b.

 m1  `chunk_run`: resumes the scheduler from the given state (creates a fresh one otherwise), runs it with the budget as a per-call cycle limit, reports Completed(total cycles of
     the terminated script, cycles consumed by THIS call = consumed after - consumed before) for exit code 0, a validation failure for any other exit code, and suspends
     (snapshot of the scheduler) exactly on CyclesExceeded / Pause;
 m2  `verify(max)` over three groups: Ok(c0 + c1 + c2) iff c0 + c1 + c2 <= max, otherwise an error; never another number;
 m3  `resumable_verify(limit)`: Completed(c0 + c1 + c2) iff all groups fit into the limit one after the other; otherwise Suspended at the first group that does not fit, carrying the
     index of that group, the cycles of the completed groups and the VM state;
 m4  `resume_from_state(state, limit)` from ANY state the code above can produce (any group index, any progress): if it completes it reports c0 + c1 + c2 -- the same total as the
     uninterrupted run, whatever the chunk sizes were;
 m5  `complete(state, max)`: Ok only with the total c0 + c1 + c2, never beyond the budget, always when the budget covers the total;
 m6  the task spawned by `chunk_run_with_signal` (pause/resume commands): every `Scheduler::run` is limited to max_cycles minus what the scheduler consumed before, for any command sequence
     and run outcomes; Stop sends `stopped`; a non-pause outcome is what is sent back.
 m7  the group loop of `resumable_verify_with_signal(limit)`: Ok iff the sum fits into the limit, then exactly the sum; each group gets the limit minus the cost of the groups before it;
 m8  `detailed_run` / `run` / `map_vm_internal_error`: the scheduler runs with LimitCycles(budget); CyclesExceeded -> ExceededMaximumCycles(budget); External("stopped") -> Interrupts;
     every other VM error passed on; Ok(consumed) iff exit code 0;
 m9  the parent side of `chunk_run_with_signal`: how the child is spawned, which command does what (Suspend: interrupt; Stop: interrupt + forward; Resume: free + forward), how the
     child's result is mapped.

Outside: the VM and the scheduler (spawn/exec/pause syscalls, multi-VM scheduling, snapshots), i.e. that a real script run satisfies the contract; the signal-driven variants.
"""
import os
import re
from mir2smt.ob import *
from mir2smt import terms as T
from mir2smt.exec import StrV, OpaqueV, IntV, BoolV, AggV, EnumV, RefV, ListV, UNIT, Stop, mk_option, mk_result
from mir2smt import envlib as E
from mir2smt.builtins import deref

CRATES = ["ckb-constant", "ckb-occupied-capacity-core", "ckb-types", "ckb-script"]
U64 = (1 << 64) - 1
N_GROUPS = 3


def _fields(rel, name):
    from mir2smt.srcinfo import field_index
    return field_index(rel, name)


def _variants(rel, name):
    s = open(os.path.join(os.environ.get("VERIF_REPO", "/repo"), rel)).read()
    m = re.search(r"pub enum " + name + r"\s*\{(.*?)\n\}", s, re.S)
    if not m:
        raise Inconclusive(f"enum {name} not found in {rel}")
    out = []
    for line in re.sub(r"///[^\n]*|//[^\n]*", "", m.group(1)).split("\n"):
        mm = re.match(r"\s*([A-Z]\w*)\s*(\(|,|\{|$)", line)
        if mm:
            out.append(mm.group(1))
    return out


def _fn(S, short, nparams):
    f = [x for x in S.prog.funcs if x.kind == "fn" and x.short == short and "script/src/verify.rs" in x.name and "{closure" not in x.name and len(x.params) == nparams]
    if len(f) != 1:
        raise Inconclusive(f"TransactionScriptsVerifier::{short}: {len(f)} candidates")
    return f[0]


class Model:
    """two script groups with uninterrupted costs c0, c1; the contract of one group run as environment handlers"""

    def __init__(self, ctx, fs_fields, cs_variants, n=None):
        self.ctx = ctx
        self.n = n or N_GROUPS
        self.c = [ctx.int(f"cost_group{k}", "u64") for k in range(self.n)]
        self.fs = fs_fields
        self.cs = cs_variants
        self.calls = []
        self.prog_names = {}
        self.typeid = [ctx.bool(f"group{k}_is_type_id") for k in range(self.n)]

    def total(self):
        out = 0
        for c in self.c:
            out = T.add(out, c.t)
        return out

    def prefix(self, k):
        """cost of the groups before index k (k: int or term)"""
        if isinstance(k, int):
            out = 0
            for c in self.c[:k]:
                out = T.add(out, c.t)
            return out
        out = self.prefix(self.n - 1)
        for j in reversed(range(self.n - 1)):
            out = T.ite(T.eq(k, j), self.prefix(j), out)
        return out

    def cost_of(self, k):
        out = self.c[-1].t
        for j in reversed(range(self.n - 1)):
            out = T.ite(T.eq(k, j), self.c[j].t, out)
        return out

    def state_value(self, progress):
        """a FullSuspendedState whose total_cycles is `progress` (the other fields are opaque)"""
        return AggV(tuple((IntV(progress, "u64") if k == "total_cycles" else OpaqueV("vmstate." + k, "?")) for k, _ in sorted(self.fs.items(), key=lambda kv: kv[1])), "FullSuspendedState")

    def gidx(self, ex, v):
        n = getattr(deref(ex, v), "name", "")
        m = re.search(r"group(\d+)", n)
        if not m:
            raise Stop(f"not a script group: {n}")
        return int(m.group(1))

    def chunk(self, ex, c, a, d):
        """verify_group_with_chunk(self, group, budget, state)"""
        g = self.gidx(ex, a[1])
        b = deref(ex, a[2]) if isinstance(a[2], RefV) else a[2]
        st = deref(ex, a[3])
        if not isinstance(st, EnumV):
            raise Stop("state argument is not an Option")
        some = st.disc == 1 if isinstance(st.disc, int) else ex.decide(T.eq(st.disc, 1))
        p = 0
        if some:
            s = st.payload(1)[0]
            s = deref(ex, s) if isinstance(s, RefV) else s
            p = s.fields[self.fs["total_cycles"]].t if isinstance(s, AggV) else ex.ctx.int(getattr(s, "name", "st") + ".total_cycles", "u64").t
        self.calls.append((g, b.t, p, list(ex.pc)))
        ex.log.append(("c05", "chunk", [g], list(ex.pc)))
        rest = T.sub(self.c[g].t, p)
        if ex.decide(T.le(rest, b.t)):
            return mk_result(True, EnumV(self.cs.index("Completed"), ((self.cs.index("Completed"), (IntV(self.c[g].t, "u64"), IntV(rest, "u64"))),), "ChunkState"), OpaqueV("script_error", "ScriptError"), d)
        # the run stops at an instruction boundary: the recorded progress lies between the old progress and old progress + budget
        key = (g, str(p), str(b.t))
        k = self.prog_names.setdefault(key, len(self.prog_names))
        np_ = ex.ctx.int(f"suspended_progress_g{g}_k{k}", "u64")
        ex.ctx.add_side(T.implies(T.and_(*ex.pc), T.and_(T.le(p, np_.t), T.le(np_.t, T.add(p, b.t)))))      # guarded by the path: it says nothing where this call does not happen
        if p == 0 and ex.decide(self.typeid[g].t):
            nst = mk_option(False, None, "Option<FullSuspendedState>")      # the type-id system script suspends without a VM state
        else:
            nst = mk_option(True, self.state_value(np_.t), "Option<FullSuspendedState>")
        return mk_result(True, EnumV(self.cs.index("Suspended"), ((self.cs.index("Suspended"), (nst,)),), "ChunkState"), OpaqueV("script_error", "ScriptError"), d)

    def whole(self, ex, c, a, d):
        """verify_script_group(self, group, budget): the uninterrupted run"""
        g = self.gidx(ex, a[1])
        b = deref(ex, a[2]) if isinstance(a[2], RefV) else a[2]
        ex.log.append(("c05", "whole", [g], list(ex.pc)))
        return mk_result(T.le(self.c[g].t, b.t), IntV(self.c[g].t, "u64"), OpaqueV("exceeded_maximum_cycles", "ScriptError"), d)

    def env(self):
        groups = [AggV((ListV((), "?"),), "x")]
        pair = lambda k: AggV((self.ctx.ref_to(OpaqueV(f"hash{k}", "Byte32")), self.ctx.ref_to(OpaqueV(f"group{k}", "ScriptGroup"))), "(&Byte32, &ScriptGroup)")

        def nth(ex, c, a, d):
            it = deref(ex, a[0])
            n = deref(ex, a[1]) if isinstance(a[1], RefV) else a[1]
            items = E._rest(ex, it)
            if isinstance(n.t, int):
                return mk_option(n.t < len(items), items[n.t] if n.t < len(items) else None, d)
            for k in range(len(items)):
                if ex.decide(T.eq(n.t, k)):
                    return mk_option(True, items[k], d)
            return mk_option(False, None, d)

        def skip(ex, c, a, d):
            it = deref(ex, a[0])
            n = deref(ex, a[1]) if isinstance(a[1], RefV) else a[1]
            items = E._rest(ex, it)
            if isinstance(n.t, int):
                return E._owned(items[n.t:])
            for k in range(len(items) + 1):
                if k == len(items) or ex.decide(T.eq(n.t, k)):
                    return E._owned(items[k:])
        return list(E.LOGGING_OFF) + [
            (E.rx(r"TransactionScriptsVerifier::<.*>::groups$"), lambda ex, c, a, d: E._owned([pair(k) for k in range(self.n)])),
            (E.rx(r"TransactionScriptsVerifier::<.*>::verify_group_with_chunk$"), self.chunk),
            (E.rx(r"TransactionScriptsVerifier::<.*>::verify_script_group$"), self.whole),
            (E.rx(r"TransactionScriptsVerifier::<.*>::hash$"), E.opaque_call()),
            (E.rx(r" as Iterator>::nth$"), nth),
            (E.rx(r" as Iterator>::skip$"), skip),
            (E.rx(r"ScriptError::(source|unknown_source)$"), lambda ex, c, a, d: OpaqueV("sourced(" + getattr(deref(ex, a[0]), "name", str(type(deref(ex, a[0])).__name__)) + ")", d)),
            (E.rx(r"TransactionScriptError as Into<.*>>::into$|as From<.*>>::from$"), lambda ex, c, a, d: OpaqueV(getattr(deref(ex, a[0]), "name", "error"), d)),
            (E.rx(r"on_script_error$"), lambda ex, c, a, d: UNIT),
            (E.rx(r"^format$|must_use::<"), E.opaque_call()),
        ] + list(E.LIST_ADAPTORS)


def _setup(S):
    fs = _fields("script/src/types.rs", "FullSuspendedState")
    cs = _variants("script/src/verify.rs", "ChunkState")
    vr = _variants("script/src/types.rs", "VerifyResult")
    ts = _fields("script/src/types.rs", "TransactionState")
    if sorted(cs) != ["Completed", "Suspended"] or sorted(vr) != ["Completed", "Suspended"]:
        raise Inconclusive(f"ChunkState / VerifyResult variants: {cs} {vr}")
    return fs, cs, vr, ts


def m2_verify(S):
    ob = "C05.m2"
    fs, cs, vr, ts = _setup(S)
    ctx = S.ctx(unwind=6)
    ctx.uninterpreted_unknown_calls = True
    M = Model(ctx, fs, cs, n=(5 if S.tier == "thorough" else N_GROUPS))
    ctx.env = M.env()
    mx = ctx.int("max_cycles", "u64")
    ps = S.run(ctx, _fn(S, "verify", 2), [ctx.ref_to(OpaqueV("verifier", "TransactionScriptsVerifier")), mx])
    S.prove(ctx, ob, "no_panic", [], T.not_(cond_of(panics(ps))))
    tot = M.total()
    okc, okv = [], []
    for p in returns(ps):
        v = p.value
        if isinstance(v, EnumV):
            isok = (v.disc == 0) if isinstance(v.disc, int) else T.eq(v.disc, 0)
            okc.append(T.and_(p.cond(), isok))
            if v.payload(0):
                okv.append(T.implies(T.and_(p.cond(), isok), T.eq(as_int(v.payload(0)[0]), tot)))
    S.prove(ctx, ob, "succeeds_iff_the_budget_covers_the_uninterrupted_cost", [], T.iff(T.or_(*okc), T.le(tot, mx.t)))
    S.prove(ctx, ob, "reports_the_sum_of_the_group_costs", [], T.and_(*okv) if okv else False)
    S.witness(ctx, ob, "reach_exact_budget", [], T.and_(T.eq(tot, mx.t), *[T.gt(c.t, 0) for c in M.c]))


def _result_kinds(ps, vr):
    """per returning path: ('completed', total term) | ('suspended', TransactionState value) | ('error',)"""
    out = []
    for p in returns(ps):
        v = p.value
        if not isinstance(v, EnumV):
            out.append((p, "other", None))
            continue
        if isinstance(v.disc, int) and v.disc == 1:
            out.append((p, "error", None))
            continue
        if not isinstance(v.disc, int):
            out.append((p, "other", None))
            continue
        r = v.payload(0)[0]
        if isinstance(r, EnumV) and isinstance(r.disc, int):
            if r.disc == vr.index("Completed"):
                out.append((p, "completed", as_int(r.payload(r.disc)[0])))
            else:
                out.append((p, "suspended", r.payload(r.disc)[0]))
        else:
            out.append((p, "other", None))
    return out


def m3_resumable_verify(S):
    ob = "C05.m3"
    fs, cs, vr, ts = _setup(S)
    ctx = S.ctx(unwind=6)
    ctx.uninterpreted_unknown_calls = True
    M = Model(ctx, fs, cs, n=(5 if S.tier == "thorough" else N_GROUPS))
    ctx.env = M.env()
    lim = ctx.int("limit_cycles", "u64")
    ps = S.run(ctx, _fn(S, "resumable_verify", 2), [ctx.ref_to(OpaqueV("verifier", "TransactionScriptsVerifier")), lim])
    pre = [T.le(M.total(), U64)]
    S.prove(ctx, ob, "no_panic", pre, T.not_(cond_of(panics(ps))))
    ks = _result_kinds(ps, vr)
    tot = M.total()
    fits = T.le(tot, lim.t)         # costs are non-negative: every prefix fits iff the total does
    S.prove(ctx, ob, "no_unexpected_result_shape", [], bool(all(k != "other" for _, k, _ in ks)))
    S.prove(ctx, ob, "completes_iff_both_groups_fit_into_the_limit_one_after_the_other_and_reports_the_sum", pre,
            T.and_(T.iff(T.or_(*[p.cond() for p, k, _ in ks if k == "completed"]), fits), *[T.implies(p.cond(), T.eq(t_, tot)) for p, k, t_ in ks if k == "completed"]))
    goals = []
    for p, k, st in ks:
        if k != "suspended":
            continue
        cur, cyc = st.fields[ts["current"]], st.fields[ts["current_cycles"]]
        stt = st.fields[ts["state"]]
        prog = stt.payload(1)[0].fields[fs["total_cycles"]].t if isinstance(stt, EnumV) and stt.disc == 1 else (0 if isinstance(stt, EnumV) and stt.disc == 0 else None)
        if prog is None:
            goals.append(T.not_(p.cond()))
            continue
        # suspended at group k: the groups before k fit, k does not; the state carries k, the cost of the groups before it and a progress within what was left
        cases = [T.and_(T.eq(cur.t, k), T.eq(cyc.t, M.prefix(k)), T.le(M.prefix(k), lim.t), T.gt(M.prefix(k + 1), lim.t), T.le(prog, T.sub(lim.t, M.prefix(k)))) for k in range(M.n)]
        goals.append(T.implies(p.cond(), T.or_(*cases)))
    S.prove(ctx, ob, "suspends_at_the_first_group_that_does_not_fit_with_its_index_the_completed_cycles_and_the_progress", pre, T.and_(*goals) if goals else False)
    S.prove(ctx, ob, "suspended_iff_something_does_not_fit", pre, T.iff(T.or_(*[p.cond() for p, k, _ in ks if k == "suspended"]), T.not_(fits)))


def _arbitrary_state(ctx, M, ts, fs):
    """any TransactionState the code can produce: group index k in {0, 1}, the cycles of the groups before k, progress p < cost of group k"""
    cur = ctx.int("state_current", "usize")
    prog = ctx.int("state_progress", "u64")
    cyc = M.prefix(cur.t)
    inv = [T.le(cur.t, M.n - 1), T.lt(prog.t, M.cost_of(cur.t)), T.le(M.total(), U64)]
    has = ctx.bool("state_has_vm_state")
    inv.append(T.implies(T.not_(has.t), T.eq(prog.t, 0)))
    vals = {"current": cur, "state": mk_option(has.t, M.state_value(prog.t), "Option<FullSuspendedState>"), "current_cycles": IntV(cyc, "u64"), "limit_cycles": ctx.int("state_limit", "u64")}
    return AggV(tuple(vals[k] for k, _ in sorted(ts.items(), key=lambda kv: kv[1])), "TransactionState"), cur, prog, inv


def m4_resume_from_state(S):
    ob = "C05.m4"
    fs, cs, vr, ts = _setup(S)
    ctx = S.ctx(unwind=6)
    ctx.uninterpreted_unknown_calls = True
    M = Model(ctx, fs, cs, n=(5 if S.tier == "thorough" else N_GROUPS))
    ctx.env = M.env()
    lim = ctx.int("limit_cycles", "u64")
    st, cur, prog, inv = _arbitrary_state(ctx, M, ts, fs)
    ps = S.run(ctx, _fn(S, "resume_from_state", 3), [ctx.ref_to(OpaqueV("verifier", "TransactionScriptsVerifier")), ctx.ref_to(st), lim])
    S.prove(ctx, ob, "no_panic", inv, T.not_(cond_of(panics(ps))))
    ks = _result_kinds(ps, vr)
    tot = M.total()
    S.prove(ctx, ob, "no_unexpected_result_shape", [], bool(all(k != "other" for _, k, _ in ks)))
    S.prove(ctx, ob, "a_completed_resumption_reports_the_uninterrupted_total_whatever_the_chunking", inv, T.and_(*[T.implies(p.cond(), T.eq(t_, tot)) for p, k, t_ in ks if k == "completed"]) if any(k == "completed" for _, k, _ in ks) else False)
    goals = []
    for p, k, st2 in ks:
        if k != "suspended":
            continue
        c2, y2 = st2.fields[ts["current"]], st2.fields[ts["current_cycles"]]
        s2 = st2.fields[ts["state"]]
        p2 = s2.payload(1)[0].fields[fs["total_cycles"]].t if isinstance(s2, EnumV) and s2.disc == 1 else (0 if isinstance(s2, EnumV) and s2.disc == 0 else None)
        if p2 is None:
            goals.append(T.not_(p.cond()))
            continue
        # the new state is again one the invariant describes: index, cycles of the completed groups, progress below the group's cost
        goals.append(T.implies(p.cond(), T.and_(T.le(c2.t, M.n - 1), T.ge(c2.t, cur.t), T.eq(y2.t, M.prefix(c2.t)), T.lt(p2, M.cost_of(c2.t)))))
    S.prove(ctx, ob, "a_suspended_resumption_yields_a_state_of_the_same_kind_never_going_back", inv, T.and_(*goals) if goals else True)
    # what is left to run: the rest of the suspended group and every group after it
    fits = T.le(T.sub(T.sub(M.total(), M.prefix(cur.t)), prog.t), lim.t)
    S.prove(ctx, ob, "completes_iff_the_rest_fits_into_the_limit", inv, T.iff(T.or_(*[p.cond() for p, k, _ in ks if k == "completed"]), fits))
    S.witness(ctx, ob, "reach_completed_from_the_middle_of_group0", inv, T.and_(T.eq(cur.t, 0), T.gt(prog.t, 0), T.or_(*[p.cond() for p, k, _ in ks if k == "completed"])))


def m5_complete(S):
    ob = "C05.m5"
    fs, cs, vr, ts = _setup(S)
    ctx = S.ctx(unwind=6)
    ctx.uninterpreted_unknown_calls = True
    M = Model(ctx, fs, cs, n=(5 if S.tier == "thorough" else N_GROUPS))
    ctx.env = M.env()
    mx = ctx.int("max_cycles", "u64")
    st, cur, prog, inv = _arbitrary_state(ctx, M, ts, fs)
    ps = S.run(ctx, _fn(S, "complete", 3), [ctx.ref_to(OpaqueV("verifier", "TransactionScriptsVerifier")), ctx.ref_to(st), mx])
    S.prove(ctx, ob, "no_panic", inv, T.not_(cond_of(panics(ps))))
    tot = M.total()
    okc, okv = [], []
    for p in returns(ps):
        v = p.value
        if isinstance(v, EnumV):
            isok = (v.disc == 0) if isinstance(v.disc, int) else T.eq(v.disc, 0)
            okc.append(T.and_(p.cond(), isok))
            if v.payload(0):
                okv.append(T.implies(T.and_(p.cond(), isok), T.eq(as_int(v.payload(0)[0]), tot)))
    S.prove(ctx, ob, "a_successful_completion_reports_the_uninterrupted_total", inv, T.and_(*okv) if okv else False)
    S.prove(ctx, ob, "completion_never_succeeds_beyond_the_budget", inv, T.implies(T.or_(*okc), T.le(tot, mx.t)), small=[T.le(mx.t, 40)] + [T.le(c.t, 40) for c in M.c])
    S.prove(ctx, ob, "completion_succeeds_whenever_the_budget_covers_the_total", inv + [T.le(tot, mx.t)], T.or_(*okc))


def m1_chunk_run(S):
    """the real `chunk_run` with the scheduler as environment"""
    ob = "C05.m1"
    fs, cs, vr, ts = _setup(S)
    ctx = S.ctx(unwind=6)
    ctx.uninterpreted_unknown_calls = True
    has_state = ctx.bool("resumed_from_a_state")
    before, after, total, code = ctx.int("consumed_before", "u64"), ctx.int("consumed_after", "u64"), ctx.int("terminated_total_cycles", "u64"), ctx.int("exit_code", "i8")
    term, exceeded, paused, sus_ok = ctx.bool("script_terminated"), ctx.bool("vm_error_is_cycles_exceeded"), ctx.bool("vm_error_is_pause"), ctx.bool("suspend_succeeds")
    log = []
    n_consumed = [0]

    def consumed(ex, c, a, d):
        k = len([e for e in ex.log if e[0] == "c05" and e[1] == "consumed"])
        ex.log.append(("c05", "consumed", [], list(ex.pc)))
        return before if k == 0 else after
    vme = _variants_vm()

    def run(ex, c, a, d):
        mode = deref(ex, a[1]) if isinstance(a[1], RefV) else a[1]
        lim = mode.payload(mode.disc)[0] if isinstance(mode, EnumV) and isinstance(mode.disc, int) and mode.payloads else None
        log.append(("run", getattr(deref(ex, a[0]), "name", "?"), (lim.t if isinstance(lim, IntV) else str(lim)), list(ex.pc)))
        okv = AggV((code, total), "TerminatedResult") if True else None
        from mir2smt.srcinfo import field_index
        tr = field_index("script/src/types.rs", "TerminatedResult")
        okv = AggV(tuple((code if k == "exit_code" else total) for k, _ in sorted(tr.items(), key=lambda kv: kv[1])), "TerminatedResult")
        if ex.decide(term.t):
            return mk_result(True, okv, OpaqueV("vm_error", "VMInternalError"), d)
        if ex.decide(exceeded.t):
            return mk_result(False, okv, EnumV(vme["CyclesExceeded"], (), "VMInternalError"), d)
        if ex.decide(paused.t):
            return mk_result(False, okv, EnumV(vme["Pause"], (), "VMInternalError"), d)
        return mk_result(False, okv, EnumV(vme["Unexpected"], ((vme["Unexpected"], (OpaqueV("msg", "String"),)),), "VMInternalError"), d)
    ctx.env = list(E.LOGGING_OFF) + [
        (E.rx(r"TransactionScriptsVerifier::<.*>::resume_scheduler$"), lambda ex, c, a, d: (log.append(("resume", getattr(deref(ex, a[2]), "name", str(deref(ex, a[2]))[:40]), None, list(ex.pc))), mk_result(True, OpaqueV("scheduler_resumed", "Scheduler"), OpaqueV("err", "ScriptError"), d))[1]),
        (E.rx(r"TransactionScriptsVerifier::<.*>::create_scheduler$"), lambda ex, c, a, d: (log.append(("create", None, None, list(ex.pc))), mk_result(True, OpaqueV("scheduler_fresh", "Scheduler"), OpaqueV("err", "ScriptError"), d))[1]),
        (E.rx(r"Scheduler::<.*>::consumed_cycles$"), consumed),
        (E.rx(r"Scheduler::<.*>::run$"), run),
        (E.rx(r"Scheduler::<.*>::suspend$"), lambda ex, c, a, d: (log.append(("suspend", getattr(deref(ex, a[0]) if isinstance(a[0], RefV) else a[0], "name", "?"), None, list(ex.pc))), mk_result(sus_ok.t, OpaqueV("snapshot", "FullSuspendedState"), OpaqueV("vm_err", "VMInternalError"), d))[1]),
        (E.rx(r"ChunkState::suspended$"), lambda ex, c, a, d: EnumV(cs.index("Suspended"), ((cs.index("Suspended"), (mk_option(True, a[0], "Option<FullSuspendedState>"),)),), "ChunkState")),
        (E.rx(r"ScriptError::validation_failure$"), lambda ex, c, a, d: OpaqueV("validation_failure", d)),
        (E.rx(r"TransactionScriptsVerifier::<.*>::map_vm_internal_error$"), lambda ex, c, a, d: OpaqueV("mapped_vm_error", d)),
    ]
    st = mk_option(has_state.t, OpaqueV("given_state", "FullSuspendedState"), "Option<FullSuspendedState>")
    budget = ctx.int("budget", "u64")
    ps = S.run(ctx, _fn(S, "chunk_run", 4), [ctx.ref_to(OpaqueV("verifier", "TransactionScriptsVerifier")), ctx.ref_to(OpaqueV("group0", "ScriptGroup")), budget, ctx.ref_to(st)])
    pre = [T.ge(after.t, before.t)]       # the scheduler's consumed-cycle counter never decreases
    S.prove(ctx, ob, "no_panic", pre, T.not_(cond_of(panics(ps))))
    resumed = T.or_(*[T.and_(*pc) for t, _, _, pc in log if t == "resume"]) if any(t == "resume" for t, *_ in log) else False
    created = T.or_(*[T.and_(*pc) for t, _, _, pc in log if t == "create"]) if any(t == "create" for t, *_ in log) else False
    S.prove(ctx, ob, "resumes_from_the_given_state_iff_there_is_one_else_starts_fresh", [], T.and_(T.iff(resumed, has_state.t), T.iff(created, T.not_(has_state.t)), bool(all(n == "given_state" for t, n, _, _ in log if t == "resume"))))
    S.prove(ctx, ob, "the_budget_is_the_cycle_limit_of_this_run", [], bool([l for t, _, l, _ in log if t == "run"] and all(l == budget.t for t, _, l, _ in log if t == "run")), extra={"note": str([l for t, _, l, _ in log if t == "run"][:2])})
    comp, susp, goals = [], [], []
    for p in returns(ps):
        v = p.value
        if not (isinstance(v, EnumV) and isinstance(v.disc, int)):
            goals.append(T.not_(p.cond()))
            continue
        if v.disc == 0:
            r = v.payload(0)[0]
            if isinstance(r, EnumV) and r.disc == cs.index("Completed"):
                used, cons = r.payload(r.disc)
                comp.append(p.cond())
                goals.append(T.implies(p.cond(), T.and_(T.eq(as_int(used), total.t), T.eq(as_int(cons), T.sub(after.t, before.t)))))
            elif isinstance(r, EnumV) and r.disc == cs.index("Suspended"):
                susp.append(p.cond())
                inner = r.payload(r.disc)[0]
                goals.append(T.implies(p.cond(), bool(isinstance(inner, EnumV) and inner.disc == 1 and getattr(inner.payload(1)[0], "name", None) == "snapshot")))
            else:
                goals.append(T.not_(p.cond()))
    S.prove(ctx, ob, "completed_carries_the_terminated_total_and_the_cycles_consumed_by_this_call_suspended_carries_the_snapshot", pre, T.and_(*goals) if goals else False)
    S.prove(ctx, ob, "completed_iff_the_script_terminated_with_exit_code_zero", pre, T.iff(T.or_(*comp) if comp else False, T.and_(term.t, T.eq(code.t, 0))))
    S.prove(ctx, ob, "suspended_iff_the_vm_stopped_for_cycles_or_pause_and_the_snapshot_succeeded", pre, T.iff(T.or_(*susp) if susp else False, T.and_(T.not_(term.t), T.or_(exceeded.t, paused.t), sus_ok.t)))


def _variants_vm():
    """discriminants of ckb_vm::Error variants used by chunk_run: read from the vendored crate source when present, else the executor resolves them by name"""
    import glob
    for p in glob.glob(os.path.expanduser("~/.cargo/registry/src/*/ckb-vm-0*/src/error.rs")):
        s = open(p).read()
        m = re.search(r"pub enum Error\s*\{(.*?)\n\}", s, re.S)
        if m:
            names = []
            for line in re.sub(r"#\[[^\]]*\]|///[^\n]*|//[^\n]*", "", m.group(1)).split("\n"):
                mm = re.match(r"\s*([A-Z]\w*)\s*(\(|,|\{|$)", line)
                if mm:
                    names.append(mm.group(1))
            if {"CyclesExceeded", "Pause", "Unexpected"} <= set(names):
                return {n: i for i, n in enumerate(names)}
    raise Inconclusive("ckb_vm::Error variants not found")


OBLIGATIONS = [m1_chunk_run, m2_verify, m3_resumable_verify, m4_resume_from_state, m5_complete]


def m6_signal_child_budget(S):
    """the task `chunk_run_with_signal` spawns to run the VM under pause/resume commands (the path the node's transaction pool uses), executed as a coroutine body with the command
    channel, the scheduler and the result channel as environment: for ANY sequence of commands (Suspend / Resume / Stop, up to 4 loop rounds) and ANY outcome of each run
    (terminated / paused / other error) every `Scheduler::run` is limited to what is left of the budget -- max_cycles minus the cycles the scheduler consumed before that run -- so
    that the scheduler never consumes more than max_cycles however often it is paused; a Stop command sends the `stopped` error without running; what a run returned (other than a
    pause) is what is sent back"""
    from mir2smt.exec import CoroV
    ob = "C05.m6"
    fs, cs, vr, ts = _setup(S)
    c = [f for f in S.prog.funcs if f.kind == "fn" and re.search(r"chunk_run_with_signal::\{closure#0\}::\{closure#\d+\}$", f.name) and len(f.params) == 2 and "async block" in f.params[0][1]]
    if len(c) != 1:
        raise Inconclusive(f"child task of chunk_run_with_signal: {len(c)} candidates")
    f = c[0]
    ix = {}
    for name, place in f.debug.items():
        m_ = re.match(r"\(\(\*\(_1\.0: .*?\)\)\.(\d+): ", place)
        if m_:
            ix[name] = int(m_.group(1))
    if not all(k in ix for k in ("child_rx", "child_pause", "finish_tx", "scheduler", "max_cycles")):
        raise Inconclusive(f"child task upvars: {ix}")
    cmds = _variants("script/src/types.rs", "ChunkCommand")
    if sorted(cmds) != ["Resume", "Stop", "Suspend"]:
        raise Inconclusive(f"ChunkCommand variants: {cmds}")
    rm = _variants("script/src/types.rs", "RunMode")
    from mir2smt.srcinfo import field_index
    tr = field_index("script/src/types.rs", "TerminatedResult")
    vme = _variants_vm()
    ROUNDS = 7 if S.tier == "thorough" else 4
    ctx = S.ctx(unwind=ROUNDS + 1)
    ctx.uninterpreted_unknown_calls = True
    mx = ctx.int("max_cycles", "u64")
    cmd = [ctx.int(f"command_{k}", "u8") for k in range(ROUNDS + 2)]
    outcome = [ctx.int(f"run_outcome_{k}", "u8") for k in range(ROUNDS + 2)]          # 0 terminated, 1 paused, 2 cycles exceeded, 3 other error
    cons = [ctx.int(f"consumed_after_run_{k}", "u64") for k in range(ROUNDS + 2)]
    runs, sends, runs_nb = [], [], []

    def n_of(ex, tag):
        return len([e for e in ex.log if e[0] == "c05" and e[1] == tag])

    def consumed_now(ex):
        k = n_of(ex, "run")
        return 0 if k == 0 else cons[k - 1].t

    def borrow(ex, c_, a, d):
        k = n_of(ex, "borrow")
        ex.log.append(("c05", "borrow", [k], list(ex.pc)))
        if k >= len(cmd):
            raise Stop("more loop rounds than modelled")
        for i in range(3):
            if i == 2 or ex.decide(T.eq(cmd[k].t, i)):
                return ex.ctx.ref_to(EnumV(i, (), "ChunkCommand"))

    def run(ex, c_, a, d):
        k = n_of(ex, "run")
        mode = deref(ex, a[1]) if isinstance(a[1], RefV) else a[1]
        if not (isinstance(mode, EnumV) and mode.disc == rm.index("Pause")):
            raise Stop(f"run mode is not Pause: {mode}")
        lim = mode.payload(mode.disc)[1]
        before = consumed_now(ex)
        runs.append((k, lim.t, before, list(ex.pc)))
        runs_nb.append(n_of(ex, "borrow"))
        ex.log.append(("c05", "run", [k], list(ex.pc)))
        if k >= len(cons):
            raise Stop("more runs than modelled")
        okv = AggV(tuple((ex.ctx.int(f"exit_code_{k}", "i8") if n == "exit_code" else cons[k]) for n, _ in sorted(tr.items(), key=lambda kv: kv[1])), "TerminatedResult")
        if ex.decide(T.eq(outcome[k].t, 0)):
            return mk_result(True, okv, OpaqueV("vm_error", "VMInternalError"), d)
        if ex.decide(T.eq(outcome[k].t, 1)):
            return mk_result(False, okv, EnumV(vme["Pause"], (), "VMInternalError"), d)
        if ex.decide(T.eq(outcome[k].t, 2)):
            return mk_result(False, okv, EnumV(vme["CyclesExceeded"], (), "VMInternalError"), d)
        return mk_result(False, okv, EnumV(vme["Unexpected"], ((vme["Unexpected"], (OpaqueV("msg", "String"),)),), "VMInternalError"), d)

    def send(ex, c_, a, d):
        v = a[1]
        kind = "?"
        if isinstance(v, EnumV) and isinstance(v.disc, int):
            if v.disc == 0:
                kind = "ok"
            else:
                e = v.payload(1)[0]
                if isinstance(e, AggV) and e.ty == "External" and len(e.fields) == 1:       # a foreign tuple-variant constructor is executed as an aggregate named after the variant
                    kind = "err:External(" + str(getattr(e.fields[0], "s", "?")).strip('"') + ")"
                else:
                    kind = "err:" + (next((n for n, i in vme.items() if isinstance(e, EnumV) and i == e.disc), None) or getattr(e, "name", None) or str(e)[:80])
        sends.append((n_of(ex, "run"), kind, list(ex.pc), n_of(ex, "borrow")))
        ex.log.append(("c05", "send", [kind], list(ex.pc)))
        return mk_result(True, UNIT, OpaqueV("unsent", "?"), d)
    ready_ok = lambda ex, c_, a, d: EnumV(0, ((0, (mk_result(True, UNIT, OpaqueV("recv_error", "RecvError"), "Result<(), RecvError>"),)),), d)
    ctx.env = list(E.LOGGING_OFF) + [
        (E.rx(r"watch::Receiver::<.*>::mark_changed$"), lambda ex, c_, a, d: UNIT),
        (E.rx(r"watch::Receiver::<.*>::changed$"), lambda ex, c_, a, d: OpaqueV("changed_future", d)),
        (E.rx(r" as IntoFuture>::into_future$|Pin::<.*>::new_unchecked$"), lambda ex, c_, a, d: a[0]),
        (E.rx(r" as Future>::poll$"), ready_ok),
        (E.rx(r"watch::Receiver::<.*>::borrow$"), lambda ex, c_, a, d: OpaqueV("borrowed", d)),
        (E.rx(r"watch::Ref<.*> as Deref>::deref$"), borrow),
        (E.rx(r"Pause as Clone>::clone$"), lambda ex, c_, a, d: OpaqueV("pause_handle", d)),
        (E.rx(r"Scheduler::<.*>::run$"), run),
        (E.rx(r"Scheduler::<.*>::consumed_cycles$"), lambda ex, c_, a, d: IntV(consumed_now(ex), "u64")),
        (E.rx(r"oneshot::Sender::<.*>::send$"), send),
        (E.rx(r"^External$"), lambda ex, c_, a, d: EnumV(vme["External"], ((vme["External"], (a[0],)),), "VMInternalError")),
        (E.rx(r"<&str as Into<.*String>>::into$"), lambda ex, c_, a, d: a[0]),
    ]
    ups = {ix["child_rx"]: OpaqueV("child_rx", "Receiver"), ix["child_pause"]: OpaqueV("child_pause", "Pause"), ix["finish_tx"]: OpaqueV("finish_tx", "Sender"),
           ix["scheduler"]: OpaqueV("scheduler", "Scheduler"), ix["max_cycles"]: mx}
    ps = S.run(ctx, f, [AggV((ctx.ref_to(CoroV(0, tuple(sorted(ups.items())), (), "coroutine")),), "Pin"), ctx.ref_to(OpaqueV("task_context", "Context"))], allow=("return", "panic", "unwind"))
    # contract of the scheduler: the consumed-cycle counter never decreases and one run consumes at most the limit it was given
    contract = []
    for k, lim, before, pc in runs:
        contract.append(T.implies(T.and_(*pc), T.and_(T.le(before, cons[k].t), T.le(cons[k].t, T.add(before, lim)))))
    dom = [T.le(c_.t, 2) for c_ in cmd] + [T.le(o.t, 3) for o in outcome]
    S.prove(ctx, ob, "no_panic", dom + contract, T.not_(cond_of(panics(ps))))
    S.prove(ctx, ob, "some_run_happens", [], bool(len(runs) > 0))
    S.prove(ctx, ob, "every_run_is_limited_to_what_is_left_of_the_budget", dom + contract, T.and_(*[T.implies(T.and_(*pc), T.eq(lim, T.sub(mx.t, before))) for k, lim, before, pc in runs]) if runs else False,
            small=[T.le(mx.t, 20)] + [T.le(c_.t, 20) for c_ in cons])
    S.prove(ctx, ob, "the_scheduler_never_consumes_more_than_the_budget_however_often_it_is_paused", dom + contract, T.and_(*[T.implies(T.and_(*pc), T.le(cons[k].t, mx.t)) for k, lim, before, pc in runs]) if runs else False,
            small=[T.le(mx.t, 20)] + [T.le(c_.t, 20) for c_ in cons])
    # Stop: the `stopped` error is sent, and no run follows on that path; a non-pause outcome of a run is sent back as it is
    kinds = {k_ for _, k_, _, _ in sends}
    want = {"ok": 0, "err:CyclesExceeded": 2, "err:Unexpected": 3}
    goals = []
    for nr, k_, pc, nb in sends:
        if k_ in want:
            goals.append(T.implies(T.and_(*pc), T.eq(outcome[nr - 1].t, want[k_])) if nr >= 1 else T.not_(T.and_(*pc)))
        elif k_ == "err:External(stopped)":
            goals.append(T.implies(T.and_(*pc), T.eq(cmd[nb - 1].t, cmds.index("Stop"))) if nb >= 1 else T.not_(T.and_(*pc)))
    S.prove(ctx, ob, "what_is_sent_back_is_the_outcome_of_the_last_run_or_stopped_on_a_stop_command", dom + contract, T.and_(*goals) if goals else False)
    # a run happens only on a Resume command; Suspend waits for the next command
    S.prove(ctx, ob, "a_run_follows_only_a_resume_command", dom + contract, T.and_(*[T.implies(T.and_(*pc), T.eq(cmd[nb - 1].t, cmds.index("Resume")) if nb >= 1 else False) for (k, lim, before, pc), nb in zip(runs, runs_nb)]) if runs else False)
    S.prove(ctx, ob, "results_sent_back_are_ok_the_runs_error_or_stopped", [], bool(kinds and kinds <= {"ok", "err:External(stopped)", "err:CyclesExceeded", "err:Unexpected"} and {"ok", "err:External(stopped)", "err:CyclesExceeded"} <= kinds), extra={"note": str(sorted(kinds))})
    S.witness(ctx, ob, "reach_second_run_after_a_pause", dom + contract, T.or_(*[T.and_(*pc) for k, _, _, pc in runs if k == 1]) if any(k == 1 for k, *_ in runs) else False)
    S.witness(ctx, ob, "reach_third_run", dom + contract, T.and_(T.or_(*[T.and_(*pc) for k, _, _, pc in runs if k == 2]), T.gt(cons[1].t, cons[0].t), T.gt(cons[0].t, 0)) if any(k == 2 for k, *_ in runs) else False)


OBLIGATIONS = OBLIGATIONS + [m6_signal_child_budget]


def m7_resumable_verify_with_signal(S):
    """the group loop of `resumable_verify_with_signal(limit)` (async fn body executed as a coroutine; `verify_group_with_signal(group, budget)` is a future obeying the run contract:
    Ok(cost) iff cost <= budget, else the cycle-limit error -- which m6 establishes for the paused/resumed VM run): Ok iff the sum of the group costs fits into the limit, and then exactly
    that sum; every group is handed the limit minus the cost of the groups before it"""
    from mir2smt.exec import CoroV
    ob = "C05.m7"
    fs, cs, vr, ts = _setup(S)
    c = [f for f in S.prog.funcs if f.kind == "fn" and re.search(r"::resumable_verify_with_signal::\{closure#0\}$", f.name) and len(f.params) == 2 and "Context" in f.params[1][1]]
    if len(c) != 1:
        raise Inconclusive(f"resumable_verify_with_signal body: {len(c)} candidates")
    f = c[0]
    ix = {}
    for name, place in f.debug.items():
        m_ = re.match(r"\(\(\*\(_1\.0: .*?\)\)\.(\d+): ", place)
        if m_:
            ix[name] = int(m_.group(1))
    if not all(k in ix for k in ("self", "limit_cycles", "command_rx")):
        raise Inconclusive(f"upvars: {ix}")
    ctx = S.ctx(unwind=8)
    ctx.uninterpreted_unknown_calls = True
    M = Model(ctx, fs, cs, n=(5 if S.tier == "thorough" else N_GROUPS))
    lim = ctx.int("limit_cycles", "u64")
    budgets = []

    def start(ex, c_, a, d):
        g = M.gidx(ex, a[1])
        b = deref(ex, a[2]) if isinstance(a[2], RefV) else a[2]
        budgets.append((g, b.t, list(ex.pc)))
        return AggV((IntV(g, "usize"), b), "SignalRunFuture")

    def poll(ex, c_, a, d):
        fut = a[0]
        for _ in range(3):
            if isinstance(fut, (RefV,)):
                fut = deref(ex, fut)
            elif isinstance(fut, AggV) and fut.ty == "Pin":
                fut = fut.fields[0]
        if not (isinstance(fut, AggV) and fut.ty == "SignalRunFuture"):
            raise Stop(f"poll of an unknown future: {str(fut)[:80]}")
        g, b = fut.fields[0].t, fut.fields[1].t
        res = mk_result(T.le(M.c[g].t, b), IntV(M.c[g].t, "u64"), OpaqueV("exceeded_maximum_cycles", "ScriptError"), "Result<u64, ScriptError>")
        return EnumV(0, ((0, (res,)),), d)
    ctx.env = [(E.rx(r"TransactionScriptsVerifier::<.*>::verify_group_with_signal$"), start),
               (E.rx(r" as IntoFuture>::into_future$"), lambda ex, c_, a, d: a[0]),
               (E.rx(r"Pin::<.*>::new_unchecked$"), lambda ex, c_, a, d: a[0]),
               (E.rx(r" as Future>::poll$"), poll)] + M.env()
    ups = {ix["self"]: ctx.ref_to(OpaqueV("verifier", "TransactionScriptsVerifier")), ix["limit_cycles"]: lim, ix["command_rx"]: ctx.ref_to(OpaqueV("command_rx", "Receiver"))}
    ps = S.run(ctx, f, [AggV((ctx.ref_to(CoroV(0, tuple(sorted(ups.items())), (), "coroutine")),), "Pin"), ctx.ref_to(OpaqueV("task_context", "Context"))])
    pre = [T.le(M.total(), U64)]
    S.prove(ctx, ob, "no_panic", pre, T.not_(cond_of(panics(ps))))
    tot = M.total()
    okc, okv, shape = [], [], True
    for p in returns(ps):
        v = p.value
        if not (isinstance(v, EnumV) and v.disc == 0):          # Poll::Ready
            shape = False
            continue
        r = v.payload(0)[0]
        if isinstance(r, EnumV):
            isok = (r.disc == 0) if isinstance(r.disc, int) else T.eq(r.disc, 0)
            okc.append(T.and_(p.cond(), isok))
            if r.payload(0):
                okv.append(T.implies(T.and_(p.cond(), isok), T.eq(as_int(r.payload(0)[0]), tot)))
        else:
            shape = False
    S.prove(ctx, ob, "always_ready_with_a_result", [], bool(shape and okc))
    S.prove(ctx, ob, "succeeds_iff_the_limit_covers_the_uninterrupted_cost", pre, T.iff(T.or_(*okc), T.le(tot, lim.t)))
    S.prove(ctx, ob, "reports_the_sum_of_the_group_costs", pre, T.and_(*okv) if okv else False)
    S.prove(ctx, ob, "every_group_gets_the_limit_minus_the_cost_of_the_groups_before_it", pre, T.and_(*[T.implies(T.and_(*pc), T.eq(b, T.sub(lim.t, M.prefix(g)))) for g, b, pc in budgets]) if len({g for g, _, _ in budgets}) == M.n else False)


OBLIGATIONS = OBLIGATIONS + [m7_resumable_verify_with_signal]


def _se_kind(v, se):
    """(variant name, payload) of a ScriptError value: enums of other source files are executed either as EnumV or as an aggregate named after the variant"""
    if isinstance(v, EnumV) and isinstance(v.disc, int) and v.disc < len(se):
        return se[v.disc], v.payload(v.disc)
    if isinstance(v, AggV) and isinstance(v.ty, str) and v.ty.startswith("ScriptError::"):
        return v.ty.split("::", 1)[1], v.fields
    if isinstance(v, OpaqueV) and re.match(r"enumconst\.ScriptError__\w+$", str(v.name)):       # a field-less variant of an enum of another source file
        return str(v.name).split("ScriptError__", 1)[1], ()
    return "?" + str(v)[:60], ()


def m8_single_run_mapping(S):
    """the uninterrupted single-group run (`detailed_run`, `run`) and `map_vm_internal_error`: the scheduler is run with RunMode::LimitCycles(budget); CyclesExceeded becomes
    ExceededMaximumCycles(that budget) -- "reports the cycle limit" --, External("stopped") becomes Interrupts, every other VM error is passed on; `run` answers Ok(consumed cycles of the
    terminated result) iff the exit code is 0, a validation failure for any other exit code"""
    ob = "C05.m8"
    from mir2smt.srcinfo import field_index
    from mir2smt import exec as X
    vme = _variants_vm()
    X.ENUMS["ckb_vm::Error"] = [n for n, _ in sorted(vme.items(), key=lambda kv: kv[1])]       # variants of the vendored ckb-vm error enum, read from its source (projection `as External`)
    se = _variants("script/src/error.rs", "ScriptError")
    rm = _variants("script/src/types.rs", "RunMode")
    tr = field_index("script/src/types.rs", "TerminatedResult")
    # ---- map_vm_internal_error, one call per VM error variant
    seen = {}
    for name, disc in sorted(vme.items(), key=lambda kv: kv[1]):
        ctx = S.ctx()
        ctx.uninterpreted_unknown_calls = True
        mx = ctx.int("max_cycles", "u64")
        stopped = ctx.bool("reason_is_stopped")
        ctx.env = [(E.rx(r"<(std::string::)?String as PartialEq<str>>::eq$"), lambda ex, c_, a, d: BoolV(stopped.t))]
        err = EnumV(disc, ((disc, (OpaqueV("payload", "?"),)),), "ckb_vm::Error")
        try:
            ps = S.run(ctx, _fn(S, "map_vm_internal_error", 3), [ctx.ref_to(OpaqueV("verifier", "TransactionScriptsVerifier")), err, mx])
        except Inconclusive:
            raise
        outs = []
        for p_ in returns(ps):
            k_, pl_ = _se_kind(p_.value, se)
            outs.append((k_, pl_, p_))
        seen[name] = outs
        if name == "CyclesExceeded":
            S.prove(ctx, ob, "cycles_exceeded_reports_the_cycle_limit_it_was_run_with", [], T.and_(bool(outs and all(k == "ExceededMaximumCycles" for k, _, _ in outs)), *[T.eq(as_int(pl[0]), mx.t) for k, pl, _ in outs if pl]))
        elif name == "External":
            S.prove(ctx, ob, "external_stopped_is_interrupts_any_other_external_error_is_passed_on", [],
                    T.and_(bool({k for k, _, _ in outs} == {"Interrupts", "VMInternalError"}), *[T.implies(p_.cond(), stopped.t if k == "Interrupts" else T.not_(stopped.t)) for k, _, p_ in outs]))
    others = {n: {k for k, _, _ in o} for n, o in seen.items() if n not in ("CyclesExceeded", "External")}
    ctx = S.ctx()
    S.prove(ctx, ob, "every_other_vm_error_is_passed_on_as_it_is", [], bool(others and all(v == {"VMInternalError"} for v in others.values())), extra={"note": str({n: sorted(v) for n, v in others.items() if v != {"VMInternalError"}})})
    # ---- detailed_run / run
    ctx = S.ctx()
    ctx.uninterpreted_unknown_calls = True
    mx = ctx.int("max_cycles", "u64")
    code, total = ctx.int("exit_code", "i8"), ctx.int("terminated_total_cycles", "u64")
    term, created = ctx.bool("script_terminated"), ctx.bool("scheduler_created")
    errdisc = ctx.int("vm_error_kind", "u8")
    modes = []

    def run(ex, c_, a, d):
        mode = deref(ex, a[1]) if isinstance(a[1], RefV) else a[1]
        modes.append((mode.disc if isinstance(mode, EnumV) else None, mode.payload(mode.disc)[0].t if isinstance(mode, EnumV) and isinstance(mode.disc, int) else None))
        okv = AggV(tuple((code if n == "exit_code" else total) for n, _ in sorted(tr.items(), key=lambda kv: kv[1])), "TerminatedResult")
        if ex.decide(term.t):
            return mk_result(True, okv, OpaqueV("e", "?"), d)
        for name, disc in sorted(vme.items(), key=lambda kv: kv[1]):
            if name in ("CyclesExceeded", "External", "Pause") and ex.decide(T.eq(errdisc.t, disc)):
                return mk_result(False, okv, EnumV(disc, ((disc, (OpaqueV("payload", "?"),)),), "ckb_vm::Error"), d)
        return mk_result(False, okv, EnumV(vme["Unexpected"], ((vme["Unexpected"], (OpaqueV("msg", "String"),)),), "ckb_vm::Error"), d)
    ctx.env = list(E.LOGGING_OFF) + [
        (E.rx(r"TransactionScriptsVerifier::<.*>::create_scheduler$"), lambda ex, c_, a, d: mk_result(created.t, OpaqueV("scheduler_fresh", "Scheduler"), OpaqueV("create_error", "ScriptError"), d)),
        (E.rx(r"Scheduler::<.*>::run$"), run),
        (E.rx(r"<(std::string::)?String as PartialEq<str>>::eq$"), lambda ex, c_, a, d: BoolV(ctx.bool("reason_is_stopped").t)),
        (E.rx(r"ScriptError::validation_failure$"), lambda ex, c_, a, d: OpaqueV("validation_failure", d)),
    ]
    ps = S.run(ctx, _fn(S, "run", 3), [ctx.ref_to(OpaqueV("verifier", "TransactionScriptsVerifier")), ctx.ref_to(OpaqueV("group0", "ScriptGroup")), mx])
    S.prove(ctx, ob, "no_panic", [], T.not_(cond_of(panics(ps))))
    S.prove(ctx, ob, "the_scheduler_runs_with_the_budget_as_its_cycle_limit", [], bool(modes and all(dsc == rm.index("LimitCycles") and l == mx.t for dsc, l in modes)), extra={"note": str(modes[:2])})
    okc, goals, limit_errors = [], [], []
    for p_ in returns(ps):
        v = p_.value
        if isinstance(v, EnumV) and isinstance(v.disc, int) and v.disc == 0:
            okc.append(p_.cond())
            goals.append(T.implies(p_.cond(), T.eq(as_int(v.payload(0)[0]), total.t)))
        elif isinstance(v, EnumV) and isinstance(v.disc, int) and v.disc == 1:
            k_, pl_ = _se_kind(v.payload(1)[0], se)
            if k_ == "ExceededMaximumCycles":
                goals.append(T.implies(p_.cond(), T.and_(T.not_(term.t), T.eq(errdisc.t, vme["CyclesExceeded"]), T.eq(as_int(pl_[0]), mx.t))))
                limit_errors.append(p_.cond())
        else:
            goals.append(T.not_(p_.cond()))
    S.prove(ctx, ob, "ok_iff_created_terminated_and_exit_code_zero", [], T.iff(T.or_(*okc) if okc else False, T.and_(created.t, term.t, T.eq(code.t, 0))))
    S.prove(ctx, ob, "ok_carries_the_consumed_cycles_and_the_limit_error_carries_the_budget", [], T.and_(*goals) if goals else False)
    S.prove(ctx, ob, "a_run_that_exceeds_its_cycle_limit_reports_exceeded_maximum_cycles", [], T.iff(T.or_(*limit_errors) if limit_errors else False, T.and_(created.t, T.not_(term.t), T.eq(errdisc.t, vme["CyclesExceeded"]))))


OBLIGATIONS = OBLIGATIONS + [m8_single_run_mapping]


def m9_signal_parent(S):
    """the parent side of `chunk_run_with_signal` (async fn body as a coroutine; the `select!` poll is environment: each round either the command channel changed, the child
    finished, or both branches are disabled): the child task is spawned with a fresh scheduler and the SAME max_cycles, initially resumed; a Suspend command only interrupts the VM,
    a Stop command interrupts it and is forwarded, a Resume command frees the pause and is forwarded -- nothing else is sent to the child; when the child finishes, exit code 0 gives
    Ok(the consumed cycles it reported), any other exit code a validation failure with that code, a VM error goes through `map_vm_internal_error` with the same max_cycles"""
    from mir2smt.exec import CoroV
    from mir2smt import exec as X
    from mir2smt.srcinfo import field_index
    ob = "C05.m9"
    c = [f for f in S.prog.funcs if f.kind == "fn" and re.search(r"::chunk_run_with_signal::\{closure#0\}$", f.name) and len(f.params) == 2 and "Context" in f.params[1][1]]
    if len(c) != 1:
        raise Inconclusive(f"chunk_run_with_signal body: {len(c)} candidates")
    f = c[0]
    ix = {}
    for name, place in f.debug.items():
        m_ = re.match(r"\(\(\*\(_1\.0: .*?\)\)\.(\d+): ", place)
        if m_:
            ix[name] = int(m_.group(1))
    if not all(k in ix for k in ("self", "script_group", "max_cycles", "signal")):
        raise Inconclusive(f"upvars: {ix}")
    cmds = _variants("script/src/types.rs", "ChunkCommand")
    tr = field_index("script/src/types.rs", "TerminatedResult")
    X.ENUMS["Out"] = ["_0", "_1", "Disabled"]            # tokio::select! with two branches declares `enum Out<_0, _1> { _0(_0), _1(_1), Disabled }`
    ROUNDS = 4 if S.tier == "thorough" else 3
    ctx = S.ctx(unwind=ROUNDS + 2)
    ctx.max_paths = 20000
    ctx.uninterpreted_unknown_calls = True
    mx = ctx.int("max_cycles", "u64")
    which = [ctx.int(f"select_round_{k}", "u8") for k in range(ROUNDS + 2)]          # 0 command channel changed, 1 child finished, 2 both disabled
    cmd = [ctx.int(f"command_{k}", "u8") for k in range(ROUNDS + 2)]
    fin_ok, code, cons = ctx.bool("child_result_is_terminated"), ctx.int("exit_code", "i8"), ctx.int("consumed_cycles", "u64")
    acts, spawned, initial = [], [], []

    def n_of(ex, tag):
        return len([e for e in ex.log if e[0] == "c05" and e[1] == tag])

    def act(ex, *a):
        acts.append(tuple(a) + (n_of(ex, "round"), list(ex.pc)))
        ex.log.append(("c05", "act", [str(a)], list(ex.pc)))
    nmx = lambda ex, v: getattr(deref(ex, v) if isinstance(v, RefV) else v, "name", "?")

    def select_poll(ex, c_, a, d):
        k = n_of(ex, "round")
        ex.log.append(("c05", "round", [k], list(ex.pc)))
        if k >= len(which):
            raise Stop("more rounds than modelled")
        okunit = mk_result(True, UNIT, OpaqueV("recv_error", "RecvError"), "Result<(), RecvError>")
        okv = AggV(tuple((code if n == "exit_code" else cons) for n, _ in sorted(tr.items(), key=lambda kv: kv[1])), "TerminatedResult")
        res = mk_result(fin_ok.t, okv, OpaqueV("vm_error", "VMInternalError"), "Result<TerminatedResult, Error>")
        fin = mk_result(True, res, OpaqueV("recv_error", "RecvError"), "Result<Result<..>, RecvError>")
        if ex.decide(T.eq(which[k].t, 0)):
            out = EnumV(0, ((0, (okunit,)),), "Out")
        elif ex.decide(T.eq(which[k].t, 1)):
            out = EnumV(1, ((1, (fin,)),), "Out")
        else:
            out = EnumV(2, (), "Out")
        return EnumV(0, ((0, (out,)),), d)

    def borrow(ex, c_, a, d):
        k = n_of(ex, "round") - 1
        for i in range(3):
            if i == 2 or ex.decide(T.eq(cmd[k].t, i)):
                return ex.ctx.ref_to(EnumV(i, (), "ChunkCommand"))

    def spawn(ex, c_, a, d):
        v = a[0]
        ups = dict(getattr(v, "upvars", ()) or ()) if isinstance(v, CoroV) else None
        spawned.append((v, list(ex.pc)))
        return OpaqueV("join_handle", d)
    ctx.env = list(E.LOGGING_OFF) + [
        (E.rx(r"TransactionScriptsVerifier::<.*>::create_scheduler$"), lambda ex, c_, a, d: mk_result(ctx.bool("scheduler_created").t, OpaqueV("scheduler_fresh", "Scheduler"), OpaqueV("create_error", "ScriptError"), d)),
        (E.rx(r"Pause::new$"), lambda ex, c_, a, d: OpaqueV("pause", d)),
        (E.rx(r"Pause as Clone>::clone$"), lambda ex, c_, a, d: OpaqueV("pause_clone", d)),
        (E.rx(r"oneshot::channel::<"), lambda ex, c_, a, d: AggV((OpaqueV("finish_tx", "Sender"), OpaqueV("finish_rx", "Receiver")), "(Sender, Receiver)")),
        (E.rx(r"watch::channel::<"), lambda ex, c_, a, d: (initial.append(a[0]), AggV((OpaqueV("child_tx", "Sender"), OpaqueV("child_rx", "Receiver")), "(Sender, Receiver)"))[1]),
        (E.rx(r"^tokio::spawn::<|^spawn::<"), spawn),
        (E.rx(r"^poll_fn::<|future::poll_fn::<"), lambda ex, c_, a, d: OpaqueV("select_future", d)),
        (E.rx(r" as IntoFuture>::into_future$|Pin::<.*>::new_unchecked$"), lambda ex, c_, a, d: a[0]),
        (E.rx(r"<PollFn<.*> as Future>::poll$"), select_poll),
        (E.rx(r"JoinHandle<.*> as Future>::poll$"), lambda ex, c_, a, d: EnumV(0, ((0, (mk_result(True, UNIT, OpaqueV("join_error", "JoinError"), "Result<(), JoinError>"),)),), d)),
        (E.rx(r"watch::Receiver::<.*>::changed$"), lambda ex, c_, a, d: OpaqueV("changed_future", d)),
        (E.rx(r"watch::Receiver::<.*>::borrow$"), lambda ex, c_, a, d: OpaqueV("borrowed", d)),
        (E.rx(r"watch::Ref<.*> as Deref>::deref$"), borrow),
        (E.rx(r"<ChunkCommand as ToOwned>::to_owned$|<ChunkCommand as Clone>::clone$"), lambda ex, c_, a, d: deref(ex, a[0])),
        (E.rx(r"Pause::interrupt$"), lambda ex, c_, a, d: (act(ex, "interrupt", nmx(ex, a[0])), UNIT)[1]),
        (E.rx(r"Pause::free$"), lambda ex, c_, a, d: (act(ex, "free", nmx(ex, a[0])), UNIT)[1]),
        (E.rx(r"watch::Sender::<.*>::send$"), lambda ex, c_, a, d: (act(ex, "send", nmx(ex, a[0]), a[1].disc if isinstance(a[1], EnumV) else str(a[1])[:30]), mk_result(True, UNIT, OpaqueV("send_error", "SendError"), d))[1]),
        (E.rx(r"ScriptError::validation_failure$"), lambda ex, c_, a, d: AggV((OpaqueV("validation_failure", "tag"), a[1]), "ValidationFailure")),
        (E.rx(r"TransactionScriptsVerifier::<.*>::map_vm_internal_error$"), lambda ex, c_, a, d: AggV((OpaqueV("mapped_vm_error", "tag"), OpaqueV(nmx(ex, a[1]), "?"), a[2]), "Mapped")),
    ]
    ups = {ix["self"]: ctx.ref_to(OpaqueV("verifier", "TransactionScriptsVerifier")), ix["script_group"]: ctx.ref_to(OpaqueV("group0", "ScriptGroup")), ix["max_cycles"]: mx,
           ix["signal"]: ctx.ref_to(OpaqueV("signal", "Receiver"))}
    ps = S.run(ctx, f, [AggV((ctx.ref_to(CoroV(0, tuple(sorted(ups.items())), (), "coroutine")),), "Pin"), ctx.ref_to(OpaqueV("task_context", "Context"))], allow=("return", "panic", "unwind"))
    dom = [T.le(w.t, 2) for w in which] + [T.le(c_.t, 2) for c_ in cmd]
    S.prove(ctx, ob, "no_panic", dom, T.not_(cond_of(panics(ps))))
    # ---- the child task
    ok_spawn = bool(spawned) and bool(initial) and all(isinstance(v, EnumV) and v.disc == cmds.index("Resume") for v in initial)
    note = ""
    for v, pc in spawned:
        flat = str(v)
        if not ("scheduler_fresh" in flat and "max_cycles" in flat and "child_rx" in flat and "finish_tx" in flat and "pause_clone" in flat):
            ok_spawn = False
            note = flat[:300]
    S.prove(ctx, ob, "the_child_is_spawned_with_the_fresh_scheduler_the_same_max_cycles_and_starts_resumed", [], ok_spawn, extra={"note": note})
    # ---- commands
    goals = []
    per_round = {}
    for a in acts:
        per_round.setdefault((a[-2], tuple(map(str, a[-1]))), []).append(a)
    for a in acts:
        kind, rnd, pc = a[0], a[-2], a[-1]
        k = rnd - 1
        if kind == "interrupt":
            goals.append(T.implies(T.and_(*pc), T.and_(bool(a[1] == "pause"), T.or_(T.eq(cmd[k].t, cmds.index("Suspend")), T.eq(cmd[k].t, cmds.index("Stop"))))))
        elif kind == "free":
            goals.append(T.implies(T.and_(*pc), T.and_(bool(a[1] == "pause"), T.eq(cmd[k].t, cmds.index("Resume")))))
        elif kind == "send":
            goals.append(T.implies(T.and_(*pc), T.and_(bool(a[1] == "child_tx" and a[2] in (cmds.index("Stop"), cmds.index("Resume"))), T.eq(cmd[k].t, a[2]))))
    S.prove(ctx, ob, "suspend_only_interrupts_stop_interrupts_and_is_forwarded_resume_frees_and_is_forwarded", dom, T.and_(*goals) if goals else False)
    # every command round acts: Suspend -> interrupt; Stop -> interrupt + send; Resume -> free + send
    kinds_by_cmd = {}
    for a in acts:
        kinds_by_cmd.setdefault(a[0] + (":%s" % a[2] if a[0] == "send" else ""), 0)
        kinds_by_cmd[a[0] + (":%s" % a[2] if a[0] == "send" else "")] += 1
    S.prove(ctx, ob, "each_kind_of_action_occurs", [], bool({"interrupt", "free", f"send:{cmds.index('Stop')}", f"send:{cmds.index('Resume')}"} <= set(kinds_by_cmd)), extra={"note": str(kinds_by_cmd)})
    # ---- the result
    goals, seen = [], set()
    for p_ in returns(ps):
        v = p_.value
        if not (isinstance(v, EnumV) and v.disc == 0):
            goals.append(T.not_(p_.cond()))
            continue
        r = v.payload(0)[0]
        if not (isinstance(r, EnumV) and isinstance(r.disc, int)):
            goals.append(T.not_(p_.cond()))
            continue
        nr = len([c_ for c_ in p_.pc])        # unused; the round of the finish is in the path condition
        if r.disc == 0:
            seen.add("ok")
            goals.append(T.implies(p_.cond(), T.and_(fin_ok.t, T.eq(code.t, 0), T.eq(as_int(r.payload(0)[0]), cons.t))))
        else:
            e = r.payload(1)[0]
            if isinstance(e, AggV) and e.ty == "ValidationFailure":
                seen.add("validation")
                cterm = as_int(e.fields[1])
                goals.append(T.implies(p_.cond(), T.or_(T.and_(fin_ok.t, T.ne(code.t, 0), T.eq(cterm, code.t)), T.eq(cterm, 0))))
            elif isinstance(e, AggV) and e.ty == "Mapped":
                seen.add("mapped")
                goals.append(T.implies(p_.cond(), T.and_(T.not_(fin_ok.t), bool(getattr(e.fields[1], "name", None) == "vm_error"), T.eq(as_int(e.fields[2]), mx.t))))
            elif getattr(e, "name", None) == "create_error":
                seen.add("create_error")
                goals.append(T.implies(p_.cond(), T.not_(ctx.bool("scheduler_created").t)))
            else:
                goals.append(T.not_(p_.cond()))
    S.prove(ctx, ob, "the_result_of_the_child_is_mapped_exit_code_zero_to_its_cycles_other_codes_to_validation_failure_vm_errors_with_the_same_max_cycles", dom, T.and_(*goals) if goals else False)
    S.prove(ctx, ob, "every_kind_of_result_occurs", [], bool({"ok", "validation", "mapped", "create_error"} <= seen), extra={"note": str(sorted(seen))})


OBLIGATIONS = OBLIGATIONS + [m9_signal_parent]

ENGINE = "M"
LEVEL = "other"
EXPLANATION = ("The transaction-level cycle accounting of ckb-script (verify, resumable_verify, resume_from_state, complete) is executed symbolically from its MIR over three script groups with symbolic "
               "costs, budgets and suspension points; one script-group run is an environment symbol obeying the stated contract (completes iff the remaining cost fits into the budget, else "
               "suspends with the progress made). The solver decides that totals and verdicts do not depend on how the run was chunked. The child task of chunk_run_with_signal is executed as a coroutine body with the command channel and the scheduler as environment.")
BOUNDS = {"groups": "3 script groups (thorough: 5), any costs / budgets / progress (u64)", "signal_task": "up to 4 command rounds (thorough: 7), any command sequence and run outcomes", "signal_parent": "3 select rounds (thorough: 4), any commands, any child result",
          "outside": "the CKB-VM and the scheduler (that a real script run satisfies the contract), tokio's select!/channel internals, spawn/exec"}
ASSUMPTIONS = ["contract of one script-group run: uninterrupted cost c; with budget b from progress p it completes iff c - p <= b reporting (used = c, consumed = c - p), else suspends with a recorded progress p' with p <= p' <= p + b",
               "contract of the scheduler in the signal task: the consumed-cycle counter never decreases and one run consumes at most the limit it was given",
               "the sum of the group costs fits u64"]
TRUSTED = []
LEVEL_TEXT = ("Relative to a stated contract of a single script-group run (the VM is not executed), decided on the real MIR: the uninterrupted verification succeeds iff the budget covers the sum of the "
              "group costs and reports that sum; a resumable run suspends at the first group that does not fit, and resuming from any state the code can produce, with any chunk size, reports the same "
              "total when it completes; completing a suspended verification never succeeds beyond the budget; the task that runs the VM under pause/resume commands limits every run to what is left of the budget, "
              "for any command sequence up to the stated number of rounds. The parent task forwards commands and maps the child's result as documented. The VM, the scheduler and tokio's select/channel internals are outside and not claimed.")
LEVEL_NOTE = "Partial claim (cycle accounting around the VM, relative to a run contract; 3 groups quick / 5 thorough; signal task 4 / 7 rounds). The VM interpreter, scheduler, syscalls, spawn trees, tokio internals: outside."
TECHNIQUE = "symbolic execution of rustc MIR -> integer-theory SMT (cvc5 + z3), one script-group run as an environment contract"
DESIGN_REF = "DESIGN.md section 4 (C05)"
