"""C02 — stored canonical-chain state equals a replay of the main chain (engine M, partial: the attach/detach kernels).

Claimed (partial): the write sets of the functions that apply / undo one block on the canonical-chain indexes, decided on the real MIR in dataflow mode
(every database write is an environment symbol that logs column, key and value provenance):

 m1  `StoreTransaction::attach_block` writes exactly: tx-info rows (tx hash -> {block hash, index, number, epoch}) for every transaction in order,
     number -> hash, hash -> number and one uncle row per uncle; `detach_block` deletes exactly the same (column, key) set and nothing else;
 m2  `attach_block_cell`: every output of every transaction (cellbase included) becomes a live cell whose entry carries this block's hash/number/epoch, the
     transaction's index, the output and its data size, a data row iff the data is non-empty (hash = calc_data_hash(data)); inputs of every non-cellbase
     transaction are deleted AFTER the inserts (a cell created and spent inside the block ends dead);
 m3  `detach_block_cell`: spent cells are restored from the creating transaction's stored info (block hash/number/epoch/index of the creating block — not of the
     detached block) BEFORE the outputs of the detached block are deleted (a cell created and spent inside the block ends absent); cellbase inputs are skipped;
 m4  `insert_cells` / `delete_cells`: the three cell columns are written / deleted under the same out-point key;
 m5  `rollback` (chain/src/verify.rs) undoes detached blocks newest first, each with detach_block_cell + detach_block + MMR pop semantics as coded.

Outside: RocksDB itself (atomicity of the transaction, snapshots under concurrency), epoch/ext/MMR records over histories (attach order: C03.m11, C19.m4).
"""
import os
import re
from mir2smt.ob import *
from mir2smt import terms as T
from mir2smt.exec import StrV, OpaqueV, IntV, BoolV, AggV, EnumV, RefV, ListV, UNIT, Stop, mk_option, mk_result
from mir2smt import envlib as E
from mir2smt.builtins import deref

CRATES = ["ckb-constant", "ckb-occupied-capacity-core", "ckb-types", "ckb-freezer", "ckb-db-schema", "ckb-store", "ckb-chain"]


def _columns():
    cols = {}
    s = open("/repo/db-schema/src/lib.rs").read()
    for m in re.finditer(r"pub const (COLUMN_\w+): Col = \"(\d+)\";", s):
        cols[m.group(1)] = m.group(2)
    return cols


def nmv(ex, v):
    v = deref(ex, v) if ex is not None else v
    if isinstance(v, ListV):
        return "[" + ",".join(nmv(ex, x) for x in v.items) + "]"
    if isinstance(v, AggV):
        return "[" + ",".join(nmv(ex, x) for x in v.fields) + "]"
    if isinstance(v, IntV):
        return v.t[2] if isinstance(v.t, tuple) and v.t[0] == "var" else str(v.t)
    if isinstance(v, StrV):
        return v.s.strip('"')
    return getattr(v, "name", None) or type(v).__name__


def colv(ex, v):
    """column operand: a string constant (schema crate loaded) or an opaque reference to the schema constant"""
    n = nmv(ex, v)
    m = re.match(r"const\.ckb_db_schema__(COLUMN_\w+)$", n)
    return _columns()[m.group(1)] if m else n


def call(tag):
    return lambda ex, c, a, d: OpaqueV(tag + "(" + ",".join(nmv(ex, x) for x in a) + ")", d)


def _ok_cond(ps):
    """condition under which the function returns Ok (discriminant 0 of the Result)"""
    c = []
    for p in returns(ps):
        if not isinstance(p.value, EnumV):
            raise Inconclusive(f"result is not an enum: {p.value}")
        d = p.value.disc
        c.append(T.and_(p.cond(), (d == 0) if isinstance(d, int) else T.eq(d, 0)))
    return T.or_(*c) if c else False


def _find(S, pred, what):
    f = [x for x in S.prog.funcs if x.kind == "fn" and pred(x)]
    if len(f) != 1:
        raise Inconclusive(f"{what}: {len(f)} candidates")
    return f[0]


def _builder_env(sets):
    """molecule builders as provenance records: `X::new_builder().a(p).b(q).build()` becomes the opaque value `X{a=p,b=q}`"""
    def setter(ex, callee, args, dty):
        f = re.sub(r"::<.*$", "", callee)
        b = nmv(ex, args[0])
        return OpaqueV(b + ("," if not b.endswith("{") else "") + f.split("::")[-1] + "=" + nmv(ex, args[1]), dty)

    def new_builder(ex, c, a, d):
        m = re.search(r"(\w+)Builder", d) or re.search(r"(\w+)::new_builder", c) or re.search(r"(\w+)Builder", c)
        return OpaqueV((m.group(1) if m else d) + "{", d)

    def build(ex, c, a, d):
        v = OpaqueV(nmv(ex, a[0]) + "}", d)
        sets.append(v.name)
        return v
    return [
        (E.rx(r"Builder::\w+(::<.*>)?$"), setter),
        (E.rx(r"::new_builder$|Builder as (?:std::default::|core::default::)?Default>::default$"), new_builder),
        (E.rx(r"Builder>?::build$"), build),
    ]


_PASS = (E.rx(r"::as_slice$|as Deref>::deref$|as Unsize|as Clone>::clone$|::clone$|as From<.*>>::from$|as Into<.*>>::into$|as Pack<.*>>::pack$|as Unpack<.*>>::unpack$|::as_ref$"),
         lambda ex, c, a, d: OpaqueV(nmv(ex, a[0]), d))


def m1_attach_detach_block_rows(S):
    ob = "C02.m1"
    cols = _columns()
    for ntx in (1, 2, 3):
        for nunc in (0, 1, 2):
            logs = {}
            for short, may_fail in (("attach_block", False), ("detach_block", False), ("attach_block", True), ("detach_block", True)):
                ctx = S.ctx(unwind=8)
                ctx.uninterpreted_unknown_calls = True
                log = []
                if not may_fail:
                    logs[short] = log

                def okflag(ex, op, col, key):
                    if not may_fail:
                        return True
                    return ex.ctx.bool("db_ok_" + re.sub(r"[^A-Za-z0-9]+", "_", f"{op}_{col}_{key}")).t

                def insert_raw(ex, c, a, d, log=log):
                    e = ("put", colv(ex, a[1]), nmv(ex, a[2]), nmv(ex, a[3]))
                    log.append(e)
                    return mk_result(okflag(ex, *e[:3]), UNIT, OpaqueV("dberr", "Error"), d)

                def delete(ex, c, a, d, log=log):
                    e = ("del", colv(ex, a[1]), nmv(ex, a[2]), None)
                    log.append(e)
                    return mk_result(okflag(ex, *e[:3]), UNIT, OpaqueV("dberr", "Error"), d)
                sets = []
                ctx.env = list(E.LOGGING_OFF) + [
                    (E.rx(r"StoreTransaction::insert_raw$"), insert_raw),
                    (E.rx(r"StoreTransaction::delete$"), delete),
                    (E.rx(r"BlockView::tx_hashes$"), lambda ex, c, a, d, ntx=ntx: ex.ctx.ref_to(ListV(tuple(OpaqueV(f"txh{k}", "Byte32") for k in range(ntx)), "[Byte32]"))),
                    (E.rx(r"BlockView::uncles$"), lambda ex, c, a, d: OpaqueV("uncles", d)),
                    (E.rx(r"UncleBlockVecView as IntoIterator>::into_iter$"), E.list_source([OpaqueV(f"uncle{k}", "UncleBlockView") for k in range(nunc)])),
                    (E.rx(r"(?<!Uncle)BlockView::hash$"), lambda ex, c, a, d: OpaqueV("block_hash", d)),
                    (E.rx(r"(?<!Uncle)BlockView::number$"), lambda ex, c, a, d: OpaqueV("block_number", d)),
                    (E.rx(r"BlockView::data$"), lambda ex, c, a, d: OpaqueV("data", d)),
                    (E.rx(r"Block::header$"), lambda ex, c, a, d: OpaqueV("hdr", d)),
                    (E.rx(r"Header::raw$"), lambda ex, c, a, d: OpaqueV("raw", d)),
                    (E.rx(r"RawHeader::number$"), lambda ex, c, a, d: OpaqueV("block_number", d)),
                    (E.rx(r"RawHeader::epoch$"), lambda ex, c, a, d: OpaqueV("block_epoch", d)),
                    (E.rx(r"UncleBlockView::hash$"), call("hash")),
                    (E.rx(r"UncleBlockView::header$"), call("header")),
                ] + _builder_env(sets) + [_PASS] + list(E.LIST_ADAPTORS)
                f = _find(S, lambda x: x.short == short and "store/src/transaction.rs" in x.name and len(x.params) == 2, "StoreTransaction::" + short)
                ps = S.run(ctx, f, [ctx.ref_to(OpaqueV("txn", "StoreTransaction")), ctx.ref_to(OpaqueV("block", "BlockView"))])
                tag = f"{short}_tx{ntx}_uncles{nunc}"
                if not may_fail:
                    S.prove(ctx, ob, f"{tag}_single_path_no_panic_returns_ok", [], bool(len(ps) == 1 and ps[0].outcome == "return" and isinstance(ps[0].value, EnumV) and ps[0].value.disc == 0),
                            extra={"note": str([(p.outcome, p.value) for p in ps])[:300]})
                    continue
                # a failed write is reported: on every path that returns Ok, every write that the all-succeed run issues has succeeded
                S.prove(ctx, ob, f"{tag}_no_panic", [], T.not_(cond_of(panics(ps))))
                flags = sorted({ctx.bool("db_ok_" + re.sub(r"[^A-Za-z0-9]+", "_", f"{op}_{col}_{key}")).t
                                for op, col, key, _ in logs[short]}, key=str)
                S.prove(ctx, ob, f"{tag}_returns_ok_iff_every_write_succeeded", [], T.iff(_ok_cond(ps), T.and_(*flags)))
            att = [(op, col, key, val) for op, col, key, val in logs["attach_block"]]
            det = [(op, col, key) for op, col, key, _ in logs["detach_block"]]
            want_att = []
            for k in range(ntx):
                want_att.append(("put", cols["COLUMN_TRANSACTION_INFO"], f"txh{k}",
                                 "TransactionInfo{key=TransactionKey{block_hash=block_hash,index=%s},block_number=block_number,block_epoch=block_epoch}" % k))
            want_att.append(("put", cols["COLUMN_INDEX"], "block_number", "block_hash"))
            for k in range(nunc):
                want_att.append(("put", cols["COLUMN_UNCLES"], f"hash(uncle{k})", f"header(uncle{k})"))
            want_att.append(("put", cols["COLUMN_INDEX"], "block_hash", "block_number"))
            tag = f"tx{ntx}_uncles{nunc}"
            S.prove(S.ctx(), ob, f"attach_block_{tag}_writes_exactly_the_canonical_rows_of_this_block", [], bool(sorted(att) == sorted(want_att)),
                    extra={"note": str(sorted(set(att) ^ set(want_att)))})
            S.prove(S.ctx(), ob, f"attach_block_{tag}_tx_info_rows_in_block_order", [],
                    bool([x for x in att if x[1] == cols["COLUMN_TRANSACTION_INFO"]] == [x for x in want_att if x[1] == cols["COLUMN_TRANSACTION_INFO"]]))
            S.prove(S.ctx(), ob, f"detach_block_{tag}_deletes_exactly_the_keys_attach_wrote", [],
                    bool(all(op == "del" for op, _, _ in det) and sorted((c, k) for _, c, k in det) == sorted((c, k) for _, c, k, _ in att) and len(set(det)) == len(det)),
                    extra={"note": str(sorted(set((c, k) for _, c, k in det) ^ set((c, k) for _, c, k, _ in att)))})


def _pass(ex, c, a, d):
    """conversion / borrow helpers: the value keeps its provenance name"""
    v = deref(ex, a[0])
    if isinstance(v, OpaqueV):
        return OpaqueV(v.name, d)
    return a[0]


_PASS2 = (E.rx(r"::as_slice$|as Deref>::deref$|as Unsize|as Clone>::clone$|::clone$|as From<.*>>::from$|as Into<.*>>::into$|as Pack<.*>>::pack$|as Unpack<.*>>::unpack$|::as_ref$"), _pass)


def _cell_env(ctx, ops, shape, spent_known=True):
    """environment for the cell-set functions. `shape`: list of (number of inputs, number of outputs) per transaction; transaction k is `tx{k}`, its
    input j spends `in{k}_{j}` (an out-point made of `prev{k}_{j}` and the symbolic index `pidx{k}_{j}`); tests may alias previous tx hashes"""
    def insert_cells(ex, c, a, d):
        items = E._as_items(ex, deref(ex, a[1]))
        if items is None:
            raise Stop("insert_cells: argument is not a list iterator")
        ops.append(("insert", [nmv(ex, x) for x in items], list(ex.pc)))
        return mk_result(True, UNIT, OpaqueV("dberr", "Error"), d)

    def delete_cells(ex, c, a, d):
        items = E._as_items(ex, deref(ex, a[1]))
        if items is None:
            raise Stop("delete_cells: argument is not a list iterator")
        ops.append(("delete", [nmv(ex, x) for x in items], list(ex.pc)))
        return mk_result(True, UNIT, OpaqueV("dberr", "Error"), d)

    def txs(ex, c, a, d):
        return ListV(tuple(OpaqueV(f"tx{k}", "TransactionView") for k in range(len(shape))), "Vec<TransactionView>")

    def txno(ex, v):
        m = re.fullmatch(r"tx(\d+)", nmv(ex, v))
        if not m:
            raise Stop(f"not a block transaction: {nmv(ex, v)}")
        return int(m.group(1))

    def outputs_with_data(ex, c, a, d):
        k = txno(ex, a[0])
        return E._owned([AggV((OpaqueV(f"out{k}_{j}", "CellOutput"), OpaqueV(f"data{k}_{j}", "Bytes")), "(CellOutput, Bytes)") for j in range(shape[k][1])])

    def input_pts(ex, c, a, d):
        k = txno(ex, a[0])
        return E._owned([OpaqueV(f"in{k}_{j}", "OutPoint") for j in range(shape[k][0])])

    def output_pts(ex, c, a, d):
        k = txno(ex, a[0])
        return E._owned([OpaqueV(f"OutPoint{{tx_hash=hash(tx{k}),index={j}}}", "OutPoint") for j in range(shape[k][1])])

    def is_empty(ex, c, a, d):
        return ex.ctx.bool("empty_" + nmv(ex, a[0]))

    def blen(ex, c, a, d):
        return ex.ctx.int("len_" + nmv(ex, a[0]), "usize")
    return list(E.LOGGING_OFF) + [
        (E.rx(r"StoreTransaction::insert_cells::<"), insert_cells),
        (E.rx(r"StoreTransaction::delete_cells::<"), delete_cells),
        (E.rx(r"(?<!Uncle)BlockView::transactions$"), txs),
        (E.rx(r"(?<!Uncle)BlockView::header$"), lambda ex, c, a, d: OpaqueV("header", d)),
        (E.rx(r"HeaderView::hash$"), lambda ex, c, a, d: OpaqueV("block_hash", d)),
        (E.rx(r"HeaderView::number$"), lambda ex, c, a, d: OpaqueV("block_number", d)),
        (E.rx(r"HeaderView::epoch$"), lambda ex, c, a, d: OpaqueV("block_epoch", d)),
        (E.rx(r"TransactionView::hash$"), call("hash")),
        (E.rx(r"TransactionView::outputs_with_data_iter$"), outputs_with_data),
        (E.rx(r"TransactionView::input_pts_iter$"), input_pts),
        (E.rx(r"TransactionView::output_pts_iter$"), output_pts),
        (E.rx(r"Bytes::is_empty$"), is_empty),
        (E.rx(r"Bytes::len$"), blen),
        (E.rx(r"calc_data_hash$"), call("calc_data_hash")),
    ]


def _entry(txhash, j, out, data, bh, bn, be, idx, empty):
    """the three values stored for one live cell, as provenance strings (builder order as in the source)"""
    op = "OutPoint{tx_hash=%s,index=%s}" % (txhash, j)
    ent = "CellEntry{output=%s,block_hash=%s,block_number=%s,block_epoch=%s,index=%s,data_size=%s}" % (out, bh, bn, be, idx, re.sub(r"[^A-Za-z0-9_]", "_", "len_" + data))
    de = "None" if empty else "Some(CellDataEntry{output_data=%s,output_data_hash=calc_data_hash(%s)})" % (data, data)
    return (op, ent, de)


def _norm_item(s):
    """'[op,entry,EnumV]' is printed by nmv for the tuple; the Option payload needs its own rendering"""
    return s


def nm_cell(ex, x):
    x = deref(ex, x) if ex is not None else x
    if isinstance(x, AggV) and len(x.fields) == 3:
        o = x.fields[2]
        if isinstance(o, EnumV) and isinstance(o.disc, int):
            de = "None" if o.disc == 0 else "Some(" + nmv(ex, o.payload(1)[0]) + ")"
        else:
            de = "?" + str(o)[:60]
        return (nmv(ex, x.fields[0]), nmv(ex, x.fields[1]), de)
    return nmv(ex, x)


# (inputs, outputs) per transaction; transaction 0 is the cellbase (its one null input must not be deleted)
SHAPES = [[(1, 1)], [(1, 1), (1, 1)], [(1, 2), (2, 1)], [(1, 1), (1, 2), (2, 0)], [(1, 0), (1, 1)], [(0, 1), (2, 2)]]


def m2_attach_block_cell(S):
    ob = "C02.m2"
    f = _find(S, lambda x: x.name == "attach_block_cell" and len(x.params) == 2, "attach_block_cell")
    for si, shape in enumerate(SHAPES):
        ctx = S.ctx(unwind=12)
        ctx.uninterpreted_unknown_calls = True
        ctx.max_paths = 4000
        ops = []
        sets = []
        env = _cell_env(ctx, ops, shape)
        # insert_cells logs structured triples
        def insert_cells(ex, c, a, d, ops=ops):
            items = E._as_items(ex, deref(ex, a[1]))
            if items is None:
                raise Stop("insert_cells: argument is not a list iterator")
            ops.append(("insert", [nm_cell(ex, x) for x in items], list(ex.pc)))
            return mk_result(True, UNIT, OpaqueV("dberr", "Error"), d)
        env = [(E.rx(r"StoreTransaction::insert_cells::<"), insert_cells)] + env
        ctx.env = env + _builder_env(sets) + [_PASS2] + list(E.LIST_ADAPTORS)
        ps = S.run(ctx, f, [ctx.ref_to(OpaqueV("txn", "StoreTransaction")), ctx.ref_to(OpaqueV("block", "BlockView"))])
        tag = "shape" + "_".join(f"{i}i{o}o" for i, o in shape)
        S.prove(ctx, ob, f"{tag}_no_panic_returns_ok", [], T.and_(T.not_(cond_of(panics(ps))), _ok_cond(ps)))
        cells = [(k, j) for k in range(len(shape)) for j in range(shape[k][1])]
        # per path: ops come in pairs (insert, delete) in this order
        by_path = {}
        for op, items, pc in ops:
            by_path.setdefault(tuple(map(str, pc)), []).append((op, items, pc))
        good_order = all([o for o, _, _ in v] == ["insert", "delete"] for v in by_path.values())
        S.prove(ctx, ob, f"{tag}_new_cells_are_inserted_before_spent_cells_are_deleted", [], bool(by_path and good_order), extra={"note": str([[o for o, _, _ in v] for v in by_path.values()])[:300]})
        ok_ins, ok_del, notes = True, True, []
        for v in by_path.values():
            for op, items, pc in v:
                if op == "insert":
                    model = {}
                    # which data are empty on this path: read from the path condition (each emptiness flag was decided)
                    pcs = set(map(str, pc))
                    want = []
                    for k, j in cells:
                        e = ctx.bool(f"empty_data{k}_{j}").t
                        empty = str(e) in pcs
                        if not empty and str(T.not_(e)) not in pcs:
                            ok_ins = False
                            notes.append(f"emptiness of data{k}_{j} undecided")
                        want.append(_entry(f"hash(tx{k})", j, f"out{k}_{j}", f"data{k}_{j}", "block_hash", "block_number", "block_epoch", k, empty))
                    if items != want:
                        ok_ins = False
                        notes.append(str([x for x in items if x not in want])[:400] + " / missing " + str([x for x in want if x not in items])[:400])
                else:
                    want = [f"in{k}_{j}" for k in range(1, len(shape)) for j in range(shape[k][0])]
                    if items != want:
                        ok_del = False
                        notes.append(f"deleted {items} want {want}")
        S.prove(ctx, ob, f"{tag}_every_output_becomes_a_live_cell_with_this_blocks_coordinates", [], bool(ok_ins), extra={"note": "; ".join(notes)[:900]})
        S.prove(ctx, ob, f"{tag}_exactly_the_inputs_of_non_cellbase_transactions_are_deleted", [], bool(ok_del), extra={"note": "; ".join(notes)[:900]})
        S.prove(ctx, ob, f"{tag}_every_emptiness_combination_is_explored", [], bool(len(by_path) == 2 ** len(cells)), extra={"note": f"{len(by_path)} paths, {len(cells)} cells"})


def _hashmap_env():
    """`HashMap<Byte32, Vec<usize>>` keyed by opaque hashes: keys are equal exactly when their provenance names are equal (a scenario fixes which inputs spend the
    same previous transaction); the map is a list of (key, cell holding the Vec) in first-insertion order -- the iteration order of the real map is arbitrary, the
    obligations below compare what is restored as a set"""
    from mir2smt.builtins import _wr

    def new(ex, c, a, d):
        return ListV((), d or "HashMap")

    def entry(ex, c, a, d):
        m = deref(ex, a[0])
        k = deref(ex, a[1])
        if not isinstance(m, ListV) or not isinstance(k, OpaqueV):
            raise Stop("hashmap entry on an unknown map/key")
        for kv in m.items:
            if kv.fields[0].name == k.name:
                return AggV((kv.fields[1], BoolV(True)), "Entry")
        return AggV((a[0], k, BoolV(False)), "Entry")

    def or_insert_with(ex, c, a, d):
        e = a[0]
        if not isinstance(e, AggV) or e.ty != "Entry":
            raise Stop("or_insert_with on an unknown entry")
        if len(e.fields) == 2:
            return e.fields[0]
        mref, k, _ = e.fields
        cell = ex.ctx.ref_to(ListV((), "Vec<usize>"))
        m = deref(ex, mref)
        _wr(ex, mref, ListV(m.items + (AggV((k, cell), "(K, V)"),), m.ty))
        return cell

    def it(ex, c, a, d):
        m = deref(ex, a[0])
        if not isinstance(m, ListV):
            raise Stop("hashmap iter on an unknown map")
        return E._owned([AggV((ex.ctx.ref_to(kv.fields[0]), kv.fields[1]), "(&K, &V)") for kv in m.items])
    return [
        (E.rx(r"HashMap::<Byte32, Vec<usize>>::(with_capacity|new)$"), new),
        (E.rx(r"HashMap::<Byte32, Vec<usize>>::entry$"), entry),
        (E.rx(r"Entry::<'_, Byte32, Vec<usize>>::or_insert_with::<"), or_insert_with),
        (E.rx(r"HashMap::<Byte32, Vec<usize>>::iter$"), it),
    ]


# scenarios for the undo: per non-cellbase input the previous transaction it spends (same name = same transaction)
DETACH_SCENARIOS = [
    ([(0, 1), (1, 1)], {(1, 0): "A"}),
    ([(0, 1), (2, 1)], {(1, 0): "A", (1, 1): "A"}),                         # two cells of one previous transaction
    ([(0, 1), (2, 2)], {(1, 0): "A", (1, 1): "B"}),
    ([(0, 2), (1, 1), (2, 1)], {(1, 0): "A", (2, 0): "hash(tx1)", (2, 1): "A"}),   # tx2 spends an output created by tx1 in this very block
    ([(1, 1), (1, 0)], {(0, 0): "Z", (1, 0): "A"}),                           # the cellbase's (null) input is not restored
]


def m3_detach_block_cell(S):
    from mir2smt.srcinfo import field_index
    ob = "C02.m3"
    ti = field_index("util/types/src/core/extras.rs", "TransactionInfo")
    f = _find(S, lambda x: x.name == "detach_block_cell" and len(x.params) == 2, "detach_block_cell")
    for si, (shape, prev) in enumerate(DETACH_SCENARIOS):
        ctx = S.ctx(unwind=12)
        ctx.uninterpreted_unknown_calls = True
        ctx.max_paths = 4000
        ops = []
        sets = []

        def insert_cells(ex, c, a, d, ops=ops):
            items = E._as_items(ex, deref(ex, a[1]))
            if items is None:
                raise Stop("insert_cells: argument is not a list iterator")
            ops.append(("insert", [nm_cell(ex, x) for x in items], list(ex.pc)))
            return mk_result(True, UNIT, OpaqueV("dberr", "Error"), d)

        def in_no(ex, v):
            m = re.fullmatch(r"in(\d+)_(\d+)", nmv(ex, v))
            if not m:
                raise Stop(f"not an input out-point: {nmv(ex, v)}")
            return int(m.group(1)), int(m.group(2))

        def op_tx_hash(ex, c, a, d, prev=prev):
            return OpaqueV(prev[in_no(ex, a[0])], d)

        def op_index(ex, c, a, d):
            k, j = in_no(ex, a[0])
            return OpaqueV(f"pidx{k}_{j}", d)

        def get_tx_info(ex, c, a, d):
            h = nmv(ex, a[1])
            info = AggV(tuple(OpaqueV(f"info({h}).{name}", "?") for name, _ in sorted(ti.items(), key=lambda kv: kv[1])), "TransactionInfo")
            return mk_option(True, AggV((OpaqueV(f"txof({h})", "TransactionView"), info), "(TransactionView, TransactionInfo)"), d)

        def output_with_data(ex, c, a, d):
            t, i = nmv(ex, a[0]), nmv(ex, a[1])
            return mk_option(True, AggV((OpaqueV(f"out({t},{i})", "CellOutput"), OpaqueV(f"data({t},{i})", "Bytes")), "(CellOutput, Bytes)"), d)
        env = [(E.rx(r"StoreTransaction::insert_cells::<"), insert_cells),
               (E.rx(r"OutPoint::tx_hash$"), op_tx_hash), (E.rx(r"OutPoint::index$"), op_index),
               (E.rx(r"ChainStore>::get_transaction_with_info$"), get_tx_info),
               (E.rx(r"TransactionView::output_with_data$"), output_with_data)] + _hashmap_env() + _cell_env(ctx, ops, shape)
        ctx.env = env + _builder_env(sets) + [_PASS2] + list(E.LIST_ADAPTORS)
        ps = S.run(ctx, f, [ctx.ref_to(OpaqueV("txn", "StoreTransaction")), ctx.ref_to(OpaqueV("block", "BlockView"))])
        tag = f"scenario{si}"
        S.prove(ctx, ob, f"{tag}_no_panic_returns_ok", [], T.and_(T.not_(cond_of(panics(ps))), _ok_cond(ps)))
        by_path = {}
        for op, items, pc in ops:
            by_path.setdefault(tuple(map(str, pc)), []).append((op, items, pc))
        S.prove(ctx, ob, f"{tag}_spent_cells_are_restored_before_the_blocks_outputs_are_deleted", [], bool(by_path and all([o for o, _, _ in v] == ["insert", "delete"] for v in by_path.values())),
                extra={"note": str([[o for o, _, _ in v] for v in by_path.values()])[:300]})
        spent = [(k, j) for k in range(1, len(shape)) for j in range(shape[k][0])]
        ok_ins, ok_del, notes = True, True, []
        for v in by_path.values():
            for op, items, pc in v:
                pcs = set(map(str, pc))
                if op == "insert":
                    want = []
                    for k, j in spent:
                        h = prev[(k, j)]
                        data = f"data(txof({h}),pidx{k}_{j})"
                        e = ctx.bool("empty_" + data).t
                        empty = str(e) in pcs
                        if not empty and str(T.not_(e)) not in pcs:
                            ok_ins = False
                            notes.append(f"emptiness of {data} undecided")
                        want.append(_entry(h, f"pidx{k}_{j}", f"out(txof({h}),pidx{k}_{j})", data, f"info({h}).block_hash", f"info({h}).block_number", f"info({h}).block_epoch", f"info({h}).index", empty))
                    if sorted(items) != sorted(want):
                        ok_ins = False
                        notes.append(str([x for x in items if x not in want])[:500] + " / missing " + str([x for x in want if x not in items])[:500])
                else:
                    want = [f"OutPoint{{tx_hash=hash(tx{k}),index={j}}}" for k in range(len(shape)) for j in range(shape[k][1])]
                    if items != want:
                        ok_del = False
                        notes.append(f"deleted {items} want {want}")
        S.prove(ctx, ob, f"{tag}_every_spent_cell_is_restored_with_its_creating_blocks_coordinates", [], bool(ok_ins), extra={"note": "; ".join(notes)[:1200]})
        S.prove(ctx, ob, f"{tag}_exactly_the_outputs_of_this_block_are_deleted", [], bool(ok_del), extra={"note": "; ".join(notes)[:900]})
        S.prove(ctx, ob, f"{tag}_every_emptiness_combination_is_explored", [], bool(len(by_path) == 2 ** len(spent)), extra={"note": f"{len(by_path)} paths, {len(spent)} spent cells"})


def m4_cell_columns(S):
    """`insert_cells` writes, per cell, the entry, the data (or an empty value) and the data hash (or an empty value) under the one key derived from the out-point,
    in the order of the iterator; `delete_cells` deletes the same three columns under that key -- so what attach wrote for a cell is exactly what the undo removes"""
    ob = "C02.m4"
    cols = _columns()
    fi = _find(S, lambda x: x.short == "insert_cells" and "store/src/transaction.rs" in x.name, "StoreTransaction::insert_cells")
    fd = _find(S, lambda x: x.short == "delete_cells" and "store/src/transaction.rs" in x.name, "StoreTransaction::delete_cells")
    wrote = {}
    for n, pattern in ((1, (True,)), (1, (False,)), (2, (True, False)), (3, (False, True, True))):
        for fn, short in ((fi, "insert_cells"), (fd, "delete_cells")):
            ctx = S.ctx(unwind=12)
            ctx.uninterpreted_unknown_calls = True
            log = []

            def insert_raw(ex, c, a, d, log=log):
                log.append(("put", colv(ex, a[1]), nmv(ex, a[2]), nmv(ex, a[3])))
                return mk_result(True, UNIT, OpaqueV("dberr", "Error"), d)

            def delete(ex, c, a, d, log=log):
                log.append(("del", colv(ex, a[1]), nmv(ex, a[2]), None))
                return mk_result(True, UNIT, OpaqueV("dberr", "Error"), d)
            ctx.env = list(E.LOGGING_OFF) + [
                (E.rx(r"StoreTransaction::insert_raw$"), insert_raw),
                (E.rx(r"StoreTransaction::delete$"), delete),
                (E.rx(r"::to_cell_key$"), call("cell_key")),
                (E.rx(r"CellDataEntry::output_data_hash$"), call("output_data_hash")),
                _PASS2] + list(E.LIST_ADAPTORS)
            if short == "insert_cells":
                items = [AggV((OpaqueV(f"op{k}", "OutPoint"), OpaqueV(f"entry{k}", "CellEntry"),
                               mk_option(pattern[k], OpaqueV(f"data{k}", "CellDataEntry") if pattern[k] else None, "Option<CellDataEntry>")), "(OutPoint, CellEntry, Option<CellDataEntry>)") for k in range(n)]
            else:
                items = [OpaqueV(f"op{k}", "OutPoint") for k in range(n)]
            ps = S.run(ctx, fn, [ctx.ref_to(OpaqueV("txn", "StoreTransaction")), E._owned(items)])
            tag = f"{short}_{n}cells_" + "".join("d" if x else "e" for x in pattern)
            S.prove(ctx, ob, f"{tag}_single_path_returns_ok", [], bool(len(ps) == 1 and ps[0].outcome == "return") and _ok_cond(ps), extra={"note": str([(p.outcome, str(p.value)[:60]) for p in ps])})
            if short == "insert_cells":
                want = []
                for k in range(n):
                    key = f"cell_key(op{k})"
                    want.append(("put", cols["COLUMN_CELL"], key, f"entry{k}"))
                    if pattern[k]:
                        want.append(("put", cols["COLUMN_CELL_DATA"], key, f"data{k}"))
                        want.append(("put", cols["COLUMN_CELL_DATA_HASH"], key, f"output_data_hash(data{k})"))
                    else:
                        want.append(("put", cols["COLUMN_CELL_DATA"], key, None))
                        want.append(("put", cols["COLUMN_CELL_DATA_HASH"], key, None))
                got = [(o, c_, k_, (v if not _is_empty_slice(v) else None)) for o, c_, k_, v in log]
                S.prove(ctx, ob, f"{tag}_entry_data_and_hash_rows_under_the_outpoint_key", [], bool(got == want), extra={"note": str([x for x in got if x not in want])[:600] + " / missing " + str([x for x in want if x not in got])[:600]})
                wrote[(n, pattern)] = sorted((c_, k_) for _, c_, k_, _ in log)
            else:
                dels = sorted((c_, k_) for o, c_, k_, _ in log if o == "del")
                S.prove(ctx, ob, f"{tag}_deletes_exactly_the_rows_insert_wrote", [], bool(len(dels) == len(log) and dels == wrote[(n, pattern)]), extra={"note": str(dels) + " vs " + str(wrote[(n, pattern)])})


def _is_empty_slice(v):
    return v in ("[]", "ListV", "SliceV", "") or (isinstance(v, str) and (v.startswith("promoted") or v == "const_empty"))


def m5_rollback_order(S):
    """`rollback`: the detached blocks (kept in ascending order by find_fork, C01.m3) are undone newest first, each by detach_block and detach_block_cell on that very block,
    and a failure stops the rollback with the error"""
    ob = "C02.m5"
    f = _find(S, lambda x: x.short == "rollback" and "chain/src/verify.rs" in x.name and len(x.params) == 3, "rollback")
    for n in (0, 1, 2, 3):
        for may_fail in (False, True):
            ctx = S.ctx(unwind=12)
            ctx.uninterpreted_unknown_calls = True
            log = []

            def undo(tag):
                def h(ex, c, a, d, log=log):
                    b = nmv(ex, a[1])
                    e = (tag, b)
                    log.append(e)
                    ok = ex.ctx.bool(f"ok_{tag}_{b}").t if may_fail else True
                    return mk_result(ok, UNIT, OpaqueV("err", "Error"), d)
                return h
            blocks = ListV(tuple(OpaqueV(f"blk{k}", "BlockView") for k in range(n)), "VecDeque<BlockView>")
            ctx.env = list(E.LOGGING_OFF) + [
                (E.rx(r"ForkChanges::detached_blocks$"), lambda ex, c, a, d, blocks=blocks: ex.ctx.ref_to(blocks)),
                (E.rx(r"StoreTransaction::detach_block$"), undo("detach_block")),
                (E.rx(r"(^|::)detach_block_cell$"), undo("detach_block_cell")),
            ] + list(E.LIST_ADAPTORS)
            ps = S.run(ctx, f, [ctx.ref_to(OpaqueV("self", "ConsumeUnverifiedBlockProcessor")), ctx.ref_to(OpaqueV("fork", "ForkChanges")), ctx.ref_to(OpaqueV("txn", "StoreTransaction"))])
            tag = f"{n}blocks" + ("_failing_writes" if may_fail else "")
            S.prove(ctx, ob, f"{tag}_no_panic", [], T.not_(cond_of(panics(ps))))
            want = []
            for k in reversed(range(n)):
                want += [("detach_block", f"blk{k}"), ("detach_block_cell", f"blk{k}")]
            if not may_fail:
                S.prove(ctx, ob, f"{tag}_undone_newest_first_rows_and_cells_of_each_block", [], bool(log == want and len(ps) == 1) and _ok_cond(ps), extra={"note": str(log)})
            else:
                flags = [ctx.bool(f"ok_{t}_{b}").t for t, b in want]
                S.prove(ctx, ob, f"{tag}_ok_iff_every_undo_succeeded", [], T.iff(_ok_cond(ps), T.and_(*flags)) if flags else _ok_cond(ps))
                S.prove(ctx, ob, f"{tag}_only_the_expected_undo_calls", [], bool(set(log) <= set(want)), extra={"note": str(set(log) - set(want))})


def m6_current_epoch_record_follows_the_new_chain(S):
    """`verify_block` on a tip switch (the execution of C01.m1, judged for the epoch clause): the stored current-epoch record is rewritten with the epoch of the NEW tip whenever that
    epoch starts with this block or blocks were detached (after a reorganisation inside one epoch number the old and the new branch have different epoch records), and only on
    a switch; the per-block epoch index is written for every admitted block and the epoch record itself exactly for an epoch head"""
    from obligations import c01

    def hook(L):
        ctx, log, when, res, pre, T_ = L["ctx"], L["log"], L["when"], L["res"], L["pre"], T
        ob = "C02.m6"
        new_epoch, detached = ctx.bool("new_epoch").t, ctx.bool("has_detached").t
        sw = T_.and_(when("find_fork"), res["rollback"].t, res["reconcile"].t)
        S.prove(ctx, ob, "current_epoch_record_rewritten_iff_a_switch_starts_an_epoch_or_detached_blocks", pre + [when("insert_tip"), res["insert_tip"].t],
                T_.iff(when("insert_cur_epoch"), T_.or_(new_epoch, detached)))
        S.prove(ctx, ob, "current_epoch_record_is_touched_only_on_a_tip_switch", pre, T_.implies(when("insert_cur_epoch"), T_.and_(sw, when("insert_tip"))))
        S.prove(ctx, ob, "epoch_record_written_iff_the_block_starts_an_epoch", pre + [L["admitted"], res["insert_epoch_index"].t], T_.iff(when("insert_epoch_ext"), new_epoch))
        S.prove(ctx, ob, "block_epoch_index_written_for_every_admitted_block", pre + [L["admitted"]], when("insert_epoch_index"))
        seen = False
        for k, (t, pc, args, names) in enumerate(log):
            if t == "insert_cur_epoch":
                seen = True
                S.prove(ctx, ob, f"call{k}_current_epoch_is_the_epoch_of_the_new_tip", pc, bool(len(names) > 1 and "next_epoch" in names[1]), extra={"note": str(names)})
            if t == "insert_epoch_index":
                S.prove(ctx, ob, f"call{k}_epoch_index_is_keyed_by_this_block", pc, bool(len(names) > 1 and names[1] in ("hash_of.block_header", "block_hash")), extra={"note": str(names)})
        S.prove(ctx, ob, "current_epoch_write_is_reached", [], bool(seen))
        S.witness(ctx, ob, "reach_rewrite_after_detach_inside_an_epoch", pre + [T_.not_(new_epoch), detached], when("insert_cur_epoch"))
    # same program as C01.m1 (verify_block with the store transaction as environment): its own session over C01's crates, results merged into this run
    S2 = Session(list(c01.CRATES), timeout_s=S.timeout_s)
    S2.tier, S2.native_driver = S.tier, S.native_driver
    S_ = S

    def run():
        nonlocal S
        S = S2
        try:
            c01.m1_tip_switch(S2, ob="C02.m6", hook=hook)
        finally:
            S = S_
    run()
    S.results += S2.results
    S.encoded |= S2.encoded
    S.env_syms |= S2.env_syms
    S.aux_queries += S2.aux_queries
    S.aux_time += S2.aux_time
    S._natives.update(S2._natives)


OBLIGATIONS = [m1_attach_detach_block_rows, m2_attach_block_cell, m3_detach_block_cell, m4_cell_columns, m5_rollback_order, m6_current_epoch_record_follows_the_new_chain]

ENGINE = "M"
LEVEL = "other"
EXPLANATION = ("The functions that apply and undo one block on the canonical-chain indexes (StoreTransaction::attach_block/detach_block, attach_block_cell/detach_block_cell, "
               "insert_cells/delete_cells, rollback) are executed symbolically from their MIR in dataflow mode: every database write is an environment symbol that logs column, key and "
               "the provenance of the value; the logged write sets are compared with the replay definition and attach is compared with detach.")
BOUNDS = {"block shape": "1..3 transactions, 0..2 uncles, <= 2 outputs / inputs per transaction", "outside": "RocksDB transaction atomicity and snapshots, concurrency, epoch/ext/MMR records over histories"}
ASSUMPTIONS = ["database writes, views' accessors and hashes are environment symbols (arbitrary values, writes may fail)", "molecule builders are provenance records (their layout is decided under C15.m5)"]
TRUSTED = []
LEVEL_TEXT = ("Decided on the real MIR: attach_block writes exactly the main-chain rows of the block (tx location, number<->hash, uncles) and detach_block deletes exactly those keys; "
              "the cell-set functions insert every output with the creating block's coordinates, delete spent inputs after the inserts, and the undo restores spent cells from the creating "
              "transaction's stored location before deleting the block's outputs. Whole-history equality with a replay, snapshots under concurrency and RocksDB atomicity are outside and not claimed.")
LEVEL_NOTE = "Partial claim (per-block apply/undo write sets). History-level equality, snapshots, concurrency, RocksDB: outside."
TECHNIQUE = "symbolic execution of rustc MIR (dataflow mode, logged database writes) -> integer-theory SMT (cvc5 + z3)"
DESIGN_REF = "DESIGN.md section 4 (C02)"
