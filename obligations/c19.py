"""C19 — chain-root commitments: header-digest merge/verify algebra (engine M; packed getters/builders and the hash
primitive are environment symbols, so the obligations are about which fields and numbers flow where)."""
import re
from mir2smt.ob import *
from mir2smt import terms as T
from mir2smt.exec import OpaqueV, IntV, BoolV, AggV, EnumV, RefV, UNIT, Stop, mk_option
from mir2smt import envlib as E
from mir2smt.builtins import deref

CRATES = ["ckb-constant", "ckb-occupied-capacity-core", "ckb-types", "ckb-chain"]
U64 = (1 << 64) - 1
M256 = (1 << 256) - 1
FIELDS = ["children_hash", "total_difficulty", "start_number", "end_number", "start_epoch", "end_epoch", "start_timestamp", "end_timestamp",
          "start_compact_target", "end_compact_target"]


def digest_env(ctx):
    def getter(ex, callee, args, dty):
        a = deref(ex, args[0])
        f = callee.split("::")[-1]
        return OpaqueV(f"{a.name}.{f}", dty)

    def to_u64(ex, callee, args, dty):
        a = deref(ex, args[0])
        return ctx.int(a.name + ".v", "u64")

    def to_u32(ex, callee, args, dty):
        a = deref(ex, args[0])
        return ctx.int(a.name + ".v", "u32")

    def to_u256(ex, callee, args, dty):
        a = deref(ex, args[0])
        return ctx.int(a.name + ".v", "U256")

    def to_epoch(ex, callee, args, dty):
        a = deref(ex, args[0])
        return AggV((ctx.int(a.name + ".v", "u64"),), "EpochNumberWithFraction")

    def setter(ex, callee, args, dty):
        f = re.sub(r"::<.*$", "", callee).split("::")[-1]
        v = E.snapshot(ex, args[1])
        ex.log.append(("set", f, [v], list(ex.pc)))
        return args[0]

    def mmr_hash(ex, callee, args, dty):
        a = deref(ex, args[0])
        return OpaqueV("mmr_hash." + a.name, dty)

    def raw_data(ex, callee, args, dty):
        a = deref(ex, args[0])
        return OpaqueV("raw." + a.name, dty)

    def update(ex, callee, args, dty):
        a = deref(ex, args[1])
        ex.log.append(("hash_update", callee, [a], list(ex.pc)))
        return UNIT

    def finalize(ex, callee, args, dty):
        n = len([e for e in ex.log if e[0] == "hash_update"])
        ex.log.append(("hash_finalize", callee, [n], list(ex.pc)))
        r = args[1]
        ex._write(r.frame, r.local, list(r.proj), OpaqueV("blake2b_of_updates", "[u8; 32]"))
        return UNIT

    return [
        (E.rx(r"HeaderDigest>?::(" + "|".join(FIELDS) + r")$"), getter),
        (E.rx(r"Uint64 as Into<u64>>::into|Uint64 as Unpack<u64>>::unpack|<u64 as From<(packed::)?Uint64>>::from"), to_u64),
        (E.rx(r"Uint32 as Into<u32>>::into|Uint32 as Unpack<u32>>::unpack|<u32 as From<(packed::)?Uint32>>::from"), to_u32),
        (E.rx(r"Uint256 as Into<U256>>::into|Uint256 as Unpack<U256>>::unpack|<U256 as From<(packed::)?Uint256>>::from"), to_u256),
        (E.rx(r"Uint64 as Into<EpochNumberWithFraction>>::into|EpochNumberWithFraction as From<(packed::)?Uint64>>::from"), to_epoch),
        (E.rx(r"HeaderDigestBuilder::(" + "|".join(FIELDS) + r")(::<.*>)?$"), setter),
        (E.rx(r"HeaderDigest>?::new_builder|Entity>::new_builder"), lambda ex, c, a, d: OpaqueV("builder", d)),
        (E.rx(r"HeaderDigestBuilder as .*Builder>::build|HeaderDigestBuilder::build"), lambda ex, c, a, d: OpaqueV("built", d)),
        (E.rx(r"calc_mmr_hash"), mmr_hash),
        (E.rx(r"::raw_data$"), raw_data),
        (E.rx(r"new_blake2b"), lambda ex, c, a, d: OpaqueV("hasher", d)),
        (E.rx(r"Blake2b::update|Blake2b>?::update"), update),
        (E.rx(r"Blake2b::finalize|Blake2b>?::finalize"), finalize),
        (E.rx(r"as Deref>::deref|as AsRef<\[u8\]>>::as_ref"), lambda ex, c, a, d: a[0]),
        (E.rx(r"^format$|fmt::format|fmt::rt::|Arguments|format_inner|must_use"), E.opaque_call()),
        (E.rx(r"compact_to_difficulty"), lambda ex, c, a, d: ctx.int("difficulty_of_start_compact", "U256")),
    ]


def m1_merge(S):
    ob = "C19.m1"
    ctx = S.ctx()
    ctx.env = digest_env(ctx)
    lhs = OpaqueV("lhs", "HeaderDigest"); rhs = OpaqueV("rhs", "HeaderDigest")
    f = S.prog.find1("MergeHeaderDigest::merge", 2) if False else None
    cands = [x for x in S.prog.by_short.get("merge", []) if "Merge" in (x.impl_header or "") and "MergeHeaderDigest" in (x.impl_header or "")]
    if len(cands) != 1:
        raise Inconclusive(f"merge impl: {len(cands)} candidates")
    fn = cands[0]
    ps = S.run(ctx, fn, [ctx.ref_to(lhs), ctx.ref_to(rhs)])
    le = ctx.int("lhs.end_number.v", "u64").t; rs = ctx.int("rhs.start_number.v", "u64").t
    ld = ctx.int("lhs.total_difficulty.v", "U256").t; rd = ctx.int("rhs.total_difficulty.v", "U256").t
    lee = ctx.int("lhs.end_epoch.v", "u64").t; rse = ctx.int("rhs.start_epoch.v", "u64").t
    fld = lambda x: (T.emod(x, 1 << 24), T.emod(T.ediv(x, 1 << 24), 1 << 16), T.emod(T.ediv(x, 1 << 40), 1 << 16))
    ln, li, ll = fld(lee); rn, ri, rl = fld(rse)
    succ = T.ite(T.eq(T.add(li, 1), ll), T.and_(T.eq(rn, T.add(ln, 1)), T.eq(ri, 0)), T.and_(T.eq(rn, ln), T.eq(ri, T.add(li, 1)), T.eq(rl, ll)))
    lgen = T.and_(T.eq(ln, 0), T.eq(li, 0), T.eq(ll, 0))
    S.prove(ctx, ob, "panics_only_on_difficulty_or_number_overflow", [], T.implies(cond_of(panics(ps)), T.or_(T.gt(T.add(ld, rd), M256), T.eq(le, U64))))
    pre = [T.le(T.add(ld, rd), M256), T.lt(le, U64)]
    oks = [p for p in returns(ps) if p.value.disc == 0]
    errs = [p for p in returns(ps) if p.value.disc != 0]
    S.prove(ctx, ob, "ok_iff_contiguous_numbers_and_successive_epochs", pre,
            T.iff(cond_of(oks), T.and_(T.eq(T.add(le, 1), rs), T.or_(succ, lgen))))
    S.witness(ctx, ob, "reach_ok", pre, cond_of(oks))
    S.witness(ctx, ob, "reach_epoch_error", pre, T.and_(cond_of(errs), T.eq(T.add(le, 1), rs)))
    for k, p in enumerate(oks):
        sets = {e[1]: e[2][0] for e in p.log if e[0] == "set"}
        c = pre + [p.cond()]
        flow_ok = True
        for fname in FIELDS[2:]:
            src = "lhs" if fname.startswith("start_") else "rhs"
            v = sets.get(fname)
            if not (isinstance(v, OpaqueV) and v.name == f"{src}.{fname}"):
                flow_ok = False
        S.prove(ctx, ob, f"path{k}_start_fields_from_lhs_end_fields_from_rhs", c, bool(flow_ok and len(sets) == len(FIELDS)))
        td = sets.get("total_difficulty")
        S.prove(ctx, ob, f"path{k}_total_difficulty_is_sum", c, T.eq(as_int(td), T.add(ld, rd)) if isinstance(td, IntV) else False)
        ups = [e[2][0].name for e in p.log if e[0] == "hash_update"]
        ch = sets.get("children_hash")
        S.prove(ctx, ob, f"path{k}_children_hash_is_blake2b_of_lhs_then_rhs_mmr_hash", c,
                bool(ups == ["raw.mmr_hash.lhs", "raw.mmr_hash.rhs"] and isinstance(ch, OpaqueV) and ch.name == "blake2b_of_updates"))
    # merge_peaks(a, b) == merge(b, a)
    cands = [x for x in S.prog.by_short.get("merge_peaks", []) if "MergeHeaderDigest" in (x.impl_header or "")]
    fn2 = cands[0]
    ctx2 = S.ctx()
    calls = []
    ctx2.env = [(E.rx(r"MergeHeaderDigest as .*Merge>::merge$|MergeHeaderDigest::merge$"), lambda ex, c, a, d: (calls.append([deref(ex, x).name for x in a]), OpaqueV("merged", d))[1])]
    ps2 = S.run(ctx2, fn2, [ctx2.ref_to(OpaqueV("a", "HeaderDigest")), ctx2.ref_to(OpaqueV("b", "HeaderDigest"))])
    S.prove(ctx2, ob, "merge_peaks_swaps_operands", [], bool(calls and all(c == ["b", "a"] for c in calls)))


def m2_verify(S):
    ob = "C19.m2"
    ctx = S.ctx()
    ctx.env = digest_env(ctx)
    d = OpaqueV("d", "HeaderDigest")
    cands = [x for x in S.prog.by_short.get("verify", []) if "HeaderDigest for" in (x.impl_header or "")]
    if len(cands) != 1:
        raise Inconclusive(f"HeaderDigest::verify impl: {len(cands)} candidates")
    ps = S.run(ctx, cands[0], [ctx.ref_to(d)])
    sn = ctx.int("d.start_number.v", "u64").t; en = ctx.int("d.end_number.v", "u64").t
    se = ctx.int("d.start_epoch.v", "u64").t; ee = ctx.int("d.end_epoch.v", "u64").t
    sc = ctx.int("d.start_compact_target.v", "u32").t; ec = ctx.int("d.end_compact_target.v", "u32").t
    td = ctx.int("d.total_difficulty.v", "U256").t
    fld = lambda x: (T.emod(x, 1 << 24), T.emod(T.ediv(x, 1 << 24), 1 << 16), T.emod(T.ediv(x, 1 << 40), 1 << 16))
    s_n, s_i, s_l = fld(se); e_n, e_i, e_l = fld(ee)
    diff = ctx.int("difficulty_of_start_compact", "U256").t
    count = T.add(T.sub(en, sn), 1)
    # `end - start + 1` overflows u64 only for the digest [0, 2^64-1]: stated precondition (verify() has no caller in the node)
    pre = [T.le(T.mul(diff, count), M256), T.le(count, U64)]
    S.prove(ctx, ob, "no_panic_when_product_fits", pre, T.not_(cond_of(panics(ps))))
    ok = cond_of([p for p in returns(ps) if p.value.disc == 0])
    epochs_ordered = T.or_(T.eq(se, ee), T.lt(s_n, e_n), T.and_(T.eq(s_n, e_n), T.le(s_i, e_i)))
    same_epoch_rule = T.implies(T.eq(s_n, e_n), T.and_(T.eq(sc, ec), T.eq(td, T.mul(diff, count))))
    S.prove(ctx, ob, "accepts_iff_ordered_and_same_epoch_difficulty_matches", pre, T.iff(ok, T.and_(T.le(sn, en), epochs_ordered, same_epoch_rule)), timeout_s=120)
    S.witness(ctx, ob, "reach_accept_multi_block", pre + [ok], T.and_(T.gt(count, 3), T.eq(s_n, e_n)))


def m3_verifiable_header(S):
    """VerifiableHeader::is_valid: after MMR activation the extension must begin with calc_mmr_hash(parent_chain_root) (genesis:
    default root), and in every case the header's extra hash must equal ExtraHashView(uncles_hash, H(extension)).extra_hash()"""
    ob = "C19.m3"
    ctx = S.ctx()
    ctx.uninterpreted_unknown_calls = True
    ep = ctx.int("hdr.epoch", "u64"); act = ctx.int("activation_epoch", "u64")
    gen = ctx.bool("hdr.is_genesis"); has_ext = ctx.bool("has_extension"); root_default = ctx.bool("root_is_default")
    starts = ctx.bool("extension_starts_with_root_hash"); eq_extra = ctx.bool("extra_hash_equal")
    obs = {"starts_with": [], "eq": [], "extra_new": []}

    def nm(ex, v):
        v = deref(ex, v)
        return getattr(v, "name", None) or type(v).__name__

    def starts_with(ex, c, a, d):
        obs["starts_with"].append((nm(ex, a[0]), nm(ex, a[1])))
        return BoolV(starts.t)

    def b32eq(ex, c, a, d):
        obs["eq"].append((nm(ex, a[0]), nm(ex, a[1])))
        return BoolV(eq_extra.t)

    def extra_new(ex, c, a, d):
        v = deref(ex, a[1])
        inner = getattr(v.payload(1)[0], "name", "?") if isinstance(v, EnumV) and v.payload(1) else None
        obs["extra_new"].append((nm(ex, a[0]), v.disc if isinstance(v, EnumV) else "?", inner))
        return OpaqueV("extra_view", d)

    ctx.env = [
        (E.rx(r"VerifiableHeader::header$"), lambda ex, c, a, d: OpaqueV("hdr", "HeaderView")),
        (E.rx(r"HeaderView::epoch$"), lambda ex, c, a, d: AggV((ep,), "EpochNumberWithFraction")),
        (E.rx(r"HeaderView::is_genesis$"), lambda ex, c, a, d: BoolV(gen.t)),
        (E.rx(r"HeaderView::extra_hash$"), lambda ex, c, a, d: OpaqueV("hdr.extra_hash", d)),
        (E.rx(r"VerifiableHeader::parent_chain_root$"), lambda ex, c, a, d: OpaqueV("parent_root", d)),
        (E.rx(r"VerifiableHeader::uncles_hash$"), lambda ex, c, a, d: OpaqueV("uncles_hash", d)),
        (E.rx(r"VerifiableHeader::extension$"), lambda ex, c, a, d: mk_option(has_ext.t, OpaqueV("extension", "Bytes"), d)),
        (E.rx(r"HeaderDigest>::is_default$"), lambda ex, c, a, d: BoolV(root_default.t)),
        (E.rx(r"calc_mmr_hash$"), lambda ex, c, a, d: OpaqueV("mmr_hash(" + nm(ex, a[0]) + ")", d)),
        (E.rx(r"Bytes::raw_data$"), lambda ex, c, a, d: OpaqueV("raw(" + nm(ex, a[0]) + ")", d)),
        (E.rx(r"calc_raw_data_hash$"), lambda ex, c, a, d: OpaqueV("H(raw(" + nm(ex, a[0]) + "))", d)),
        (E.rx(r"as Deref>::deref$|Entity>::as_slice$"), lambda ex, c, a, d: a[0]),
        (E.rx(r"impl \[u8\]>::starts_with$"), starts_with),
        (E.rx(r"Byte32 as PartialEq>::eq$"), b32eq),
        (E.rx(r"^ExtraHashView::new$"), extra_new),
        (E.rx(r"^ExtraHashView::extra_hash$"), lambda ex, c, a, d: OpaqueV("extra_hash(" + nm(ex, a[0]) + ")", d)),
    ]
    fn = S.fn("VerifiableHeader::is_valid")
    ps = S.run(ctx, fn, [ctx.ref_to(OpaqueV("vh", "VerifiableHeader")), act])
    pre = [T.lt(act.t, 1 << 24)]
    S.prove(ctx, ob, "no_panic", pre, T.not_(cond_of(panics(ps))))
    valid = merged(ps, as_bool)
    en, ei, el = T.emod(ep.t, 1 << 24), T.emod(T.ediv(ep.t, 1 << 24), 1 << 16), T.emod(T.ediv(ep.t, 1 << 40), 1 << 16)
    # epoch > (activation, 0/1) in exact fraction order
    after = T.or_(T.gt(en, act.t), T.and_(T.eq(en, act.t), T.gt(T.mul(ei, 1), T.mul(0, el))))
    root_ok = T.ite(gen.t, root_default.t, T.and_(has_ext.t, starts.t))
    S.prove(ctx, ob, "valid_iff_root_commitment_after_activation_and_extra_hash_matches", pre, T.iff(valid, T.and_(T.implies(after, root_ok), eq_extra.t)), timeout_s=120)
    flow = (all(x == ("raw(extension)", "mmr_hash(parent_root)") for x in obs["starts_with"]) and obs["starts_with"]
            and all(x == ("extra_hash(extra_view)", "hdr.extra_hash") for x in obs["eq"]) and obs["eq"]
            and all(u == "uncles_hash" and ((d == 1 and i == "H(raw(extension))") or d == 0) for (u, d, i) in obs["extra_new"]) and obs["extra_new"])
    S.prove(ctx, ob, "compares_extension_prefix_with_mmr_hash_of_parent_root_and_extra_hash_of_uncles_and_extension", pre, bool(flow))
    S.witness(ctx, ob, "reach_valid_after_activation", pre, T.and_(valid, after, T.not_(gen.t)))


def m4_chain_root_mmr_follows_the_attached_chain(S):
    """the chain-root MMR built while a branch becomes canonical: opened at the size of the first attached block's parent chain, it receives
    the digest of *every* attached block (already verified or not) in chain order, the verifier of each block reads that same MMR, and it
    is committed only when the whole branch was accepted (same executions as C03.m11, judged here for the chain-root clause)"""
    from obligations import c03
    c03.m11_reconcile_main_chain(S, ob="C19.m4")


OBLIGATIONS = [m1_merge, m2_verify, m3_verifiable_header, m4_chain_root_mmr_follows_the_attached_chain]

ENGINE = "M"
LEVEL = "other"
EXPLANATION = ("Digest algebra behind the chain root: MergeHeaderDigest::merge/merge_peaks and HeaderDigest::verify symbolically executed from MIR with packed accessors, "
               "builders and the hash primitive as environment symbols; the solver decides the accept conditions and arithmetic, and the logged builder calls decide which "
               "operand each field of the merged digest comes from.")
BOUNDS = {"values": "all u64/u32/U256 field values", "outside": "MMR structure over histories (ckb-merkle-mountain-range crate, RocksDB columns), proofs, block filters, hash collision resistance"}
ASSUMPTIONS = ["packed HeaderDigest getters/setters are environment symbols named by field (the molecule layer is the subject of C15)", "blake2b is an opaque function of its update sequence",
               "compact_to_difficulty is an uninterpreted function here (C07 covers it)"]
TRUSTED = []
LEVEL_TEXT = ("Decides the digest merge/verify rules (contiguity, epoch succession via the real is_successor_of, difficulty sum, field provenance, operand order of the hash) by SMT over the real MIR; "
              "the history-level clauses (roots after reorgs, proofs, filters) depend on RocksDB state and a third-party MMR crate and are outside.")
LEVEL_NOTE = "Claim = header-digest algebra only. MMR over chain histories, proof serving and block filters are not covered."
TECHNIQUE = "symbolic execution of rustc MIR -> SMT (cvc5 + z3) with call-site observation of builder/hash calls"
