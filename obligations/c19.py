"""C19 — chain-root commitments: header-digest merge/verify algebra (engine M; packed getters/builders and the hash
primitive are environment symbols, so the obligations are about which fields and numbers flow where)."""
import re
from mir2smt.ob import *
from mir2smt import terms as T
from mir2smt.exec import OpaqueV, IntV, BoolV, AggV, EnumV, RefV, UNIT, Stop, mk_option, mk_result
from mir2smt import envlib as E
from mir2smt.builtins import deref

CRATES = ["ckb-constant", "ckb-occupied-capacity-core", "ckb-types", "ckb-store", "ckb-chain", "ckb-block-filter", "ckb-light-client-protocol-server"]
U64 = (1 << 64) - 1
M256 = (1 << 256) - 1
FIELDS = ["children_hash", "total_difficulty", "start_number", "end_number", "start_epoch", "end_epoch", "start_timestamp", "end_timestamp",
          "start_compact_target", "end_compact_target"]


def digest_env(ctx):
    def getter(ex, callee, args, dty):
        a = deref(ex, args[0])
        f = callee.split("::")[-1]
        return OpaqueV(f"{a.name}.{f}", dty)

    def to_u64(ex, callee, args, dty):
        a = deref(ex, args[0])
        return ctx.int(a.name + ".v", "u64")

    def to_u32(ex, callee, args, dty):
        a = deref(ex, args[0])
        return ctx.int(a.name + ".v", "u32")

    def to_u256(ex, callee, args, dty):
        a = deref(ex, args[0])
        return ctx.int(a.name + ".v", "U256")

    def to_epoch(ex, callee, args, dty):
        a = deref(ex, args[0])
        return AggV((ctx.int(a.name + ".v", "u64"),), "EpochNumberWithFraction")

    def setter(ex, callee, args, dty):
        f = re.sub(r"::<.*$", "", callee).split("::")[-1]
        v = E.snapshot(ex, args[1])
        ex.log.append(("set", f, [v], list(ex.pc)))
        return args[0]

    def mmr_hash(ex, callee, args, dty):
        a = deref(ex, args[0])
        return OpaqueV("mmr_hash." + a.name, dty)

    def raw_data(ex, callee, args, dty):
        a = deref(ex, args[0])
        return OpaqueV("raw." + a.name, dty)

    def update(ex, callee, args, dty):
        a = deref(ex, args[1])
        ex.log.append(("hash_update", callee, [a], list(ex.pc)))
        return UNIT

    def finalize(ex, callee, args, dty):
        n = len([e for e in ex.log if e[0] == "hash_update"])
        ex.log.append(("hash_finalize", callee, [n], list(ex.pc)))
        r = args[1]
        ex._write(r.frame, r.local, list(r.proj), OpaqueV("blake2b_of_updates", "[u8; 32]"))
        return UNIT

    return [
        (E.rx(r"HeaderDigest>?::(" + "|".join(FIELDS) + r")$"), getter),
        (E.rx(r"Uint64 as Into<u64>>::into|Uint64 as Unpack<u64>>::unpack|<u64 as From<(packed::)?Uint64>>::from"), to_u64),
        (E.rx(r"Uint32 as Into<u32>>::into|Uint32 as Unpack<u32>>::unpack|<u32 as From<(packed::)?Uint32>>::from"), to_u32),
        (E.rx(r"Uint256 as Into<U256>>::into|Uint256 as Unpack<U256>>::unpack|<U256 as From<(packed::)?Uint256>>::from"), to_u256),
        (E.rx(r"Uint64 as Into<EpochNumberWithFraction>>::into|EpochNumberWithFraction as From<(packed::)?Uint64>>::from"), to_epoch),
        (E.rx(r"HeaderDigestBuilder::(" + "|".join(FIELDS) + r")(::<.*>)?$"), setter),
        (E.rx(r"HeaderDigest>?::new_builder|Entity>::new_builder"), lambda ex, c, a, d: OpaqueV("builder", d)),
        (E.rx(r"HeaderDigestBuilder as .*Builder>::build|HeaderDigestBuilder::build"), lambda ex, c, a, d: OpaqueV("built", d)),
        (E.rx(r"calc_mmr_hash"), mmr_hash),
        (E.rx(r"::raw_data$"), raw_data),
        (E.rx(r"new_blake2b"), lambda ex, c, a, d: OpaqueV("hasher", d)),
        (E.rx(r"Blake2b::update|Blake2b>?::update"), update),
        (E.rx(r"Blake2b::finalize|Blake2b>?::finalize"), finalize),
        (E.rx(r"as Deref>::deref|as AsRef<\[u8\]>>::as_ref"), lambda ex, c, a, d: a[0]),
        (E.rx(r"^format$|fmt::format|fmt::rt::|Arguments|format_inner|must_use"), E.opaque_call()),
        (E.rx(r"compact_to_difficulty"), lambda ex, c, a, d: ctx.int("difficulty_of_start_compact", "U256")),
    ]


def m1_merge(S):
    ob = "C19.m1"
    ctx = S.ctx()
    ctx.env = digest_env(ctx)
    lhs = OpaqueV("lhs", "HeaderDigest"); rhs = OpaqueV("rhs", "HeaderDigest")
    f = S.prog.find1("MergeHeaderDigest::merge", 2) if False else None
    cands = [x for x in S.prog.by_short.get("merge", []) if "Merge" in (x.impl_header or "") and "MergeHeaderDigest" in (x.impl_header or "")]
    if len(cands) != 1:
        raise Inconclusive(f"merge impl: {len(cands)} candidates")
    fn = cands[0]
    ps = S.run(ctx, fn, [ctx.ref_to(lhs), ctx.ref_to(rhs)])
    le = ctx.int("lhs.end_number.v", "u64").t; rs = ctx.int("rhs.start_number.v", "u64").t
    ld = ctx.int("lhs.total_difficulty.v", "U256").t; rd = ctx.int("rhs.total_difficulty.v", "U256").t
    lee = ctx.int("lhs.end_epoch.v", "u64").t; rse = ctx.int("rhs.start_epoch.v", "u64").t
    fld = lambda x: (T.emod(x, 1 << 24), T.emod(T.ediv(x, 1 << 24), 1 << 16), T.emod(T.ediv(x, 1 << 40), 1 << 16))
    ln, li, ll = fld(lee); rn, ri, rl = fld(rse)
    succ = T.ite(T.eq(T.add(li, 1), ll), T.and_(T.eq(rn, T.add(ln, 1)), T.eq(ri, 0)), T.and_(T.eq(rn, ln), T.eq(ri, T.add(li, 1)), T.eq(rl, ll)))
    lgen = T.and_(T.eq(ln, 0), T.eq(li, 0), T.eq(ll, 0))
    S.prove(ctx, ob, "panics_only_on_difficulty_or_number_overflow", [], T.implies(cond_of(panics(ps)), T.or_(T.gt(T.add(ld, rd), M256), T.eq(le, U64))))
    pre = [T.le(T.add(ld, rd), M256), T.lt(le, U64)]
    oks = [p for p in returns(ps) if p.value.disc == 0]
    errs = [p for p in returns(ps) if p.value.disc != 0]
    S.prove(ctx, ob, "ok_iff_contiguous_numbers_and_successive_epochs", pre,
            T.iff(cond_of(oks), T.and_(T.eq(T.add(le, 1), rs), T.or_(succ, lgen))))
    S.witness(ctx, ob, "reach_ok", pre, cond_of(oks))
    S.witness(ctx, ob, "reach_epoch_error", pre, T.and_(cond_of(errs), T.eq(T.add(le, 1), rs)))
    for k, p in enumerate(oks):
        sets = {e[1]: e[2][0] for e in p.log if e[0] == "set"}
        c = pre + [p.cond()]
        flow_ok = True
        for fname in FIELDS[2:]:
            src = "lhs" if fname.startswith("start_") else "rhs"
            v = sets.get(fname)
            if not (isinstance(v, OpaqueV) and v.name == f"{src}.{fname}"):
                flow_ok = False
        S.prove(ctx, ob, f"path{k}_start_fields_from_lhs_end_fields_from_rhs", c, bool(flow_ok and len(sets) == len(FIELDS)))
        td = sets.get("total_difficulty")
        S.prove(ctx, ob, f"path{k}_total_difficulty_is_sum", c, T.eq(as_int(td), T.add(ld, rd)) if isinstance(td, IntV) else False)
        ups = [e[2][0].name for e in p.log if e[0] == "hash_update"]
        ch = sets.get("children_hash")
        S.prove(ctx, ob, f"path{k}_children_hash_is_blake2b_of_lhs_then_rhs_mmr_hash", c,
                bool(ups == ["raw.mmr_hash.lhs", "raw.mmr_hash.rhs"] and isinstance(ch, OpaqueV) and ch.name == "blake2b_of_updates"))
    # merge_peaks(a, b) == merge(b, a)
    cands = [x for x in S.prog.by_short.get("merge_peaks", []) if "MergeHeaderDigest" in (x.impl_header or "")]
    fn2 = cands[0]
    ctx2 = S.ctx()
    calls = []
    ctx2.env = [(E.rx(r"MergeHeaderDigest as .*Merge>::merge$|MergeHeaderDigest::merge$"), lambda ex, c, a, d: (calls.append([deref(ex, x).name for x in a]), OpaqueV("merged", d))[1])]
    ps2 = S.run(ctx2, fn2, [ctx2.ref_to(OpaqueV("a", "HeaderDigest")), ctx2.ref_to(OpaqueV("b", "HeaderDigest"))])
    S.prove(ctx2, ob, "merge_peaks_swaps_operands", [], bool(calls and all(c == ["b", "a"] for c in calls)))


def m2_verify(S):
    ob = "C19.m2"
    ctx = S.ctx()
    ctx.env = digest_env(ctx)
    d = OpaqueV("d", "HeaderDigest")
    cands = [x for x in S.prog.by_short.get("verify", []) if "HeaderDigest for" in (x.impl_header or "")]
    if len(cands) != 1:
        raise Inconclusive(f"HeaderDigest::verify impl: {len(cands)} candidates")
    ps = S.run(ctx, cands[0], [ctx.ref_to(d)])
    sn = ctx.int("d.start_number.v", "u64").t; en = ctx.int("d.end_number.v", "u64").t
    se = ctx.int("d.start_epoch.v", "u64").t; ee = ctx.int("d.end_epoch.v", "u64").t
    sc = ctx.int("d.start_compact_target.v", "u32").t; ec = ctx.int("d.end_compact_target.v", "u32").t
    td = ctx.int("d.total_difficulty.v", "U256").t
    fld = lambda x: (T.emod(x, 1 << 24), T.emod(T.ediv(x, 1 << 24), 1 << 16), T.emod(T.ediv(x, 1 << 40), 1 << 16))
    s_n, s_i, s_l = fld(se); e_n, e_i, e_l = fld(ee)
    diff = ctx.int("difficulty_of_start_compact", "U256").t
    count = T.add(T.sub(en, sn), 1)
    # `end - start + 1` overflows u64 only for the digest [0, 2^64-1]: stated precondition (verify() has no caller in the node)
    pre = [T.le(T.mul(diff, count), M256), T.le(count, U64)]
    S.prove(ctx, ob, "no_panic_when_product_fits", pre, T.not_(cond_of(panics(ps))))
    ok = cond_of([p for p in returns(ps) if p.value.disc == 0])
    epochs_ordered = T.or_(T.eq(se, ee), T.lt(s_n, e_n), T.and_(T.eq(s_n, e_n), T.le(s_i, e_i)))
    same_epoch_rule = T.implies(T.eq(s_n, e_n), T.and_(T.eq(sc, ec), T.eq(td, T.mul(diff, count))))
    S.prove(ctx, ob, "accepts_iff_ordered_and_same_epoch_difficulty_matches", pre, T.iff(ok, T.and_(T.le(sn, en), epochs_ordered, same_epoch_rule)), timeout_s=120)
    S.witness(ctx, ob, "reach_accept_multi_block", pre + [ok], T.and_(T.gt(count, 3), T.eq(s_n, e_n)))


def m3_verifiable_header(S):
    """VerifiableHeader::is_valid: after MMR activation the extension must begin with calc_mmr_hash(parent_chain_root) (genesis:
    default root), and in every case the header's extra hash must equal ExtraHashView(uncles_hash, H(extension)).extra_hash()"""
    ob = "C19.m3"
    ctx = S.ctx()
    ctx.uninterpreted_unknown_calls = True
    ep = ctx.int("hdr.epoch", "u64"); act = ctx.int("activation_epoch", "u64")
    gen = ctx.bool("hdr.is_genesis"); has_ext = ctx.bool("has_extension"); root_default = ctx.bool("root_is_default")
    starts = ctx.bool("extension_starts_with_root_hash"); eq_extra = ctx.bool("extra_hash_equal")
    obs = {"starts_with": [], "eq": [], "extra_new": []}

    def nm(ex, v):
        v = deref(ex, v)
        return getattr(v, "name", None) or type(v).__name__

    def starts_with(ex, c, a, d):
        obs["starts_with"].append((nm(ex, a[0]), nm(ex, a[1])))
        return BoolV(starts.t)

    def b32eq(ex, c, a, d):
        obs["eq"].append((nm(ex, a[0]), nm(ex, a[1])))
        return BoolV(eq_extra.t)

    def extra_new(ex, c, a, d):
        v = deref(ex, a[1])
        inner = getattr(v.payload(1)[0], "name", "?") if isinstance(v, EnumV) and v.payload(1) else None
        obs["extra_new"].append((nm(ex, a[0]), v.disc if isinstance(v, EnumV) else "?", inner))
        return OpaqueV("extra_view", d)

    ctx.env = [
        (E.rx(r"VerifiableHeader::header$"), lambda ex, c, a, d: OpaqueV("hdr", "HeaderView")),
        (E.rx(r"HeaderView::epoch$"), lambda ex, c, a, d: AggV((ep,), "EpochNumberWithFraction")),
        (E.rx(r"HeaderView::is_genesis$"), lambda ex, c, a, d: BoolV(gen.t)),
        (E.rx(r"HeaderView::extra_hash$"), lambda ex, c, a, d: OpaqueV("hdr.extra_hash", d)),
        (E.rx(r"VerifiableHeader::parent_chain_root$"), lambda ex, c, a, d: OpaqueV("parent_root", d)),
        (E.rx(r"VerifiableHeader::uncles_hash$"), lambda ex, c, a, d: OpaqueV("uncles_hash", d)),
        (E.rx(r"VerifiableHeader::extension$"), lambda ex, c, a, d: mk_option(has_ext.t, OpaqueV("extension", "Bytes"), d)),
        (E.rx(r"HeaderDigest>::is_default$"), lambda ex, c, a, d: BoolV(root_default.t)),
        (E.rx(r"calc_mmr_hash$"), lambda ex, c, a, d: OpaqueV("mmr_hash(" + nm(ex, a[0]) + ")", d)),
        (E.rx(r"Bytes::raw_data$"), lambda ex, c, a, d: OpaqueV("raw(" + nm(ex, a[0]) + ")", d)),
        (E.rx(r"calc_raw_data_hash$"), lambda ex, c, a, d: OpaqueV("H(raw(" + nm(ex, a[0]) + "))", d)),
        (E.rx(r"as Deref>::deref$|Entity>::as_slice$"), lambda ex, c, a, d: a[0]),
        (E.rx(r"impl \[u8\]>::starts_with$"), starts_with),
        (E.rx(r"Byte32 as PartialEq>::eq$"), b32eq),
        (E.rx(r"^ExtraHashView::new$"), extra_new),
        (E.rx(r"^ExtraHashView::extra_hash$"), lambda ex, c, a, d: OpaqueV("extra_hash(" + nm(ex, a[0]) + ")", d)),
    ]
    fn = S.fn("VerifiableHeader::is_valid")
    ps = S.run(ctx, fn, [ctx.ref_to(OpaqueV("vh", "VerifiableHeader")), act])
    pre = [T.lt(act.t, 1 << 24)]
    S.prove(ctx, ob, "no_panic", pre, T.not_(cond_of(panics(ps))))
    valid = merged(ps, as_bool)
    en, ei, el = T.emod(ep.t, 1 << 24), T.emod(T.ediv(ep.t, 1 << 24), 1 << 16), T.emod(T.ediv(ep.t, 1 << 40), 1 << 16)
    # epoch > (activation, 0/1) in exact fraction order
    after = T.or_(T.gt(en, act.t), T.and_(T.eq(en, act.t), T.gt(T.mul(ei, 1), T.mul(0, el))))
    root_ok = T.ite(gen.t, root_default.t, T.and_(has_ext.t, starts.t))
    S.prove(ctx, ob, "valid_iff_root_commitment_after_activation_and_extra_hash_matches", pre, T.iff(valid, T.and_(T.implies(after, root_ok), eq_extra.t)), timeout_s=120)
    flow = (all(x == ("raw(extension)", "mmr_hash(parent_root)") for x in obs["starts_with"]) and obs["starts_with"]
            and all(x == ("extra_hash(extra_view)", "hdr.extra_hash") for x in obs["eq"]) and obs["eq"]
            and all(u == "uncles_hash" and ((d == 1 and i == "H(raw(extension))") or d == 0) for (u, d, i) in obs["extra_new"]) and obs["extra_new"])
    S.prove(ctx, ob, "compares_extension_prefix_with_mmr_hash_of_parent_root_and_extra_hash_of_uncles_and_extension", pre, bool(flow))
    S.witness(ctx, ob, "reach_valid_after_activation", pre, T.and_(valid, after, T.not_(gen.t)))


def m4_chain_root_mmr_follows_the_attached_chain(S):
    """the chain-root MMR built while a branch becomes canonical: opened at the size of the first attached block's parent chain, it receives
    the digest of *every* attached block (already verified or not) in chain order, the verifier of each block reads that same MMR, and it
    is committed only when the whole branch was accepted (same executions as C03.m11, judged here for the chain-root clause)"""
    from obligations import c03
    c03.m11_reconcile_main_chain(S, ob="C19.m4")


def m5_block_filter(S):
    """Block filter clauses: (a) `build_filter_data` adds to the filter the lock hash and (when present) type hash of EVERY output and of every spent input cell of every
    non-cellbase transaction, and nothing else (1 transaction, 0..2 inputs, 0..2 outputs, presence of type scripts / of the input cell symbolic); (b) `calc_filter_hash` =
    H(parent filter hash || H(filter data)); (c) `StoreTransaction::insert_block_filter` stores data and that hash under the block's own hash; (d) the builder
    `build_filter_data_for_block` chains from the filter hash stored for the header's PARENT hash (zero for genesis), builds from the body of this block and stores under
    this block's hash"""
    from mir2smt.exec import ListV
    ob = "C19.m5"

    def nmv(ex, v):
        v = deref(ex, v)
        if isinstance(v, ListV):
            return "[" + ",".join(nmv(ex, x) for x in v.items) + "]"
        if isinstance(v, AggV):
            return "[" + ",".join(nmv(ex, x) for x in v.fields) + "]"
        return getattr(v, "name", None) or type(v).__name__
    call = lambda tag: (lambda ex, c, a, d: OpaqueV(tag + "(" + ",".join(nmv(ex, x) for x in a) + ")", d))
    # ---- (a)
    f = [x for x in S.prog.funcs if x.kind == "fn" and x.short == "build_filter_data" and x.name == "build_filter_data" and len(x.params) == 2 and "TransactionView" in x.params[1][1]]
    if len(f) != 1:
        raise Inconclusive(f"build_filter_data: {len(f)} candidates")
    for nin in range(0, 3):
        for nout in range(0, 3):
            ctx = S.ctx(unwind=8)
            ctx.uninterpreted_unknown_calls = True
            ctx.max_paths = 3000
            cellbase = ctx.bool("is_cellbase")
            added = []

            def add(ex, c, a, d, added=added):
                added.append((nmv(ex, a[1]), list(ex.pc)))
                return UNIT

            def to_opt(ex, c, a, d):
                base = nmv(ex, a[0])
                return mk_option(ex.ctx.bool("has_" + re.sub(r"[^A-Za-z0-9]+", "_", base)).t, OpaqueV("some." + base, "Script"), d)

            def cell(ex, c, a, d):
                op = nmv(ex, a[1])
                return mk_option(ex.ctx.bool("known_" + op).t, OpaqueV("cell_of." + op, "CellOutput"), d)
            ctx.env = [
                (E.rx(r"build_gcs_filter$"), lambda ex, c, a, d: OpaqueV("filter", d)),
                (E.rx(r"Cursor::<.*>::new$|Vec::<u8>::new$"), lambda ex, c, a, d: OpaqueV("writer", d)),
                (E.rx(r"GCSFilterWriter::<.*>::add_element$"), add),
                (E.rx(r"GCSFilterWriter::<.*>::finish$"), lambda ex, c, a, d: mk_result(True, IntV(0, "usize"), OpaqueV("ioerr", "?"), d)),
                (E.rx(r"Cursor::<.*>::into_inner$"), lambda ex, c, a, d: OpaqueV("filter_bytes", d)),
                (E.rx(r"TransactionView::is_cellbase$"), lambda ex, c, a, d: cellbase),
                (E.rx(r"TransactionView::input_pts_iter$"), E.list_source([OpaqueV(f"in{k}", "OutPoint") for k in range(nin)])),
                (E.rx(r"TransactionView::outputs$"), E.list_source([OpaqueV(f"out{k}", "CellOutput") for k in range(nout)])),
                (E.rx(r"FilterDataProvider>::cell$"), cell),
                (E.rx(r"::calc_lock_hash$"), call("lock_hash")),
                (E.rx(r"::calc_script_hash$"), call("script_hash")),
                (E.rx(r"CellOutput::type_$"), call("type_of")),
                (E.rx(r"::to_opt$"), to_opt),
                (E.rx(r"::as_slice$"), lambda ex, c, a, d: OpaqueV(nmv(ex, a[0]), d)),
            ] + list(E.LIST_ADAPTORS)
            txs = ListV((OpaqueV("tx", "TransactionView"),), "[TransactionView]")
            ps = S.run(ctx, f[0], [OpaqueV("provider", "P"), ctx.ref_to(txs)])
            tag = f"in{nin}_out{nout}"
            S.prove(ctx, ob, f"{tag}_no_panic", [], T.not_(cond_of(panics(ps))))

            def when(name):
                return T.or_(*[T.and_(*pc) for n, pc in added if n == name])
            goals = []
            expected = set()
            for k in range(nout):
                expected |= {f"lock_hash(out{k})", f"script_hash(some.type_of(out{k}))"}
                goals.append(when(f"lock_hash(out{k})"))
                goals.append(T.iff(when(f"script_hash(some.type_of(out{k}))"), ctx.bool(f"has_type_of_out{k}_").t))
            for k in range(nin):
                expected |= {f"lock_hash(cell_of.in{k})", f"script_hash(some.type_of(cell_of.in{k}))"}
                kn = ctx.bool(f"known_in{k}").t
                goals.append(T.iff(when(f"lock_hash(cell_of.in{k})"), T.and_(T.not_(cellbase.t), kn)))
                goals.append(T.iff(when(f"script_hash(some.type_of(cell_of.in{k}))"), T.and_(T.not_(cellbase.t), kn, ctx.bool(f"has_type_of_cell_of_in{k}_").t)))
            S.prove(ctx, ob, f"{tag}_every_output_and_spent_input_script_is_added", [], T.and_(*goals) if goals else True)
            S.prove(ctx, ob, f"{tag}_nothing_else_is_added", [], bool(all(n in expected for n, _ in added)), extra={"note": str(sorted({n for n, _ in added} - expected))})
    # ---- (b) calc_filter_hash
    ctx = S.ctx()
    ctx.uninterpreted_unknown_calls = True
    ctx.env = [(E.rx(r"blake2b_256"), call("H")), (E.rx(r"::calc_raw_data_hash$"), call("H_data")), (E.rx(r"::as_slice$"), lambda ex, c, a, d: OpaqueV(nmv(ex, a[0]), d)),
               (E.rx(r"::concat"), lambda ex, c, a, d: OpaqueV("cat" + nmv(ex, a[0]), d)),
               (E.rx(r"as Unsize|as_slice|into_boxed_slice|as Deref>::deref$"), lambda ex, c, a, d: a[0])]
    f = [x for x in S.prog.funcs if x.kind == "fn" and x.short == "calc_filter_hash" and x.name == "calc_filter_hash" and len(x.params) == 2]
    if len(f) != 1:
        raise Inconclusive(f"calc_filter_hash: {len(f)} candidates")
    ps = S.run(ctx, f[0], [ctx.ref_to(OpaqueV("parent_filter_hash", "Byte32")), ctx.ref_to(OpaqueV("filter_data", "Bytes"))])
    rs = returns(ps)
    got = nmv(None, rs[0].value) if len(rs) == 1 else None
    S.prove(ctx, ob, "filter_hash_is_H_of_parent_filter_hash_then_data_hash", [], bool(got == "H(cat[parent_filter_hash,H_data(filter_data)])" and not panics(ps)), extra={"note": str(got)})
    # ---- (c) insert_block_filter
    ctx = S.ctx()
    ctx.uninterpreted_unknown_calls = True
    writes = []

    def insert_raw(ex, c, a, d):
        writes.append((nmv(ex, a[1]), nmv(ex, a[2]), nmv(ex, a[3])))
        return mk_result(True, UNIT, OpaqueV("dberr", "Error"), d)
    ctx.env = [(E.rx(r"StoreTransaction::insert_raw$"), insert_raw), (E.rx(r"calc_filter_hash$"), call("filter_hash")),
               (E.rx(r"::as_slice$|as Deref>::deref$|as Unsize"), lambda ex, c, a, d: OpaqueV(nmv(ex, a[0]), d))]
    f = [x for x in S.prog.funcs if x.kind == "fn" and x.short == "insert_block_filter" and "store/src/transaction.rs" in x.name]
    if len(f) != 1:
        raise Inconclusive(f"insert_block_filter: {len(f)} candidates")
    ps = S.run(ctx, f[0], [ctx.ref_to(OpaqueV("txn", "StoreTransaction")), ctx.ref_to(OpaqueV("block_hash", "Byte32")), ctx.ref_to(OpaqueV("filter_data", "Bytes")), ctx.ref_to(OpaqueV("parent_filter_hash", "Byte32"))])
    cols = _columns()
    want = [(cols["COLUMN_BLOCK_FILTER"], "block_hash", "filter_data"), (cols["COLUMN_BLOCK_FILTER_HASH"], "block_hash", "filter_hash(parent_filter_hash,filter_data)")]
    S.prove(ctx, ob, "insert_block_filter_stores_data_and_chained_hash_under_the_block_hash", [], bool(writes[:2] == want and not panics(ps)), extra={"note": str(writes)})
    # ---- (d) the builder
    f = [x for x in S.prog.funcs if x.kind == "fn" and x.short == "build_filter_data_for_block" and "block-filter/src/filter.rs" in x.name]
    if len(f) != 1:
        raise Inconclusive(f"build_filter_data_for_block: {len(f)} candidates")
    _run_builder_step(S, ob, f[0], nmv) if len(f[0].params) == 2 else None
    _run_builder_scenarios(S, ob)


def _run_builder_step(S, ob, fstep, nmv):
    from mir2smt.exec import ListV
    f = [fstep]
    ctx = S.ctx()
    ctx.uninterpreted_unknown_calls = True
    genesis = ctx.bool("is_genesis"); built = ctx.bool("already_built")
    reads, ins, bodies = [], [], []

    def gfh(ex, c, a, d):
        key = nmv(ex, a[1])
        reads.append((key, list(ex.pc)))
        if key == "hash(header)":
            return mk_option(built.t, OpaqueV("own_filter_hash", "Byte32"), d)
        return mk_option(True, OpaqueV("filter_hash_of." + key, "Byte32"), d)

    def ibf(ex, c, a, d):
        ins.append(([nmv(ex, x) for x in a[1:]], list(ex.pc)))
        return mk_result(True, UNIT, OpaqueV("dberr", "Error"), d)
    ctx.env = list(E.LOGGING_OFF) + [
        (E.rx(r"Shared::store$"), lambda ex, c, a, d: ex.ctx.ref_to(OpaqueV("db", "ChainDB"))),
        (E.rx(r"HeaderView::hash$"), lambda ex, c, a, d: OpaqueV("hash(header)", d)),
        (E.rx(r"HeaderView::parent_hash$"), lambda ex, c, a, d: OpaqueV("parent_hash(header)", d)),
        (E.rx(r"HeaderView::is_genesis$"), lambda ex, c, a, d: genesis),
        (E.rx(r"HeaderView::number$"), lambda ex, c, a, d: ex.ctx.int("number", "u64")),
        (E.rx(r"Byte32>?::zero$"), lambda ex, c, a, d: OpaqueV("ZERO", d)),
        (E.rx(r"ChainStore>::get_block_filter_hash$"), gfh),
        (E.rx(r"ChainStore>::get_block_body$"), lambda ex, c, a, d: (bodies.append(nmv(ex, a[1])), OpaqueV("body", d))[1]),
        (E.rx(r"(^|::)build_filter_data::<"), lambda ex, c, a, d: AggV((OpaqueV("filter_of(" + nmv(ex, a[1]) + ")", "Vec<u8>"), ListV((), "Vec<OutPoint>")), d)),
        (E.rx(r"StoreTransaction::insert_block_filter$"), ibf),
        (E.rx(r"StoreTransaction::commit$"), lambda ex, c, a, d: mk_result(True, UNIT, OpaqueV("dberr", "Error"), d)),
        (E.rx(r"as Clone>::clone$|as Into<.*>>::into$|as From<.*>>::from$|as Deref>::deref$"), lambda ex, c, a, d: OpaqueV(nmv(ex, a[0]), d)),
        (E.rx(r"WrappedChainDB::<.*>::new$|begin_transaction$|as Iterator>::(map|sum)::<|::iter$|::len$|::total_size$"), E.opaque_call()),
    ] + list(E.LIST_ADAPTORS)
    ps = S.run(ctx, f[0], [ctx.ref_to(OpaqueV("filter_service", "BlockFilter")), ctx.ref_to(OpaqueV("header", "HeaderView"))])
    S.prove(ctx, ob, "builder_no_panic", [], T.not_(cond_of(panics(ps))))
    reach = T.or_(*[T.and_(*pc) for _, pc in ins]) if ins else False
    S.prove(ctx, ob, "builder_inserts_iff_not_already_built", [], T.iff(reach, T.not_(built.t)))
    parent_reads = [(k, pc) for k, pc in reads if k != "hash(header)"]
    S.prove(ctx, ob, "builder_reads_the_parent_filter_hash_under_the_headers_parent_hash", [], bool(parent_reads and all(k == "parent_hash(header)" for k, _ in parent_reads)), extra={"note": str([k for k, _ in reads])})
    S.prove(ctx, ob, "builder_parent_filter_hash_read_iff_not_genesis", [T.not_(built.t)], T.iff(T.or_(*[T.and_(*pc) for _, pc in parent_reads]) if parent_reads else False, T.not_(genesis.t)))
    ok = []
    for args, pc in ins:
        ok.append(T.implies(T.and_(*pc), T.ite(genesis.t, bool(args[2] == "ZERO"), bool(args[2] == "filter_hash_of.parent_hash(header)"))))
    S.prove(ctx, ob, "builder_chains_from_the_parents_filter_hash_or_zero_at_genesis", [], T.and_(*ok) if ok else False)
    S.prove(ctx, ob, "builder_stores_the_filter_of_this_blocks_body_under_this_blocks_hash", [], bool(ins and all(a[0] == "hash(header)" and a[1] == "filter_of(body)" for a, _ in ins) and bodies and all(b == "hash(header)" for b in bodies)),
            extra={"note": str([a for a, _ in ins]) + str(bodies)})



def _run_builder_scenarios(S, ob):
    from mir2smt.exec import ListV
    # ---- (e) the whole builder run after a reorganisation (scenario level, independent of how the work is split into helpers): the latest built filter belongs to a detached
    # block D3 (parent F2 on the main chain), the main chain is now F2 - M3 - M4 (tip): filters are (re)built for M3 and M4, M3 chains from F2's filter hash, M4 from M3's
    outer = [x for x in S.prog.funcs if x.kind == "fn" and x.short == "build_filter_data" and "block-filter/src/filter.rs" in x.name and len(x.params) == 1]
    if len(outer) != 1:
        raise Inconclusive(f"BlockFilter::build_filter_data: {len(outer)} candidates")
    for scen, latest in (("latest_built_on_a_detached_fork", "D3"), ("latest_built_on_the_main_chain", "M3"), ("nothing_built_yet", None)):
        ctx = S.ctx(unwind=12)
        ctx.uninterpreted_unknown_calls = True
        number = {"G0": 0, "F1": 1, "F2": 2, "M3": 3, "M4": 4, "D3": 3}
        parent = {"F1": "G0", "F2": "F1", "M3": "F2", "M4": "M3", "D3": "F2"}
        main = {0: "G0", 1: "F1", 2: "F2", 3: "M3", 4: "M4"}
        prebuilt = {"G0", "F1", "F2", "D3"} if latest == "D3" else {"G0", "F1", "F2", "M3"} if latest == "M3" else set()
        ins2 = []

        def nm2(ex, v):
            v = deref(ex, v)
            return getattr(v, "name", None) or type(v).__name__
        key = lambda n: n.split(".", 1)[1] if "." in n else n

        def built_now(ex):
            return prebuilt | {e[2][0] for e in ex.log if e[0] == "ins"}

        def gfh2(ex, c, a, d):
            k = key(nm2(ex, a[1]))
            return mk_option(k in built_now(ex), OpaqueV("fh." + k, "Byte32"), d)

        def ibf2(ex, c, a, d):
            args = [key(nm2(ex, a[1])), nm2(ex, a[2]), nm2(ex, a[3])]
            ex.log.append(("ins", c, args, list(ex.pc)))
            ins2.append((args, list(ex.pc)))
            return mk_result(True, UNIT, OpaqueV("dberr", "Error"), d)
        ctx.env = list(E.LOGGING_OFF) + [
            (E.rx(r"Shared::snapshot$"), lambda ex, c, a, d: OpaqueV("snapshot", d)),
            (E.rx(r"Shared::store$"), lambda ex, c, a, d: ex.ctx.ref_to(OpaqueV("db", "ChainDB"))),
            (E.rx(r"as Deref>::deref$"), lambda ex, c, a, d: ex.ctx.ref_to(OpaqueV(nm2(ex, a[0]), "?"))),
            (E.rx(r"ChainStore>::get_tip_header$"), lambda ex, c, a, d: mk_option(True, OpaqueV("hdr.M4", "HeaderView"), d)),
            (E.rx(r"ChainStore>::get_latest_built_filter_data_block_hash$"), lambda ex, c, a, d: mk_option(latest is not None, OpaqueV("hash." + (latest or "none"), "Byte32"), d)),
            (E.rx(r"ChainStore>::is_main_chain$"), lambda ex, c, a, d: BoolV(key(nm2(ex, a[1])) in main.values())),
            (E.rx(r"ChainStore>::get_block_header$"), lambda ex, c, a, d: mk_option(True, OpaqueV("hdr." + key(nm2(ex, a[1])), "HeaderView"), d)),
            (E.rx(r"ChainStore>::get_block_hash$"), lambda ex, c, a, d: mk_option(True, OpaqueV("hash." + main[deref(ex, a[1]).t], "Byte32"), d)),
            (E.rx(r"HeaderView::hash$"), lambda ex, c, a, d: OpaqueV("hash." + key(nm2(ex, a[0])), d)),
            (E.rx(r"HeaderView::parent_hash$"), lambda ex, c, a, d: OpaqueV("hash." + parent[key(nm2(ex, a[0]))], d)),
            (E.rx(r"HeaderView::number$"), lambda ex, c, a, d: IntV(number[key(nm2(ex, a[0]))], "u64")),
            (E.rx(r"HeaderView::is_genesis$"), lambda ex, c, a, d: BoolV(key(nm2(ex, a[0])) == "G0")),
            (E.rx(r"has_received_stop_signal$"), lambda ex, c, a, d: BoolV(False)),
            (E.rx(r"Byte32>?::zero$"), lambda ex, c, a, d: OpaqueV("ZERO", d)),
            (E.rx(r"ChainStore>::get_block_filter_hash$"), gfh2),
            (E.rx(r"ChainStore>::get_block_body$"), lambda ex, c, a, d: OpaqueV("body." + key(nm2(ex, a[1])), d)),
            (E.rx(r"(^|::)build_filter_data::<"), lambda ex, c, a, d: AggV((OpaqueV("filter_of." + key(nm2(ex, a[1])), "Vec<u8>"), ListV((), "Vec<OutPoint>")), d)),
            (E.rx(r"StoreTransaction::insert_block_filter$"), ibf2),
            (E.rx(r"StoreTransaction::commit$"), lambda ex, c, a, d: mk_result(True, UNIT, OpaqueV("dberr", "Error"), d)),
            (E.rx(r"as Clone>::clone$|as Into<.*>>::into$|as From<.*>>::from$"), lambda ex, c, a, d: OpaqueV(nm2(ex, a[0]), d)),
            (E.rx(r"WrappedChainDB::<.*>::new$|begin_transaction$|as Iterator>::(map|sum)::<|::iter$|::len$|::total_size$"), E.opaque_call()),
        ] + list(E.LIST_ADAPTORS)
        ps = S.run(ctx, outer[0], [ctx.ref_to(OpaqueV("filter_service", "BlockFilter"))])
        rs = returns(ps)
        S.prove(ctx, ob, f"run_{scen}_single_path_no_panic", [], bool(len(rs) == 1 and not panics(ps)))
        got = [e[2] for e in rs[0].log if e[0] == "ins"] if rs else None
        if latest == "D3":
            want = [["M3", "filter_of.M3", "fh.F2"], ["M4", "filter_of.M4", "fh.M3"]]
        elif latest == "M3":
            want = [["M4", "filter_of.M4", "fh.M3"]]
        else:
            want = [["G0", "filter_of.G0", "ZERO"], ["F1", "filter_of.F1", "fh.G0"], ["F2", "filter_of.F2", "fh.F1"], ["M3", "filter_of.M3", "fh.F2"], ["M4", "filter_of.M4", "fh.M3"]]
        S.prove(ctx, ob, f"run_{scen}_builds_every_missing_main_chain_filter_each_chained_from_its_parents", [], bool(got == want), extra={"note": str(got)})


def _columns():
    src = open(os.path.join(os.environ.get("VERIF_REPO", "/repo"), "db-schema/src/lib.rs")).read()
    out = {}
    for m in re.finditer(r"pub const (COLUMN_\w+): Col = \"(\d+)\";", src):
        out[m.group(1)] = "const.ckb_db_schema__" + m.group(1)
    return out



def m6_light_client_proofs_only_for_main_chain_last_hash(S):
    """the three proof servers of the light-client protocol (GetLastStateProof, GetBlocksProof, GetTransactionsProof; `async fn execute` -- the coroutine body is executed from
    its initial state): a proof against the chain-root MMR of the snapshot is assembled ONLY when the client's `last_hash` is on the main chain OF THAT SNAPSHOT; for any other
    hash (a stale fork block that is still stored) the server answers with its tip state instead.  The block it then loads as `last_header` is the one with that hash."""
    from mir2smt.exec import CoroV
    ob = "C19.m6"
    for fname in ("get_last_state_proof", "get_blocks_proof", "get_transactions_proof"):
        c = [f for f in S.prog.funcs if f.kind == "fn" and f"components/{fname}.rs" in f.name and re.search(r"::execute::\{closure#0\}$", f.name) and len(f.params) == 2 and "Context" in f.params[1][1]]
        if len(c) != 1:
            raise Inconclusive(f"{fname}::execute coroutine: {len(c)} candidates")
        f = c[0]
        ctx = S.ctx()
        ctx.uninterpreted_unknown_calls = True
        ctx.max_paths = 400
        on_main = ctx.bool("last_hash_is_on_main_chain_of_the_snapshot")
        asked, loaded, tip_replies = [], [], []

        def nmv(ex, v):
            v = deref(ex, v)
            return getattr(v, "name", None) or type(v).__name__

        def is_main(ex, c_, a, d):
            asked.append((nmv(ex, a[0]), nmv(ex, a[1]), list(ex.pc)))
            if len(asked) and any(x is not None for x in loaded):
                return ex.ctx.fresh_of_type("other_is_main", "bool")
            return on_main

        def get_block(ex, c_, a, d):
            loaded.append((nmv(ex, a[0]), nmv(ex, a[1]), list(ex.pc)))
            raise Stop("proof assembly")

        def reply_tip(ex, c_, a, d):
            tip_replies.append(list(ex.pc))
            return OpaqueV("tip_state_future", d)
        ctx.env = list(E.LOGGING_OFF) + [
            (E.rx(r"Shared::snapshot$"), lambda ex, c_, a, d: OpaqueV("snapshot", d)),
            (E.rx(r"as Deref>::deref$"), lambda ex, c_, a, d: ex.ctx.ref_to(OpaqueV(nmv(ex, a[0]), "?"))),
            (E.rx(r"Reader(::<'_>)?(<'_>)?::last_hash$"), lambda ex, c_, a, d: OpaqueV("msg_last_hash", d)),
            (E.rx(r"::to_entity$"), lambda ex, c_, a, d: OpaqueV(nmv(ex, a[0]), d)),
            (E.rx(r"ChainStore>::is_main_chain$|Snapshot::is_main_chain$"), is_main),
            (E.rx(r"ChainStore>::get_block$|Snapshot::get_block$"), get_block),
            (E.rx(r"LightClientProtocol::reply_tip_state::<"), reply_tip),
            (E.rx(r" as Future>::poll$"), lambda ex, c_, a, d: EnumV(0, ((0, (OpaqueV("status_of_tip_reply", "Status"),)),), d)),
            (E.rx(r"Reader(::<'_>)?(<'_>)?::(last_n_blocks|difficulties|block_hashes|tx_hashes)$"), E.opaque_call()),
            (E.rx(r"::len$"), lambda ex, c_, a, d: ex.ctx.int("n_items", "usize")),
            (E.rx(r"::is_empty$"), lambda ex, c_, a, d: BoolV(T.eq(ex.ctx.int("n_items", "usize").t, 0))),
            (E.rx(r"as Into<u64>>::into$|as Unpack<u64>>::unpack$"), lambda ex, c_, a, d: ex.ctx.int("last_n_blocks", "u64")),
            (E.rx(r"StatusCode::with_context::<"), lambda ex, c_, a, d: OpaqueV("malformed", d)),
        ]
        me = OpaqueV("process", "?")
        coro = CoroV(0, ((0, me),), (), "coroutine")
        ctx.add_side(T.le(T.var("last_n_blocks"), 1 << 20)) if False else None
        ps = S.run(ctx, f, [AggV((ctx.ref_to(coro),), "Pin"), ctx.ref_to(OpaqueV("task_context", "Context"))], allow=("return", "panic", "stop"))
        pre = [T.le(ctx.int("last_n_blocks", "u64").t, 1 << 16), T.le(ctx.int("n_items", "usize").t, 1 << 16)]
        S.prove(ctx, ob, f"{fname}_no_panic_before_the_proof_is_assembled", pre, T.not_(cond_of(panics(ps))))
        first = asked[:1]
        S.prove(ctx, ob, f"{fname}_main_chain_test_is_on_the_snapshot_about_the_clients_last_hash", [], bool(first and first[0][0] == "snapshot" and first[0][1] == "msg_last_hash"), extra={"note": str(asked[:2])})
        load = T.or_(*[T.and_(*pc) for _, _, pc in loaded]) if loaded else False
        tipr = T.or_(*[T.and_(*pc) for pc in tip_replies]) if tip_replies else False
        S.prove(ctx, ob, f"{fname}_proof_is_assembled_only_for_a_main_chain_last_hash", pre, T.implies(load, on_main.t))
        S.prove(ctx, ob, f"{fname}_other_hashes_get_the_tip_state", pre, T.implies(T.and_(T.not_(on_main.t), T.or_(load, tipr)), T.and_(tipr, T.not_(load))))
        S.prove(ctx, ob, f"{fname}_last_block_is_loaded_by_that_hash_from_the_snapshot", [], bool(loaded and all(s_ == "snapshot" and h == "msg_last_hash" for s_, h, _ in loaded)), extra={"note": str([(a, b) for a, b, _ in loaded])})
        S.witness(ctx, ob, f"{fname}_reach_proof", pre, load)
        S.witness(ctx, ob, f"{fname}_reach_tip_reply", pre, tipr)


OBLIGATIONS = [m1_merge, m2_verify, m3_verifiable_header, m4_chain_root_mmr_follows_the_attached_chain, m5_block_filter, m6_light_client_proofs_only_for_main_chain_last_hash]

ENGINE = "M"
LEVEL = "other"
EXPLANATION = ("Digest algebra behind the chain root: MergeHeaderDigest::merge/merge_peaks and HeaderDigest::verify symbolically executed from MIR with packed accessors, "
               "builders and the hash primitive as environment symbols; the solver decides the accept conditions and arithmetic, and the logged builder calls decide which "
               "operand each field of the merged digest comes from.")
BOUNDS = {"values": "all u64/u32/U256 field values", "outside": "MMR structure over histories (ckb-merkle-mountain-range crate, RocksDB columns), proofs, block filters, hash collision resistance"}
ASSUMPTIONS = ["packed HeaderDigest getters/setters are environment symbols named by field (the molecule layer is the subject of C15)", "blake2b is an opaque function of its update sequence",
               "compact_to_difficulty is an uninterpreted function here (C07 covers it)"]
TRUSTED = []
LEVEL_TEXT = ("Decides the digest merge/verify rules (contiguity, epoch succession via the real is_successor_of, difficulty sum, field provenance, operand order of the hash) by SMT over the real MIR; "
              "the history-level clauses (roots after reorgs, proofs, filters) depend on RocksDB state and a third-party MMR crate and are outside.")
LEVEL_NOTE = "Claim = header-digest algebra only. MMR over chain histories, proof serving and block filters are not covered."
TECHNIQUE = "symbolic execution of rustc MIR -> SMT (cvc5 + z3) with call-site observation of builder/hash calls"

# ---- extended claim (session 3)
BOUNDS = dict(BOUNDS, m5="build_filter_data: 1 transaction, 0..2 inputs, 0..2 outputs; builder scenarios on a 5-block chain with a detached block", m6="the three light-client proof servers: coroutine bodies executed up to the point where the last block is loaded")
LEVEL_TEXT = LEVEL_TEXT + " m5: block filter covers every output and spent-input lock/type script hash, filter hash = H(parent filter hash || H(data)), stored under the block hash, the builder chains each (re)built main-chain block from its parent's filter hash also after a reorganisation; m6: light-client proofs are assembled only for a last_hash on the snapshot's main chain, otherwise the tip state is sent."
LEVEL_NOTE = "Claim = header-digest algebra, chain-root MMR along an attached branch, VerifiableHeader, block-filter construction and hash chain, light-client main-chain guard. MMR node arithmetic (third-party), proof contents, GCS encoding: outside."


def m7_block_extension_verifier(S):
    """`BlockExtensionVerifier::verify` (the contextual check every attached block passes): accepted iff
    (no extra field and the chain-root rule not yet active) or (exactly one extra field that is a well-formed extension of 1..=96 bytes and, once the chain-root rule is active --
    judged on the PARENT's epoch --, of at least 32 bytes whose first 32 bytes equal `calc_mmr_hash` of the root of the chain-root MMR handed to the verifier), and in every case the
    header's extra hash equals the hash recomputed from the block; a failing MMR read is an error"""
    from mir2smt.srcinfo import field_index
    from mir2smt.session_extra import extra_session
    ob = "C19.m7"
    S0 = S
    S = extra_session(S0, ["ckb-constant", "ckb-occupied-capacity-core", "ckb-types", "ckb-verification-contextual"])
    try:
        _m7_body(S, ob)
    finally:
        S.finish()


def _m7_body(S, ob):
    from mir2smt.srcinfo import field_index
    f = [x for x in S.prog.funcs if x.kind == "fn" and x.short == "verify" and "contextual_block_verifier.rs" in x.name and "{closure" not in x.name and len(x.params) == 2 and "BlockExtensionVerifier" in x.params[0][1]]
    if len(f) != 1:
        raise Inconclusive(f"BlockExtensionVerifier::verify: {len(f)} candidates")
    ctx = S.ctx()
    ctx.uninterpreted_unknown_calls = True
    cnt, ln = ctx.int("extra_fields_count", "usize"), ctx.int("extension_len", "usize")
    active, has_ext, root_ok, root_ne, extra_ne = ctx.bool("chain_root_rule_active"), ctx.bool("extension_decodes"), ctx.bool("mmr_root_readable"), ctx.bool("root_hash_differs"), ctx.bool("extra_hash_differs")
    obs = {"active_on": [], "root_of": [], "cmp": [], "slice": []}

    def nmv(ex, v):
        v = deref(ex, v)
        if isinstance(v, AggV):
            return "(" + ",".join(nmv(ex, x) for x in v.fields) + ")"
        if isinstance(v, IntV):
            return str(v.t)
        return getattr(v, "name", None) or type(v).__name__
    call = lambda t_: (lambda ex, c, a, d: OpaqueV(t_ + "(" + ",".join(nmv(ex, x) for x in a) + ")", d))

    def ne(ex, c, a, d):
        x, y = nmv(ex, a[0]), nmv(ex, a[1])
        obs["cmp"].append((x, y))
        return root_ne if "mmr_hash" in x + y else extra_ne
    fi = field_index("verification/contextual/src/contextual_block_verifier.rs", "BlockExtensionVerifier")
    ctx.env = list(E.LOGGING_OFF) + [
        (E.rx(r"BlockView::data$"), call("data")),
        (E.rx(r"Block::count_extra_fields$"), lambda ex, c, a, d: cnt),
        (E.rx(r"<Arc<Consensus> as Deref>::deref$"), lambda ex, c, a, d: ex.ctx.ref_to(OpaqueV("consensus", "Consensus"))),
        (E.rx(r"HeaderView::epoch$"), call("epoch")),
        (E.rx(r"EpochNumberWithFraction::number$"), call("number")),
        (E.rx(r"Consensus::rfc0044_active$"), lambda ex, c, a, d: (obs["active_on"].append(nmv(ex, a[1])), active)[1]),
        (E.rx(r"BlockView::extension$"), lambda ex, c, a, d: mk_option(has_ext.t, OpaqueV("extension", "Bytes"), d)),
        (E.rx(r"packed::Bytes::is_empty$|^Bytes::is_empty$"), lambda ex, c, a, d: BoolV(T.eq(ln.t, 0))),
        (E.rx(r"packed::Bytes::len$|^Bytes::len$"), lambda ex, c, a, d: ln),
        (E.rx(r"MMR::<.*>::get_root$"), lambda ex, c, a, d: (obs["root_of"].append(nmv(ex, a[0])), mk_result(root_ok.t, OpaqueV("root_of(" + nmv(ex, a[0]) + ")", "HeaderDigest"), OpaqueV("mmr_err", "Error"), d))[1]),
        (E.rx(r"InternalErrorKind::other"), E.opaque_call()),
        (E.rx(r"HeaderDigest>?::calc_mmr_hash$"), call("mmr_hash")),
        (E.rx(r"Bytes::raw_data$"), call("raw")),
        (E.rx(r"Bytes::slice::<"), lambda ex, c, a, d: (obs["slice"].append((nmv(ex, a[0]), nmv(ex, a[1]))), OpaqueV("slice(" + nmv(ex, a[0]) + "," + nmv(ex, a[1]) + ")", d))[1]),
        (E.rx(r"Entity>::new_unchecked$"), lambda ex, c, a, d: OpaqueV(nmv(ex, a[0]), d)),
        (E.rx(r"Byte32 as PartialEq>::ne$"), ne),
        (E.rx(r"BlockView::calc_extra_hash$"), call("calc_extra")),
        (E.rx(r"ExtraHashView::extra_hash$"), call("extra_hash_of")),
        (E.rx(r"BlockView::extra_hash$"), call("header_extra_hash")),
        (E.rx(r"BlockErrorKind as Into<.*>>::into$"), lambda ex, c, a, d: OpaqueV("block_error", d)),
    ]
    me = AggV(tuple(ctx.ref_to(OpaqueV(k, "?")) for k, _ in sorted(fi.items(), key=lambda kv: kv[1])), "BlockExtensionVerifier")
    ps = S.run(ctx, f[0], [ctx.ref_to(me), ctx.ref_to(OpaqueV("block", "BlockView"))])
    S.prove(ctx, ob, "no_panic", [], T.not_(cond_of(panics(ps))))
    accept = T.or_(*[T.and_(p.cond(), (p.value.disc == 0) if isinstance(p.value.disc, int) else T.eq(p.value.disc, 0)) for p in returns(ps) if isinstance(p.value, EnumV)])
    one_ok = T.and_(T.eq(cnt.t, 1), has_ext.t, T.ge(ln.t, 1), T.le(ln.t, 96), T.or_(T.not_(active.t), T.and_(T.ge(ln.t, 32), root_ok.t, T.not_(root_ne.t))))
    rule = T.and_(T.or_(T.and_(T.eq(cnt.t, 0), T.not_(active.t)), one_ok), T.not_(extra_ne.t))
    S.prove(ctx, ob, "accepted_iff_extension_shape_chain_root_prefix_and_extra_hash_hold", [], T.iff(accept, rule))
    S.prove(ctx, ob, "chain_root_rule_is_judged_on_the_parents_epoch", [], bool(obs["active_on"] and all(x == "number(epoch(parent))" for x in obs["active_on"])), extra={"note": str(set(obs["active_on"]))})
    S.prove(ctx, ob, "root_is_read_from_the_mmr_handed_to_the_verifier", [], bool(obs["root_of"] and all(x == "chain_root_mmr" for x in obs["root_of"])), extra={"note": str(set(obs["root_of"]))})
    rootcmp = {c_ for c_ in obs["cmp"] if "mmr_hash" in c_[0] + c_[1]}
    S.prove(ctx, ob, "extension_prefix_of_32_bytes_is_compared_with_the_mmr_hash_of_that_root", [], bool(rootcmp and all(sorted(c_)[0].startswith("mmr_hash(root_of(chain_root_mmr))") and "slice(raw(extension)" in sorted(c_)[1] for c_ in rootcmp) and all(b_.replace(" ", "") in ("(32)", "32", "RangeTo(32)", "(32,)") or "32" in b_ for _, b_ in obs["slice"])), extra={"note": str(rootcmp) + str(obs["slice"])})
    extracmp = {c_ for c_ in obs["cmp"] if "mmr_hash" not in c_[0] + c_[1]}
    S.prove(ctx, ob, "header_extra_hash_is_compared_with_the_recomputation_from_the_block", [], bool(extracmp == {("extra_hash_of(calc_extra(block))", "header_extra_hash(block)")}), extra={"note": str(extracmp)})
    S.witness(ctx, ob, "reach_accept_with_chain_root", [], T.and_(accept, active.t))
    S.witness(ctx, ob, "reach_boundary_96_bytes", [], T.and_(accept, T.eq(ln.t, 96)))


OBLIGATIONS = OBLIGATIONS + [m7_block_extension_verifier]
