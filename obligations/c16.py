"""C16 — bytes from peers can be rejected but never crash the node.
Engine K: generated molecule reader harnesses (every accessor on every byte string up to the buffer bound) for the types CBMC can
finish. Engine M: panic-freedom/dataflow of the hand-written accessors over decoded values and of the frame size guard."""
import json as _json, os, re
from mir2smt.ob import *
from mir2smt import terms as T
from mir2smt.exec import OpaqueV, IntV, BoolV, AggV, EnumV, RefV, UNIT, Stop, mk_option, mk_result
from mir2smt import envlib as E
from mir2smt.builtins import deref

CRATES = ["ckb-constant", "ckb-occupied-capacity-core", "ckb-gen-types", "ckb-network", "ckb-sync"]
MAX = 1 << 23


def m1_extension_accessors(S):
    """`extension()` on a value accepted by compatible decoding with one extra field: the extra field is arbitrary bytes"""
    ob = "C16.m1"
    for ty, fname, native_key in (("CompactBlock", "extension", "compact_block_extension"), ("Block", "extension", None), ("BlockReader", "extension", None)):
        ctx = S.ctx()
        ctx.uninterpreted_unknown_calls = True
        valid = ctx.bool("extra_field_is_valid_bytes")
        has = ctx.bool("has_extra_field")
        ctx.env = [
            (E.rx(r"::extra_field$"), lambda ex, c, a, d, has=has: mk_option(has.t, OpaqueV("extra_bytes", "bytes"), d)),
            (E.rx(r"(Bytes|BytesReader)(<'_>)? as .*(Entity|Reader)(<'_>)?>::from_slice$|::from_slice$"), lambda ex, c, a, d, valid=valid: mk_result(valid.t, OpaqueV("ext", "Bytes"), OpaqueV("verr", "VerificationError"), d)),
            (E.rx(r"as Deref>::deref$|as AsRef<\[u8\]>>::as_ref$"), lambda ex, c, a, d: a[0]),
        ]
        cands = [f for f in S.prog.by_short.get(fname, []) if re.search(r"impl(<'r>)? packed::" + ty + r"(<'r>)?\s*$", (f.impl_header or "").strip()) and len(f.params) == 1]
        if len(cands) != 1:
            raise Inconclusive(f"{ty}::{fname}: {len(cands)} candidates")
        ps = S.run(ctx, cands[0], [ctx.ref_to(OpaqueV("msg", ty))])
        if native_key:
            # concrete witness: one extra field holding the single byte 0x07 (not a valid `Bytes`): the real accessor panics
            S.native(ctx, native_key, [7], [0, 0, 0], panic=True)
        S.prove(ctx, ob, f"{ty}_{fname}_never_panics_on_decoded_value", [], T.not_(cond_of(panics(ps))))
        S.prove(ctx, ob, f"{ty}_{fname}_panics_only_for_malformed_extra_field", [], T.iff(cond_of(panics(ps)), T.and_(has.t, T.not_(valid.t))))


def m2_frame_guard(S):
    """compressed frames: the buffer allocated for decompression is the length announced by the snappy header and never
    exceeds 8 MiB; frames announcing more are rejected before allocating"""
    ob = "C16.m2"
    for which in ("Message::decompress", "LengthDelimitedCodecWithCompress::decode"):
        ctx = S.ctx()
        ctx.uninterpreted_unknown_calls = True
        dl = ctx.int("announced_len", "usize"); dl_ok = ctx.bool("decompress_len_ok"); flag = ctx.int("byte0", "u8"); n = ctx.int("frame_len", "usize")
        allocs = []

        def alloc(ex, callee, args, dty):
            v = args[-1] if "from_elem" in callee else args[0]
            ex.log.append(("alloc", callee, [v], list(ex.pc)))
            return OpaqueV("buf", dty)

        ctx.env = list(E.LOGGING_OFF) + [
            (E.rx(r"decompress_len$"), lambda ex, c, a, d: mk_result(dl_ok.t, dl, OpaqueV("snaperr", "snap::Error"), d)),
            (E.rx(r"BytesMut::zeroed$|from_elem"), alloc),
            (E.rx(r"BytesMut::is_empty$"), lambda ex, c, a, d: BoolV(T.eq(n.t, 0))),
            (E.rx(r"BytesMut::len$"), lambda ex, c, a, d: n),
            (E.rx(r"as Index<usize>>::index$"), lambda ex, c, a, d: ex.ctx.ref_to(flag)),
            (E.rx(r"LengthDelimitedCodec as .*Decoder>::decode$"), lambda ex, c, a, d: mk_result(True, mk_option(True, OpaqueV("data", "BytesMut"), "Option<BytesMut>"), None, d)),
            (E.rx(r"Decoder::decompress$"), lambda ex, c, a, d: mk_result(ctx.bool("snap_ok").t, IntV(0, "usize"), OpaqueV("snaperr2", "snap::Error"), d)),
            (E.rx(r"max_level|__private_api|fmt::rt::|Arguments|ErrorKind as Into|as From<.*ErrorKind>>::from|Bytes as From<Vec<u8>>>::from|Vec<u8> as Into<.*Bytes>>::into|BytesMut::(split_to|split_off|freeze)$"), E.opaque_call()),
        ]
        fn = S.fn(which)
        if which.startswith("Message"):
            args = [OpaqueV("msg", "Message")]
        else:
            args = [ctx.ref_to(OpaqueV("codec", "LengthDelimitedCodecWithCompress")), ctx.ref_to(OpaqueV("src", "BytesMut"))]
        ps = S.run(ctx, fn, args)
        tag = which.split("::")[-1] + "_" + which.split("::")[0]
        # (slice bounds inside the opaque BytesMut are not modelled, so panic-freedom of the indexing is not claimed here)
        seen = 0
        for k, p in enumerate(returns(ps)):
            for e in p.log:
                if e[0] == "alloc":
                    seen += 1
                    sz = as_int(e[2][0])
                    S.prove(ctx, ob, f"{tag}_path{k}_allocation_is_announced_len_and_at_most_8MiB", [p.cond()], T.and_(T.eq(sz, dl.t), T.le(sz, MAX)))
        # oversize announcements are rejected
        okc = T.or_(*[T.and_(p.cond(), T.eq(p.value.disc, 0)) for p in returns(ps)])
        fl = [nm for nm in ctx.decls if nm.endswith(".at.0")]
        fterm = T.var(fl[0]) if len(fl) == 1 else flag.t
        compressed = T.ne(T.emod(T.ediv(fterm, 128), 2), 0)
        S.prove(ctx, ob, f"{tag}_oversize_announcement_is_rejected", [compressed, dl_ok.t, T.gt(dl.t, MAX), T.ge(n.t, 2)], T.not_(okc))
        if seen == 0:
            raise Inconclusive(f"{which}: allocation site not observed")


def m3_molecule_accessors(S):
    """every generated accessor of every dynamic schema type on every byte slice accepted by compatible decoding: no panic,
    result inside the input, nested readers cover ranges verified as well-formed"""
    from obligations import molecule_m as MM
    MM.set_tier(S)
    ob = "C16.m3"
    for t in MM.dynamic_types():
        MM.access(S, ob, t)


def m4_discovery_decode_uses_verified_readers(S):
    """hand-written decoding of peer messages in ckb-network (discovery, identify, ping): every molecule accessor is applied to a
    reader that came out of a successful `from_compatible_slice`/`from_slice` (directly or as a sub-reader); only then do the
    accessor guarantees of m3 apply"""
    for label, finder, nargs in (
            ("discovery", lambda: S.fn("DiscoveryMessage::decode"), 1),
            ("identify_message", lambda: _one(S, "decode", "identify/protocol.rs"), 1),
            ("identify_verify", lambda: _one(S, "verify", "identify/mod.rs"), 2),
            ("ping", lambda: _one(S, "decode", "protocols/ping.rs"), 1)):
        _taint_decode(S, "C16.m4", label, finder(), nargs)


def _one(S, name, file_part):
    c = [f for f in S.prog.by_short.get(name, []) if file_part in f.name and "{closure" not in f.name]
    if len(c) != 1:
        raise Inconclusive(f"{name} in {file_part}: {len(c)} candidates")
    return c[0]


def _taint_decode(S, ob, label, fn, nargs):
    ctx = S.ctx(unwind=3)
    ctx.uninterpreted_unknown_calls = True
    bad = []

    def tag(ex, v):
        v = deref(ex, v)
        n = getattr(v, "name", "")
        return n[:2] if n[:2] in ("V:", "U:") else "?:"

    def verified_ctor(ex, callee, args, dty):
        ok = ex.ctx.bool(f"decode_ok_{len(ex.log)}_{len(ex.choices)}")
        ex.log.append(("decode", callee, [], list(ex.pc)))
        inner = dty[dty.index("<") + 1:].split(",")[0] if "<" in dty else "Reader"
        return mk_result(ok.t, OpaqueV("V:" + inner.strip() + f"#{len(ex.log)}", inner.strip()), OpaqueV("verr", "VerificationError"), dty)

    def unchecked_ctor(ex, callee, args, dty):
        return OpaqueV(f"U:{dty}#{len(ex.log)}", dty)

    def accessor(ex, callee, args, dty):
        t0 = tag(ex, args[0]) if args else "?:"
        if t0 == "U:":
            bad.append((callee, T.and_(*ex.pc)))
        ex.log.append(("acc", callee, [t0], list(ex.pc)))
        if dty in ("()", "!", ""):
            return UNIT
        it = None
        try:
            from mir2smt.exec import int_type
            it = int_type(dty)
        except Exception:
            it = None
        if dty == "bool" or it is not None or dty.startswith("&[") or dty.startswith("["):
            return ex.ctx.fresh_of_type(f"acc{len(ex.log)}_{len(ex.choices)}", dty)
        if dty.startswith("std::option::Option<") or dty.startswith("Option<"):
            inner = dty[dty.index("<") + 1:-1]
            return mk_option(ex.ctx.bool(f"opt{len(ex.log)}_{len(ex.choices)}").t, OpaqueV(t0 + inner + f"#{len(ex.log)}", inner), dty)
        return OpaqueV((t0 if t0 != "?:" else "V:") + dty + f"#{len(ex.log)}", dty)

    def it_next(ex, callee, args, dty):
        it = deref(ex, args[0])
        key = getattr(it, "name", "?")
        n = len([e for e in ex.log if e[0] == "next" and e[2][0] == key])
        ex.log.append(("next", callee, [key], list(ex.pc)))
        inner = dty[dty.index("<") + 1:-1] if "<" in dty else "Item"
        return mk_option(True, OpaqueV(key[:2] + inner + f"#{len(ex.log)}", inner), dty) if n == 0 else mk_option(False, None, dty)

    ctx.env = [
        (E.rx(r"::from_compatible_slice$|Reader<'_>>?::from_slice$|Entity>::from_slice$"), verified_ctor),
        (E.rx(r"::new_unchecked$"), unchecked_ctor),
        (E.rx(r"ReaderIterator<'_, '_> as Iterator>::next$"), it_next),
        (E.rx(r"^\w+Reader::<'_>::\w+$|^\w+::as_reader$|Reader<'_> as .*Reader<'_>>::as_slice$|Reader<'_> as Into<\w+>>::into$|ReaderIterator<'_, '_> as IntoIterator>::into_iter$"), accessor),
        (E.rx(r"Multiaddr as TryFrom"), lambda ex, c, a, d: mk_result(ex.ctx.bool(f"addr_ok_{len(ex.log)}_{len(ex.choices)}").t, OpaqueV("addr", "Multiaddr"), OpaqueV("aerr", "Error"), d)),
        (E.rx(r"as_utf8$"), lambda ex, c, a, d: mk_result(ex.ctx.bool(f"utf8_ok_{len(ex.log)}_{len(ex.choices)}").t, OpaqueV("str", "&str"), OpaqueV("uerr", "Utf8Error"), d)),
        (E.rx(r"PartialEq.*>::(eq|ne)$"), lambda ex, c, a, d: ex.ctx.bool(f"eq_{len(ex.log)}_{len(ex.choices)}")),
        (E.rx(r"copy_from_slice$|to_vec$|from_bits_truncate$|from_bits_retain$|Vec::<.*>::(with_capacity|push)$|as Into<.*>>::into$"), E.opaque_call()),
    ]
    from mir2smt.exec import SliceV
    L = ctx.int("len", "usize")
    args = [SliceV("data", 0, L.t)] if nargs == 1 else [ctx.ref_to(OpaqueV("self_", "Self")), SliceV("data", 0, L.t)]
    ps = S.run(ctx, fn, args, allow=("return", "panic", "unwind"))
    n_acc = sum(1 for p in ps for e in p.log if e[0] == "acc")
    S.prove(ctx, ob, f"{label}_every_accessor_runs_on_a_verified_reader", [], T.not_(T.or_(*[c for _, c in bad])) if bad else True,
            extra={"unverified_accessor_calls": [c for c, _ in bad][:5]})
    S.prove(ctx, ob, f"{label}_accessor_calls_observed", [], bool(n_acc >= 2))


def m5_prefilled_indexes(S):
    """PrefilledVerifier::verify (the guard in front of compact-block reconstruction, whose gap arithmetic `index - filled` would otherwise
    underflow): accepted iff there is a prefilled transaction, the first index is 0, indexes are strictly increasing and the last one is
    below prefilled + short ids; 0..4 prefilled transactions, indexes and the number of short ids symbolic"""
    ob = "C16.m5"
    f = [x for x in S.prog.funcs if x.kind == "fn" and x.short == "verify" and "compact_block_verifier.rs" in x.name and "{closure" not in x.name]
    # the three verifiers share the signature; PrefilledVerifier is the one calling IndexTransaction::index but not HashSet
    src = open("/repo/sync/src/relayer/compact_block_verifier.rs").read()
    import re as _re
    mline = _re.search(r"impl PrefilledVerifier \{", src)
    if not mline:
        raise Inconclusive("PrefilledVerifier not found in the source")
    line = src[:mline.start()].count("\n") + 1
    cand = [x for x in f if f":{line}:" in (x.impl_span or x.name)]
    if len(cand) != 1:
        raise Inconclusive(f"PrefilledVerifier::verify: {len(cand)} candidates at line {line}")
    for n in range(0, 5):
        ctx = S.ctx(unwind=8)
        ctx.uninterpreted_unknown_calls = True
        idx = [ctx.int(f"index{k}", "u32") for k in range(n)]
        ns = ctx.int("short_ids_len", "usize")
        ctx.add_side(T.le(ns.t, 1 << 32))

        def get(ex, c, a, d):
            i = deref(ex, a[1])
            if not isinstance(i.t, int):
                raise Stop("symbolic vector index")
            return mk_option(i.t < n, OpaqueV(f"pt{i.t}", "IndexTransaction") if i.t < n else None, d)

        def index_of(ex, c, a, d):
            nm = getattr(deref(ex, a[0]), "name", "")
            return OpaqueV("idx_of." + nm, d)

        def into_usize(ex, c, a, d):
            nm = getattr(deref(ex, a[0]), "name", "")
            k = int(nm.rsplit("pt", 1)[1])
            return IntV(idx[k].t, "usize")
        ctx.env = [
            (E.rx(r"CompactBlock::(prefilled_transactions|short_ids)$"), E.opaque_call()),
            (E.rx(r"IndexTransactionVec::len$"), lambda ex, c, a, d: IntV(n, "usize")),
            (E.rx(r"IndexTransactionVec::is_empty$"), lambda ex, c, a, d: BoolV(n == 0)),
            (E.rx(r"ProposalShortIdVec::len$"), lambda ex, c, a, d: ns),
            (E.rx(r"IndexTransactionVec::get$"), get),
            (E.rx(r"IndexTransaction::index$"), index_of),
            (E.rx(r"<Uint32 as Into<usize>>::into$"), into_usize),
            (E.rx(r"<StatusCode as Into<.*Status>>::into$"), lambda ex, c, a, d: OpaqueV("rejected", d)),
            (E.rx(r"Status::ok$"), lambda ex, c, a, d: OpaqueV("accepted", d)),
        ]
        ps = S.run(ctx, cand[0], [ctx.ref_to(OpaqueV("cb", "CompactBlock"))])
        S.prove(ctx, ob, f"n{n}_no_panic", [], T.not_(cond_of(panics(ps))))
        acc = T.or_(*[p.cond() for p in returns(ps) if getattr(p.value, "name", "") == "accepted"])
        spec = T.and_(bool(n >= 1), *([T.eq(idx[0].t, 0)] if n else []), *[T.lt(idx[k].t, idx[k + 1].t) for k in range(n - 1)],
                      *([T.lt(idx[n - 1].t, T.add(n, ns.t))] if n else []))
        S.prove(ctx, ob, f"n{n}_accepted_iff_cellbase_first_increasing_and_in_range", [], T.iff(acc, spec))
        if n:
            # consequence used by reconstruct_block: every gap `index_k - (number of transactions placed before it)` is non-negative
            S.prove(ctx, ob, f"n{n}_accepted_indexes_leave_no_negative_gap", [acc], T.and_(*[T.ge(idx[k].t, k) for k in range(n)]))
            S.witness(ctx, ob, f"n{n}_reach_accept", [], T.and_(acc, *([T.gt(idx[n - 1].t, n)] if n > 1 else [])))


def m6_block_transactions_reply_guards(S):
    """The two guards between a peer's BlockTransactions reply and `reconstruct_block` (which does `received_uncles.get(position).expect("have checked the indexes")` for every
    requested uncle index): `BlockUnclesVerifier::verify` and `BlockTransactionsVerifier::verify` accept ONLY IF the reply carries exactly as many items as were requested and
    found in the pending compact block, and each item's hash / short id equals the expected one in order.  Requested indexes: 0..2, reply length: 0..3, membership of each
    index in the compact block and every hash equality symbolic."""
    ob = "C16.m6"
    for which, fname, getter, item_key, eqname in (("uncles", "block_uncles_verifier.rs", r"Byte32Vec::get$", r"UncleBlockView::hash$", r"Byte32 as PartialEq>::(ne|eq)$"),
                                                    ("transactions", "block_transactions_verifier.rs", r"Vec::<Option<ProposalShortId>>::get$|\[Option<ProposalShortId>\]>::get", r"TransactionView::proposal_short_id$", r"ProposalShortId as PartialEq>::(ne|eq)$")):
        f = [x for x in S.prog.funcs if x.kind == "fn" and x.short == "verify" and fname in x.name and "{closure" not in x.name]
        if len(f) != 1:
            raise Inconclusive(f"{fname}::verify: {len(f)} candidates")
        from mir2smt.exec import ListV
        for nreq in range(0, 3):
            for nrep in range(0, 4):
                ctx = S.ctx(unwind=8)
                ctx.uninterpreted_unknown_calls = True
                present = [ctx.bool(f"index{k}_found_in_compact_block") for k in range(nreq)]
                same = {}

                def nmv(ex, v):
                    v = deref(ex, v)
                    return getattr(v, "name", None) or type(v).__name__

                def get(ex, c, a, d, present=present):
                    i = deref(ex, a[1])
                    name = repr(i.t)
                    k = [k for k in range(len(present)) if f"req{k}" in name]
                    if len(k) != 1:
                        raise Stop("lookup of an index that is not a requested one: " + name)
                    if which == "transactions":
                        # Vec<Option<ProposalShortId>>::get(i).expect(..).clone(): in range by the pending-block invariant; None = transaction already known (prefilled)
                        return mk_option(True, ex.ctx.ref_to(mk_option(present[k[0]].t, OpaqueV(f"expected{k[0]}", "ProposalShortId"), "Option<ProposalShortId>")), d)
                    return mk_option(present[k[0]].t, OpaqueV(f"expected{k[0]}", "Byte32"), d)

                def eq(ex, c, a, d, same=same):
                    x, y = nmv(ex, a[0]), nmv(ex, a[1])
                    key = tuple(sorted((x, y)))
                    if key not in same:
                        same[key] = ex.ctx.bool("eq_" + "_".join(key))
                    b = same[key]
                    return BoolV(T.not_(b.t)) if c.endswith("::ne") else b
                ctx.env = [
                    (E.rx(r"CompactBlock::(uncles|block_short_ids)$"), E.opaque_call()),
                    (E.rx(getter), get),
                    (E.rx(r"Option<ProposalShortId> as Clone>::clone$|Byte32 as Clone>::clone$"), lambda ex, c, a, d: deref(ex, a[0])),
                    (E.rx(item_key), lambda ex, c, a, d: OpaqueV("key_of." + nmv(ex, a[0]), d)),
                    (E.rx(eqname), eq),
                    (E.rx(r"StatusCode::with_context::<"), lambda ex, c, a, d: OpaqueV("rejected", d)),
                    (E.rx(r"<StatusCode as Into<.*Status>>::into$"), lambda ex, c, a, d: OpaqueV("rejected", d)),
                    (E.rx(r"Status::ok$"), lambda ex, c, a, d: OpaqueV("accepted", d)),
                    (E.rx(r"fmt::|format"), E.opaque_call()),
                ] + list(E.LIST_ADAPTORS)
                req = ListV(tuple(ctx.int(f"req{k}", "u32") for k in range(nreq)), "[u32]")
                rep = ListV(tuple(OpaqueV(f"reply{k}", "?") for k in range(nrep)), "[?]")
                ps = S.run(ctx, f[0], [ctx.ref_to(OpaqueV("cb", "CompactBlock")), ctx.ref_to(req), ctx.ref_to(rep)])
                tag = f"{which}_req{nreq}_reply{nrep}"
                S.prove(ctx, ob, f"{tag}_no_panic", [], T.not_(cond_of(panics(ps))))
                acc = T.or_(*[p.cond() for p in returns(ps) if getattr(p.value, "name", "") == "accepted"])
                nfound = 0
                for b in present:
                    nfound = T.add(nfound, T.ite(b.t, 1, 0))
                S.prove(ctx, ob, f"{tag}_accepted_only_with_as_many_items_as_requested_and_found", [acc], T.eq(nfound, nrep))
                if nreq and nrep == nreq:
                    allp = [b.t for b in present]
                    S.prove(ctx, ob, f"{tag}_accepted_iff_every_item_matches_in_order", allp,
                            T.iff(acc, T.and_(*[same[k].t if (k := tuple(sorted((f"expected{j}", f"key_of.reply{j}")))) in same else False for j in range(nreq)])))
                    S.witness(ctx, ob, f"{tag}_reach_accept", allp, acc)


def _reconstruct(S, ob, tag, prefilled_at, n_short, n_received, n_uncles, requested, extension):
    """one exploration of the coroutine body of `Relayer::reconstruct_block`: compact block with prefilled transactions at the given indexes, `n_short` short ids, `n_received`
    transactions from the peer and `n_uncles` uncle hashes; short ids and the received transactions' ids are SYMBOLIC (hash containers modelled by mir2smt/symmap.py)"""
    from mir2smt.exec import CoroV, ListV
    from mir2smt import symmap as SM
    c = [f for f in S.prog.funcs if f.kind == "fn" and re.search(r"::reconstruct_block::\{closure#0\}$", f.name) and len(f.params) == 2 and "Context" in f.params[1][1]]
    if len(c) != 1:
        raise Inconclusive(f"reconstruct_block coroutine: {len(c)} candidates")
    f = c[0]
    ix = {}
    for name, place in f.debug.items():
        m = re.match(r"\(\(\*\(_1\.0: .*?\)\)\.(\d+): ", place)
        if m:
            ix[name] = int(m.group(1))
    need = ["self", "active_chain", "compact_block", "received_transactions", "uncles_index", "received_uncles"]
    if any(n not in ix for n in need):
        raise Inconclusive(f"reconstruct_block upvars: {ix}")
    ctx = S.ctx(unwind=12)
    ctx.uninterpreted_unknown_calls = True
    ctx.prune_with_solver = True
    ctx.max_paths = 8000
    has_ext = ctx.bool("compact_block_has_extension") if extension is None else BoolV(extension)
    roots_differ = ctx.bool("reconstructed_tx_root_differs_from_header")
    pool_err = ctx.bool("tx_pool_fetch_fails")
    stored = ctx.bool("uncle_block_is_in_the_store"); pooled = ctx.bool("uncle_block_is_in_the_orphan_pool")
    txs_len = len(prefilled_at) + n_short

    def nmv(ex, v):
        v = deref(ex, v) if ex is not None else v
        if isinstance(v, ListV):
            return "[" + ",".join(nmv(ex, x) for x in v.items) + "]"
        return getattr(v, "name", None) or type(v).__name__
    call = lambda t_: (lambda ex, c_, a, d: OpaqueV(t_ + "(" + ",".join(nmv(ex, x) for x in a) + ")", d))

    def setter(ex, c_, a, d):
        nm_ = re.sub(r"::<.*>$", "", c_)
        ex.log.append(("set", c_, [nm_.split("::")[-1], nmv(ex, a[1])], list(ex.pc)))
        return OpaqueV(nmv(ex, a[0]), d)

    def fetch(ex, c_, a, d):
        want = deref(ex, a[1])
        if not isinstance(want, SM.MapV):
            raise Stop("fetch_txs with an unknown id set")
        ex.log.append(("fetch", c_, [tuple(kv.name for _, _, kv in want.items)], list(ex.pc)))
        items = []
        for k, _, kv in want.items:
            if ex.decide(ex.ctx.bool("pool_has_" + kv.name).t):
                items.append((k, ex.ctx.ref_to(OpaqueV(f"pooltx({kv.name})", "TransactionView")), kv))
        return AggV((SM.MapV(tuple(items), "HashMap<ProposalShortId, TransactionView>"),), "fetch_future")

    def poll(ex, c_, a, d):
        fut = deref(ex, a[0])
        inner = fut.fields[0] if isinstance(fut, AggV) and fut.ty == "fetch_future" else OpaqueV("polled", "?")
        return EnumV(0, ((0, (mk_result(T.not_(pool_err.t), inner, OpaqueV("pool_error", "AnyError"), "Result<HashMap, AnyError>"),)),), d)

    def passthru(ex, c_, a, d):
        v = deref(ex, a[0])
        if isinstance(v, OpaqueV):
            return ex.ctx.ref_to(OpaqueV(v.name, "?")) if c_.endswith("deref") else OpaqueV(v.name, d)
        return a[0] if c_.endswith("deref") else v
    pin_id = lambda ex, c_, a, d: a[0]
    ctx.env = list(E.LOGGING_OFF) + [
        (E.rx(r"CompactBlock::calc_header_hash$"), call("hash")),
        (E.rx(r"CompactBlock::short_ids$"), lambda ex, c_, a, d: ListV(tuple(OpaqueV(f"sid{k}", "ProposalShortId") for k in range(n_short)), "ProposalShortIdVec")),
        (E.rx(r"CompactBlock::prefilled_transactions$"), lambda ex, c_, a, d: ListV(tuple(OpaqueV(f"prefilled{k}", "IndexTransaction") for k in range(len(prefilled_at))), "IndexTransactionVec")),
        (E.rx(r"CompactBlock::uncles$"), lambda ex, c_, a, d: ListV(tuple(OpaqueV(f"uncle_hash{k}", "Byte32") for k in range(n_uncles)), "Byte32Vec")),
        (E.rx(r"CompactBlock::(proposals|header)$"), lambda ex, c_, a, d: OpaqueV(c_.split("::")[-1] + "(cb)", d)),
        (E.rx(r"CompactBlock>?::txs_len$"), lambda ex, c_, a, d: IntV(txs_len, "usize")),
        (E.rx(r"::extension$"), lambda ex, c_, a, d: mk_option(has_ext.t, OpaqueV("ext(cb)", "Bytes"), d)),
        (E.rx(r"<(ProposalShortIdVec|IndexTransactionVec|Byte32Vec) as IntoIterator>::into_iter$"), lambda ex, c_, a, d: AggV((deref(ex, a[0]), IntV(0, "usize")), "ListIter")),
        (E.rx(r"(ProposalShortIdVec|Byte32Vec|IndexTransactionVec)::(is_empty|len)$"), lambda ex, c_, a, d: BoolV(len(deref(ex, a[0]).items) == 0) if c_.endswith("is_empty") else IntV(len(deref(ex, a[0]).items), "usize")),
        (E.rx(r"TransactionView::proposal_short_id$"), lambda ex, c_, a, d: OpaqueV("id_of_" + nmv(ex, a[0]), d)),
        (E.rx(r"TxPoolController::fetch_txs$"), fetch),
        (E.rx(r" as Future>::poll$"), poll),
        (E.rx(r" as IntoFuture>::into_future$|Pin::<.*>::new_unchecked$"), pin_id),
        (E.rx(r"IndexTransaction::index$"), call("index")),
        (E.rx(r"<Uint32 as Into<usize>>::into$"), lambda ex, c_, a, d: IntV(prefilled_at[int(re.search(r"prefilled(\d+)", nmv(ex, a[0])).group(1))], "usize")),
        (E.rx(r"IndexTransaction::transaction$"), call("tx")),
        (E.rx(r"IntoTransactionView>::into_view$|Transaction::into_view$"), call("view")),
        (E.rx(r"TransactionView::data$|UncleBlockView::data$"), call("data")),
        (E.rx(r"UncleBlockView as Clone>::clone$|<ProposalShortId as Clone>::clone$"), lambda ex, c_, a, d: deref(ex, a[0])),
        (E.rx(r"ActiveChain::get_block_status$"), lambda ex, c_, a, d: OpaqueV("status", d)),
        (E.rx(r"ActiveChain::get_block$"), lambda ex, c_, a, d: mk_option(stored.t, OpaqueV("stored_block(" + nmv(ex, a[1]) + ")", "BlockView"), d)),
        (E.rx(r"ChainController::get_orphan_block$"), lambda ex, c_, a, d: mk_option(pooled.t, OpaqueV("orphan_block(" + nmv(ex, a[2]) + ")", "Arc<BlockView>"), d)),
        (E.rx(r"BlockView::as_uncle$"), call("as_uncle")),
        (E.rx(r"Relayer::shared$|SyncShared::(store|shared)$|Shared::tx_pool_controller$"), E.opaque_call()),
        (E.rx(r"Block(V1)?Builder::(header|uncles|transactions|proposals|extension)(::<.*>)?$"), setter),
        (E.rx(r"::new_builder$"), lambda ex, c_, a, d: OpaqueV("builder:" + d.split("::")[-1], d)),
        (E.rx(r"Builder>?::build$|::as_v0$"), lambda ex, c_, a, d: OpaqueV(nmv(ex, a[0]), d)),
        (E.rx(r"IntoBlockView>::into_view$|Block::into_view$"), lambda ex, c_, a, d: OpaqueV("rebuilt_block", d)),
        (E.rx(r"RawHeader::transactions_root$|BlockView::transactions_root$|Header::raw$"), call("root")),
        (E.rx(r"Byte32 as PartialEq>::(ne|eq)$"), lambda ex, c_, a, d: BoolV(roots_differ.t if c_.endswith("ne") else T.not_(roots_differ.t))),
        (E.rx(r"StatusCode::with_context::<"), lambda ex, c_, a, d: OpaqueV("error_status", d)),
        (E.rx(r"fmt::|format|must_use"), E.opaque_call()),
        (E.rx(r"as Deref>::deref$"), passthru),
    ] + SM.handlers(r"(ckb_types::packed::)?ProposalShortId") + SM.EXTRAS + list(E.LIST_ADAPTORS)
    ups = {ix["self"]: ctx.ref_to(OpaqueV("relayer", "Relayer")), ix["active_chain"]: ctx.ref_to(OpaqueV("active_chain", "ActiveChain")),
           ix["compact_block"]: ctx.ref_to(OpaqueV("cb", "CompactBlock")),
           ix["received_transactions"]: ListV(tuple(OpaqueV(f"received{k}", "TransactionView") for k in range(n_received)), "Vec<TransactionView>"),
           ix["uncles_index"]: ctx.ref_to(ListV(tuple(IntV(k, "u32") for k in range(n_uncles)) if requested else (), "[u32]")),
           ix["received_uncles"]: ctx.ref_to(ListV(tuple(OpaqueV(f"received_uncle{k}", "UncleBlockView") for k in range(n_uncles)) if requested else (), "[UncleBlockView]"))}
    coro = CoroV(0, tuple(sorted(ups.items())), (), "coroutine")
    ps = S.run(ctx, f, [AggV((ctx.ref_to(coro),), "Pin"), ctx.ref_to(OpaqueV("task_context", "Context"))])
    S.prove(ctx, ob, f"{tag}_no_panic", [], T.not_(cond_of(panics(ps))))
    rs = returns(ps)
    ready = [p for p in rs if isinstance(p.value, EnumV) and p.value.disc == 0]
    S.prove(ctx, ob, f"{tag}_completes_without_suspending", [], bool(ready and len(ready) == len(rs)))

    def kind(p):
        v = p.value.payload(0)[0]
        return v.disc if isinstance(v, EnumV) else None
    S.prove(ctx, ob, f"{tag}_result_is_one_of_the_declared_outcomes", [], bool(all(kind(p) in (0, 1, 2, 3) for p in ready)))
    return dict(ctx=ctx, ps=ps, ready=ready, kind=kind, roots_differ=roots_differ, pool_err=pool_err, stored=stored, pooled=pooled, has_ext=has_ext, nmv=nmv)


def m7_reconstruct_block_transactions(S):
    """`Relayer::reconstruct_block` (async fn; coroutine body executed), transaction half, for every coincidence of the ids: a compact block with prefilled transactions at indexes
    0 and 2 and two short ids (slots 1 and 3), one transaction received from the peer, the rest asked from the pool (each present or not, the fetch may fail).  The result is `Block`
    only if every slot is filled and the rebuilt transactions root equals the header's; slot k holds the prefilled transaction or the transaction whose id EQUALS that slot's short id
    (the peer's transaction first, else the pool's), each transaction used at most once (a repeated short id leaves the second slot empty); otherwise `Missing` names exactly the empty
    slots; a root mismatch is `Collided` (short ids were resolved locally) and never a block; a failing pool is an error."""
    from mir2smt.exec import ListV
    ob = "C16.m7"
    R = _reconstruct(S, ob, "txs", prefilled_at=[0, 2], n_short=2, n_received=1, n_uncles=0, requested=False, extension=False)
    ctx, ready, kind, nmv = R["ctx"], R["ready"], R["kind"], R["nmv"]
    s0, s1, r0 = (ctx.int(f"id!{n}", "u64").t for n in ("sid0", "sid1", "id_of_received0"))
    has0, has1 = ctx.bool("pool_has_sid0").t, ctx.bool("pool_has_sid1").t
    dup = T.eq(s0, s1)
    from_peer0, from_peer1 = T.eq(r0, s0), T.and_(T.eq(r0, s1), T.not_(dup))
    asked0 = T.not_(from_peer0)                      # sid0 stays in the set unless the peer's transaction matched it
    asked1 = T.and_(T.not_(dup), T.not_(T.eq(r0, s1)))
    fetched = T.or_(asked0, asked1)
    filled0 = T.or_(from_peer0, T.and_(asked0, has0))
    filled1 = T.and_(T.not_(dup), T.or_(from_peer1, T.and_(asked1, has1)))
    ok_pool = T.or_(T.not_(fetched), T.not_(R["pool_err"].t))
    is_block = T.or_(*[p.cond() for p in ready if kind(p) == 0])
    is_missing = T.or_(*[p.cond() for p in ready if kind(p) == 1])
    is_collided = T.or_(*[p.cond() for p in ready if kind(p) == 2])
    is_error = T.or_(*[p.cond() for p in ready if kind(p) == 3])
    S.prove(ctx, ob, "txs_block_iff_pool_answered_every_slot_is_filled_and_the_roots_agree", [], T.iff(is_block, T.and_(ok_pool, filled0, filled1, T.not_(R["roots_differ"].t))))
    S.prove(ctx, ob, "txs_missing_iff_pool_answered_and_some_slot_is_empty", [], T.iff(is_missing, T.and_(ok_pool, T.not_(T.and_(filled0, filled1)))))
    S.prove(ctx, ob, "txs_root_mismatch_with_locally_resolved_short_ids_is_a_collision_never_a_block", [], T.iff(is_collided, T.and_(ok_pool, filled0, filled1, R["roots_differ"].t)))
    S.prove(ctx, ob, "txs_failing_pool_is_an_error", [], T.iff(is_error, T.and_(fetched, R["pool_err"].t)))
    bad_build, bad_missing, bad_fetch = [], [], []
    for p in ready:
        c = p.cond()
        for e in p.log:
            if e[0] == "fetch":
                names = set(e[2][0])
                bad_fetch.append(T.and_(c, T.not_(T.and_(T.iff(bool("sid0" in names), asked0), T.iff(bool("sid1" in names), asked1)))))
        if kind(p) == 0:
            d_ = {e[2][0]: e[2][1] for e in p.log if e[0] == "set"}
            txs = d_.get("transactions", "")
            m_ = re.fullmatch(r"\[data\(view\(tx\(prefilled0\)\)\),data\((.*?)\),data\(view\(tx\(prefilled1\)\)\),data\((.*?)\)\]", txs)
            if not m_ or d_.get("header") != "header(cb)" or d_.get("proposals") != "proposals(cb)" or d_.get("uncles") != "[]":
                bad_build.append(c)
                continue
            x1, x2 = m_.group(1), m_.group(2)
            want1 = T.or_(T.and_(bool(x1 == "received0"), from_peer0), T.and_(bool(x1 == "pooltx(sid0)"), T.not_(from_peer0)))
            want2 = T.or_(T.and_(bool(x2 == "received0"), from_peer1), T.and_(bool(x2 == "pooltx(sid1)"), T.not_(from_peer1)))
            bad_build.append(T.and_(c, T.not_(T.and_(want1, want2))))
        if kind(p) == 1:
            v = p.value.payload(0)[0]
            miss_tx, miss_un = v.payload(1)
            idx = [getattr(x, "t", None) for x in miss_tx.items] if isinstance(miss_tx, ListV) else None
            if idx is None or not isinstance(miss_un, ListV) or miss_un.items or not set(idx) <= {1, 3} or len(set(idx)) != len(idx):
                bad_missing.append(c)
                continue
            bad_missing.append(T.and_(c, T.not_(T.and_(T.iff(bool(1 in idx), T.not_(filled0)), T.iff(bool(3 in idx), T.not_(filled1))))))
    S.prove(ctx, ob, "txs_block_holds_the_prefilled_transactions_and_for_each_short_id_the_transaction_with_that_id_peer_first", [], T.not_(T.or_(*bad_build)) if bad_build else True)
    S.prove(ctx, ob, "txs_missing_report_names_exactly_the_empty_slots", [], T.not_(T.or_(*bad_missing)) if bad_missing else True)
    S.prove(ctx, ob, "txs_pool_is_asked_exactly_for_the_short_ids_the_peer_did_not_supply", [], T.not_(T.or_(*bad_fetch)) if bad_fetch else True)
    S.witness(ctx, ob, "txs_reach_block_from_peer_and_pool", [], T.and_(is_block, from_peer0, asked1))
    S.witness(ctx, ob, "txs_reach_repeated_short_id", [], T.and_(is_missing, dup))


def m7_reconstruct_block_uncles(S):
    """uncle half: one uncle hash, no short ids.  For every block status of that uncle, requested from the peer or not, store / orphan pool still holding it or not, extension present
    or not, equal / different roots: `Block` only if the uncle was placed -- the received one when requested, else the stored / orphan-pool block with that hash -- and the roots
    agree; an uncle that cannot be placed is REPORTED as missing (index 0), never dropped; an invalid uncle is an error; the block is built from the compact block's header and
    proposals, the prefilled transaction and exactly that uncle"""
    from mir2smt.exec import ListV
    ob = "C16.m7"
    src = open(os.path.join(os.environ.get("VERIF_REPO", "/repo"), "shared/src/block_status.rs")).read()
    consts = {}
    for name, expr in re.findall(r"const (\w+)\s*=\s*([^;]+);", src):
        e = re.sub(r"Self::(\w+)\.bits\(\)", lambda m_: str(consts[m_.group(1)]), expr)
        consts[name] = eval(e, {"__builtins__": {}})
    for requested in (False, True):
        tag = "uncle_requested_from_the_peer" if requested else "uncle_not_requested"
        R = _reconstruct(S, ob, tag, prefilled_at=[0], n_short=0, n_received=0, n_uncles=1, requested=requested, extension=None)
        ctx, ready, kind, nmv, stored, pooled, roots_differ = R["ctx"], R["ready"], R["kind"], R["nmv"], R["stored"], R["pooled"], R["roots_differ"]
        st = [n for n in ctx.decls if re.fullmatch(r"status(\.\d+)+", n)]
        if not st and not requested:
            raise Inconclusive("the uncle's block status is never inspected")
        st = T.var(st[0]) if st else None
        is_block = T.or_(*[p.cond() for p in ready if kind(p) == 0])
        is_missing = T.or_(*[p.cond() for p in ready if kind(p) == 1])
        is_error = T.or_(*[p.cond() for p in ready if kind(p) == 3])
        if requested:
            placeable, invalid = True, False
        else:
            is_stored = T.or_(T.eq(st, consts["BLOCK_STORED"]), T.eq(st, consts["BLOCK_VALID"]))
            is_recv = T.eq(st, consts["BLOCK_RECEIVED"])
            invalid = T.eq(st, consts["BLOCK_INVALID"])
            placeable = T.or_(T.and_(is_stored, stored.t), T.and_(is_recv, pooled.t))
            S.prove(ctx, ob, f"{tag}_invalid_uncle_is_an_error", [invalid], T.and_(is_error, T.not_(is_block)))
            S.prove(ctx, ob, f"{tag}_an_uncle_that_cannot_be_placed_is_reported_missing_never_dropped", [T.not_(placeable), T.not_(invalid)], T.and_(is_missing, T.not_(is_block)))
        S.prove(ctx, ob, f"{tag}_block_only_if_the_uncle_is_placed_and_the_roots_agree", [], T.implies(is_block, T.and_(placeable, T.not_(roots_differ.t))))
        S.prove(ctx, ob, f"{tag}_block_whenever_the_uncle_is_placed_and_the_roots_agree", [placeable, T.not_(roots_differ.t)] + ([T.not_(invalid)] if invalid is not False else []), is_block)
        bad_build, bad_missing = [], []
        for p in ready:
            if kind(p) == 0:
                d_ = {e[2][0]: e[2][1] for e in p.log if e[0] == "set"}
                ok_u = d_.get("uncles") in (("[data(received_uncle0)]",) if requested else ("[data(as_uncle(stored_block(uncle_hash0)))]", "[data(as_uncle(orphan_block(uncle_hash0)))]"))
                if not requested and ok_u:
                    # the stored block only for a stored status, the orphan-pool block only for a received one
                    src_ok = T.and_(is_stored, stored.t) if "stored_block" in d_.get("uncles") else T.and_(is_recv, pooled.t)
                    bad_build.append(T.and_(p.cond(), T.not_(src_ok)))
                ok = ok_u and d_.get("header") == "header(cb)" and d_.get("proposals") == "proposals(cb)" and d_.get("transactions") == "[data(view(tx(prefilled0)))]"
                ok = ok and (("extension" in d_) == (d_.get("extension") == "ext(cb)"))
                if not ok:
                    bad_build.append(p.cond())
            if kind(p) == 1:
                v = p.value.payload(0)[0]
                miss_tx, miss_un = v.payload(1)
                if not (isinstance(miss_un, ListV) and [getattr(x, "t", None) for x in miss_un.items] == [0] and isinstance(miss_tx, ListV) and not miss_tx.items):
                    bad_missing.append(p.cond())
        S.prove(ctx, ob, f"{tag}_block_is_built_from_the_compact_blocks_header_proposals_prefilled_tx_and_that_uncle", [], T.not_(T.or_(*bad_build)) if bad_build else True)
        S.prove(ctx, ob, f"{tag}_missing_report_names_exactly_uncle_0_and_no_transaction", [], T.not_(T.or_(*bad_missing)) if bad_missing else True)
        S.witness(ctx, ob, f"{tag}_reach_block", [], is_block)


OBLIGATIONS = [m1_extension_accessors, m2_frame_guard, m3_molecule_accessors, m4_discovery_decode_uses_verified_readers, m5_prefilled_indexes, m6_block_transactions_reply_guards, m7_reconstruct_block_transactions, m7_reconstruct_block_uncles]

_P = os.path.join(os.path.dirname(__file__), "..", "kani", "molecule", "gen_molecule.json")
_OKFILE = os.path.join(os.path.dirname(__file__), "..", "kani", "molecule", "feasible.json")
_L = _json.load(open(_P)) if os.path.exists(_P) else []
_FEAS = set(_json.load(open(_OKFILE))) if os.path.exists(_OKFILE) else set()
KANI = []
for e in _L:
    if e["kind"] != "noc" or e["harness"] not in _FEAS:
        continue
    KANI.append({"id": "C16.k1:" + e["type"], "crate": "molecule", "harness": e["harness"], "tiers": ("quick", "thorough") if e["tier"] == "quick" else ("thorough",),
                 "bound": f"every byte string of length <= {e['n']}; from_compatible_slice then every accessor recursively (first 2 items of vectors)",
                 "functions": [f"util/gen-types/src/generated::{e['type']}Reader::{{verify,from_compatible_slice,accessors}}"], "timeout_quick": 600, "timeout_thorough": 1800, "mem_gb": 16, "meta": e})
KANI_FEATURES = {"thorough": ("thorough",)}


def kani_replay(harness, r, log_dir):
    from vlib.native import Native
    e = r["spec"]["meta"]
    nat = Native(log_dir)
    if e["type"] == "InIBD":
        args = [8, 0, 0, 0, 0, 0, 0, 0]
        out = nat.call("inibd_count_extra_fields", args)
        return {"status": "reproduced" if out == "panic" else "not-reproduced", "kind": "native", "calls": [{"key": "inibd_count_extra_fields", "args": args, "native": out}]}
    from vlib import kani as K
    return K.playback(r, log_dir)


ENGINE = "M+K"
LEVEL = "other"
EXPLANATION = ("No-panic/containment harnesses over the generated molecule readers for the schema types CBMC can finish, plus SMT-decided panic conditions of the hand-written "
               "`extension()` accessors and the decompression size guard, on the real code.")
BOUNDS = {"K": "byte strings up to 24 (quick) / 40 (thorough) bytes for Bytes, BytesOpt, Byte32Vec, ProposalShortIdVec, InIBD",
          "M": "m3: byte slices of ANY length for every dynamic schema type (per table at most 1 extra field, per dynamic vector at most 2 items); m1/m2: all values with environment symbols for molecule/snappy calls",
          "outside": "compact block reconstruction (HashMap + pool), snappy decoder itself, context-free verifiers, view conversions (`into_view`, hashing) on decoded values"}
ASSUMPTIONS = ["extra_field()/from_slice()/decompress_len()/BytesMut accessors are environment symbols with arbitrary results of their type"]
TRUSTED = []
LEVEL_TEXT = ("SMT over the MIR of every generated reader: compatible verification never panics and every accessor on an accepted slice is panic-free and stays inside the input (modular over the schema); "
              "Kani for five small types at byte level; SMT for hand-written accessors/guards. Two accessor-level panics on decodable values are reported as known findings.")
LEVEL_NOTE = "Claim: generated accessors of every schema type + hand-written extension()/frame guard. Reconstruction, view conversions, snappy itself are outside."
TECHNIQUE = "Kani/CBMC harnesses generated from the molecule schema + symbolic execution of rustc MIR -> SMT"

# ---- extended claim (session 3)
BOUNDS = dict(BOUNDS, m6="BlockTransactions reply guards: 0..2 requested indexes, 0..3 reply items, membership and hash equalities symbolic")
LEVEL_TEXT = LEVEL_TEXT + " m6: BlockUnclesVerifier / BlockTransactionsVerifier accept a reply only with exactly as many items as requested-and-found and matching hashes in order (precondition of reconstruct_block's indexing; found and repaired a missing `return`)."
