"""C07 — epoch length, difficulty and issuance arithmetic: engine-M obligations."""
from mir2smt.ob import *
from mir2smt import terms as T

CRATES = ["ckb-occupied-capacity-core", "ckb-constant", "ckb-types", "ckb-chain-spec"]
U64 = (1 << 64) - 1
VAL = []   # (session, ctx, concrete input assignments) for translator validation
# literals from util/types/src/core/tests and boundary values of the bit fields
EPOCH_SAMPLES = [0, 1, (1 << 40) | 0, (1000 << 40) | (999 << 24) | 5, (1000 << 40) | (0 << 24) | 6, (1800 << 40) | (1799 << 24) | 0xffffff,
                 (1 << 40) | (0 << 24) | 4, (0 << 40) | (7 << 24) | 3, U64, (100 << 40) | (100 << 24) | 9, (65535 << 40) | (65534 << 24) | 1, 0x0000_03e8_0000_0001]

def E(v):
    return newtype(v, "EpochNumberWithFraction")

def fields(x):
    return (T.emod(x, 1 << 24), T.emod(T.ediv(x, 1 << 24), 1 << 16), T.emod(T.ediv(x, 1 << 40), 1 << 16))

def pack(n, i, l):
    return T.add(T.add(T.mul(l, 1 << 40), T.mul(i, 1 << 24)), n)


def m1_fields(S):
    """field round trip, normalize, from_full_value"""
    ob = "C07.m1"
    ctx = S.ctx()
    n = ctx.int("n", "u64"); i = ctx.int("i", "u64"); l = ctx.int("l", "u64")
    pre = [T.lt(n.t, 1 << 24), T.lt(i.t, 1 << 16), T.lt(l.t, 1 << 16)]
    paths = S.run(ctx, "EpochNumberWithFraction::new_unchecked", [n, i, l])
    v = merged(paths, as_int)
    S.native(ctx, "epoch_new_unchecked", [n.t, i.t, l.t], [v], cond_of(panics(paths)))
    VAL.append((S, ctx, [{"n": a, "i": b, "l": c} for a, b, c in ((0, 0, 0), (1, 2, 3), (4, 0, 1), ((1 << 24) - 1, 65535, 65535), (7, 999, 1000), (1 << 24, 1 << 16, 1 << 16), (U64, U64, U64))]))
    S.prove(ctx, ob, "new_unchecked_no_panic", [], T.not_(cond_of(panics(paths))))
    S.prove(ctx, ob, "new_unchecked_packs", pre, T.eq(v, pack(n.t, i.t, l.t)))
    S.witness(ctx, ob, "new_unchecked_reach", pre, T.gt(v, 1 << 41))
    # accessors on an arbitrary u64
    ctx = S.ctx()
    x = ctx.int("x", "u64")
    fn_, fi, fl = fields(x.t)
    for name, spec in (("number", fn_), ("index", fi), ("length", fl)):
        ps = S.run(ctx, "EpochNumberWithFraction::" + name, [E(x)])
        S.native(ctx, "epoch_" + name, [x.t], [merged(ps, as_int)], cond_of(panics(ps)))
        S.prove(ctx, ob, f"{name}_value", [], T.and_(T.not_(cond_of(panics(ps))), T.eq(merged(ps, as_int), spec)))
    ps = S.run(ctx, "EpochNumberWithFraction::from_full_value", [x])
    r = merged(ps, as_int)
    S.native(ctx, "epoch_from_full_value", [x.t], [r], cond_of(panics(ps)))
    rn, ri, rl = fields(r)
    S.prove(ctx, ob, "from_full_value_normalizes", [],
            T.and_(T.not_(cond_of(panics(ps))), T.gt(rl, 0), T.eq(rn, fn_),
                   T.ite(T.eq(fl, 0), T.and_(T.eq(ri, 0), T.eq(rl, 1)), T.eq(r, x.t))))
    for name, spec in (("is_well_formed", T.and_(T.gt(fl, 0), T.gt(fl, fi))),
                       ("is_well_formed_increment", T.or_(T.gt(fl, fi), T.and_(T.eq(fl, 0), T.eq(fi, 0))))):
        ps = S.run(ctx, "EpochNumberWithFraction::" + name, [E(x)])
        S.native(ctx, "epoch_" + name, [x.t], [merged(ps, as_bool)], cond_of(panics(ps)))
        S.prove(ctx, ob, f"{name}_value", [], T.and_(T.not_(cond_of(panics(ps))), T.eq(merged(ps, as_bool), spec)))
    ps = S.run(ctx, "EpochNumberWithFraction::is_genesis", [ctx.ref_to(E(x))])
    S.native(ctx, "epoch_is_genesis", [x.t], [merged(ps, as_bool)], cond_of(panics(ps)))
    VAL.append((S, ctx, [{"x": v} for v in EPOCH_SAMPLES]))
    S.prove(ctx, ob, "is_genesis_value", [], T.eq(merged(ps, as_bool), T.and_(T.eq(fn_, 0), T.eq(fi, 0), T.eq(fl, 0))))


def m2_order(S):
    """gap-free successor relation and exact ordering"""
    ob = "C07.m2"
    ctx = S.ctx()
    a = ctx.int("a", "u64"); b = ctx.int("b", "u64")
    an, ai, al = fields(a.t); bn, bi, bl = fields(b.t)
    wf = lambda i_, l_: T.and_(T.gt(l_, 0), T.gt(l_, i_))
    paths = S.run(ctx, "EpochNumberWithFraction::cmp", [ctx.ref_to(E(a)), ctx.ref_to(E(b))], trait="Ord")
    res = merged(paths, as_int)
    S.native(ctx, "epoch_cmp", [a.t, b.t], [res], cond_of(panics(paths)))
    S.prove(ctx, ob, "cmp_no_panic", [], T.not_(cond_of(panics(paths))))
    x, y = T.mul(ai, bl), T.mul(bi, al)
    spec = T.ite(T.lt(an, bn), -1, T.ite(T.gt(an, bn), 1, T.ite(T.lt(x, y), -1, T.ite(T.eq(x, y), 0, 1))))
    S.prove(ctx, ob, "cmp_is_exact_fraction_order", [T.gt(al, 0), T.gt(bl, 0)], T.eq(res, spec))
    S.witness(ctx, ob, "cmp_reach_fraction_branch", [T.gt(al, 0), T.gt(bl, 0), T.eq(an, bn)], T.eq(res, 1))
    # successor relation: s.is_successor_of(p)
    ps = S.run(ctx, "EpochNumberWithFraction::is_successor_of", [E(a), E(b)])
    succ = merged(ps, as_bool)
    S.native(ctx, "epoch_is_successor_of", [a.t, b.t], [succ], cond_of(panics(ps)))
    VAL.append((S, ctx, [{"a": p, "b": q} for p in EPOCH_SAMPLES for q in EPOCH_SAMPLES]))
    S.prove(ctx, ob, "successor_no_panic", [], T.not_(cond_of(panics(ps))))
    # a = s, b = p (well-formed both)
    same_epoch = T.and_(T.eq(an, bn), T.eq(ai, T.add(bi, 1)), T.eq(al, bl))
    next_epoch = T.and_(T.eq(an, T.add(bn, 1)), T.eq(ai, 0))
    spec_succ = T.ite(T.eq(T.add(bi, 1), bl), next_epoch, same_epoch)
    S.prove(ctx, ob, "successor_exact", [wf(ai, al), wf(bi, bl)], T.eq(succ, spec_succ))
    # every well-formed successor of a well-formed epoch compares Greater
    S.prove(ctx, ob, "successor_is_greater", [wf(ai, al), wf(bi, bl), succ], T.eq(res, 1))
    S.witness(ctx, ob, "successor_reach_next_epoch", [wf(ai, al), wf(bi, bl), succ], T.eq(an, T.add(bn, 1)))
    # antisymmetry: cmp(b,a) = -cmp(a,b)
    paths2 = S.run(ctx, "EpochNumberWithFraction::cmp", [ctx.ref_to(E(b)), ctx.ref_to(E(a))], trait="Ord")
    res2 = merged(paths2, as_int)
    S.prove(ctx, ob, "cmp_antisymmetric", [], T.eq(res2, T.neg(res)))


def m3_min_epoch(S):
    ob = "C07.m3"
    ctx = S.ctx()
    e = ctx.int("e", "u64"); n = ctx.int("n", "u64")
    en, ei, el = fields(e.t)
    paths = S.run(ctx, "EpochNumberWithFraction::minimum_epoch_number_after_n_blocks", [E(e), n])
    ret = merged(paths, as_int)
    S.native(ctx, "epoch_min_after_n", [e.t, n.t], [ret], cond_of(panics(paths)))
    VAL.append((S, ctx, [{"e": p, "n": q} for p in EPOCH_SAMPLES for q in (0, 1, 2, 100, 999, 1000, 1 << 16, U64)]))
    S.prove(ctx, ob, "value", [cond_of(returns(paths))],
            T.eq(ret, T.ite(T.ge(T.add(ei, n.t), el), T.add(en, 1), en)))
    S.prove(ctx, ob, "panic_iff_index_plus_n_overflows", [], T.iff(cond_of(panics(paths)), T.gt(T.add(ei, n.t), U64)))
    S.witness(ctx, ob, "reach_next", [cond_of(returns(paths))], T.eq(ret, T.add(en, 1)))


def epoch_ext(ctx, name="ep"):
    """symbolic EpochExt; returns (opaque, dict of field terms). Field indexes are checked against the MIR's
    own type annotations when accessed."""
    from mir2smt.exec import OpaqueV
    ep = OpaqueV(name, "EpochExt")
    f = {
        "number": ctx.int(f"{name}.0", "u64").t,
        "base": ctx.int(f"{name}.1.0", "u64").t,
        "rem": ctx.int(f"{name}.2.0", "u64").t,
        "start": ctx.int(f"{name}.5", "u64").t,
        "length": ctx.int(f"{name}.6", "u64").t,
        "compact": ctx.int(f"{name}.7", "u32").t,
    }
    return ep, f


def check_layout(S, ob):
    """the getters must read the fields this file assumes (guards against a field reorder)"""
    ctx = S.ctx()
    ep, f = epoch_ext(ctx)
    for g, key in (("number", "number"), ("start_number", "start"), ("length", "length"), ("compact_target", "compact")):
        ps = S.run(ctx, "EpochExt::" + g, [ctx.ref_to(ep)])
        S.prove(ctx, ob, f"layout_{g}", [], T.eq(merged(ps, as_int), f[key]))
    for g, key in (("base_block_reward", "base"), ("remainder_reward", "rem")):
        ps = S.run(ctx, "EpochExt::" + g, [ctx.ref_to(ep)])
        from mir2smt.builtins import deref
        # returns &Capacity
        rs = returns(ps)
        assert len(rs) == 1
        v = rs[0].value
        from mir2smt.exec import Exec
        ex = Exec(ctx, [])
        val = deref(ex, v)
        S.prove(ctx, ob, f"layout_{g}", [], T.eq(as_int(val), f[key]))


def m4_primary_rewards(S):
    """rewards inside an epoch sum to the epoch reward: inductive step over the block index"""
    ob = "C07.m4"
    check_layout(S, ob)
    ctx = S.ctx()
    ep, f = epoch_ext(ctx)
    R = ctx.int("R", "u64"); k = ctx.int("k", "u64")
    L, start = f["length"], f["start"]
    # set_primary_reward(&mut ep, R)
    ref = ctx.ref_to(ep)
    ps = S.run(ctx, "EpochExt::set_primary_reward", [ref, newtype(R, "Capacity")])
    S.prove(ctx, ob, "set_primary_reward_panics_iff_zero_length", [], T.iff(cond_of(panics(ps)), T.eq(L, 0)))
    rs = returns(ps)
    assert len(rs) == 1, "set_primary_reward is straight-line"
    pre = [rs[0].cond(), T.gt(L, 0), T.lt(k.t, L), T.le(T.add(start, L), U64)]
    # state after the call is in the holder cell `ref`; NB: explore re-executes per path, the holder keeps the last
    from mir2smt.builtins import deref
    from mir2smt.exec import Exec
    ep2 = deref(Exec(ctx, []), ref)
    base, rem = T.ediv(R.t, L), T.emod(R.t, L)
    num = T.add(start, k.t)
    ps2 = S.run(ctx, "EpochExt::block_reward", [ctx.ref_to(ep2), IntV(num, "u64")])
    S.prove(ctx, ob, "block_reward_no_panic", pre, T.not_(cond_of(panics(ps2))))
    def ok_val(v):
        # Result<Capacity,Error>: disc 0 = Ok
        p = v.payload(0)
        return as_int(p[0]) if p else 0
    okc = T.or_(*[T.and_(p.cond(), T.eq(p.value.disc, 0)) for p in returns(ps2)])
    val = merged(ps2, ok_val)
    ext_args = [f["number"], f["base"], f["rem"], f["start"], f["length"], f["compact"]]
    S.native(ctx, "epochext_set_primary_then_block_reward", ext_args + [R.t, num], [merged(ps2, lambda v: v.disc), val],
             T.or_(cond_of(panics(ps)), cond_of(panics(ps2))), pre=T.le(num, U64))
    Sk = lambda kk: T.add(T.mul(base, kk), T.imin(kk, rem))
    S.prove(ctx, ob, "block_reward_is_step_of_sum", pre,
            T.and_(okc, T.eq(T.add(Sk(k.t), val), Sk(T.add(k.t, 1)))), timeout_s=120)
    S.prove(ctx, ob, "block_reward_value", pre, T.and_(okc, T.eq(val, T.add(base, T.ite(T.lt(k.t, rem), 1, 0)))))
    S.prove(ctx, ob, "sum_over_epoch_is_epoch_reward", pre, T.eq(Sk(L), R.t))
    # outside the epoch: plain base reward
    out = ctx.int("o", "u64")
    ps3 = S.run(ctx, "EpochExt::block_reward", [ctx.ref_to(ep2), out])
    val3 = merged(ps3, ok_val)
    pre3 = [rs[0].cond(), T.gt(L, 0), T.le(T.add(start, L), U64), T.or_(T.lt(out.t, start), T.ge(out.t, T.add(start, L)))]
    S.prove(ctx, ob, "block_reward_outside_epoch_is_base", pre3, T.and_(T.not_(cond_of(panics(ps3))), T.eq(val3, base)))
    # primary_reward() gives back R
    ps4 = S.run(ctx, "EpochExt::primary_reward", [ctx.ref_to(ep2)])
    S.native(ctx, "epochext_set_primary_then_primary_reward", ext_args + [R.t], [merged(ps4, as_int)], T.or_(cond_of(panics(ps)), cond_of(panics(ps4))))
    VAL.append((S, ctx, [{"ep.0": 1, "ep.1.0": 5, "ep.2.0": 6, "ep.5": st, "ep.6": L_, "ep.7": 0x20010000, "R": R_, "k": k_, "o": o_}
                         for st in (0, 1000, U64 - 2000) for L_ in (0, 1, 7, 1000, 1800) for R_ in (0, 1, 1000, 191780821917808, U64)
                         for k_ in (0, 1, 6, 999) for o_ in (0, 5000)]))
    S.prove(ctx, ob, "primary_reward_roundtrip", [rs[0].cond(), T.gt(L, 0)],
            T.and_(T.not_(cond_of(panics(ps4))), T.eq(merged(ps4, as_int), R.t)))
    S.witness(ctx, ob, "reach_remainder_block", pre, T.and_(T.lt(k.t, rem), T.gt(k.t, 0)))


def m5_secondary(S):
    ob = "C07.m5"
    ctx = S.ctx()
    ep, f = epoch_ext(ctx)
    G = ctx.int("G", "u64"); k = ctx.int("k", "u64")
    L, start = f["length"], f["start"]
    base, rem = T.ediv(G.t, L), T.emod(G.t, L)
    pre = [T.gt(L, 0), T.lt(k.t, L), T.le(T.add(start, L), U64)]
    ps = S.run(ctx, "EpochExt::secondary_block_issuance", [ctx.ref_to(ep), IntV(T.add(start, k.t), "u64"), newtype(G, "Capacity")])
    S.prove(ctx, ob, "panics_iff_zero_length", [T.le(T.add(start, L), U64), T.lt(k.t, T.imax(L, 1))], T.iff(cond_of(panics(ps)), T.eq(L, 0)))
    def ok_val(v):
        p = v.payload(0)
        return as_int(p[0]) if p else 0
    okc = T.or_(*[T.and_(p.cond(), T.eq(p.value.disc, 0)) for p in returns(ps)])
    val = merged(ps, ok_val)
    S.native(ctx, "epochext_secondary_block_issuance", [f["number"], f["base"], f["rem"], f["start"], f["length"], f["compact"], T.add(start, k.t), G.t],
             [merged(ps, lambda v: v.disc), val], cond_of(panics(ps)), pre=T.le(T.add(start, k.t), U64))
    VAL.append((S, ctx, [{"ep.0": 1, "ep.1.0": 5, "ep.2.0": 6, "ep.5": st, "ep.6": L_, "ep.7": 0, "G": G_, "k": k_}
                         for st in (0, 1000, U64 - 2000) for L_ in (0, 1, 7, 1000, 1800) for G_ in (0, 1, 1000, 61369863013698, U64) for k_ in (0, 1, 6, 999)]))
    Sk = lambda kk: T.add(T.mul(base, kk), T.imin(kk, rem))
    S.prove(ctx, ob, "issuance_is_step_of_sum", pre, T.and_(okc, T.eq(T.add(Sk(k.t), val), Sk(T.add(k.t, 1)))), timeout_s=120)
    S.prove(ctx, ob, "sum_over_epoch_is_epoch_issuance", pre, T.eq(Sk(L), G.t))
    S.witness(ctx, ob, "reach_remainder_block", pre, T.and_(T.lt(k.t, rem), T.gt(k.t, 0)))


def consensus(ctx, name="cons"):
    from mir2smt.exec import OpaqueV
    return OpaqueV(name, "Consensus")


def getter(S, ctx, cons, name):
    """value of a Consensus getter (runs the real getter so that the field index comes from the MIR)"""
    ps = S.run(ctx, "Consensus::" + name, [ctx.ref_to(cons)])
    return merged(ps, as_int)


def m6_halving(S):
    """primary issuance halves on schedule"""
    ob = "C07.m6"
    ctx = S.ctx()
    cons = consensus(ctx)
    e = ctx.int("e", "u64")
    interval = getter(S, ctx, cons, "primary_epoch_reward_halving_interval")
    initial = getter(S, ctx, cons, "initial_primary_epoch_reward")
    ps = S.run(ctx, "Consensus::primary_epoch_reward", [ctx.ref_to(cons), e])
    r = merged(ps, as_int)
    S.native(ctx, "consensus_primary_epoch_reward", [initial, interval, e.t], [r], cond_of(panics(ps)))
    VAL.append((S, ctx, [{"cons.6.0": ini, "cons.30": iv, "e": ee} for ini in (0, 1, 191780821917808, U64) for iv in (0, 1, 8760, U64)
                         for ee in (0, 1, 8759, 8760, 8761, 17520, 63 * 8760, 64 * 8760, U64)]))
    halv = T.ediv(e.t, interval)
    S.prove(ctx, ob, "panics_iff_zero_interval_or_64_halvings", [], T.iff(cond_of(panics(ps)), T.or_(T.eq(interval, 0), T.ge(halv, 64))))
    # reward(e) = floor(initial / 2^halvings): expressed without exponentiation via the halving recurrence
    # (a) epoch in the first period gets the initial reward
    S.prove(ctx, ob, "first_period_is_initial", [T.gt(interval, 0), T.lt(e.t, interval)], T.eq(r, initial))
    # (b) reward(e) = floor(initial / 2^h), h = e div interval: r*2^h <= initial < (r+1)*2^h, with 2^h selected from constants
    P = 1 << 63
    for k in range(62, -1, -1):
        P = T.ite(T.eq(halv, k), 1 << k, P)
    pre = [T.gt(interval, 0), T.lt(halv, 64)]
    S.prove(ctx, ob, "reward_is_initial_over_two_to_halvings", pre,
            T.and_(T.not_(cond_of(panics(ps))), T.le(T.mul(r, P), initial), T.lt(initial, T.mul(T.add(r, 1), P))), timeout_s=120)
    S.witness(ctx, ob, "reach_third_period", pre, T.and_(T.eq(halv, 2), T.gt(r, 0)))
    # primary_epoch_reward_of_next_epoch: switches exactly at multiples of the interval, otherwise carries the epoch's own reward
    ctx = S.ctx()
    cons = consensus(ctx)
    ep, f = epoch_ext(ctx)
    interval = getter(S, ctx, cons, "primary_epoch_reward_halving_interval")
    initial = getter(S, ctx, cons, "initial_primary_epoch_reward")
    ps = S.run(ctx, "Consensus::primary_epoch_reward_of_next_epoch", [ctx.ref_to(cons), ctx.ref_to(ep)])
    r = merged(ps, as_int)
    nxt = T.add(f["number"], 1)
    at_boundary = T.ite(T.eq(interval, 0), T.eq(nxt, 0), T.eq(T.emod(nxt, interval), 0))
    own = T.add(T.mul(f["base"], f["length"]), f["rem"])
    pre = [T.le(nxt, U64), T.le(own, U64), T.gt(interval, 0), T.lt(T.ediv(nxt, interval), 64)]
    S.prove(ctx, ob, "next_epoch_no_panic", pre, T.not_(cond_of(panics(ps))))
    S.prove(ctx, ob, "next_epoch_carries_or_halves", pre,
            T.eq(r, T.ite(at_boundary, merged(S.run(ctx, "Consensus::primary_epoch_reward", [ctx.ref_to(cons), IntV(nxt, "u64")], allow=("return", "panic")), as_int), own)), timeout_s=120)
    S.witness(ctx, ob, "reach_boundary", pre, T.and_(at_boundary, T.gt(f["number"], 5)))


def m7_bounding_length(S):
    ob = "C07.m7"
    ctx = S.ctx()
    cons = consensus(ctx)
    length = ctx.int("len", "u64"); last = ctx.int("last", "u64")
    MAXL = getter(S, ctx, cons, "max_epoch_length")
    MINL = getter(S, ctx, cons, "min_epoch_length")
    ps = S.run(ctx, "Consensus::bounding_epoch_length", [ctx.ref_to(cons), length, last])
    val = merged(ps, lambda v: as_int(v.fields[0]))
    flag = merged(ps, lambda v: as_bool(v.fields[1]))
    S.prove(ctx, ob, "panics_iff_double_overflows", [], T.iff(cond_of(panics(ps)), T.gt(T.mul(last, 2) if False else T.mul(last.t, 2), U64)))
    hi = T.imin(MAXL, T.mul(last.t, 2))
    lo = T.imax(MINL, T.ediv(last.t, 2))
    pre = [T.le(T.mul(last.t, 2), U64)]
    nonempty = T.le(lo, hi)
    S.prove(ctx, ob, "within_factor_two_and_consensus_limits", pre + [nonempty], T.and_(T.le(lo, val), T.le(val, hi)))
    S.prove(ctx, ob, "identity_inside_interval", pre + [T.le(lo, length.t), T.le(length.t, hi)], T.and_(T.eq(val, length.t), T.not_(flag)))
    S.prove(ctx, ob, "flag_iff_clamped", pre, T.iff(flag, T.or_(T.gt(length.t, hi), T.lt(length.t, lo))))
    S.prove(ctx, ob, "clamps_to_nearest_bound", pre + [nonempty], T.eq(val, T.ite(T.gt(length.t, hi), hi, T.ite(T.lt(length.t, lo), lo, length.t))))
    S.witness(ctx, ob, "reach_clamp_low", pre + [nonempty], T.and_(flag, T.eq(val, lo), T.gt(lo, 300)))


def m8_bounding_hash_rate(S):
    ob = "C07.m8"
    ctx = S.ctx()
    cons = consensus(ctx)
    cur = ctx.int("cur", "U256"); prev = ctx.int("prev", "U256")
    ps = S.run(ctx, "Consensus::bounding_hash_rate", [ctx.ref_to(cons), cur, prev])
    val = merged(ps, as_int)
    M256 = (1 << 256) - 1
    S.prove(ctx, ob, "panics_only_when_double_overflows_u256", [], T.implies(cond_of(panics(ps)), T.gt(T.mul(prev.t, 2), M256)))
    pre = [T.le(T.mul(prev.t, 2), M256)]
    S.prove(ctx, ob, "no_panic_below_overflow", pre, T.not_(cond_of(panics(ps))))
    S.prove(ctx, ob, "identity_when_no_previous", [T.eq(prev.t, 0)], T.eq(val, cur.t))
    S.prove(ctx, ob, "within_factor_two", pre + [T.gt(prev.t, 0)], T.and_(T.le(T.ediv(prev.t, 2), val), T.le(val, T.mul(prev.t, 2))))
    S.prove(ctx, ob, "clamp_exact", pre + [T.gt(prev.t, 0)],
            T.eq(val, T.ite(T.lt(cur.t, T.ediv(prev.t, 2)), T.ediv(prev.t, 2), T.ite(T.gt(cur.t, T.mul(prev.t, 2)), T.mul(prev.t, 2), cur.t))))
    S.witness(ctx, ob, "reach_upper_clamp", pre + [T.gt(prev.t, 0)], T.and_(T.eq(val, T.mul(prev.t, 2)), T.gt(prev.t, 1 << 100)))


OBLIGATIONS = [m1_fields, m2_order, m3_min_epoch, m4_primary_rewards, m5_secondary, m6_halving, m7_bounding_length, m8_bounding_hash_rate]


def validate(S, native):
    """translator validation: concrete inputs through the encoding (terms evaluated in Python) and the native code.
    NB: each context must be validated while its terms are still meaningful; terms are closed, so any time is fine."""
    cases, mism = 0, []
    for (S_, ctx, inputs) in VAL:
        c, m = S.validate(ctx, inputs)
        cases += c
        mism += m
    del VAL[:]
    return {"cases": cases, "mismatches": mism}


KANI = [
    {"id": "C07.k1a", "crate": "types", "harness": "c07_k1_compact_roundtrip", "bound": "all 2^32 compact values; numext shift loops unwound 6",
     "functions": ["util/types/src/utilities/difficulty.rs::compact_to_target", "util/types/src/utilities/difficulty.rs::target_to_compact"]},
    {"id": "C07.k1b", "crate": "types", "harness": "c07_k1_compact_monotone", "bound": "all pairs of canonical compact values",
     "functions": ["util/types/src/utilities/difficulty.rs::compact_to_target", "util/types/src/utilities/difficulty.rs::target_to_compact"]},
]

LEVEL = "other"
EXPLANATION = ("Bounded/unbounded solver-decided obligations over the real epoch/difficulty/issuance arithmetic of /repo "
               "(EpochNumberWithFraction, EpochExt, Consensus, compact target codecs).")
BOUNDS = {"M": "no bound: all u64 inputs of each loop-free function", "K": "all u32 compact encodings; loops in numext shifts fully unwound (unwinding assertions on)"}
ASSUMPTIONS = ["U256 arithmetic of numext modelled as mathematical integers with range [0,2^256) in engine M",
               "bitwise-or in EpochNumberWithFraction::new_unchecked is an uninterpreted function with sound disjoint-bits lemmas"]
TRUSTED = []

ENGINE = "M+K"
LEVEL_TEXT = ("Every clause listed in DESIGN.md for C07 is a solver query over the real code: engine-M queries quantify over all 64-bit inputs of the "
              "loop-free epoch/reward functions (no bound), engine-K harnesses over all 2^32 compact targets with loops fully unwound. "
              "Level `other`: bounded/unbounded SMT/SAT decision of code-level obligations, not a state-space exploration and not a machine-checked proof of the whole statement.")
LEVEL_NOTE = ("Trusted: MIR->SMT translator (validated per run against native execution on unit-test literals), numext U256 modelled as integers, cvc5/z3/CBMC. "
              "Outside the claim: Eaglesong hash itself, store reads feeding next_epoch_ext (uncle count/duration are symbols).")
TECHNIQUE = "symbolic execution of rustc MIR -> SMT (cvc5 + z3) and Kani/CBMC harnesses on the real crates"
