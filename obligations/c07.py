"""C07 — epoch length, difficulty and issuance arithmetic: engine-M obligations."""
from mir2smt.ob import *
from mir2smt import terms as T

CRATES = ["ckb-occupied-capacity-core", "ckb-constant", "ckb-types", "ckb-pow", "ckb-chain-spec"]
from mir2smt.exec import OpaqueV, AggV, EnumV, BoolV
U64 = (1 << 64) - 1
VAL = []   # (session, ctx, concrete input assignments) for translator validation
# literals from util/types/src/core/tests and boundary values of the bit fields
EPOCH_SAMPLES = [0, 1, (1 << 40) | 0, (1000 << 40) | (999 << 24) | 5, (1000 << 40) | (0 << 24) | 6, (1800 << 40) | (1799 << 24) | 0xffffff,
                 (1 << 40) | (0 << 24) | 4, (0 << 40) | (7 << 24) | 3, U64, (100 << 40) | (100 << 24) | 9, (65535 << 40) | (65534 << 24) | 1, 0x0000_03e8_0000_0001]

def E(v):
    return newtype(v, "EpochNumberWithFraction")

def fields(x):
    return (T.emod(x, 1 << 24), T.emod(T.ediv(x, 1 << 24), 1 << 16), T.emod(T.ediv(x, 1 << 40), 1 << 16))

def pack(n, i, l):
    return T.add(T.add(T.mul(l, 1 << 40), T.mul(i, 1 << 24)), n)


def m1_fields(S):
    """field round trip, normalize, from_full_value"""
    ob = "C07.m1"
    ctx = S.ctx()
    n = ctx.int("n", "u64"); i = ctx.int("i", "u64"); l = ctx.int("l", "u64")
    pre = [T.lt(n.t, 1 << 24), T.lt(i.t, 1 << 16), T.lt(l.t, 1 << 16)]
    paths = S.run(ctx, "EpochNumberWithFraction::new_unchecked", [n, i, l])
    v = merged(paths, as_int)
    S.native(ctx, "epoch_new_unchecked", [n.t, i.t, l.t], [v], cond_of(panics(paths)))
    VAL.append((S, ctx, [{"n": a, "i": b, "l": c} for a, b, c in ((0, 0, 0), (1, 2, 3), (4, 0, 1), ((1 << 24) - 1, 65535, 65535), (7, 999, 1000), (1 << 24, 1 << 16, 1 << 16), (U64, U64, U64))]))
    S.prove(ctx, ob, "new_unchecked_no_panic", [], T.not_(cond_of(panics(paths))))
    S.prove(ctx, ob, "new_unchecked_packs", pre, T.eq(v, pack(n.t, i.t, l.t)))
    S.witness(ctx, ob, "new_unchecked_reach", pre, T.gt(v, 1 << 41))
    # accessors on an arbitrary u64
    ctx = S.ctx()
    x = ctx.int("x", "u64")
    fn_, fi, fl = fields(x.t)
    for name, spec in (("number", fn_), ("index", fi), ("length", fl)):
        ps = S.run(ctx, "EpochNumberWithFraction::" + name, [E(x)])
        S.native(ctx, "epoch_" + name, [x.t], [merged(ps, as_int)], cond_of(panics(ps)))
        S.prove(ctx, ob, f"{name}_value", [], T.and_(T.not_(cond_of(panics(ps))), T.eq(merged(ps, as_int), spec)))
    ps = S.run(ctx, "EpochNumberWithFraction::from_full_value", [x])
    r = merged(ps, as_int)
    S.native(ctx, "epoch_from_full_value", [x.t], [r], cond_of(panics(ps)))
    rn, ri, rl = fields(r)
    S.prove(ctx, ob, "from_full_value_normalizes", [],
            T.and_(T.not_(cond_of(panics(ps))), T.gt(rl, 0), T.eq(rn, fn_),
                   T.ite(T.eq(fl, 0), T.and_(T.eq(ri, 0), T.eq(rl, 1)), T.eq(r, x.t))))
    for name, spec in (("is_well_formed", T.and_(T.gt(fl, 0), T.gt(fl, fi))),
                       ("is_well_formed_increment", T.or_(T.gt(fl, fi), T.and_(T.eq(fl, 0), T.eq(fi, 0))))):
        ps = S.run(ctx, "EpochNumberWithFraction::" + name, [E(x)])
        S.native(ctx, "epoch_" + name, [x.t], [merged(ps, as_bool)], cond_of(panics(ps)))
        S.prove(ctx, ob, f"{name}_value", [], T.and_(T.not_(cond_of(panics(ps))), T.eq(merged(ps, as_bool), spec)))
    ps = S.run(ctx, "EpochNumberWithFraction::is_genesis", [ctx.ref_to(E(x))])
    S.native(ctx, "epoch_is_genesis", [x.t], [merged(ps, as_bool)], cond_of(panics(ps)))
    VAL.append((S, ctx, [{"x": v} for v in EPOCH_SAMPLES]))
    S.prove(ctx, ob, "is_genesis_value", [], T.eq(merged(ps, as_bool), T.and_(T.eq(fn_, 0), T.eq(fi, 0), T.eq(fl, 0))))


def m2_order(S):
    """gap-free successor relation and exact ordering"""
    ob = "C07.m2"
    ctx = S.ctx()
    a = ctx.int("a", "u64"); b = ctx.int("b", "u64")
    an, ai, al = fields(a.t); bn, bi, bl = fields(b.t)
    wf = lambda i_, l_: T.and_(T.gt(l_, 0), T.gt(l_, i_))
    paths = S.run(ctx, "EpochNumberWithFraction::cmp", [ctx.ref_to(E(a)), ctx.ref_to(E(b))], trait="Ord")
    res = merged(paths, as_int)
    S.native(ctx, "epoch_cmp", [a.t, b.t], [res], cond_of(panics(paths)))
    S.prove(ctx, ob, "cmp_no_panic", [], T.not_(cond_of(panics(paths))))
    x, y = T.mul(ai, bl), T.mul(bi, al)
    spec = T.ite(T.lt(an, bn), -1, T.ite(T.gt(an, bn), 1, T.ite(T.lt(x, y), -1, T.ite(T.eq(x, y), 0, 1))))
    S.prove(ctx, ob, "cmp_is_exact_fraction_order", [T.gt(al, 0), T.gt(bl, 0)], T.eq(res, spec))
    S.witness(ctx, ob, "cmp_reach_fraction_branch", [T.gt(al, 0), T.gt(bl, 0), T.eq(an, bn)], T.eq(res, 1))
    # successor relation: s.is_successor_of(p)
    ps = S.run(ctx, "EpochNumberWithFraction::is_successor_of", [E(a), E(b)])
    succ = merged(ps, as_bool)
    S.native(ctx, "epoch_is_successor_of", [a.t, b.t], [succ], cond_of(panics(ps)))
    VAL.append((S, ctx, [{"a": p, "b": q} for p in EPOCH_SAMPLES for q in EPOCH_SAMPLES]))
    S.prove(ctx, ob, "successor_no_panic", [], T.not_(cond_of(panics(ps))))
    # a = s, b = p (well-formed both)
    same_epoch = T.and_(T.eq(an, bn), T.eq(ai, T.add(bi, 1)), T.eq(al, bl))
    next_epoch = T.and_(T.eq(an, T.add(bn, 1)), T.eq(ai, 0))
    spec_succ = T.ite(T.eq(T.add(bi, 1), bl), next_epoch, same_epoch)
    S.prove(ctx, ob, "successor_exact", [wf(ai, al), wf(bi, bl)], T.eq(succ, spec_succ))
    # every well-formed successor of a well-formed epoch compares Greater
    S.prove(ctx, ob, "successor_is_greater", [wf(ai, al), wf(bi, bl), succ], T.eq(res, 1))
    S.witness(ctx, ob, "successor_reach_next_epoch", [wf(ai, al), wf(bi, bl), succ], T.eq(an, T.add(bn, 1)))
    # antisymmetry: cmp(b,a) = -cmp(a,b)
    paths2 = S.run(ctx, "EpochNumberWithFraction::cmp", [ctx.ref_to(E(b)), ctx.ref_to(E(a))], trait="Ord")
    res2 = merged(paths2, as_int)
    S.prove(ctx, ob, "cmp_antisymmetric", [], T.eq(res2, T.neg(res)))


def m3_min_epoch(S):
    ob = "C07.m3"
    ctx = S.ctx()
    e = ctx.int("e", "u64"); n = ctx.int("n", "u64")
    en, ei, el = fields(e.t)
    paths = S.run(ctx, "EpochNumberWithFraction::minimum_epoch_number_after_n_blocks", [E(e), n])
    ret = merged(paths, as_int)
    S.native(ctx, "epoch_min_after_n", [e.t, n.t], [ret], cond_of(panics(paths)))
    VAL.append((S, ctx, [{"e": p, "n": q} for p in EPOCH_SAMPLES for q in (0, 1, 2, 100, 999, 1000, 1 << 16, U64)]))
    S.prove(ctx, ob, "value", [cond_of(returns(paths))],
            T.eq(ret, T.ite(T.ge(T.add(ei, n.t), el), T.add(en, 1), en)))
    S.prove(ctx, ob, "panic_iff_index_plus_n_overflows", [], T.iff(cond_of(panics(paths)), T.gt(T.add(ei, n.t), U64)))
    S.witness(ctx, ob, "reach_next", [cond_of(returns(paths))], T.eq(ret, T.add(en, 1)))


def epoch_ext(ctx, name="ep"):
    """symbolic EpochExt; returns (opaque, dict of field terms). Field indexes are checked against the MIR's
    own type annotations when accessed."""
    from mir2smt.exec import OpaqueV
    ep = OpaqueV(name, "EpochExt")
    f = {
        "number": ctx.int(f"{name}.0", "u64").t,
        "base": ctx.int(f"{name}.1.0", "u64").t,
        "rem": ctx.int(f"{name}.2.0", "u64").t,
        "start": ctx.int(f"{name}.5", "u64").t,
        "length": ctx.int(f"{name}.6", "u64").t,
        "compact": ctx.int(f"{name}.7", "u32").t,
    }
    return ep, f


def check_layout(S, ob):
    """the getters must read the fields this file assumes (guards against a field reorder)"""
    ctx = S.ctx()
    ep, f = epoch_ext(ctx)
    for g, key in (("number", "number"), ("start_number", "start"), ("length", "length"), ("compact_target", "compact")):
        ps = S.run(ctx, "EpochExt::" + g, [ctx.ref_to(ep)])
        S.prove(ctx, ob, f"layout_{g}", [], T.eq(merged(ps, as_int), f[key]))
    for g, key in (("base_block_reward", "base"), ("remainder_reward", "rem")):
        ps = S.run(ctx, "EpochExt::" + g, [ctx.ref_to(ep)])
        from mir2smt.builtins import deref
        # returns &Capacity
        rs = returns(ps)
        assert len(rs) == 1
        v = rs[0].value
        from mir2smt.exec import Exec
        ex = Exec(ctx, [])
        val = deref(ex, v)
        S.prove(ctx, ob, f"layout_{g}", [], T.eq(as_int(val), f[key]))


def m4_primary_rewards(S):
    """rewards inside an epoch sum to the epoch reward: inductive step over the block index"""
    ob = "C07.m4"
    check_layout(S, ob)
    ctx = S.ctx()
    ep, f = epoch_ext(ctx)
    R = ctx.int("R", "u64"); k = ctx.int("k", "u64")
    L, start = f["length"], f["start"]
    # set_primary_reward(&mut ep, R)
    ref = ctx.ref_to(ep)
    ps = S.run(ctx, "EpochExt::set_primary_reward", [ref, newtype(R, "Capacity")])
    S.prove(ctx, ob, "set_primary_reward_panics_iff_zero_length", [], T.iff(cond_of(panics(ps)), T.eq(L, 0)))
    rs = returns(ps)
    assert len(rs) == 1, "set_primary_reward is straight-line"
    pre = [rs[0].cond(), T.gt(L, 0), T.lt(k.t, L), T.le(T.add(start, L), U64)]
    # state after the call is in the holder cell `ref`; NB: explore re-executes per path, the holder keeps the last
    from mir2smt.builtins import deref
    from mir2smt.exec import Exec
    ep2 = deref(Exec(ctx, []), ref)
    base, rem = T.ediv(R.t, L), T.emod(R.t, L)
    num = T.add(start, k.t)
    ps2 = S.run(ctx, "EpochExt::block_reward", [ctx.ref_to(ep2), IntV(num, "u64")])
    S.prove(ctx, ob, "block_reward_no_panic", pre, T.not_(cond_of(panics(ps2))))
    def ok_val(v):
        # Result<Capacity,Error>: disc 0 = Ok
        p = v.payload(0)
        return as_int(p[0]) if p else 0
    okc = T.or_(*[T.and_(p.cond(), T.eq(p.value.disc, 0)) for p in returns(ps2)])
    val = merged(ps2, ok_val)
    ext_args = [f["number"], f["base"], f["rem"], f["start"], f["length"], f["compact"]]
    S.native(ctx, "epochext_set_primary_then_block_reward", ext_args + [R.t, num], [merged(ps2, lambda v: v.disc), val],
             T.or_(cond_of(panics(ps)), cond_of(panics(ps2))), pre=T.le(num, U64))
    Sk = lambda kk: T.add(T.mul(base, kk), T.imin(kk, rem))
    S.prove(ctx, ob, "block_reward_is_step_of_sum", pre,
            T.and_(okc, T.eq(T.add(Sk(k.t), val), Sk(T.add(k.t, 1)))), timeout_s=120)
    S.prove(ctx, ob, "block_reward_value", pre, T.and_(okc, T.eq(val, T.add(base, T.ite(T.lt(k.t, rem), 1, 0)))))
    S.prove(ctx, ob, "sum_over_epoch_is_epoch_reward", pre, T.eq(Sk(L), R.t))
    # outside the epoch: plain base reward
    out = ctx.int("o", "u64")
    ps3 = S.run(ctx, "EpochExt::block_reward", [ctx.ref_to(ep2), out])
    val3 = merged(ps3, ok_val)
    pre3 = [rs[0].cond(), T.gt(L, 0), T.le(T.add(start, L), U64), T.or_(T.lt(out.t, start), T.ge(out.t, T.add(start, L)))]
    S.prove(ctx, ob, "block_reward_outside_epoch_is_base", pre3, T.and_(T.not_(cond_of(panics(ps3))), T.eq(val3, base)))
    # primary_reward() gives back R
    ps4 = S.run(ctx, "EpochExt::primary_reward", [ctx.ref_to(ep2)])
    S.native(ctx, "epochext_set_primary_then_primary_reward", ext_args + [R.t], [merged(ps4, as_int)], T.or_(cond_of(panics(ps)), cond_of(panics(ps4))))
    VAL.append((S, ctx, [{"ep.0": 1, "ep.1.0": 5, "ep.2.0": 6, "ep.5": st, "ep.6": L_, "ep.7": 0x20010000, "R": R_, "k": k_, "o": o_}
                         for st in (0, 1000, U64 - 2000) for L_ in (0, 1, 7, 1000, 1800) for R_ in (0, 1, 1000, 191780821917808, U64)
                         for k_ in (0, 1, 6, 999) for o_ in (0, 5000)]))
    S.prove(ctx, ob, "primary_reward_roundtrip", [rs[0].cond(), T.gt(L, 0)],
            T.and_(T.not_(cond_of(panics(ps4))), T.eq(merged(ps4, as_int), R.t)))
    S.witness(ctx, ob, "reach_remainder_block", pre, T.and_(T.lt(k.t, rem), T.gt(k.t, 0)))


def m5_secondary(S):
    ob = "C07.m5"
    ctx = S.ctx()
    ep, f = epoch_ext(ctx)
    G = ctx.int("G", "u64"); k = ctx.int("k", "u64")
    L, start = f["length"], f["start"]
    base, rem = T.ediv(G.t, L), T.emod(G.t, L)
    pre = [T.gt(L, 0), T.lt(k.t, L), T.le(T.add(start, L), U64)]
    ps = S.run(ctx, "EpochExt::secondary_block_issuance", [ctx.ref_to(ep), IntV(T.add(start, k.t), "u64"), newtype(G, "Capacity")])
    S.prove(ctx, ob, "panics_iff_zero_length", [T.le(T.add(start, L), U64), T.lt(k.t, T.imax(L, 1))], T.iff(cond_of(panics(ps)), T.eq(L, 0)))
    def ok_val(v):
        p = v.payload(0)
        return as_int(p[0]) if p else 0
    okc = T.or_(*[T.and_(p.cond(), T.eq(p.value.disc, 0)) for p in returns(ps)])
    val = merged(ps, ok_val)
    S.native(ctx, "epochext_secondary_block_issuance", [f["number"], f["base"], f["rem"], f["start"], f["length"], f["compact"], T.add(start, k.t), G.t],
             [merged(ps, lambda v: v.disc), val], cond_of(panics(ps)), pre=T.le(T.add(start, k.t), U64))
    VAL.append((S, ctx, [{"ep.0": 1, "ep.1.0": 5, "ep.2.0": 6, "ep.5": st, "ep.6": L_, "ep.7": 0, "G": G_, "k": k_}
                         for st in (0, 1000, U64 - 2000) for L_ in (0, 1, 7, 1000, 1800) for G_ in (0, 1, 1000, 61369863013698, U64) for k_ in (0, 1, 6, 999)]))
    Sk = lambda kk: T.add(T.mul(base, kk), T.imin(kk, rem))
    S.prove(ctx, ob, "issuance_is_step_of_sum", pre, T.and_(okc, T.eq(T.add(Sk(k.t), val), Sk(T.add(k.t, 1)))), timeout_s=120)
    S.prove(ctx, ob, "sum_over_epoch_is_epoch_issuance", pre, T.eq(Sk(L), G.t))
    S.witness(ctx, ob, "reach_remainder_block", pre, T.and_(T.lt(k.t, rem), T.gt(k.t, 0)))


def consensus(ctx, name="cons"):
    from mir2smt.exec import OpaqueV
    return OpaqueV(name, "Consensus")


def getter(S, ctx, cons, name):
    """value of a Consensus getter (runs the real getter so that the field index comes from the MIR)"""
    ps = S.run(ctx, "Consensus::" + name, [ctx.ref_to(cons)])
    return merged(ps, as_int)


def m6_halving(S):
    """primary issuance halves on schedule"""
    ob = "C07.m6"
    ctx = S.ctx()
    cons = consensus(ctx)
    e = ctx.int("e", "u64")
    interval = getter(S, ctx, cons, "primary_epoch_reward_halving_interval")
    initial = getter(S, ctx, cons, "initial_primary_epoch_reward")
    ps = S.run(ctx, "Consensus::primary_epoch_reward", [ctx.ref_to(cons), e])
    r = merged(ps, as_int)
    S.native(ctx, "consensus_primary_epoch_reward", [initial, interval, e.t], [r], cond_of(panics(ps)))
    VAL.append((S, ctx, [{"cons.6.0": ini, "cons.30": iv, "e": ee} for ini in (0, 1, 191780821917808, U64) for iv in (0, 1, 8760, U64)
                         for ee in (0, 1, 8759, 8760, 8761, 17520, 63 * 8760, 64 * 8760, U64)]))
    halv = T.ediv(e.t, interval)
    S.prove(ctx, ob, "panics_iff_zero_interval_or_64_halvings", [], T.iff(cond_of(panics(ps)), T.or_(T.eq(interval, 0), T.ge(halv, 64))))
    # reward(e) = floor(initial / 2^halvings): expressed without exponentiation via the halving recurrence
    # (a) epoch in the first period gets the initial reward
    S.prove(ctx, ob, "first_period_is_initial", [T.gt(interval, 0), T.lt(e.t, interval)], T.eq(r, initial))
    # (b) reward(e) = floor(initial / 2^h), h = e div interval: r*2^h <= initial < (r+1)*2^h, with 2^h selected from constants
    P = 1 << 63
    for k in range(62, -1, -1):
        P = T.ite(T.eq(halv, k), 1 << k, P)
    pre = [T.gt(interval, 0), T.lt(halv, 64)]
    S.prove(ctx, ob, "reward_is_initial_over_two_to_halvings", pre,
            T.and_(T.not_(cond_of(panics(ps))), T.le(T.mul(r, P), initial), T.lt(initial, T.mul(T.add(r, 1), P))), timeout_s=120)
    S.witness(ctx, ob, "reach_third_period", pre, T.and_(T.eq(halv, 2), T.gt(r, 0)))
    # primary_epoch_reward_of_next_epoch: switches exactly at multiples of the interval, otherwise carries the epoch's own reward
    ctx = S.ctx()
    cons = consensus(ctx)
    ep, f = epoch_ext(ctx)
    interval = getter(S, ctx, cons, "primary_epoch_reward_halving_interval")
    initial = getter(S, ctx, cons, "initial_primary_epoch_reward")
    ps = S.run(ctx, "Consensus::primary_epoch_reward_of_next_epoch", [ctx.ref_to(cons), ctx.ref_to(ep)])
    r = merged(ps, as_int)
    nxt = T.add(f["number"], 1)
    at_boundary = T.ite(T.eq(interval, 0), T.eq(nxt, 0), T.eq(T.emod(nxt, interval), 0))
    own = T.add(T.mul(f["base"], f["length"]), f["rem"])
    pre = [T.le(nxt, U64), T.le(own, U64), T.gt(interval, 0), T.lt(T.ediv(nxt, interval), 64)]
    S.prove(ctx, ob, "next_epoch_no_panic", pre, T.not_(cond_of(panics(ps))))
    S.prove(ctx, ob, "next_epoch_carries_or_halves", pre,
            T.eq(r, T.ite(at_boundary, merged(S.run(ctx, "Consensus::primary_epoch_reward", [ctx.ref_to(cons), IntV(nxt, "u64")], allow=("return", "panic")), as_int), own)), timeout_s=120)
    S.witness(ctx, ob, "reach_boundary", pre, T.and_(at_boundary, T.gt(f["number"], 5)))


def m7_bounding_length(S):
    ob = "C07.m7"
    ctx = S.ctx()
    cons = consensus(ctx)
    length = ctx.int("len", "u64"); last = ctx.int("last", "u64")
    MAXL = getter(S, ctx, cons, "max_epoch_length")
    MINL = getter(S, ctx, cons, "min_epoch_length")
    ps = S.run(ctx, "Consensus::bounding_epoch_length", [ctx.ref_to(cons), length, last])
    val = merged(ps, lambda v: as_int(v.fields[0]))
    flag = merged(ps, lambda v: as_bool(v.fields[1]))
    S.prove(ctx, ob, "panics_iff_double_overflows", [], T.iff(cond_of(panics(ps)), T.gt(T.mul(last, 2) if False else T.mul(last.t, 2), U64)))
    hi = T.imin(MAXL, T.mul(last.t, 2))
    lo = T.imax(MINL, T.ediv(last.t, 2))
    pre = [T.le(T.mul(last.t, 2), U64)]
    nonempty = T.le(lo, hi)
    S.prove(ctx, ob, "within_factor_two_and_consensus_limits", pre + [nonempty], T.and_(T.le(lo, val), T.le(val, hi)))
    S.prove(ctx, ob, "identity_inside_interval", pre + [T.le(lo, length.t), T.le(length.t, hi)], T.and_(T.eq(val, length.t), T.not_(flag)))
    S.prove(ctx, ob, "flag_iff_clamped", pre, T.iff(flag, T.or_(T.gt(length.t, hi), T.lt(length.t, lo))))
    S.prove(ctx, ob, "clamps_to_nearest_bound", pre + [nonempty], T.eq(val, T.ite(T.gt(length.t, hi), hi, T.ite(T.lt(length.t, lo), lo, length.t))))
    S.witness(ctx, ob, "reach_clamp_low", pre + [nonempty], T.and_(flag, T.eq(val, lo), T.gt(lo, 300)))


def m8_bounding_hash_rate(S):
    ob = "C07.m8"
    ctx = S.ctx()
    cons = consensus(ctx)
    cur = ctx.int("cur", "U256"); prev = ctx.int("prev", "U256")
    ps = S.run(ctx, "Consensus::bounding_hash_rate", [ctx.ref_to(cons), cur, prev])
    val = merged(ps, as_int)
    M256 = (1 << 256) - 1
    S.prove(ctx, ob, "panics_only_when_double_overflows_u256", [], T.implies(cond_of(panics(ps)), T.gt(T.mul(prev.t, 2), M256)))
    pre = [T.le(T.mul(prev.t, 2), M256)]
    S.prove(ctx, ob, "no_panic_below_overflow", pre, T.not_(cond_of(panics(ps))))
    S.prove(ctx, ob, "identity_when_no_previous", [T.eq(prev.t, 0)], T.eq(val, cur.t))
    S.prove(ctx, ob, "within_factor_two", pre + [T.gt(prev.t, 0)], T.and_(T.le(T.ediv(prev.t, 2), val), T.le(val, T.mul(prev.t, 2))))
    S.prove(ctx, ob, "clamp_exact", pre + [T.gt(prev.t, 0)],
            T.eq(val, T.ite(T.lt(cur.t, T.ediv(prev.t, 2)), T.ediv(prev.t, 2), T.ite(T.gt(cur.t, T.mul(prev.t, 2)), T.mul(prev.t, 2), cur.t))))
    S.witness(ctx, ob, "reach_upper_clamp", pre + [T.gt(prev.t, 0)], T.and_(T.eq(val, T.mul(prev.t, 2)), T.gt(prev.t, 1 << 100)))



def rational_env(ctx):
    """exact rationals for ckb_rational::RationalU256: pairs (numerator, denominator) of unbounded integers, no gcd reduction.
    Panics kept: zero denominator in new(), division by a zero rational. U256 overflow inside the real rational code is NOT
    modelled (stated assumption)."""
    from mir2smt.builtins import deref
    from mir2smt import envlib as E
    from mir2smt.exec import Panic

    def R(n, d):
        return AggV((IntV(n, "U512"), IntV(d, "U512")), "RationalU256")

    def parts(ex, v):
        v = deref(ex, v)
        if isinstance(v, IntV):
            return v.t, 1
        return v.fields[0].t, v.fields[1].t

    def new(ex, c, a, d):
        n, dd = deref(ex, a[0]).t, deref(ex, a[1]).t
        if not ex.decide(T.ne(dd, 0)):
            raise Panic("RationalU256::new: zero denominator")
        return R(n, dd)

    def add(ex, c, a, d):
        (n1, d1), (n2, d2) = parts(ex, a[0]), parts(ex, a[1])
        return R(T.add(T.mul(n1, d2), T.mul(n2, d1)), T.mul(d1, d2))

    def mul(ex, c, a, d):
        (n1, d1), (n2, d2) = parts(ex, a[0]), parts(ex, a[1])
        return R(T.mul(n1, n2), T.mul(d1, d2))

    def div(ex, c, a, d):
        (n1, d1), (n2, d2) = parts(ex, a[0]), parts(ex, a[1])
        if not ex.decide(T.ne(n2, 0)):
            raise Panic("RationalU256 division by zero")
        return R(T.mul(n1, d2), T.mul(d1, n2))

    def gt(ex, c, a, d):
        (n1, d1), (n2, d2) = parts(ex, a[0]), parts(ex, a[1])
        return BoolV(T.gt(T.mul(n1, d2), T.mul(n2, d1)))

    def ssub(ex, c, a, d):
        (n1, d1), (n2, d2) = parts(ex, a[0]), parts(ex, a[1])
        x = T.mul(n2, d1)
        if ex.decide(T.gt(T.mul(n1, d2), x) if d2 != 1 else T.gt(n1, x)):
            return R(T.sub(T.mul(n1, d2), T.mul(n2, d1)), T.mul(d1, d2))
        return R(0, 1)

    return [
        (E.rx(r"^RationalU256::new$"), new),
        (E.rx(r"RationalU256 as Add<.*>>::add$"), add),
        (E.rx(r"RationalU256 as Mul<.*>>::mul$"), mul),
        (E.rx(r"RationalU256 as Div(<.*>)?>::div$"), div),
        (E.rx(r"RationalU256 as PartialOrd>::gt$"), gt),
        (E.rx(r"^RationalU256::saturating_sub_u256$"), ssub),
        (E.rx(r"^RationalU256::one$"), lambda ex, c, a, d: R(1, 1)),
        (E.rx(r"^RationalU256::is_zero$"), lambda ex, c, a, d: BoolV(T.eq(parts(ex, a[0])[0], 0))),
        (E.rx(r"^RationalU256::into_u256$"), lambda ex, c, a, d: IntV(T.ediv(*parts(ex, a[0])), "U256")),
    ]


def m9_next_epoch(S):
    """Consensus::next_epoch_ext, tail block, adaptive difficulty: length bounds, hash-rate clamp, difficulty formula
    (RFC-0020 in exact rationals), reward split and field wiring of the new EpochExt"""
    ob = "C07.m9"
    from mir2smt import envlib as E
    from mir2smt.builtins import deref
    ctx = S.ctx()
    cons = consensus(ctx)
    ep, f = epoch_ext(ctx)
    U = ctx.int("uncles", "u64"); DUR = ctx.int("dur_ms", "u64"); D = ctx.int("last_diff", "U256")
    hn = ctx.int("hdr.number", "u64")
    on = ctx.int("orphan_n", "U256"); od = ctx.int("orphan_d", "U256")
    prev = ctx.int("ep.3", "U256").t
    compact_calls = []
    ctx.uninterpreted_unknown_calls = True
    ctx.env = rational_env(ctx) + [
        (E.rx(r"Consensus::permanent_difficulty$"), E.const_bool(False)),
        (E.rx(r"Consensus::orphan_rate_target$"), lambda ex, c, a, d: AggV((IntV(on.t, "U512"), IntV(od.t, "U512")), "RationalU256")),
        (E.rx(r"HeaderView::difficulty$"), lambda ex, c, a, d: D),
        (E.rx(r"HeaderView::number$"), lambda ex, c, a, d: hn),
        (E.rx(r"HeaderView::hash$"), lambda ex, c, a, d: OpaqueV("hdr_hash", d)),
        (E.rx(r"^u256_low_u64$"), lambda ex, c, a, d: IntV(T.emod(deref(ex, a[0]).t, 1 << 64), "u64")),
        (E.rx(r"difficulty_to_compact$"), lambda ex, c, a, d: (compact_calls.append((T.and_(*ex.pc), deref(ex, a[0]).t)), ctx.int("compact_of_next_diff", "u32"))[1]),
        (E.rx(r"U256 as (ToOwned|Clone)>::(to_owned|clone)$"), lambda ex, c, a, d: deref(ex, a[0])),
        (E.rx(r"EpochExt as Clone>::clone$"), lambda ex, c, a, d: deref(ex, a[0])),
    ]
    clo = S.prog.closures.get("{closure@spec/src/consensus.rs:822:18: 822:31}")
    if clo is None:
        cl = [f_ for k_, f_ in S.prog.closures.items() if "next_epoch_ext::{closure#0}" in f_.name]
        if len(cl) != 1:
            raise Inconclusive("next_epoch_ext closure not found")
        clo = cl[0]
    capt = AggV((ctx.ref_to(cons), ctx.ref_to(OpaqueV("hdr", "HeaderView"))), clo.params[0][1])
    be = EnumV(0, ((0, (ep, U, DUR)),), "BlockEpoch")      # BlockEpoch::TailBlock { epoch, epoch_uncles_count, epoch_duration_in_milliseconds }
    MAXL = getter(S, ctx, cons, "max_epoch_length"); MINL = getter(S, ctx, cons, "min_epoch_length")
    TGT = getter(S, ctx, cons, "epoch_duration_target")
    interval = getter(S, ctx, cons, "primary_epoch_reward_halving_interval")
    L = f["length"]
    sane = [T.le(1, MINL), T.le(MINL, MAXL), T.le(MAXL, 1 << 20), T.le(MINL, T.mul(L, 2)), T.le(T.ediv(L, 2), MAXL), T.le(1, L), T.le(L, 1 << 20),
            T.le(U.t, T.mul(L, 2)), T.le(1, D.t), T.lt(D.t, 1 << 200), T.lt(prev, 1 << 200), T.le(1, TGT), T.le(TGT, 1 << 32),
            T.le(1, on.t), T.lt(on.t, od.t), T.le(od.t, 1 << 16), T.lt(f["number"], (1 << 24) - 1), T.lt(hn.t, (1 << 63)),
            T.gt(interval, 0), T.lt(T.ediv(T.add(f["number"], 1), interval), 64), T.le(T.add(T.mul(f["base"], L), f["rem"]), U64)]
    ps = S.run(ctx, clo, [capt, be], assume=sane)
    S.prove(ctx, ob, "no_panic_for_stored_epoch_statistics", sane, T.not_(cond_of(panics(ps))), timeout_s=300)
    rs = returns(ps)
    # result: NextBlockEpoch::HeadBlock(EpochExt) = variant 0
    def fld(v, i):
        e = v.payload(0)[0]
        x = e.fields[i] if isinstance(e, AggV) else None
        return x
    S.prove(ctx, ob, "tail_block_yields_head_block_of_next_epoch", sane, T.and_(*[T.implies(p.cond(), T.eq(p.value.disc, 0)) for p in rs]))
    dur_s = T.imax(T.ediv(DUR.t, 1000), 1)
    hps = T.ediv(T.mul(D.t, T.add(L, U.t)), dur_s)
    clamped = T.ite(T.eq(prev, 0), hps, T.ite(T.lt(hps, T.ediv(prev, 2)), T.ediv(prev, 2), T.ite(T.gt(hps, T.mul(prev, 2)), T.mul(prev, 2), hps)))
    adj = T.imax(clamped, 1)
    lo = T.imax(MINL, T.ediv(L, 2)); hi = T.imin(MAXL, T.mul(L, 2))
    nlen = merged(ps, lambda v: as_int(fld(v, 6)))
    S.prove(ctx, ob, "next_length_within_consensus_limits_and_factor_two", sane, T.and_(T.le(lo, nlen), T.le(nlen, hi), T.le(MINL, nlen), T.le(nlen, MAXL)), timeout_s=300)
    S.prove(ctx, ob, "no_uncles_means_longest_allowed_epoch", sane + [T.eq(U.t, 0)], T.eq(nlen, hi), timeout_s=300)
    # raw length formula (RFC-0020): L' = floor( o*(1+o_i)*T*L / (o_i*(1+o)*dur) ), o_i = U/L, o = on/od  (exact rationals)
    raw_num = T.mul(T.mul(T.mul(on.t, T.add(U.t, L)), TGT), L)          # on/od * (U+L)/L * T * L   (numerators)
    raw_den = T.mul(T.mul(T.mul(od.t, L), T.mul(U.t, T.add(on.t, od.t))), dur_s)
    # = on*(U+L)*T*L / (od*L) ... / (U/L * (on+od)/od * dur) -> on*(U+L)*T*L*L*od / (od*L*U*(on+od)*dur)
    raw = T.ediv(T.mul(T.mul(raw_num, L), od.t), raw_den)
    rawlow = T.emod(raw, 1 << 64)
    exp_len = T.ite(T.eq(U.t, 0), hi, T.ite(T.gt(rawlow, hi), hi, T.ite(T.lt(rawlow, lo), lo, rawlow)))
    S.prove(ctx, ob, "next_length_is_clamped_rfc_formula", sane, T.eq(nlen, exp_len), timeout_s=600)
    S.prove(ctx, ob, "previous_hash_rate_is_clamped_estimate_at_least_one", sane, T.eq(merged(ps, lambda v: as_int(fld(v, 3))), adj), timeout_s=300)
    S.prove(ctx, ob, "number_and_start_follow_the_tail_block", sane,
            T.and_(T.eq(merged(ps, lambda v: as_int(fld(v, 0))), T.add(f["number"], 1)), T.eq(merged(ps, lambda v: as_int(fld(v, 5))), T.add(hn.t, 1))))
    # rewards: R = Consensus::primary_epoch_reward_of_next_epoch(epoch) (its own schedule is C07.m6); base = R div len', rem = R mod len'
    rps = S.run(ctx, "Consensus::primary_epoch_reward_of_next_epoch", [ctx.ref_to(cons), ctx.ref_to(ep)], assume=sane)
    Rv = merged(rps, as_int)
    for k, p in enumerate(rs):
        lp = as_int(fld(p.value, 6)); bp = as_int(fld(p.value, 1)); rp = as_int(fld(p.value, 2))
        S.prove(ctx, ob, f"path{k}_block_reward_and_remainder_split_the_epoch_reward", sane + [p.cond()], T.and_(T.eq(bp, T.ediv(Rv, lp)), T.eq(rp, T.emod(Rv, lp))), timeout_s=120)

    def mul_hints(t, acc, seen):
        if T.is_const(t) or t in seen:
            return
        seen.add(t)
        if t[0] == "*":
            a, b = t[2], t[3]
            acc.append(T.implies(T.and_(T.gt(a, 0), T.gt(b, 0)), T.gt(t, 0)))
        for x in (t[3:] if t[0] == "app" else t[2:]):
            if not isinstance(x, str):
                mul_hints(x, acc, seen)

    if not compact_calls:
        raise Inconclusive("difficulty_to_compact call not observed")
    for k, (pc_, c) in enumerate(compact_calls):
        hints = []
        mul_hints(c, hints, set())
        if not T.is_const(c) and c[0] == "div":
            X, Y = c[2], c[3]
            hints.append(T.implies(T.and_(T.gt(X, Y), T.gt(Y, 0)), T.ge(c, 1)))       # a > b > 0  =>  a div b >= 1 (arithmetic fact)
            hints.append(T.implies(T.and_(T.ge(X, Y), T.gt(Y, 0)), T.ge(c, 1)))
        S.prove(ctx, ob, f"call{k}_next_difficulty_is_at_least_one", sane + [pc_] + hints, T.ge(c, 1), timeout_s=120)
    S.prove(ctx, ob, "last_block_hash_and_compact_wired", sane,
            T.and_(*[T.implies(p.cond(), T.and_(bool(getattr(fld(p.value, 4), "name", "") == "hdr_hash"), T.eq(as_int(fld(p.value, 7)), ctx.int("compact_of_next_diff", "u32").t))) for p in rs]))
    S.witness(ctx, ob, "reach_clamped_length", sane, T.and_(T.gt(U.t, 0), T.gt(rawlow, hi)))



def m10_pow_accept(S):
    """EaglesongPowEngine::verify after the hash: accepted iff the compact target decodes to a non-zero, non-overflowing target and
    the 256-bit big-endian hash value does not exceed it (compact_to_target itself is decided by C07.k1; Eaglesong is outside)"""
    ob = "C07.m10"
    from mir2smt import envlib as E
    from mir2smt.builtins import deref
    for eng, crate_fn in (("EaglesongPowEngine", "eaglesong.rs"), ("EaglesongBlake2bPowEngine", "eaglesong_blake2b.rs")):
        ctx = S.ctx()
        ctx.uninterpreted_unknown_calls = True
        target = ctx.int("target", "U256"); ovf = ctx.bool("overflow"); h = ctx.int("hash_value", "U256")
        seen = {"cmp_arg": []}

        def from_be(ex, c, a, d, h=h, seen=seen):
            v = deref(ex, a[0])
            seen["cmp_arg"].append(getattr(v, "name", type(v).__name__))
            from mir2smt.exec import mk_result
            return mk_result(True, h, None, d)

        ctx.env = list(E.LOGGING_OFF) + [
            (E.rx(r"compact_to_target$"), lambda ex, c, a, d, target=target, ovf=ovf: AggV((target, BoolV(ovf.t)), "(U256, bool)")),
            (E.rx(r"U256>::from_big_endian$"), from_be),
            (E.rx(r"^eaglesong$|eaglesong::eaglesong$"), lambda ex, c, a, d: UNIT),
            (E.rx(r"pow_message$|calc_pow_hash$|as_reader$|Header::nonce$|Header::raw$|RawHeader::compact_target$|blake2b_256$"), E.opaque_call()),
            (E.rx(r"Uint32 as Into<u32>>::into$|Uint128 as Into<u128>>::into$"), E.opaque_call()),
            (E.rx(r"max_level|__private_api|fmt::rt::|Arguments"), E.opaque_call()),
        ]
        cands = [f for f in S.prog.by_short.get("verify", []) if crate_fn in f.name and "PowEngine" in (f.impl_header or "")]
        if len(cands) != 1:
            raise Inconclusive(f"{eng}::verify: {len(cands)} candidates")
        ps = S.run(ctx, cands[0], [ctx.ref_to(OpaqueV("engine", eng)), ctx.ref_to(OpaqueV("header", "Header"))])
        S.prove(ctx, ob, f"{eng}_no_panic", [], T.not_(cond_of(panics(ps))))
        acc = merged(ps, as_bool)
        S.prove(ctx, ob, f"{eng}_accepts_iff_valid_target_and_hash_not_above_it", [], T.iff(acc, T.and_(T.ne(target.t, 0), T.not_(ovf.t), T.le(h.t, target.t))))
        S.witness(ctx, ob, f"{eng}_reach_boundary_accept", [acc], T.eq(h.t, target.t))


def m11_difficulty_target_duality(S):
    """difficulty <-> target: both private conversions are floor(2^256 / x) (x = 1 maps to 2^256 - 1), on the real numext U256/U512 code path
    modelled as integers; the public compact_to_difficulty / difficulty_to_compact are exactly their compositions with the compact codec
    (decided byte-exactly by C07.k1); conversions are antitone and never zero for a non-zero input"""
    ob = "C07.m11"
    from mir2smt import envlib as E
    from mir2smt.builtins import deref
    M256 = (1 << 256) - 1
    for name in ("target_to_difficulty", "difficulty_to_target"):
        ctx = S.ctx()
        x = ctx.int("x", "U256"); y = ctx.int("y", "U256")
        ps = S.run(ctx, name, [ctx.ref_to(x)], nparams=1)
        ps2 = S.run(ctx, name, [ctx.ref_to(y)], nparams=1)
        S.prove(ctx, ob, f"{name}_panics_iff_zero", [], T.iff(cond_of(panics(ps)), T.eq(x.t, 0)))
        v = merged(ps, as_int); w = merged(ps2, as_int)
        S.prove(ctx, ob, f"{name}_is_floor_of_2_256_over_x", [T.gt(x.t, 0)], T.eq(v, T.ite(T.eq(x.t, 1), M256, T.ediv(1 << 256, x.t))))
        S.prove(ctx, ob, f"{name}_never_zero", [T.gt(x.t, 0)], T.ge(v, 1))
        S.prove(ctx, ob, f"{name}_antitone", [T.gt(x.t, 0), T.le(x.t, y.t)], T.ge(v, w), timeout_s=120)
        S.witness(ctx, ob, f"{name}_reach_power_of_two", [T.eq(x.t, 1 << 200)], T.eq(v, 1 << 56))
    # public wrappers: composition with the compact codec (environment: symbols for the codec, decided by C07.k1)
    ctx = S.ctx()
    c = ctx.int("c", "u32"); tgt = ctx.int("target_of_c", "U256"); ovf = ctx.bool("overflow_of_c")
    ctx.env = [(E.rx(r"compact_to_target$"), lambda ex, cal, a, d: AggV((tgt, ovf), d))]
    ps = S.run(ctx, "compact_to_difficulty", [c], nparams=1)
    S.prove(ctx, ob, "compact_to_difficulty_no_panic", [], T.not_(cond_of(panics(ps))))
    v = merged(ps, as_int)
    S.prove(ctx, ob, "compact_to_difficulty_is_dual_of_decoded_target", [],
            T.eq(v, T.ite(T.or_(T.eq(tgt.t, 0), ovf.t), 0, T.ite(T.eq(tgt.t, 1), M256, T.ediv(1 << 256, tgt.t)))))
    ctx = S.ctx()
    dd = ctx.int("d", "U256"); seen = []
    def t2c(ex, cal, a, d):
        seen.append((list(ex.pc), deref(ex, a[0]).t))
        return ex.ctx.int("compact_of_target", "u32")
    from mir2smt.builtins import deref
    ctx.env = [(E.rx(r"target_to_compact$"), t2c)]
    ps = S.run(ctx, "difficulty_to_compact", [dd], nparams=1)
    S.prove(ctx, ob, "difficulty_to_compact_panics_iff_zero", [], T.iff(cond_of(panics(ps)), T.eq(dd.t, 0)))
    if not seen:
        raise Inconclusive("difficulty_to_compact never reaches target_to_compact")
    for k, (pc, t) in enumerate(seen):
        S.prove(ctx, ob, f"difficulty_to_compact_call{k}_encodes_the_dual_target", pc, T.eq(t, T.ite(T.eq(dd.t, 1), M256, T.ediv(1 << 256, dd.t))))
    S.prove(ctx, ob, "difficulty_to_compact_returns_the_codec_result", [cond_of(returns(ps))], T.eq(merged(ps, as_int), ctx.int("compact_of_target", "u32").t))
    # translator validation on the real numext code: the public pair executed concretely by the MIR interpreter vs the native build
    nat = S.native_driver
    if nat is not None:
        calls, want = [], []
        for dval in (1, 2, 3, 4, 5, 255, 256, 1 << 32, (1 << 64) - 1, 1 << 64, 3 << 100, (1 << 200) + 12345, 1 << 255, (1 << 256) - 1):
            c2 = S.ctx()
            r = returns(S.run(c2, "difficulty_to_compact", [IntV(dval, "U256")], nparams=1))
            want.append([int(as_int(r[0].value))])
            calls.append(("difficulty_to_compact", [(dval >> (64 * i)) & U64 for i in range(4)]))
        for cval in (0, 1, 0x01003456, 0x02000056, 0x03000000, 0x04000000, 0x00923456, 0x01803456, 0x04923456, 0x05009234, 0x20123456, 0x2080_0000, 0x207fffff, 0x1d00ffff, 0x1a08b2a5, 0x21010000, 0xff123456):
            c2 = S.ctx()
            r = returns(S.run(c2, "compact_to_difficulty", [IntV(cval, "u32")], nparams=1))
            dv = int(as_int(r[0].value))
            want.append([(dv >> (64 * i)) & U64 for i in range(4)])
            calls.append(("compact_to_difficulty", [cval]))
        got = nat.batch(calls)
        bad = [(c_, w, g) for c_, w, g in zip(calls, want, got) if w != g]
        S.tv_extra = getattr(S, "tv_extra", 0) + len(calls)
        if bad:
            raise Inconclusive(f"translator validation (difficulty codec): encoding {bad[0][1]} vs native {bad[0][2]} on {bad[0][0]}")


OBLIGATIONS = [m1_fields, m2_order, m3_min_epoch, m4_primary_rewards, m5_secondary, m6_halving, m7_bounding_length, m8_bounding_hash_rate, m9_next_epoch, m10_pow_accept, m11_difficulty_target_duality]


def validate(S, native):
    """translator validation: concrete inputs through the encoding (terms evaluated in Python) and the native code.
    NB: each context must be validated while its terms are still meaningful; terms are closed, so any time is fine."""
    cases, mism = 0, []
    for (S_, ctx, inputs) in VAL:
        c, m = S.validate(ctx, inputs)
        cases += c
        mism += m
    del VAL[:]
    return {"cases": cases, "mismatches": mism}


KANI = [
    {"id": "C07.k1a", "crate": "types", "harness": "c07_k1_compact_roundtrip", "bound": "all 2^32 compact values; numext shift loops unwound 6",
     "functions": ["util/types/src/utilities/difficulty.rs::compact_to_target", "util/types/src/utilities/difficulty.rs::target_to_compact"]},
    {"id": "C07.k1b", "crate": "types", "harness": "c07_k1_compact_monotone", "bound": "all pairs of canonical compact values",
     "functions": ["util/types/src/utilities/difficulty.rs::compact_to_target", "util/types/src/utilities/difficulty.rs::target_to_compact"]},
]

LEVEL = "other"
EXPLANATION = ("Bounded/unbounded solver-decided obligations over the real epoch/difficulty/issuance arithmetic of /repo "
               "(EpochNumberWithFraction, EpochExt, Consensus, compact target codecs).")
BOUNDS = {"M": "no bound: all u64 inputs of each loop-free function", "K": "all u32 compact encodings; loops in numext shifts fully unwound (unwinding assertions on)"}
ASSUMPTIONS = ["U256 arithmetic of numext modelled as mathematical integers with range [0,2^256) in engine M",
               "bitwise-or in EpochNumberWithFraction::new_unchecked is an uninterpreted function with sound disjoint-bits lemmas"]
TRUSTED = []

ENGINE = "M+K"
LEVEL_TEXT = ("Every clause listed in DESIGN.md for C07 is a solver query over the real code: engine-M queries quantify over all 64-bit inputs of the "
              "loop-free epoch/reward functions (no bound), engine-K harnesses over all 2^32 compact targets with loops fully unwound. "
              "Level `other`: bounded/unbounded SMT/SAT decision of code-level obligations, not a state-space exploration and not a machine-checked proof of the whole statement.")
LEVEL_NOTE = ("Trusted: MIR->SMT translator (validated per run against native execution on unit-test literals), numext U256 modelled as integers, cvc5/z3/CBMC. "
              "Outside the claim: Eaglesong hash itself, store reads feeding next_epoch_ext (uncle count/duration are symbols).")
TECHNIQUE = "symbolic execution of rustc MIR -> SMT (cvc5 + z3) and Kani/CBMC harnesses on the real crates"
