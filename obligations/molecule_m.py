"""Engine-M obligations over the generated molecule readers (util/gen-types/src/generated/*.rs), driven by the schema
(util/gen-types/schemas/*.mol, parsed at run time).

The input is an arbitrary byte slice (symbolic buffer, symbolic length, no length bound). For a schema type T:
  strict  : `TReader::verify(slice, false)` returns Ok  <=>  the bytes are the canonical encoding (spec `canon`, written here
            independently of the generated code)                                                         [C15]
  compat  : strict Ok => compatible Ok; `verify(slice, true)` never panics                                [C15/C16]
  access  : on every slice accepted by compatible verification every accessor of TReader (and, one level down, of the
            readers it returns) terminates without panicking and returns a sub-slice of the input          [C16]
Bounds: tables with at most KMAX - field_count extra fields, vectors with at most KMAX items (the verify code collects
offsets into a Vec whose length is made concrete by case split); inputs beyond are outside the claim (`out` condition).
"""
import os
import re
from mir2smt.ob import *
from mir2smt import terms as T
from mir2smt.exec import OpaqueV, IntV, BoolV, AggV, EnumV, RefV, UNIT, SliceV, ListV, explore

SCHEMA_DIR = "/repo/util/gen-types/schemas"
VEC_ITEMS = 2       # dynamic vectors: items beyond this count are outside the claim
EXTRA_FIELDS = 1    # tables: more extra fields than this are outside the claim
CRATES = ["ckb-gen-types"]


def parse_schema():
    types, order = {}, []
    for fn in ("blockchain.mol", "extensions.mol", "protocols.mol"):
        s = open(os.path.join(SCHEMA_DIR, fn)).read()
        s = re.sub(r"/\*.*?\*/", "", s, flags=re.S)
        s = re.sub(r"//[^\n]*", "", s)
        for m in re.finditer(r"\b(array|vector|option|struct|table|union)\s+(\w+)\s*([\[<({])(.*?)([\]>)}])\s*;?", s, flags=re.S):
            kind, name, _, body, _ = m.groups()
            body = body.strip()
            if kind == "array":
                item, n = [x.strip() for x in body.split(";")]
                t = {"kind": "array", "item": item, "n": int(n)}
            elif kind == "vector":
                t = {"kind": "vector", "item": body}
            elif kind == "option":
                t = {"kind": "option", "item": body}
            elif kind in ("struct", "table"):
                t = {"kind": kind, "fields": [tuple(x.strip() for x in f.split(":")) for f in body.split(",") if f.strip()]}
            else:
                items = []
                for i, f in enumerate([x.strip() for x in body.split(",") if x.strip()]):
                    if ":" in f:
                        a, b = [x.strip() for x in f.split(":")]
                        items.append((a, int(b)))
                    else:
                        items.append((f, i))
                t = {"kind": "union", "items": items}
            t["name"] = name
            types[name] = t
            order.append(name)
    types["byte"] = {"kind": "byte", "name": "byte"}
    return types, order


TYPES, ORDER = parse_schema()


def fixed_size(t):
    tt = TYPES[t]
    k = tt["kind"]
    if k == "byte":
        return 1
    if k == "array":
        s = fixed_size(tt["item"])
        return None if s is None else s * tt["n"]
    if k == "struct":
        tot = 0
        for _, ft in tt["fields"]:
            s = fixed_size(ft)
            if s is None:
                return None
            tot += s
        return tot
    return None


def u32(buf, at):
    b = [T.app(buf, T.INT, T.add(at, k)) for k in range(4)]
    return T.add(T.add(b[0], T.mul(b[1], 1 << 8)), T.add(T.mul(b[2], 1 << 16), T.mul(b[3], 1 << 24)))


def canon(t, buf, off, ln, kmax, strict=True):
    """specification: the bytes [off, off+ln) are a well-formed encoding of t (strict: no extra fields)"""
    tt = TYPES[t]
    k = tt["kind"]
    fs = fixed_size(t)
    if fs is not None:
        return T.eq(ln, fs)
    if k == "vector":
        isz = fixed_size(tt["item"])
        if isz is not None:
            return T.and_(T.le(4, ln), T.eq(ln, T.add(4, T.mul(isz, u32(buf, off)))))
        total = u32(buf, off)
        cases = [T.eq(ln, 4)]
        o0 = u32(buf, T.add(off, 4))
        for n in range(1, VEC_ITEMS + 1):
            offs = [u32(buf, T.add(off, 4 + 4 * i)) for i in range(n)] + [ln]
            c = [T.le(8, ln), T.eq(o0, 4 * (n + 1)), T.le(4 * (n + 1), ln)]
            for i in range(n):
                c.append(T.le(offs[i], offs[i + 1]))
                c.append(canon(tt["item"], buf, T.add(off, offs[i]), T.sub(offs[i + 1], offs[i]), kmax, strict))
            cases.append(T.and_(*c))
        return T.and_(T.le(4, ln), T.eq(total, ln), T.or_(*cases))
    if k == "table":
        nf = len(tt["fields"])
        total = u32(buf, off)
        if nf == 0:
            if strict:
                return T.and_(T.eq(ln, 4), T.eq(total, 4))
            return T.and_(T.le(4, ln), T.eq(total, ln))
        o0 = u32(buf, T.add(off, 4))
        alts = []
        for extra in range(0, (0 if strict else EXTRA_FIELDS) + 1):
            n = nf + extra
            offs = [u32(buf, T.add(off, 4 + 4 * i)) for i in range(n)] + [ln]
            c = [T.eq(o0, 4 * (n + 1)), T.le(4 * (n + 1), ln)]
            for i in range(n):
                c.append(T.le(offs[i], offs[i + 1]))
            for i, (_, ft) in enumerate(tt["fields"]):
                c.append(canon(ft, buf, T.add(off, offs[i]), T.sub(offs[i + 1], offs[i]), kmax, strict))
            alts.append(T.and_(*c))
        return T.and_(T.le(8, ln), T.eq(total, ln), T.or_(*alts))
    if k == "option":
        return T.or_(T.eq(ln, 0), canon(tt["item"], buf, off, ln, kmax, strict))
    if k == "union":
        iid = u32(buf, off)
        alts = []
        for it, num in tt["items"]:
            alts.append(T.and_(T.eq(iid, num), canon(it, buf, T.add(off, 4), T.sub(ln, 4), kmax, strict)))
        return T.and_(T.le(4, ln), T.or_(*alts))
    raise Inconclusive(f"canon: kind {k}")


def reader_fn(S, t, name, nparams):
    rn = "ByteReader" if t == "byte" else t + "Reader"
    c = [f for f in S.prog.by_short.get(name, []) if re.search(r"\b" + rn + r"<'r>", f.impl_header or "") and len(f.params) == nparams]
    tr = [f for f in c if " for " in (f.impl_header or "")]
    inh = [f for f in c if " for " not in (f.impl_header or "")]
    return tr, inh


def verify_paths(S, ctx, t, sl, compatible, kmax):
    tr, _ = reader_fn(S, t, "verify", 2)
    tr = [f for f in tr if "Reader<'r> for" in f.impl_header]
    if len(tr) != 1:
        raise Inconclusive(f"{t}Reader::verify: {len(tr)} candidates")
    ctx.uninterpreted_unknown_calls = True
    ctx.vec_items = VEC_ITEMS
    ctx.extra_fields = EXTRA_FIELDS
    ctx.unwind = 12
    ctx.max_paths = 6000
    return S.run(ctx, tr[0], [sl, BoolV(compatible)], allow=("return", "panic", "unwind"))


def conds(ps):
    ok = T.or_(*[T.and_(p.cond(), T.eq(p.value.disc, 0)) for p in ps if p.outcome == "return"])
    pan = T.or_(*[p.cond() for p in ps if p.outcome == "panic"])
    out = T.or_(*[p.cond() for p in ps if p.outcome == "unwind"])
    return ok, pan, out


def strict_and_compat(S, ob, t, kmax, timeout=120):
    """verify(false) Ok <=> canon; strict => compatible; neither mode panics"""
    ctx = S.ctx()
    L = ctx.int("len", "usize")
    sl = SliceV("buf", 0, L.t)
    ps_s = verify_paths(S, ctx, t, sl, False, kmax)
    ok_s, pan_s, out_s = conds(ps_s)
    ps_c = verify_paths(S, ctx, t, sl, True, kmax)
    ok_c, pan_c, out_c = conds(ps_c)
    inb = [T.not_(out_s), T.not_(out_c)]
    spec = canon(t, "buf", 0, L.t, kmax, True)
    S.prove(ctx, ob, f"{t}_verify_never_panics", inb, T.and_(T.not_(pan_s), T.not_(pan_c)), timeout_s=timeout)
    S.prove(ctx, ob, f"{t}_strict_accepts_only_canonical_encodings", inb + [ok_s], spec, timeout_s=timeout)
    S.prove(ctx, ob, f"{t}_strict_accepts_every_canonical_encoding", inb + [spec], ok_s, timeout_s=timeout)
    S.prove(ctx, ob, f"{t}_strict_implies_compatible", inb + [ok_s], ok_c, timeout_s=timeout)
    nontrivial = fixed_size(t) is None and TYPES[t]["kind"] not in ("option",) and not (TYPES[t]["kind"] == "table" and not TYPES[t]["fields"])
    S.witness(ctx, ob, f"{t}_some_input_is_accepted", inb, T.and_(ok_s, T.gt(L.t, 4) if nontrivial else True))
    return len(ps_s) + len(ps_c)


def inside(res, sl):
    return T.and_(T.le(sl.off, res.off), T.le(T.add(res.off, res.len), T.add(sl.off, sl.len)), T.le(0, res.len))


def accessors_of(S, t):
    """(name, function, extra symbolic args) of the public accessors generated for TReader"""
    tt = TYPES[t]
    k = tt["kind"]
    names = []
    if k in ("struct", "table"):
        names += [(fn_, 1) for fn_, _ in tt["fields"]]
        if k == "table":
            names += [("total_size", 1), ("field_count", 1), ("count_extra_fields", 1), ("has_extra_fields", 1)]
    elif k == "vector":
        names += [("len", 1), ("is_empty", 1), ("get", 2), ("item_count", 1), ("total_size", 1)]
        if tt["item"] == "byte":
            names += [("raw_data", 1)]
    elif k == "option":
        names += [("is_none", 1), ("is_some", 1), ("to_opt", 1)]
    elif k == "union":
        names += [("item_id", 1), ("to_enum", 1)]
    elif k == "array":
        names += [("raw_data", 1), ("nth0", 1)]
    out = []
    for n, np in names:
        _, inh = reader_fn(S, t, n, np)
        if len(inh) == 1:
            out.append((n, inh[0], np))
    return out


def sub_readers(v):
    """readers / slices contained in an accessor result"""
    res = []
    if isinstance(v, SliceV):
        res.append((None, v))
    elif isinstance(v, AggV) and len(v.fields) == 1 and isinstance(v.fields[0], SliceV):
        res.append((v.ty, v.fields[0]))
    elif isinstance(v, EnumV):
        for _, fs in v.payloads:
            for f in fs:
                res += sub_readers(f)
    elif isinstance(v, AggV):
        for f in v.fields:
            res += sub_readers(f)
    return res


def access(S, ob, t, kmax, depth=1, timeout=120):
    """every accessor on every compat-accepted slice: no panic, results inside the input; nested readers one level down"""
    ctx = S.ctx()
    L = ctx.int("len", "usize")
    sl = SliceV("buf", 0, L.t)
    ps_c = verify_paths(S, ctx, t, sl, True, kmax)
    ok_c, pan_c, out_c = conds(ps_c)
    pre = [T.not_(out_c), ok_c]
    n = _access_rec(S, ctx, ob, t, sl, pre, kmax, depth, t, timeout)
    S.witness(ctx, ob, f"{t}_compat_accepts_some_input", [T.not_(out_c)], ok_c)
    return n


def _access_rec(S, ctx, ob, t, sl, pre, kmax, depth, label, timeout):
    count = 0
    rn = "ByteReader" if t == "byte" else t + "Reader"
    reader = AggV((sl,), rn)
    for name, fn, np in accessors_of(S, t):
        args = [ctx.ref_to(reader)]
        if np == 2:
            args.append(ctx.int(f"idx_{label}_{name}", "usize"))
        ps = S.run(ctx, fn, args, allow=("return", "panic", "unwind"))
        pan = T.or_(*[p.cond() for p in ps if p.outcome == "panic"])
        outb = T.or_(*[p.cond() for p in ps if p.outcome == "unwind"])
        S.prove(ctx, ob, f"{label}.{name}_never_panics_on_accepted_input", pre + [T.not_(outb)], T.not_(pan), timeout_s=timeout)
        count += 1
        for k, p in enumerate([p for p in ps if p.outcome == "return"]):
            for (rty, rs) in sub_readers(p.value):
                S.prove(ctx, ob, f"{label}.{name}_path{k}_result_inside_input", pre + [p.cond()], inside(rs, sl), timeout_s=timeout)
                count += 1
                if depth > 0 and rty and rty.endswith("Reader"):
                    inner = rty.split("::")[-1][:-len("Reader")]
                    inner = "byte" if inner == "Byte" and "Byte" not in TYPES else inner
                    if inner in TYPES and fixed_size(inner) is None:
                        count += _access_rec(S, ctx, ob, inner, rs, pre + [p.cond()], kmax, depth - 1, f"{label}.{name}", timeout)
    return count
