"""Engine-M obligations over the generated molecule readers (util/gen-types/src/generated/*.rs), driven by the schema
(util/gen-types/schemas/*.mol, parsed at run time).

The input is an arbitrary byte slice (symbolic buffer, symbolic length, no length bound). For a schema type T:
  strict  : `TReader::verify(slice, false)` returns Ok  <=>  the bytes are the canonical encoding (spec `canon`, written here
            independently of the generated code)                                                         [C15]
  compat  : strict Ok => compatible Ok; `verify(slice, true)` never panics                                [C15/C16]
  access  : on every slice accepted by compatible verification every accessor of TReader (and, one level down, of the
            readers it returns) terminates without panicking and returns a sub-slice of the input          [C16]
Bounds: tables with at most KMAX - field_count extra fields, vectors with at most KMAX items (the verify code collects
offsets into a Vec whose length is made concrete by case split); inputs beyond are outside the claim (`out` condition).
"""
import os
import re
from mir2smt.ob import *
from mir2smt import terms as T
from mir2smt.exec import OpaqueV, IntV, BoolV, AggV, EnumV, RefV, UNIT, SliceV, ListV, explore

SCHEMA_DIR = "/repo/util/gen-types/schemas"
VEC_ITEMS = 2       # dynamic vectors: items beyond this count are outside the claim
EXTRA_FIELDS = 1    # tables: more extra fields than this are outside the claim
CRATES = ["ckb-gen-types"]


def parse_schema():
    types, order = {}, []
    for fn in ("blockchain.mol", "extensions.mol", "protocols.mol"):
        s = open(os.path.join(SCHEMA_DIR, fn)).read()
        s = re.sub(r"/\*.*?\*/", "", s, flags=re.S)
        s = re.sub(r"//[^\n]*", "", s)
        for m in re.finditer(r"\b(array|vector|option|struct|table|union)\s+(\w+)\s*([\[<({])(.*?)([\]>)}])\s*;?", s, flags=re.S):
            kind, name, _, body, _ = m.groups()
            body = body.strip()
            if kind == "array":
                item, n = [x.strip() for x in body.split(";")]
                t = {"kind": "array", "item": item, "n": int(n)}
            elif kind == "vector":
                t = {"kind": "vector", "item": body}
            elif kind == "option":
                t = {"kind": "option", "item": body}
            elif kind in ("struct", "table"):
                t = {"kind": kind, "fields": [tuple(x.strip() for x in f.split(":")) for f in body.split(",") if f.strip()]}
            else:
                items = []
                for i, f in enumerate([x.strip() for x in body.split(",") if x.strip()]):
                    if ":" in f:
                        a, b = [x.strip() for x in f.split(":")]
                        items.append((a, int(b)))
                    else:
                        items.append((f, i))
                t = {"kind": "union", "items": items}
            t["name"] = name
            types[name] = t
            order.append(name)
    types["byte"] = {"kind": "byte", "name": "byte"}
    return types, order


TYPES, ORDER = parse_schema()


def fixed_size(t):
    tt = TYPES[t]
    k = tt["kind"]
    if k == "byte":
        return 1
    if k == "array":
        s = fixed_size(tt["item"])
        return None if s is None else s * tt["n"]
    if k == "struct":
        tot = 0
        for _, ft in tt["fields"]:
            s = fixed_size(ft)
            if s is None:
                return None
            tot += s
        return tot
    return None


def u32(buf, at):
    b = [T.app(buf, T.INT, T.add(at, k)) for k in range(4)]
    return T.add(T.add(b[0], T.mul(b[1], 1 << 8)), T.add(T.mul(b[2], 1 << 16), T.mul(b[3], 1 << 24)))


def canon(t, buf, off, ln, kmax, strict=True):
    """specification: the bytes [off, off+ln) are a well-formed encoding of t (strict: no extra fields)"""
    tt = TYPES[t]
    k = tt["kind"]
    fs = fixed_size(t)
    if fs is not None:
        return T.eq(ln, fs)
    if k == "vector":
        isz = fixed_size(tt["item"])
        if isz is not None:
            return T.and_(T.le(4, ln), T.eq(ln, T.add(4, T.mul(isz, u32(buf, off)))))
        total = u32(buf, off)
        cases = [T.eq(ln, 4)]
        o0 = u32(buf, T.add(off, 4))
        for n in range(1, VEC_ITEMS + 1):
            offs = [u32(buf, T.add(off, 4 + 4 * i)) for i in range(n)] + [ln]
            c = [T.le(8, ln), T.eq(o0, 4 * (n + 1)), T.le(4 * (n + 1), ln)]
            for i in range(n):
                c.append(T.le(offs[i], offs[i + 1]))
                c.append(canon(tt["item"], buf, T.add(off, offs[i]), T.sub(offs[i + 1], offs[i]), kmax, strict))
            cases.append(T.and_(*c))
        return T.and_(T.le(4, ln), T.eq(total, ln), T.or_(*cases))
    if k == "table":
        nf = len(tt["fields"])
        total = u32(buf, off)
        if nf == 0:
            if strict:
                return T.and_(T.eq(ln, 4), T.eq(total, 4))
            return T.and_(T.le(4, ln), T.eq(total, ln))
        o0 = u32(buf, T.add(off, 4))
        alts = []
        for extra in range(0, (0 if strict else EXTRA_FIELDS) + 1):
            n = nf + extra
            offs = [u32(buf, T.add(off, 4 + 4 * i)) for i in range(n)] + [ln]
            c = [T.eq(o0, 4 * (n + 1)), T.le(4 * (n + 1), ln)]
            for i in range(n):
                c.append(T.le(offs[i], offs[i + 1]))
            for i, (_, ft) in enumerate(tt["fields"]):
                c.append(canon(ft, buf, T.add(off, offs[i]), T.sub(offs[i + 1], offs[i]), kmax, strict))
            alts.append(T.and_(*c))
        return T.and_(T.le(8, ln), T.eq(total, ln), T.or_(*alts))
    if k == "option":
        return T.or_(T.eq(ln, 0), canon(tt["item"], buf, off, ln, kmax, strict))
    if k == "union":
        iid = u32(buf, off)
        alts = []
        for it, num in tt["items"]:
            alts.append(T.and_(T.eq(iid, num), canon(it, buf, T.add(off, 4), T.sub(ln, 4), kmax, strict)))
        return T.and_(T.le(4, ln), T.or_(*alts))
    raise Inconclusive(f"canon: kind {k}")


def over_rec(t, buf, off, ln):
    """some table inside the value has more than EXTRA_FIELDS extra fields or some dynamic vector more than VEC_ITEMS items
    (read from the headers as laid out); inputs with over_rec are outside the claim"""
    tt = TYPES[t]
    k = tt["kind"]
    if fixed_size(t) is not None:
        return False
    if k == "vector":
        if fixed_size(tt["item"]) is not None:
            return False
        o0 = u32(buf, T.add(off, 4))
        top = T.and_(T.le(8, ln), T.gt(o0, 4 * (VEC_ITEMS + 1)))
        subs = []
        for n in range(1, VEC_ITEMS + 1):
            offs = [u32(buf, T.add(off, 4 + 4 * i)) for i in range(n)] + [ln]
            for i in range(n):
                subs.append(T.and_(T.eq(o0, 4 * (n + 1)), over_rec(tt["item"], buf, T.add(off, offs[i]), T.sub(offs[i + 1], offs[i]))))
        return T.or_(top, *subs)
    if k == "table":
        nf = len(tt["fields"])
        if nf == 0:
            return False
        o0 = u32(buf, T.add(off, 4))
        top = T.and_(T.le(8, ln), T.gt(o0, 4 * (nf + EXTRA_FIELDS + 1)))
        subs = []
        for extra in range(0, EXTRA_FIELDS + 1):
            n = nf + extra
            offs = [u32(buf, T.add(off, 4 + 4 * i)) for i in range(n)] + [ln]
            for i, (_, ft) in enumerate(tt["fields"]):
                subs.append(T.and_(T.eq(o0, 4 * (n + 1)), over_rec(ft, buf, T.add(off, offs[i]), T.sub(offs[i + 1], offs[i]))))
        return T.or_(top, *subs)
    if k == "option":
        return T.and_(T.gt(ln, 0), over_rec(tt["item"], buf, off, ln))
    if k == "union":
        iid = u32(buf, off)
        return T.or_(*[T.and_(T.le(4, ln), T.eq(iid, num), over_rec(it, buf, T.add(off, 4), T.sub(ln, 4))) for it, num in tt["items"]])
    return False


def P(name, off, ln):
    """uninterpreted predicate over a sub-slice of the single buffer: nested types are referred to by name only
    (assume-guarantee over the acyclic type graph: each type's own obligations define the predicate one level down)"""
    return T.app(name, T.BOOL, off, ln)


def canon1(t, buf, off, ln, strict):
    """one level of the specification: nested dynamic types appear as predicates canon_<Y>_{s|c}"""
    tt = TYPES[t]
    k = tt["kind"]
    sfx = "s" if strict else "c"

    def sub(y, o, l):
        fs = fixed_size(y)
        if fs is not None:
            return T.eq(l, fs)
        return P(f"canon_{y}_{sfx}", o, l)
    fs = fixed_size(t)
    if fs is not None:
        return T.eq(ln, fs)
    if k == "vector":
        isz = fixed_size(tt["item"])
        if isz is not None:
            return T.and_(T.le(4, ln), T.eq(ln, T.add(4, T.mul(isz, u32(buf, off)))))
        total = u32(buf, off)
        cases = [T.eq(ln, 4)]
        o0 = u32(buf, T.add(off, 4))
        for n in range(1, VEC_ITEMS + 1):
            offs = [u32(buf, T.add(off, 4 + 4 * i)) for i in range(n)] + [ln]
            c = [T.le(8, ln), T.eq(o0, 4 * (n + 1)), T.le(4 * (n + 1), ln)]
            for i in range(n):
                c.append(T.le(offs[i], offs[i + 1]))
                c.append(sub(tt["item"], T.add(off, offs[i]), T.sub(offs[i + 1], offs[i])))
            cases.append(T.and_(*c))
        return T.and_(T.le(4, ln), T.eq(total, ln), T.or_(*cases))
    if k == "table":
        nf = len(tt["fields"])
        total = u32(buf, off)
        if nf == 0:
            if strict:
                return T.and_(T.eq(ln, 4), T.eq(total, 4))
            return T.and_(T.le(4, ln), T.eq(total, ln))
        o0 = u32(buf, T.add(off, 4))
        alts = []
        for extra in range(0, (0 if strict else EXTRA_FIELDS) + 1):
            n = nf + extra
            offs = [u32(buf, T.add(off, 4 + 4 * i)) for i in range(n)] + [ln]
            c = [T.eq(o0, 4 * (n + 1)), T.le(4 * (n + 1), ln)]
            for i in range(n):
                c.append(T.le(offs[i], offs[i + 1]))
            for i, (_, ft) in enumerate(tt["fields"]):
                c.append(sub(ft, T.add(off, offs[i]), T.sub(offs[i + 1], offs[i])))
            alts.append(T.and_(*c))
        return T.and_(T.le(8, ln), T.eq(total, ln), T.or_(*alts))
    if k == "option":
        return T.or_(T.eq(ln, 0), sub(tt["item"], off, ln))
    if k == "union":
        iid = u32(buf, off)
        return T.and_(T.le(4, ln), T.or_(*[T.and_(T.eq(iid, num), sub(it, T.add(off, 4), T.sub(ln, 4))) for it, num in tt["items"]]))
    raise Inconclusive(f"canon1: kind {k}")


def unfold_axioms(terms, depth=2):
    """definition unfolding of the nested predicates occurring in `terms`: canon_<Y>_{s|c}(o, l) => canon1(Y, o, l) (sound by Y's
    own obligations). Keeps counterexamples realistic; never needed for the proofs themselves."""
    axioms = []
    seen_p = set()
    frontier = list(terms)
    for _ in range(depth):
        found = []
        seen_t = set()

        def walk(tm):
            if T.is_const(tm) or tm in seen_t:
                return
            seen_t.add(tm)
            if tm[0] == "app" and isinstance(tm[2], str) and tm[2].startswith("canon_") and tm not in seen_p:
                seen_p.add(tm)
                found.append(tm)
            for x in (tm[3:] if tm[0] == "app" else tm[2:]):
                if not isinstance(x, str):
                    walk(x)
        for tm in frontier:
            walk(tm)
        frontier = []
        for pterm in found:
            name = pterm[2]
            y = name[len("canon_"):-2]
            strict = name.endswith("_s")
            body = canon1(y, "buf", pterm[3], pterm[4], strict)
            ax = T.implies(pterm, body)
            axioms.append(ax)
            frontier.append(body)
    return axioms


def minimal_encoding(t):
    """bytes of the default value of t (empty vectors, absent options, zero arrays, first union arm), built from the schema"""
    tt = TYPES[t]
    k = tt["kind"]
    fs = fixed_size(t)
    if fs is not None:
        return [0] * fs
    if k == "vector":
        return [4, 0, 0, 0] if fixed_size(tt["item"]) is None else [0, 0, 0, 0]
    if k == "option":
        return []
    if k == "table":
        fields = [minimal_encoding(ft) for _, ft in tt["fields"]]
        n = len(fields)
        if n == 0:
            return [4, 0, 0, 0]
        header = 4 * (n + 1)
        total = header + sum(len(f) for f in fields)
        out = list(total.to_bytes(4, "little"))
        off = header
        for f in fields:
            out += list(off.to_bytes(4, "little"))
            off += len(f)
        for f in fields:
            out += f
        return out
    if k == "union":
        it, num = tt["items"][0]
        return list(num.to_bytes(4, "little")) + minimal_encoding(it)
    raise Inconclusive("minimal_encoding " + k)


def reader_fn(S, t, name, nparams):
    rn = "ByteReader" if t == "byte" else t + "Reader"
    c = [f for f in S.prog.by_short.get(name, []) if re.search(r"\b" + rn + r"<'r>", f.impl_header or "") and len(f.params) == nparams]
    tr = [f for f in c if " for " in (f.impl_header or "")]
    inh = [f for f in c if " for " not in (f.impl_header or "")]
    return tr, inh


def verify_paths(S, ctx, t, sl, compatible, kmax):
    tr, _ = reader_fn(S, t, "verify", 2)
    tr = [f for f in tr if "Reader<'r> for" in f.impl_header]
    if len(tr) != 1:
        raise Inconclusive(f"{t}Reader::verify: {len(tr)} candidates")
    ctx.uninterpreted_unknown_calls = True
    from mir2smt import envlib as E
    from mir2smt.exec import mk_result
    from mir2smt.builtins import deref as _deref

    def nested(ex, callee, args, dty):
        m = re.search(r"(\w+)Reader<'_> as .*Reader<'_>>::verify$", callee)
        y = m.group(1)
        a = _deref(ex, args[0])
        comp = args[1].t
        if not isinstance(comp, bool):
            raise Inconclusive("symbolic compatible flag at a nested verify")
        over = P(f"over_{y}", a.off, a.len)
        spec = P(f"canon_{y}_{'c' if comp else 's'}", a.off, a.len)
        for nm_ in (f"over_{y}", f"canon_{y}_c", f"canon_{y}_s"):
            ctx.uf_decls[nm_] = (T.BOOL, (T.INT, T.INT))
        ctx.mol_over.append(over)
        n = len(ctx.mol_over)
        fb = ctx.bool(f"nested_ok_{n}")
        cond = T.ite(over, fb.t, spec)
        ctx.env_used.add(f"summary:{y}Reader::verify")
        return mk_result(cond, UNIT, OpaqueV("verr", "VerificationError"), dty)

    if not hasattr(ctx, "mol_over"):
        ctx.mol_over = []
    names = "|".join(sorted(n for n in TYPES if n != t and n != "byte" and fixed_size(n) is None))
    ctx.env = [e for e in getattr(ctx, "env", []) if not getattr(e[1], "_mol", False)]
    if names:
        nested._mol = True
        ctx.env = ctx.env + [(E.rx(r"(?:^|[:<])(" + names + r")Reader<'_> as .*Reader<'_>>::verify$"), nested)]
    ctx.vec_items = VEC_ITEMS
    ctx.extra_fields = EXTRA_FIELDS
    ctx.unwind = 12
    ctx.max_paths = 6000
    return S.run(ctx, tr[0], [sl, BoolV(compatible)], allow=("return", "panic", "unwind"))


def conds(ps, ctx=None):
    ok = T.or_(*[T.and_(p.cond(), T.eq(p.value.disc, 0)) for p in ps if p.outcome == "return"])
    pan = T.or_(*[p.cond() for p in ps if p.outcome == "panic"])
    out = T.or_(*[p.cond() for p in ps if p.outcome == "unwind"])
    if ctx is not None and getattr(ctx, "mol_over", None):
        out = T.or_(out, *ctx.mol_over)
    return ok, pan, out


def strict_and_compat(S, ob, t, kmax, timeout=120):
    """verify(false) Ok <=> canon; strict => compatible; neither mode panics"""
    ctx = S.ctx()
    L = ctx.int("len", "usize")
    sl = SliceV("buf", 0, L.t)
    ps_s = verify_paths(S, ctx, t, sl, False, kmax)
    ok_s, pan_s, out_s = conds(ps_s, ctx)
    ps_c = verify_paths(S, ctx, t, sl, True, kmax)
    ok_c, pan_c, out_c = conds(ps_c, ctx)
    inb = [T.not_(out_s), T.not_(out_c)]
    ctx.uf_decls["buf"] = (T.INT, (T.INT,))
    spec = canon1(t, "buf", 0, L.t, True)
    spec_c = canon1(t, "buf", 0, L.t, False)
    for y in TYPES:
        if fixed_size(y) is None:
            for nm_ in (f"over_{y}", f"canon_{y}_c", f"canon_{y}_s"):
                ctx.uf_decls[nm_] = (T.BOOL, (T.INT, T.INT))
    # strict well-formedness of a nested value implies compatible well-formedness (each type proves it for itself below)
    mono = []
    seen_ = set()
    def collect(tm):
        if T.is_const(tm) or tm in seen_:
            return
        seen_.add(tm)
        if tm[0] == "app" and isinstance(tm[2], str) and tm[2].startswith("canon_") and tm[2].endswith("_s"):
            mono.append(T.implies(tm, T.app(tm[2][:-2] + "_c", T.BOOL, *tm[3:])))
        for x in (tm[3:] if tm[0] == "app" else tm[2:]):
            if not isinstance(x, str):
                collect(x)
    collect(spec)
    S.prove(ctx, ob, f"{t}_compatible_accepts_exactly_the_well_formed_encodings", inb, T.iff(ok_c, spec_c), timeout_s=timeout)
    S.prove(ctx, ob, f"{t}_verify_never_panics", inb + unfold_axioms([pan_s, pan_c]), T.and_(T.not_(pan_s), T.not_(pan_c)), timeout_s=timeout,
            extra={"replay_native": ("mol_walk", t)})
    ax = unfold_axioms([ok_s, spec])
    S.prove(ctx, ob, f"{t}_strict_accepts_only_canonical_encodings", inb + [ok_s] + ax, spec, timeout_s=timeout, extra={"replay_native": ("mol_strict", t)})
    S.prove(ctx, ob, f"{t}_strict_accepts_every_canonical_encoding", inb + [spec] + ax, ok_s, timeout_s=timeout, extra={"replay_native": ("mol_strict", t)})
    S.prove(ctx, ob, f"{t}_strict_implies_compatible", inb + [ok_s] + mono, ok_c, timeout_s=timeout)
    # vacuity witness: the default value's encoding (built from the schema) is inside the bounds and accepted
    ctx.uf_decls["buf"] = (T.INT, (T.INT,))
    S.witness(ctx, ob, f"{t}_some_input_is_accepted", inb, T.and_(ok_s, ok_c))
    return len(ps_s) + len(ps_c)


def inside(res, sl):
    return T.and_(T.le(sl.off, res.off), T.le(T.add(res.off, res.len), T.add(sl.off, sl.len)), T.le(0, res.len))


def accessors_of(S, t):
    """(name, function, extra symbolic args) of the public accessors generated for TReader"""
    tt = TYPES[t]
    k = tt["kind"]
    names = []
    if k in ("struct", "table"):
        names += [(fn_, 1) for fn_, _ in tt["fields"]]
        if k == "table":
            names += [("total_size", 1), ("field_count", 1), ("count_extra_fields", 1), ("has_extra_fields", 1)]
    elif k == "vector":
        names += [("len", 1), ("is_empty", 1), ("get", 2), ("item_count", 1), ("total_size", 1)]
        if tt["item"] == "byte":
            names += [("raw_data", 1)]
    elif k == "option":
        names += [("is_none", 1), ("is_some", 1), ("to_opt", 1)]
    elif k == "union":
        names += [("item_id", 1), ("to_enum", 1)]
    elif k == "array":
        names += [("raw_data", 1), ("nth0", 1)]
    out = []
    for n, np in names:
        _, inh = reader_fn(S, t, n, np)
        if len(inh) == 1:
            out.append((n, inh[0], np))
    return out


def sub_readers(v):
    """readers / slices contained in an accessor result"""
    res = []
    if isinstance(v, SliceV):
        res.append((None, v))
    elif isinstance(v, AggV) and len(v.fields) == 1 and isinstance(v.fields[0], SliceV):
        res.append((v.ty, v.fields[0]))
    elif isinstance(v, EnumV):
        for _, fs in v.payloads:
            for f in fs:
                res += sub_readers(f)
    elif isinstance(v, AggV):
        for f in v.fields:
            res += sub_readers(f)
    return res


def access(S, ob, t, kmax=5, timeout=120):
    """every accessor on every compat-accepted slice: no panic, result inside the input, and a returned nested reader covers
    exactly a range the verification established as well-formed (so the nested type's own obligations apply to it)"""
    ctx = S.ctx()
    L = ctx.int("len", "usize")
    sl = SliceV("buf", 0, L.t)
    for y in TYPES:
        if fixed_size(y) is None:
            for nm_ in (f"over_{y}", f"canon_{y}_c", f"canon_{y}_s"):
                ctx.uf_decls[nm_] = (T.BOOL, (T.INT, T.INT))
    ctx.uf_decls["buf"] = (T.INT, (T.INT,))
    ps_c = verify_paths(S, ctx, t, sl, True, kmax)
    ok_c, pan_c, out_c = conds(ps_c, ctx)
    pre = [T.not_(out_c), ok_c]
    pre = pre + unfold_axioms([ok_c])
    count = 0
    rn = "ByteReader" if t == "byte" else t + "Reader"
    reader = AggV((sl,), rn)
    for name, fn, np in accessors_of(S, t):
        args = [ctx.ref_to(reader)]
        if np == 2:
            args.append(ctx.int(f"idx_{name}", "usize"))
        ps = S.run(ctx, fn, args, allow=("return", "panic", "unwind"))
        pan = T.or_(*[p.cond() for p in ps if p.outcome == "panic"])
        outb = T.or_(*[p.cond() for p in ps if p.outcome == "unwind"])
        S.prove(ctx, ob, f"{t}.{name}_never_panics_on_accepted_input", pre + [T.not_(outb)], T.not_(pan), timeout_s=timeout, extra={"replay_native": ("mol_walk", t)})
        count += 1
        inside_all, nested_all = [], []
        for p in [p for p in ps if p.outcome == "return"]:
            for (rty, rs) in sub_readers(p.value):
                inside_all.append(T.implies(p.cond(), inside(rs, sl)))
                if rty and rty.split("::")[-1].endswith("Reader"):
                    inner = rty.split("::")[-1][:-len("Reader")]
                    if inner in TYPES and fixed_size(inner) is None:
                        nested_all.append(T.implies(p.cond(), P(f"canon_{inner}_c", rs.off, rs.len)))
                    elif inner in TYPES:
                        nested_all.append(T.implies(p.cond(), T.eq(rs.len, fixed_size(inner))))
        if inside_all:
            S.prove(ctx, ob, f"{t}.{name}_result_inside_input", pre, T.and_(*inside_all), timeout_s=timeout)
            count += 1
        if nested_all:
            S.prove(ctx, ob, f"{t}.{name}_result_is_a_range_verified_as_well_formed", pre, T.and_(*nested_all), timeout_s=timeout)
            count += 1
    S.witness(ctx, ob, f"{t}_compat_accepts_some_input", [T.not_(out_c)], ok_c)
    return count


def set_tier(S):
    """thorough: one more vector item and one more extra field per level"""
    global VEC_ITEMS, EXTRA_FIELDS
    if getattr(S, "tier", "quick") == "thorough":
        VEC_ITEMS, EXTRA_FIELDS = 3, 2
    else:
        VEC_ITEMS, EXTRA_FIELDS = 2, 1


def dynamic_types():
    return [t for t in ORDER if fixed_size(t) is None]


def fixed_types():
    return [t for t in ORDER if fixed_size(t) is not None]


def fixed_type(S, ob, t):
    """arrays/structs: verify accepts exactly the slices of the fixed size (both modes), never panics; getters stay inside"""
    ctx = S.ctx()
    L = ctx.int("len", "usize")
    sl = SliceV("buf", 0, L.t)
    ps_s = verify_paths(S, ctx, t, sl, False, 5)
    ok_s, pan_s, out_s = conds(ps_s, ctx)
    S.prove(ctx, ob, f"{t}_accepts_exactly_its_fixed_size", [T.not_(out_s)], T.and_(T.not_(pan_s), T.iff(ok_s, T.eq(L.t, fixed_size(t)))))
    reader = AggV((sl,), t + "Reader")
    tt = TYPES[t]
    if tt["kind"] == "struct":
        off = 0
        for fname, ft in tt["fields"]:
            _, inh = reader_fn(S, t, fname, 1)
            if len(inh) != 1:
                continue
            ps = S.run(ctx, inh[0], [ctx.ref_to(reader)], allow=("return", "panic", "unwind"))
            pan = T.or_(*[p.cond() for p in ps if p.outcome == "panic"])
            goals = [T.not_(pan)]
            for p in [p for p in ps if p.outcome == "return"]:
                for (rty, rs) in sub_readers(p.value):
                    goals.append(T.implies(p.cond(), T.and_(T.eq(rs.off, off), T.eq(rs.len, fixed_size(ft)))))
            S.prove(ctx, ob, f"{t}.{fname}_is_the_field_at_offset_{off}", [ok_s], T.and_(*goals))
            off += fixed_size(ft)


# ------------------------------------------------------------------ encode side: builders
def builder_fn(S, t, name):
    c = [f for f in S.prog.by_short.get(name, []) if re.search(r"Builder for " + t + r"Builder\s*$", (f.impl_header or "").strip())]
    if len(c) != 1:
        raise Inconclusive(f"{t}Builder::{name}: {len(c)} candidates")
    return c[0]


def builder_layout(S, ob, t):
    """`TBuilder::write` emits exactly the canonical layout over its fields' bytes (header numbers derived from the field lengths,
    fields back to back in declaration order): the encode half of the round trip, for lengths below 2^32"""
    from mir2smt import envlib as E
    from mir2smt.builtins import deref
    from mir2smt.exec import mk_result
    tt = TYPES[t]
    k = tt["kind"]
    variants = [None]
    if k == "vector":
        variants = [0, 1, 2]          # number of items in the builder
    elif k == "option":
        variants = ["none", "some"]
    elif k == "union":
        variants = list(range(len(tt["items"])))
    for var in variants:
        ctx = S.ctx()
        ctx.uninterpreted_unknown_calls = True
        ctx.unwind = 40
        LIM = 1 << 28

        def as_slice(ex, callee, args, dty):
            a = deref(ex, args[0])
            nm = getattr(a, "name", None) or "anon"
            ln = ctx.int("len." + nm, "usize")
            ctx.add_side(T.le(ln.t, LIM))
            return SliceV("bytes." + nm, 0, ln.t)

        def pack(ex, callee, args, dty):
            return AggV((args[0],), "packed_number")

        def write_all(ex, callee, args, dty):
            a = deref(ex, args[1])
            if isinstance(a, AggV) and a.ty == "packed_number":
                ex.log.append(("num", callee, [a.fields[0]], list(ex.pc)))
            elif isinstance(a, SliceV):
                ex.log.append(("bytes", callee, [a], list(ex.pc)))
            else:
                ex.log.append(("other", callee, [a], list(ex.pc)))
            return mk_result(True, UNIT, None, dty)

        ctx.env = [
            (E.rx(r"Entity>::as_slice$|prelude::Byte::as_slice$|Byte as .*Entity>::as_slice$"), as_slice),
            (E.rx(r"(^|::)pack_number$"), pack),
            (E.rx(r"Write>::write_all$"), write_all),
            (E.rx(r"as Deref>::deref$"), lambda ex, c, a, d: a[0]),
        ]
        fn = builder_fn(S, t, "write")
        # the builder value
        if k in ("table", "struct"):
            b = OpaqueV("b", t + "Builder")
            fields = [OpaqueV(f"b.{i}", ft) for i, (_, ft) in enumerate(tt["fields"])]
        elif k == "vector":
            items = tuple(OpaqueV(f"item{i}", tt["item"]) for i in range(var))
            b = AggV((ListV(items, "Vec<" + tt["item"] + ">"),), t + "Builder")
            fields = list(items)
        elif k == "option":
            inner = OpaqueV("inner", tt["item"])
            b = AggV((EnumV(1, ((1, (inner,)),), "Option") if var == "some" else EnumV(0, (), "Option"),), t + "Builder")
            fields = [inner] if var == "some" else []
        elif k == "union":
            it, num = tt["items"][var]
            inner = OpaqueV("inner", it)
            b = AggV((EnumV(var, ((var, (inner,)),), t + "Union"),), t + "Builder")
            fields = [inner]
        elif k == "array":
            return 0
        else:
            return 0
        ps = S.run(ctx, fn, [ctx.ref_to(b), ctx.ref_to(OpaqueV("w", "W"))], allow=("return", "panic", "unwind"))
        tag = f"{t}Builder" + ("" if var is None else f"[{var}]")
        S.prove(ctx, ob, f"{tag}_write_never_panics_below_2_28_bytes_per_field", [], T.not_(T.or_(*[p.cond() for p in ps if p.outcome != "return"])))
        lens = [ctx.int("len." + f.name, "usize").t for f in fields]
        for kk, p in enumerate([p for p in ps if p.outcome == "return"]):
            nums = [e for e in p.log if e[0] == "num"]
            byts = [e for e in p.log if e[0] == "bytes"]
            order_ok = [e[0] for e in p.log if e[0] in ("num", "bytes")] == ["num"] * len(nums) + ["bytes"] * len(byts) and not [e for e in p.log if e[0] == "other"]
            names = [e[2][0].buf for e in byts]
            want_names = ["bytes." + f.name for f in fields]
            c = [p.cond()]
            n = len(fields)
            if k == "table" or (k == "vector" and fixed_size(tt["item"]) is None):
                if n == 0:
                    goal = T.and_(bool(order_ok and len(nums) == 1 and names == want_names), T.eq(as_int(nums[0][2][0]), 4))
                else:
                    offs = [4 * (n + 1)]
                    for l in lens:
                        offs.append(T.add(offs[-1], l))
                    g = [bool(order_ok and len(nums) == n + 1 and names == want_names)]
                    if len(nums) == n + 1:
                        g.append(T.eq(as_int(nums[0][2][0]), offs[n]))
                        for i in range(n):
                            g.append(T.eq(as_int(nums[1 + i][2][0]), offs[i]))
                    goal = T.and_(*g)
            elif k == "vector":
                goal = T.and_(bool(order_ok and len(nums) == 1 and names == want_names), T.eq(as_int(nums[0][2][0]), n) if nums else False)
            elif k == "struct":
                goal = bool(order_ok and not nums and names == want_names)
            elif k == "option":
                goal = bool(order_ok and not nums and names == want_names)
            elif k == "union":
                goal = T.and_(bool(order_ok and len(nums) == 1 and names == want_names), T.eq(as_int(nums[0][2][0]), tt["items"][var][1]) if nums else False)
            S.prove(ctx, ob, f"{tag}_path{kk}_writes_the_canonical_layout_of_its_fields", c, goal)
        S.witness(ctx, ob, f"{tag}_write_returns", [], T.or_(*[p.cond() for p in ps if p.outcome == "return"]))
    return 1
