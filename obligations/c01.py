"""C01 — tip selection: the decision step of `ConsumeUnverifiedBlockProcessor::verify_block` (engine M).

Claimed (partial): one execution of verify_block from an arbitrary stored state — the chain is switched to the new block exactly
when parent.total_difficulty + block.difficulty is *strictly* greater than the current tip's total difficulty (equal work: the
current tip stays), blocks whose parent is unknown/invalid or that already failed are refused without any write, the switch
writes the tip header of this block and commits only if rollback and reconcile_main_chain succeeded, the published snapshot
carries this block as tip with that accumulated difficulty, and a side-branch block is only stored (block ext) and never
published.  Orphan handling, delivery orders, threads and the RocksDB transaction itself are outside.
"""
import os
import re
from mir2smt.ob import *
from mir2smt import terms as T
from mir2smt.exec import OpaqueV, IntV, BoolV, AggV, EnumV, RefV, ListV, UNIT, Stop, mk_option, mk_result
from mir2smt import envlib as E
from mir2smt.builtins import deref
from mir2smt.srcinfo import field_index

CRATES = ["ckb-constant", "ckb-occupied-capacity-core", "ckb-types", "ckb-chain"]
M256 = (1 << 256) - 1


def nm(ex, v):
    v = deref(ex, v)
    return getattr(v, "name", None) or type(v).__name__


def m1_tip_switch(S, ob="C01.m1", hook=None):
    """`hook`: when given (C02.m6 re-uses this execution of verify_block), it receives the local variables after the run and the C01 clauses are not emitted"""
    ctx = S.ctx()
    ctx.uninterpreted_unknown_calls = True
    ctx.max_paths = 4000
    fi = field_index("util/types/src/core/extras.rs", "BlockExt")
    parent_invalid = ctx.bool("parent_status_invalid"); pext_known = ctx.bool("parent_ext_known"); own_ext_known = ctx.bool("own_ext_known")
    parent_failed = ctx.bool("parent_verified_is_false")
    ptd = ctx.int(f"pext.{fi['total_difficulty']}", "U256"); bdiff = ctx.int("block_difficulty", "U256"); cur = ctx.int("current_total_difficulty", "U256")
    res = {k: ctx.bool(k + "_ok") for k in ("rollback", "reconcile", "insert_epoch_index", "insert_epoch_ext", "insert_tip", "insert_cur_epoch", "insert_block_ext", "commit")}
    log = []

    def logged(tag, result=None, stop=False):
        def h(ex, c, a, d):
            log.append((tag, list(ex.pc), [E.snapshot(ex, x) for x in a], [nm(ex, x) for x in a]))
            ex.log.append((tag, c, [], list(ex.pc)))
            if stop:
                raise Stop(tag)
            if result is not None:
                return mk_result(res[result].t, UNIT, OpaqueV("err_" + result, "Error"), d)
            return E.opaque_call()(ex, c, a, d)
        return h

    def get_block_ext(ex, c, a, d):
        which = nm(ex, a[1])
        if which == "parent_hash":
            return mk_option(pext_known.t, OpaqueV("pext", "BlockExt"), d)
        if which == "block_hash":
            return mk_option(own_ext_known.t, OpaqueV("oext", "BlockExt"), d)
        raise Stop("get_block_ext of an unexpected hash: " + which)

    def opt_bool_eq(ex, c, a, d):
        x, y = nm(ex, a[0]), deref(ex, a[1])
        # parent_ext.verified == Some(false)
        return parent_failed

    ctx.env = list(E.LOGGING_OFF) + [
        (E.rx(r"Option::<Switch>::unwrap_or_else"), lambda ex, c, a, d: OpaqueV("switch", "Switch")),
        (E.rx(r"BlockView::hash$"), lambda ex, c, a, d: OpaqueV("block_hash", d)),
        (E.rx(r"BlockView::parent_hash$"), lambda ex, c, a, d: OpaqueV("parent_hash", d)),
        (E.rx(r"BlockView::header$"), lambda ex, c, a, d: OpaqueV("block_header", d)),
        (E.rx(r"HeaderView::hash$"), lambda ex, c, a, d: OpaqueV("hash_of." + nm(ex, a[0]), d)),
        (E.rx(r"<BlockStatus as PartialEq>::eq$"), lambda ex, c, a, d: parent_invalid),
        (E.rx(r"ChainStore>::get_block_ext$"), get_block_ext),
        (E.rx(r"<Option<bool> as PartialEq>::eq$"), opt_bool_eq),
        (E.rx(r"<U256 as (ToOwned|Clone)>::(to_owned|clone)$"), lambda ex, c, a, d: deref(ex, a[0])),
        (E.rx(r"HeaderView::difficulty$"), lambda ex, c, a, d: bdiff),
        (E.rx(r"Snapshot::total_difficulty$"), lambda ex, c, a, d: ex.ctx.ref_to(cur)),
        (E.rx(r"Snapshot::tip_header$"), lambda ex, c, a, d: ex.ctx.ref_to(OpaqueV("current_tip_header", "HeaderView"))),
        (E.rx(r"next_epoch_ext"), lambda ex, c, a, d: mk_option(True, OpaqueV("next_epoch", "NextBlockEpoch"), d)),
        (E.rx(r"NextBlockEpoch::is_head$"), lambda ex, c, a, d: ex.ctx.bool("new_epoch")),
        (E.rx(r"ForkChanges::has_detached$"), lambda ex, c, a, d: ex.ctx.bool("has_detached")),
        (E.rx(r"<ForkChanges as Default>::default$"), lambda ex, c, a, d: OpaqueV("fork", "ForkChanges")),
        (E.rx(r"ForkChanges::\w+$|::update_proposal_table$|ProposalTable::finalize$|::print_chain$"), E.opaque_call()),
        (E.rx(r"::find_fork$"), logged("find_fork")),
        (E.rx(r"::rollback$"), logged("rollback", "rollback")),
        (E.rx(r"::reconcile_main_chain$"), logged("reconcile", "reconcile")),
        (E.rx(r"StoreTransaction::insert_block_epoch_index$"), logged("insert_epoch_index", "insert_epoch_index")),
        (E.rx(r"StoreTransaction::insert_epoch_ext$"), logged("insert_epoch_ext", "insert_epoch_ext")),
        (E.rx(r"StoreTransaction::insert_tip_header$"), logged("insert_tip", "insert_tip")),
        (E.rx(r"StoreTransaction::insert_current_epoch_ext$"), logged("insert_cur_epoch", "insert_cur_epoch")),
        (E.rx(r"StoreTransaction::insert_block_ext$"), logged("insert_block_ext", "insert_block_ext")),
        (E.rx(r"StoreTransaction::commit$"), logged("commit", "commit")),
        (E.rx(r"Shared::new_snapshot$"), logged("new_snapshot")),
        (E.rx(r"Shared::store_snapshot$"), logged("store_snapshot", stop=True)),
        (E.rx(r"<&U256 as Sub>::sub$"), E.opaque_call()),
        (E.rx(r"UncleBlockVec::len$"), lambda ex, c, a, d: ex.ctx.int("uncles_len", "usize")),
    ]
    f = [x for x in S.prog.funcs if x.kind == "fn" and x.short == "verify_block" and "chain/src/verify.rs" in x.name]
    if len(f) != 1:
        raise Inconclusive(f"verify_block: {len(f)} candidates")
    me = ctx.ref_to(OpaqueV("proc", "ConsumeUnverifiedBlockProcessor"))
    ps = S.run(ctx, f[0], [me, ctx.ref_to(OpaqueV("block", "BlockView")), ctx.ref_to(OpaqueV("parent_header", "HeaderView")), OpaqueV("switch_opt", "Option<Switch>")],
               allow=("return", "panic", "stop"))
    cannon = T.add(ptd.t, bdiff.t)
    uncles_total = ctx.int(f"pext.{fi['total_uncles_count']}", "u64")
    pre = [T.le(cannon, M256), T.le(T.add(uncles_total.t, ctx.int("uncles_len", "usize").t), (1 << 64) - 1)]
    S.prove(ctx, ob, "no_panic", pre, T.not_(cond_of(panics(ps))))

    def when(tag):
        return T.or_(*[T.and_(*pc) for t, pc, _, _ in log if t == tag])
    # the own ext's `verified` flag: Option<bool> of the opaque ext
    vsome = [n for n in ctx.decls if re.fullmatch(r"oext\.%d\.some" % fi["verified"], n)]
    already = T.and_(own_ext_known.t, T.eq(T.var(vsome[0]), 1)) if vsome else False
    admitted = T.and_(T.not_(parent_invalid.t), pext_known.t, T.not_(already), T.not_(parent_failed.t))
    better = T.gt(cannon, cur.t)
    if hook is not None:
        return hook(dict(locals()))
    S.prove(ctx, ob, "switches_iff_strictly_more_work", pre, T.iff(when("find_fork"), T.and_(admitted, better, res["insert_epoch_index"].t, T.or_(T.not_(ctx.bool("new_epoch").t), res["insert_epoch_ext"].t))))
    S.prove(ctx, ob, "equal_work_keeps_the_current_tip", pre + [T.eq(cannon, cur.t)], T.not_(T.or_(when("find_fork"), when("insert_tip"), when("store_snapshot"))))
    any_write = T.or_(*[when(t) for t in ("insert_epoch_index", "insert_epoch_ext", "insert_tip", "insert_cur_epoch", "insert_block_ext", "commit", "store_snapshot", "find_fork")])
    S.prove(ctx, ob, "refused_blocks_write_nothing", pre + [T.not_(admitted)], T.not_(any_write))
    S.prove(ctx, ob, "tip_written_only_after_rollback_and_reconcile_succeed", pre, T.implies(when("insert_tip"), T.and_(when("find_fork"), res["rollback"].t, res["reconcile"].t)))
    S.prove(ctx, ob, "commit_needs_every_earlier_step", pre, T.implies(when("commit"),
            T.or_(T.and_(when("insert_tip"), res["insert_tip"].t), T.and_(T.not_(better), when("insert_block_ext"), res["insert_block_ext"].t))))
    S.prove(ctx, ob, "snapshot_published_only_after_commit_of_a_switch", pre, T.implies(when("store_snapshot"), T.and_(when("insert_tip"), res["commit"].t, better)))
    S.prove(ctx, ob, "side_branch_block_is_only_stored", pre + [admitted, T.not_(better)], T.and_(T.not_(when("insert_tip")), T.not_(when("store_snapshot")),
            T.iff(when("insert_block_ext"), T.and_(res["insert_epoch_index"].t, T.or_(T.not_(ctx.bool("new_epoch").t), res["insert_epoch_ext"].t)))))
    # what is written / published
    for k, (t, pc, args, names) in enumerate(log):
        if t == "insert_tip":
            S.prove(ctx, ob, f"call{k}_tip_header_is_this_blocks_header", pc, bool(names[1] == "block_header"), extra={"note": str(names)})
        if t == "insert_block_ext":
            S.prove(ctx, ob, f"call{k}_ext_stored_under_this_blocks_hash", pc, bool(names[1] == "hash_of.block_header"), extra={"note": str(names)})
            ext = args[2]
            td = ext.fields[fi["total_difficulty"]] if isinstance(ext, AggV) and len(ext.fields) > fi["total_difficulty"] else None
            S.prove(ctx, ob, f"call{k}_stored_ext_carries_accumulated_difficulty", pc + pre, T.eq(as_int(td), cannon) if td is not None else False)
        if t == "new_snapshot":
            S.prove(ctx, ob, f"call{k}_snapshot_tip_is_this_block", pc, bool(names[1] == "block_header"), extra={"note": str(names)})
            S.prove(ctx, ob, f"call{k}_snapshot_total_difficulty_is_accumulated", pc + pre, T.eq(as_int(args[2]), cannon))
        if t == "find_fork":
            ext = args[-1]
            td = ext.fields[fi["total_difficulty"]] if isinstance(ext, AggV) and len(ext.fields) > fi["total_difficulty"] else None
            S.prove(ctx, ob, f"call{k}_fork_ext_carries_accumulated_difficulty", pc + pre, T.eq(as_int(td), cannon) if td is not None else False)
    S.witness(ctx, ob, "reach_switch", pre, when("store_snapshot"))
    S.witness(ctx, ob, "reach_side_branch", pre, T.and_(when("insert_block_ext"), T.lt(cannon, cur.t)))


def m2_orphan_retention_horizon(S):
    """`InnerPool::need_clean` — the only place that decides whether held orphans are dropped: a leader's group is expired exactly when the epoch of its (first)
    block + EXPIRED_EPOCH is *strictly* below the tip epoch (blocks within the horizon, including exactly EXPIRED_EPOCH behind, are kept), an unknown leader is never expired;
    `clean_expired_blocks` removes a group only when need_clean says so (the decision is applied to that very leader)"""
    ob = "C01.m2"
    src = open(os.path.join(os.environ.get("VERIF_REPO", "/repo"), "chain/src/utils/orphan_block_pool.rs")).read()
    m = re.search(r"pub const EXPIRED_EPOCH: u64 = (\d+);", src)
    if not m:
        raise Inconclusive("EXPIRED_EPOCH not found")
    horizon = int(m.group(1))
    ctx = S.ctx()
    known = ctx.bool("leader_known"); nonempty = ctx.bool("group_nonempty")
    e = ctx.int("first_block_epoch", "u64"); tip = ctx.int("tip_epoch", "u64")
    ctx.env = [
        (E.rx(r"HashMap::<.*>::get::<"), lambda ex, c, a, d: mk_option(known.t, ex.ctx.ref_to(OpaqueV("group", "HashMap")), d)),
        (E.rx(r"HashMap::<.*>::iter$"), lambda ex, c, a, d: OpaqueV("group_iter", d)),
        (E.rx(r"hash_map::Iter<.*> as Iterator>::next$"), lambda ex, c, a, d: mk_option(nonempty.t, AggV((ex.ctx.ref_to(OpaqueV("k", "Byte32")), ex.ctx.ref_to(OpaqueV("lonely", "LonelyBlockHash"))), "(&Byte32, &LonelyBlockHash)"), d)),
        (E.rx(r"LonelyBlockHash::epoch_number$"), lambda ex, c, a, d: e),
    ]
    f = [x for x in S.prog.funcs if x.kind == "fn" and x.short == "need_clean" and "orphan_block_pool.rs" in x.name]
    if len(f) != 1:
        raise Inconclusive(f"need_clean: {len(f)} candidates")
    ps = S.run(ctx, f[0], [ctx.ref_to(OpaqueV("pool", "InnerPool")), ctx.ref_to(OpaqueV("leader", "Byte32")), tip])
    pre = [T.le(T.add(e.t, horizon), (1 << 64) - 1)]
    S.prove(ctx, ob, "need_clean_no_panic", pre, T.not_(cond_of(panics(ps))))
    out = merged(ps, as_bool)
    S.prove(ctx, ob, f"expired_iff_first_block_epoch_plus_{horizon}_strictly_below_tip_epoch", pre, T.iff(out, T.and_(known.t, nonempty.t, T.lt(T.add(e.t, horizon), tip.t))))
    S.prove(ctx, ob, "group_exactly_at_the_horizon_is_kept", pre + [T.eq(T.add(e.t, horizon), tip.t)], T.not_(out))
    S.prove(ctx, ob, "horizon_is_several_epochs", [], bool(horizon >= 2))
    S.witness(ctx, ob, "reach_expired", pre, out)


def m3_find_fork(S):
    """`find_fork` (alignment_fork + find_fork_until_latest_common) executed on concrete fork shapes with symbolic verification flags: it hands reconcile_main_chain
    attached_blocks = the new branch from the fork point (exclusive) to the new tip in ascending order, detached_blocks = the old main chain above the fork point in ascending order,
    and dirty_exts = the block exts of the longest not-yet-verified suffix of the new branch, in ascending order -- so that pairing `attached_blocks.skip(verified_len)` with
    `dirty_exts` position by position (what reconcile_main_chain does when it writes total difficulty and verdicts back) pairs every block with ITS OWN ext.
    Shapes: new tip 2 above / level with / 1 below the current tip, fork depth 2 (5 shapes x 2^k verification-flag splits by forking)."""
    from mir2smt.exec import ListV
    from mir2smt.srcinfo import struct_fields
    ob = "C01.m3"
    f = [x for x in S.prog.funcs if x.kind == "fn" and x.short == "find_fork" and "chain/src/verify.rs" in x.name and "{closure" not in x.name]
    if len(f) != 1:
        raise Inconclusive(f"find_fork: {len(f)} candidates")
    ff = struct_fields("chain/src/utils/forkchanges.rs", "ForkChanges")
    fi = field_index("util/types/src/core/extras.rs", "BlockExt")
    F = 3       # number of the fork point
    shapes = [("new_tip_two_above", 5, 7), ("new_tip_one_above", 5, 6), ("new_tip_level", 5, 5), ("new_tip_one_below", 6, 5), ("new_tip_two_below", 7, 5)]
    for label, cur_tip, new_tip in shapes:
        ctx = S.ctx(unwind=12)
        ctx.uninterpreted_unknown_calls = True
        ctx.max_paths = 600
        old = {n: f"O{n}" for n in range(F + 1, cur_tip + 1)}
        new = {n: f"N{n}" for n in range(F + 1, new_tip + 1)}
        parent = {f"N{n}": (f"N{n - 1}" if n - 1 > F else "F") for n in new}
        verified = {n: ctx.bool(f"N{n}_already_verified") for n in new if n != new_tip}

        def nmv(ex, v):
            v = deref(ex, v)
            return getattr(v, "name", None) or type(v).__name__

        def strip(n):
            return re.sub(r"^(hash_of|block)\.", "", n)

        def get_block_hash(ex, c, a, d, old=old):
            nv = deref(ex, a[1])
            if not isinstance(nv, IntV) or not isinstance(nv.t, int):
                raise Stop(f"block number is not concrete: {c} {[type(deref(ex,x)).__name__ for x in a]}")
            n = nv.t
            name = old.get(n, "F" if n == F else f"main{n}")
            return mk_option(True, OpaqueV("hash_of." + name, d), d)

        def get_block(ex, c, a, d):
            return mk_option(True, OpaqueV("block." + strip(nmv(ex, a[1])), "BlockView"), d)

        def get_block_ext(ex, c, a, d, verified=verified):
            h = strip(nmv(ex, a[1]))
            n = int(h[1:]) if h[0] == "N" else None
            vflag = verified.get(n)
            if vflag is None:
                raise Stop("ext of an unexpected block " + h)
            fields = [OpaqueV(f"ext.{h}.{k}", "?") for k in range(len(fi))]
            fields[fi["verified"]] = mk_option(vflag.t, ex.ctx.fresh_of_type(f"verdict.{h}", "bool"), "Option<bool>")
            return mk_option(True, AggV(tuple(fields), "BlockExt"), d)

        def parent_hash(ex, c, a, d, parent=parent):
            b = strip(nmv(ex, a[0]))
            return OpaqueV("hash_of." + parent.get(b, "P_" + b), d)

        def hash_eq(ex, c, a, d):
            x, y = strip(nmv(ex, a[0])), strip(nmv(ex, a[1]))
            r = x == y
            return BoolV((not r) if c.endswith("::ne") else r)
        passthru = lambda ex, c, a, d: OpaqueV(nmv(ex, a[0]), d)
        ctx.env = list(E.LOGGING_OFF) + [
            (E.rx(r"ChainStore>::get_block_hash$"), get_block_hash),
            (E.rx(r"ChainStore>::get_block$"), get_block),
            (E.rx(r"ChainStore>::get_block_ext$"), get_block_ext),
            (E.rx(r"Shared::store$"), lambda ex, c, a, d: ex.ctx.ref_to(OpaqueV("store", "ChainDB"))),
            (E.rx(r"BlockView::(header|data)$|Block::header$|Header::raw$|BlockView as Clone>::clone$|Byte32 as Clone>::clone$"), passthru),
            (E.rx(r"RawHeader::parent_hash$"), parent_hash),
            (E.rx(r"HeaderView::number$"), lambda ex, c, a, d: IntV(new_tip, "u64")),
            (E.rx(r"Byte32 as PartialEq>::(eq|ne)$"), hash_eq),
            (E.rx(r"is_sorted_assert$"), lambda ex, c, a, d: UNIT),
        ] + list(E.LIST_ADAPTORS)
        fork = AggV(tuple(ListV((), "VecDeque") if n in ("attached_blocks", "detached_blocks", "dirty_exts") else OpaqueV("field_" + n, "?") for n in ff), "ForkChanges")
        tip_ext = AggV(tuple(OpaqueV(f"ext.N{new_tip}.{k}", "?") for k in range(len(fi))), "BlockExt")
        fr = ctx.ref_to(fork)
        ps = S.run(ctx, f[0], [ctx.ref_to(OpaqueV("proc", "ConsumeUnverifiedBlockProcessor")), fr, IntV(cur_tip, "u64"), ctx.ref_to(OpaqueV(f"block.N{new_tip}", "BlockView")), tip_ext])
        S.prove(ctx, ob, f"{label}_no_panic", [], T.not_(cond_of(panics(ps))))
        rs = returns(ps)
        want_att = [f"block.N{n}" for n in sorted(new)]
        want_det = [f"block.O{n}" for n in sorted(old)]
        bad_att, bad_det, bad_ext = [], [], []
        for p in rs:
            from mir2smt.exec import post_value
            post = post_value(ctx, p, fr)
            att = [nmv(None, x) for x in post.fields[ff.index("attached_blocks")].items]
            det = [nmv(None, x) for x in post.fields[ff.index("detached_blocks")].items]
            exts = [nmv(None, x.fields[0]) if isinstance(x, AggV) else "?" for x in post.fields[ff.index("dirty_exts")].items]
            if att != want_att:
                bad_att.append(p.cond())
            if det != want_det:
                bad_det.append(p.cond())
            # the exts must be those of the last len(exts) attached blocks, in the same order
            tail = [b.replace("block.", "") for b in att[len(att) - len(exts):]] if len(exts) <= len(att) else None
            if tail is None or [e.split(".")[1] for e in exts] != tail:
                bad_ext.append(p.cond())
            else:
                # ... and exactly the longest unverified suffix: every block in the tail (but the tip) is unverified, the one before it is verified (or is the fork point)
                conds = [T.not_(verified[int(b[1:])].t) for b in tail if int(b[1:]) != new_tip]
                k = len(att) - len(exts)
                if k > 0:
                    conds.append(verified[int(att[k - 1].replace("block.N", ""))].t)
                bad_ext.append(T.and_(p.cond(), T.not_(T.and_(*conds))))
        S.prove(ctx, ob, f"{label}_attached_is_the_new_branch_in_ascending_order", [], T.not_(T.or_(*bad_att)) if bad_att else True, extra={"note": str(want_att)})
        S.prove(ctx, ob, f"{label}_detached_is_the_old_branch_in_ascending_order", [], T.not_(T.or_(*bad_det)) if bad_det else True, extra={"note": str(want_det)})
        S.prove(ctx, ob, f"{label}_dirty_exts_pair_with_the_unverified_tail_block_by_block", [], T.not_(T.or_(*bad_ext)))
        S.prove(ctx, ob, f"{label}_every_flag_split_returns", [], T.or_(*[p.cond() for p in rs]))


OBLIGATIONS = [m1_tip_switch, m2_orphan_retention_horizon, m3_find_fork]

ENGINE = "M"
LEVEL = "other"
EXPLANATION = ("verify_block is executed symbolically from its MIR (dataflow mode: store, snapshot, fork and notification calls are environment symbols whose "
               "invocations and arguments are logged); the reorganisation decision and the order/conditions of the writes are compared with the tip-selection rule.")
BOUNDS = {"values": "one call of verify_block from an arbitrary stored state; all 256-bit difficulties", "outside": "orphan broker, delivery orders, the three threads, find_fork/rollback/reconcile_main_chain bodies (C03/C19/C20 obligations cover parts), RocksDB transaction semantics"}
ASSUMPTIONS = ["parent.total_difficulty + block.difficulty fits 256 bits and total_uncles_count + uncles fits u64 (the real code panics otherwise)", "store/snapshot accessors return arbitrary values; every write returns an arbitrary Result"]
TRUSTED = []
LEVEL_TEXT = ("Decided by SMT over the real MIR of verify_block: the tip changes exactly for strictly greater accumulated difficulty, refused blocks write nothing, the switch commits only after "
              "rollback and reconcile_main_chain succeed and publishes this block with that difficulty; delivery-order independence and orphan handling are outside and not claimed.")
LEVEL_NOTE = "Partial claim (decision step of verify_block). Orphans, ordering, threads, DB transaction: outside."
TECHNIQUE = "symbolic execution of rustc MIR (dataflow mode, logged environment calls) -> integer-theory SMT (cvc5 + z3)"
DESIGN_REF = "DESIGN.md section 4 (C01)"

# ---- extended claim (session 3)
BOUNDS = dict(BOUNDS, m2="need_clean: all u64 epochs (no bound)", m3="find_fork: five concrete fork shapes (new tip 2 above .. 2 below the current tip, fork depth 2), every split of already-verified / unverified blocks on the new branch")
LEVEL_TEXT = LEVEL_TEXT + " Also decided: the orphan retention horizon (need_clean: a held group expires exactly when its first block's epoch + EXPIRED_EPOCH is strictly below the tip epoch) and find_fork on small concrete fork shapes (attached/detached blocks in ascending order, dirty exts paired block by block with the unverified tail)."
LEVEL_NOTE = "Partial claim (decision step of verify_block, orphan expiry predicate, find_fork on bounded shapes). Orphan broker, ordering, threads, DB transaction: outside."


def m4_orphan_broker_decisions(S):
    """`OrphanBroker::process_lonely_block` and `search_orphan_leader` (chain/src/orphan_broker.rs) -- what happens to a stored-but-unverified block and to the blocks waiting for
    a parent: a block whose parent is stored or already queued for verification is queued for verification itself (marked pending BEFORE it is sent); a block whose parent is invalid is
    deleted, marked invalid and reported to its submitter; any other block is held in the orphan pool; afterwards EVERY leader of the pool is re-examined: the descendants of a
    leader that became invalid are all deleted and marked invalid, the descendants of a leader that is stored or pending are all released into verification in the order the pool
    returned them (parents first), and a leader that is still unknown keeps its descendants held"""
    ob = "C01.m4"
    imp = "chain/src/orphan_broker.rs"
    one = lambda short: _one(S, lambda x: x.short == short and imp in x.name and "{closure" not in x.name, "OrphanBroker::" + short)
    f_lonely, f_leader = one("process_lonely_block"), one("search_orphan_leader")

    def env(ctx, leaders, desc):
        def nmv(ex, v):
            v = deref(ex, v)
            return getattr(v, "name", None) or type(v).__name__

        def who(ex, v):
            return re.sub(r"\..*$", "", nmv(ex, v))

        def rec(tag, ret=None):
            def h(ex, c, a, d):
                ex.log.append(("c01", tag, [who(ex, x) for x in a[1:]], list(ex.pc)))
                return ret(ex, a, d) if ret else UNIT
            return h

        def status(ex, c, a, d):
            return OpaqueV("status_of_" + who(ex, a[1]), d)

        def st_contains(ex, c, a, d):
            return ex.ctx.bool("stored_" + who(ex, a[0]).replace("status_of_", ""))

        def st_eq(ex, c, a, d):
            return ex.ctx.bool("invalid_" + who(ex, a[0]).replace("status_of_", ""))
        return list(E.LOGGING_OFF) + [
            (E.rx(r"LonelyBlockHash::parent_hash$"), lambda ex, c, a, d: OpaqueV("parent_of_" + who(ex, a[0]), d)),
            (E.rx(r"LonelyBlockHash::(hash|number)$|BlockNumberAndHash::(hash|number)$"), lambda ex, c, a, d: OpaqueV(who(ex, a[0]), d) if c.endswith("hash") else ex.ctx.int("number_" + who(ex, a[0]), "u64")),
            (E.rx(r"DashSet::<.*>::contains(::<.*>)?$"), lambda ex, c, a, d: ex.ctx.bool("pending_" + who(ex, a[1]))),
            (E.rx(r"DashSet::<.*>::insert$"), rec("mark_pending", lambda ex, a, d: BoolV(True))),
            (E.rx(r"Shared::get_block_status$"), status),
            (E.rx(r"BlockStatus>?::contains$"), st_contains),
            (E.rx(r"<BlockStatus as PartialEq>::eq$"), st_eq),
            (E.rx(r"OrphanBlockPool::insert$"), rec("hold")),
            (E.rx(r"OrphanBlockPool::clone_leaders$"), lambda ex, c, a, d: ListV(tuple(OpaqueV(l_, "Byte32") for l_ in leaders), "Vec<Byte32>")),
            (E.rx(r"OrphanBlockPool::remove_blocks_by_parent$"), lambda ex, c, a, d: (ex.log.append(("c01", "release", [who(ex, a[1])], list(ex.pc))), ListV(tuple(OpaqueV(x_, "LonelyBlockHash") for x_ in desc.get(who(ex, a[1]), [])), "Vec<LonelyBlockHash>"))[1]),
            (E.rx(r"OrphanBlockPool::len$"), lambda ex, c, a, d: IntV(0, "usize")),
            (E.rx(r"Sender::<LonelyBlockHash>::send$"), rec("send", lambda ex, a, d: mk_result(ex.ctx.bool("channel_open").t, UNIT, OpaqueV("send_err", "SendError"), d))),
            (E.rx(r"Sender::<LonelyBlockHash>::len$"), lambda ex, c, a, d: IntV(0, "usize")),
            (E.rx(r"(^|::)delete_unverified_block(::<.*>)?$"), rec("delete")),
            (E.rx(r"Shared::insert_block_status$"), rec("mark_status")),
            (E.rx(r"LonelyBlockHash::execute_callback$"), lambda ex, c, a, d: (ex.log.append(("c01", "callback", [who(ex, a[0])], list(ex.pc))), UNIT)[1]),
            (E.rx(r"Shared::(store|snapshot|set_unverified_tip)$|Snapshot::tip_number$|HeaderIndex::new$|InternalErrorKind::other|as From<.*>>::from$|as Into<.*>>::into$|^format$|must_use"), E.opaque_call()),
            (E.rx(r"as Deref>::deref$|as Clone>::clone$"), lambda ex, c, a, d: (OpaqueV(nmv(ex, a[0]), d) if isinstance(deref(ex, a[0]), OpaqueV) else deref(ex, a[0]))),
            (E.rx(r"<u64 as PartialOrd>::gt$"), lambda ex, c, a, d: ex.ctx.bool("above_tip")),
        ] + list(E.LIST_ADAPTORS)
    me = lambda ctx: ctx.ref_to(OpaqueV("broker", "OrphanBroker"))
    # ---------------- a block arrives
    ctx = S.ctx(unwind=10)
    ctx.uninterpreted_unknown_calls = True
    ctx.max_paths = 4000
    ctx.env = env(ctx, ["L0"], {"L0": ["w0", "w1"]})
    ps = S.run(ctx, f_lonely, [me(ctx), OpaqueV("blk", "LonelyBlockHash")])
    S.prove(ctx, ob, "arrival_no_panic", [], T.not_(cond_of(panics(ps))))
    b = lambda n_: ctx.bool(n_).t
    P_pending, P_stored, P_invalid = b("pending_parent_of_blk"), b("stored_parent_of_blk"), b("invalid_parent_of_blk")
    rs = returns(ps)

    def when(pred):
        return T.or_(*[p.cond() for p in rs if pred([(e[1], e[2]) for e in p.log if e[0] == "c01"])])
    has = lambda tag, x: (lambda evs: (tag, x) in [(t, (a_[0] if a_ else None)) for t, a_ in evs])
    direct = T.or_(P_pending, P_stored)
    S.prove(ctx, ob, "arrival_block_is_queued_for_verification_iff_parent_stored_or_pending", [], T.iff(when(has("send", "blk")), direct))
    S.prove(ctx, ob, "arrival_block_is_invalidated_iff_parent_invalid_and_not_stored_or_pending", [], T.iff(when(lambda evs: ("delete", "blk") in [(t, a_[-1] if a_ else None) for t, a_ in evs] or any(t == "delete" and "blk" in a_ for t, a_ in evs)), T.and_(T.not_(direct), P_invalid)))
    S.prove(ctx, ob, "arrival_block_is_held_otherwise", [], T.iff(when(has("hold", "blk")), T.and_(T.not_(direct), T.not_(P_invalid))))
    ok_order, ok_leaders = [], []
    for p in rs:
        evs = [(e[1], e[2]) for e in p.log if e[0] == "c01"]
        tags = [(t, a_[0] if a_ else None) for t, a_ in evs]
        if ("send", "blk") in tags:
            ok_order.append(T.implies(p.cond(), bool(("mark_pending", "blk") in tags and tags.index(("mark_pending", "blk")) < tags.index(("send", "blk")))))
        # the leaders are re-examined on every path: the status of L0 is looked at (its flags appear in the path condition) or it is released
        pcs = " ".join(str(c_) for c_ in p.pc)
        ok_leaders.append(T.implies(p.cond(), bool("L0" in pcs)))
    S.prove(ctx, ob, "arrival_block_is_marked_pending_before_it_is_sent", [], T.and_(*ok_order) if ok_order else False)
    S.prove(ctx, ob, "arrival_every_leader_is_re_examined_whatever_happened_to_the_block", [], T.and_(*ok_leaders) if ok_leaders else False)
    # ---------------- one leader is examined
    ctx = S.ctx(unwind=10)
    ctx.uninterpreted_unknown_calls = True
    ctx.env = env(ctx, [], {"L0": ["w0", "w1"]})
    ps = S.run(ctx, f_leader, [me(ctx), OpaqueV("L0", "Byte32")])
    S.prove(ctx, ob, "leader_no_panic", [], T.not_(cond_of(panics(ps))))
    b = lambda n_: ctx.bool(n_).t
    L_pending, L_stored, L_invalid = b("pending_L0"), b("stored_L0"), b("invalid_L0")
    kept, invalidated, released, bad = [], [], [], []
    for p in returns(ps):
        evs = [(e[1], e[2]) for e in p.log if e[0] == "c01"]
        sends = [a_[0] for t, a_ in evs if t == "send"]
        dels = [a_ for t, a_ in evs if t == "delete"]
        marks = [a_[0] for t, a_ in evs if t == "mark_status"]
        cbs = [a_[0] for t, a_ in evs if t == "callback"]
        rel = [a_[0] for t, a_ in evs if t == "release"]
        pend = [a_[0] for t, a_ in evs if t == "mark_pending"]
        if not rel and not sends and not dels and not marks and not pend:
            kept.append(p.cond())
        elif rel == ["L0"] and not sends and not pend and len(dels) == 2 and marks == ["w0", "w1"] and cbs == ["w0", "w1"]:
            invalidated.append(p.cond())
        elif rel == ["L0"] and sends == ["w0", "w1"] and pend == ["w0", "w1"] and not dels and not marks:
            released.append(p.cond())
        else:
            bad.append(p.cond())
    orr = lambda xs: T.or_(*xs) if xs else False
    S.prove(ctx, ob, "leader_every_outcome_is_one_of_kept_invalidated_released_in_order", [], T.not_(orr(bad)))
    S.prove(ctx, ob, "leader_invalid_iff_all_descendants_are_deleted_marked_invalid_and_reported", [], T.iff(orr(invalidated), L_invalid))
    S.prove(ctx, ob, "leader_stored_or_pending_iff_all_descendants_are_released_into_verification_parents_first", [], T.iff(orr(released), T.and_(T.not_(L_invalid), T.or_(L_pending, L_stored))))
    S.prove(ctx, ob, "leader_unknown_iff_descendants_stay_held", [], T.iff(orr(kept), T.and_(T.not_(L_invalid), T.not_(L_pending), T.not_(L_stored))))
    S.prove(ctx, ob, "leader_every_status_combination_is_explored", [], bool(len(returns(ps)) >= 4))


def _one(S, pred, what):
    f = [x for x in S.prog.funcs if x.kind == "fn" and pred(x)]
    if len(f) != 1:
        raise Inconclusive(f"{what}: {len(f)} candidates")
    return f[0]


OBLIGATIONS = OBLIGATIONS + [m4_orphan_broker_decisions]

# ---- extended claim (session 4)
LEVEL_TEXT = LEVEL_TEXT + ' m4: the orphan broker queues a block for verification iff its parent is stored or pending, invalidates it iff the parent is invalid, holds it otherwise, and re-examines every pool leader after each arrival (descendants of a stored/pending leader are released parents first, of an invalid leader invalidated, of an unknown leader kept).'
LEVEL_NOTE = LEVEL_NOTE + ' Orphan broker: decision step with the pool, status table and channel as environment.'
