"""C10 — freezing old blocks: which blocks may be moved, and where reads switch to the freezer (engine M).

Claimed (partial): (m1) `Shared::freeze` asks the freezer to move exactly the heights below
min(number of the last block of epoch current-2, frozen + per-run limit), and nothing during IBD or before epoch 3;
(m2) `Freezer::freeze` appends the heights frozen..threshold contiguously, each with the block fetched for that very height, checks
the parent link against the previous tip, stops at the first missing block, and reports (hash -> (number, tx count)) of exactly the
appended blocks; (m3) `ChainStore::get_block` and friends read from the freezer exactly for 0 < number < freezer.number() and ask it
for that number.  RocksDB batches/iterators, the background thread, wipe-out and crash behaviour are outside (file level: C09).
"""
import os
import re
from mir2smt.ob import *
from mir2smt import terms as T
from mir2smt.exec import OpaqueV, IntV, BoolV, AggV, EnumV, RefV, UNIT, Stop, mk_option, mk_result
from mir2smt import envlib as E
from mir2smt.builtins import deref

CRATES = ["ckb-constant", "ckb-occupied-capacity-core", "ckb-types", "ckb-freezer", "ckb-store", "ckb-shared"]
U64 = (1 << 64) - 1


def src_const(relpath, name):
    s = open("/repo/" + relpath).read()
    m = re.search(r"const\s+" + name + r"\s*:\s*[A-Za-z0-9_]+\s*=\s*([0-9_]+)", s)
    if not m:
        raise Inconclusive(f"constant {name} not found in {relpath}")
    return int(m.group(1).replace("_", ""))


def m1_freeze_threshold(S):
    ob = "C10.m1"
    ctx = S.ctx()
    ctx.uninterpreted_unknown_calls = True
    cur = ctx.int("current_epoch", "u64"); ibd = ctx.bool("ibd"); frozen = ctx.int("frozen_number", "u64"); limit_no = ctx.int("limit_block_number", "u64")
    LIMIT = src_const("shared/src/shared.rs", "MAX_FREEZE_LIMIT")
    log = []

    def epoch_index(ex, c, a, d):
        log.append(("epoch_index", list(ex.pc), deref(ex, a[1]).t))
        return mk_option(True, OpaqueV("epoch_index_hash", "Byte32"), d)

    def and_then(ex, c, a, d):
        return mk_option(True, OpaqueV("limit_epoch_ext", "EpochExt"), d)

    def last_hash(ex, c, a, d):
        src = deref(ex, a[0])
        return OpaqueV("last_hash_prev_epoch_of." + getattr(src, "name", "?"), d)

    def block_number(ex, c, a, d):
        h = deref(ex, a[1])
        log.append(("get_block_number", list(ex.pc), getattr(h, "name", "?")))
        return mk_option(True, limit_no, d)

    def freeze(ex, c, a, d):
        log.append(("freeze", list(ex.pc), deref(ex, a[1]).t))
        return mk_result(True, OpaqueV("frozen_map", "BTreeMap"), None, d)

    ctx.env = list(E.LOGGING_OFF) + [
        (E.rx(r"ChainStore>::freezer$"), lambda ex, c, a, d: mk_option(True, ex.ctx.ref_to(OpaqueV("freezer", "Freezer")), d)),
        (E.rx(r"Shared::(snapshot|store)$|as Deref>::deref$|Snapshot::epoch_ext$"), E.opaque_call()),
        (E.rx(r"EpochExt::number$"), lambda ex, c, a, d: cur),
        (E.rx(r"Shared::is_initial_block_download$"), lambda ex, c, a, d: ibd),
        (E.rx(r"ChainStore>::get_epoch_index$"), epoch_index),
        (E.rx(r"Option::<Byte32>::and_then::<.*EpochExt"), and_then),
        (E.rx(r"EpochExt::last_block_hash_in_previous_epoch$"), last_hash),
        (E.rx(r"Freezer::number$"), lambda ex, c, a, d: frozen),
        (E.rx(r"ChainStore>::get_block_number$"), block_number),
        (E.rx(r"Freezer::freeze::<"), freeze),
        (E.rx(r"AtomicBool::load$"), lambda ex, c, a, d: ex.ctx.bool("stopped")),
        (E.rx(r"Shared::wipe_out_frozen_data$"), lambda ex, c, a, d: mk_result(ex.ctx.bool("wipe_ok").t, UNIT, OpaqueV("werr", "Error"), d)),
        (E.rx(r"max_level|__private_api|fmt::rt::|Arguments|loc\(\)$|^loc$"), E.opaque_call()),
    ]
    f = [x for x in S.prog.funcs if x.kind == "fn" and x.short == "freeze" and "shared/src/shared.rs" in x.name and len(x.params) == 1]
    if len(f) != 1:
        raise Inconclusive(f"Shared::freeze: {len(f)} candidates")
    pre = [T.le(T.add(frozen.t, LIMIT), U64), T.lt(cur.t, 1 << 24)]      # epoch numbers are 24-bit fields of the header
    ps = S.run(ctx, f[0], [ctx.ref_to(OpaqueV("shared", "Shared"))])
    S.prove(ctx, ob, "no_panic", pre, T.not_(cond_of(panics(ps))))
    calls = [e for e in log if e[0] == "freeze"]
    if not calls:
        raise Inconclusive("Freezer::freeze is never reached")
    reach = T.or_(*[T.and_(*pc) for _, pc, _ in calls])
    S.prove(ctx, ob, "freezes_iff_synced_and_past_epoch_two", pre, T.iff(reach, T.and_(T.not_(ibd.t), T.gt(cur.t, 2))))
    for k, (_, pc, thr) in enumerate(calls):
        S.prove(ctx, ob, f"call{k}_threshold_is_min_of_two_epoch_boundary_and_per_run_limit", pre + pc, T.eq(thr, T.imin(limit_no.t, T.add(frozen.t, LIMIT))))
        S.prove(ctx, ob, f"call{k}_moves_at_most_the_per_run_limit", pre + pc, T.le(T.sub(thr, frozen.t), LIMIT))
    for k, (_, pc, idx) in enumerate([e for e in log if e[0] == "epoch_index"]):
        # epoch (current - 1): its "last block of the previous epoch" is the last block of epoch current - 2
        S.prove(ctx, ob, f"lookup{k}_boundary_epoch_is_current_minus_one", pre + pc, T.eq(idx, T.sub(cur.t, 1)))
    gb = [e for e in log if e[0] == "get_block_number"]
    S.prove(ctx, ob, "boundary_number_is_of_the_last_block_before_that_epoch", pre, bool(gb and all(n == "last_hash_prev_epoch_of.limit_epoch_ext" for _, _, n in gb)),
            extra={"note": str([n for _, _, n in gb])})
    S.witness(ctx, ob, "reach_limit_binds", pre + [reach], T.lt(T.add(frozen.t, LIMIT), limit_no.t))


def m3_reads_switch_to_freezer(S):
    """ChainStore::get_block and ::get_transaction_with_info (the two readers with a freezer branch): the freezer is consulted exactly
    for 0 < number < freezer.number(), and it is asked for that block number; otherwise the key-value store is read"""
    from mir2smt.srcinfo import field_index
    ob = "C10.m3"
    ti = field_index("util/types/src/core/extras.rs", "TransactionInfo")
    for short in ("get_block", "get_transaction_with_info"):
        f = [x for x in S.prog.funcs if x.kind == "fn" and x.name == "ChainStore::" + short]
        if len(f) != 1:
            raise Inconclusive(f"ChainStore::{short}: {len(f)} candidates")
        ctx = S.ctx()
        ctx.uninterpreted_unknown_calls = True
        fnum = ctx.int("freezer_number", "u64"); has_fr = ctx.bool("has_freezer"); known = ctx.bool("record_known")
        num = ctx.int("block_number", "u64") if short == "get_block" else ctx.int(f"txinfo.{ti['block_number']}", "u64")
        log = []

        def retrieve(ex, c, a, d, log=log):
            log.append(("retrieve", list(ex.pc), deref(ex, a[1]).t))
            raise Stop("retrieve")

        def kv(ex, c, a, d, log=log):
            log.append(("kv", list(ex.pc), c))
            raise Stop("kv")
        ctx.env = list(E.LOGGING_OFF) + [
            (E.rx(r"ChainStore>::freezer$"), lambda ex, c, a, d: mk_option(has_fr.t, ex.ctx.ref_to(OpaqueV("freezer", "Freezer")), d)),
            (E.rx(r"Freezer::number$"), lambda ex, c, a, d: fnum),
            (E.rx(r"Freezer::retrieve$"), retrieve),
            (E.rx(r"ChainStore>::get_block_header$"), lambda ex, c, a, d: mk_option(known.t, OpaqueV("header", "HeaderView"), d)),
            (E.rx(r"ChainStore>::get_transaction_info$"), lambda ex, c, a, d: mk_option(known.t, OpaqueV("txinfo", "TransactionInfo"), d)),
            (E.rx(r"HeaderView::number$"), lambda ex, c, a, d: num),
            (E.rx(r"ChainStore>::(get_block_body|get_block_uncles|get_block_proposal_txs_ids|get_block_extension|get)$|TransactionInfo::key$"), kv),
        ]
        ps = S.run(ctx, f[0], [ctx.ref_to(OpaqueV("store", "Self")), ctx.ref_to(OpaqueV("hash", "Byte32"))], allow=("return", "panic", "stop"))
        S.prove(ctx, ob, f"{short}_no_panic_before_the_read", [], T.not_(cond_of(panics(ps))))
        rets = [e for e in log if e[0] == "retrieve"]
        kvs = [e for e in log if e[0] == "kv"]
        if not rets or not kvs:
            raise Inconclusive(f"ChainStore::{short}: freezer read reached {len(rets)} times, key-value read {len(kvs)} times")
        frozen_read = T.or_(*[T.and_(*pc) for _, pc, _ in rets])
        kv_read = T.or_(*[T.and_(*pc) for _, pc, _ in kvs])
        in_freezer = T.and_(has_fr.t, T.gt(num.t, 0), T.lt(num.t, fnum.t))
        S.prove(ctx, ob, f"{short}_reads_freezer_iff_number_below_frozen_height", [known.t], T.iff(frozen_read, in_freezer))
        S.prove(ctx, ob, f"{short}_reads_kv_store_otherwise", [known.t], T.iff(kv_read, T.not_(in_freezer)))
        S.prove(ctx, ob, f"{short}_unknown_record_reads_nothing", [T.not_(known.t)], T.not_(T.or_(frozen_read, kv_read)))
        for k, (_, pc, arg) in enumerate(rets):
            S.prove(ctx, ob, f"{short}_retrieve{k}_asks_for_the_block_number", pc, T.eq(arg, num.t))
        S.witness(ctx, ob, f"{short}_reach_frozen", [known.t], frozen_read)


def m4_frozen_block_decoding(S):
    """what the freezer branch of the two readers does with the bytes it got: they are decoded as a block in *compatible* mode (a frozen block may be a BlockV1 whose
    extension is an extra field; strict decoding would reject it), nothing else is decoded, `get_block` returns the view of that very block, and
    `get_transaction_with_info` returns the transaction at the recorded index of that block together with the stored info; a freezer miss answers None"""
    from mir2smt.srcinfo import field_index
    ob = "C10.m4"
    ti = field_index("util/types/src/core/extras.rs", "TransactionInfo")
    for short in ("get_block", "get_transaction_with_info"):
        f = [x for x in S.prog.funcs if x.kind == "fn" and x.name == "ChainStore::" + short]
        if len(f) != 1:
            raise Inconclusive(f"ChainStore::{short}: {len(f)} candidates")
        ctx = S.ctx()
        ctx.uninterpreted_unknown_calls = True
        hit = ctx.bool("freezer_hit")
        idx = ctx.int(f"txinfo.{ti['index']}", "usize")
        decodes = []
        gets = []

        def nmv(ex, v):
            v = deref(ex, v)
            return getattr(v, "name", None) or type(v).__name__

        def decode(ex, c, a, d, decodes=decodes):
            mode = re.sub(r"::<[^<>]*>$", "", c).split("::")[-1]
            decodes.append((mode, c, nmv(ex, a[0]), list(ex.pc)))
            return mk_result(True, OpaqueV("reader(" + nmv(ex, a[0]) + ")", "BlockReader"), OpaqueV("verr", "VerificationError"), d)

        def tx_get(ex, c, a, d, gets=gets):
            gets.append((nmv(ex, a[0]), deref(ex, a[1]).t, list(ex.pc)))
            return mk_option(ex.ctx.bool("index_in_range").t, OpaqueV("tx_of(" + nmv(ex, a[0]) + ")", "TransactionReader"), d)
        nm1 = lambda tag: (lambda ex, c, a, d: OpaqueV(tag + "(" + nmv(ex, a[0]) + ")", d))
        ctx.env = list(E.LOGGING_OFF) + [
            (E.rx(r"ChainStore>::freezer$"), lambda ex, c, a, d: mk_option(True, ex.ctx.ref_to(OpaqueV("freezer", "Freezer")), d)),
            (E.rx(r"Freezer::number$"), lambda ex, c, a, d: IntV(1 << 40, "u64")),
            (E.rx(r"Freezer::retrieve$"), lambda ex, c, a, d: mk_result(True, mk_option(hit.t, OpaqueV("raw", "Vec<u8>"), "Option<Vec<u8>>"), OpaqueV("ferr", "Error"), d)),
            (E.rx(r"ChainStore>::get_block_header$"), lambda ex, c, a, d: mk_option(True, OpaqueV("header", "HeaderView"), d)),
            (E.rx(r"ChainStore>::get_transaction_info$"), lambda ex, c, a, d: mk_option(True, AggV(tuple((ex.ctx.fresh_of_type(f"txinfo.{k}", "usize") if k == ti["index"] else IntV(7, "u64") if k == ti["block_number"] else OpaqueV(f"txinfo.{k}", "?")) for k in range(len(ti))), "TransactionInfo"), d)),
            (E.rx(r"HeaderView::number$"), lambda ex, c, a, d: IntV(7, "u64")),
            (E.rx(r"Reader(::<'_>)?(<'_>)?::(from_compatible_slice|from_slice|new_unchecked|from_slice_should_be_ok)$|Reader<'_>>::(from_compatible_slice|from_slice|new_unchecked|from_slice_should_be_ok)$"), decode),
            (E.rx(r"as Deref>::deref$|::as_slice$|::as_ref$"), lambda ex, c, a, d: OpaqueV(nmv(ex, a[0]), d)),
            (E.rx(r"BlockReader(::<'_>)?(<'_>)?::transactions$"), nm1("txs")),
            (E.rx(r"TransactionVecReader(::<'_>)?(<'_>)?::get$"), tx_get),
            (E.rx(r"::to_entity$"), nm1("entity")),
            (E.rx(r"::into_view$"), nm1("view")),
        ]
        ps = S.run(ctx, f[0], [ctx.ref_to(OpaqueV("store", "Self")), ctx.ref_to(OpaqueV("hash", "Byte32"))])
        pre = []
        S.prove(ctx, ob, f"{short}_frozen_branch_does_not_panic", pre, T.not_(cond_of(panics(ps))))
        blockdec = [x for x in decodes if "BlockReader" in x[1] or x[2] == "raw"]
        S.prove(ctx, ob, f"{short}_frozen_bytes_are_decoded_as_a_block_in_compatible_mode", [], bool(blockdec and all(m == "from_compatible_slice" and "BlockReader" in c and src == "raw" for m, c, src, _ in blockdec)),
                extra={"note": str([(m, c, src) for m, c, src, _ in decodes])})
        rs = returns(ps)
        hits = [p for p in rs if isinstance(p.value, EnumV) and p.value.disc == 1]
        misses = [p for p in rs if isinstance(p.value, EnumV) and p.value.disc == 0]
        miss_cond = T.or_(*[p.cond() for p in misses]) if misses else False
        if short == "get_block":
            names = [nmv(None, p.value.payload(1)[0]) for p in hits]
            S.prove(ctx, ob, "get_block_returns_the_view_of_the_decoded_frozen_block", [], bool(names and all(n == "view(entity(reader(raw)))" for n in names)), extra={"note": str(names)})
            S.prove(ctx, ob, "get_block_answers_none_iff_the_freezer_misses", pre, T.iff(miss_cond, T.not_(hit.t)))
        else:
            ok = []
            for p in hits:
                tup = p.value.payload(1)[0]
                ok.append(isinstance(tup, AggV) and len(tup.fields) == 2 and nmv(None, tup.fields[0]) == "view(entity(tx_of(txs(reader(raw)))))" and isinstance(tup.fields[1], AggV)
                          and [getattr(x, "name", None) or (x.t[2] if isinstance(getattr(x, "t", None), tuple) and x.t[0] == "var" else str(getattr(x, "t", ""))) for x in tup.fields[1].fields] == [("7" if k == ti["block_number"] else f"txinfo.{k}") for k in range(len(ti))])
                if os.environ.get("VERIF_DEBUG") and not ok[-1]:
                    print("DEBUG tuple", tup)
            S.prove(ctx, ob, "get_transaction_with_info_returns_the_indexed_transaction_of_the_frozen_block_and_the_stored_info", [], bool(ok and all(ok)), extra={"note": str(ok)})
            S.prove(ctx, ob, "get_transaction_with_info_asks_for_the_recorded_index", pre, bool(gets) and T.and_(*[T.implies(T.and_(*pc), T.eq(i, idx.t)) for _, i, pc in gets]))
            S.prove(ctx, ob, "get_transaction_with_info_none_iff_miss_or_index_out_of_range", pre, T.iff(miss_cond, T.or_(T.not_(hit.t), T.not_(ctx.bool("index_in_range").t))))
        S.witness(ctx, ob, f"{short}_reach_hit", pre, T.or_(*[p.cond() for p in hits]) if hits else False)


def m2_freeze_loop(S):
    """`Freezer::freeze(threshold, get_block_by_number)`: from the frozen height F up to the threshold, in ascending order and without gaps, each height is appended with the bytes of
    the block fetched FOR THAT HEIGHT; the parent hash of every block is checked against the freezer's tip (the previously appended block, or the tip recorded before the call) and a
    mismatch aborts with an error before anything more is appended; the loop stops at the first missing block and when the stop flag is raised; the result maps the hash of exactly the
    appended blocks to (height, number of transactions); the files are synced before an early or normal return (F = 5, threshold = 5..8)"""
    from mir2smt.exec import ListV
    from mir2smt import symmap as SM
    from mir2smt.srcinfo import field_index
    ob = "C10.m2"
    f = [x for x in S.prog.funcs if x.kind == "fn" and x.short == "freeze" and "freezer/src/freezer.rs" in x.name and len(x.params) == 3]
    if len(f) != 1:
        raise Inconclusive(f"Freezer::freeze: {len(f)} candidates")
    INN = field_index("freezer/src/freezer.rs", "Inner")
    F0 = 5
    for k in (0, 1, 2, 3):
        ctx = S.ctx(unwind=k + 4)
        ctx.uninterpreted_unknown_calls = True
        ctx.max_paths = 6000
        had_tip = ctx.bool("freezer_had_a_tip")
        for i_ in range(k):
            for j_ in range(i_):          # different blocks have different header hashes
                ctx.add_side(T.ne(ctx.int(f"id!hash(header(blk{F0 + i_}))", "u64").t, ctx.int(f"id!hash(header(blk{F0 + j_}))", "u64").t))
        inner = ctx.ref_to(AggV(tuple({"files": OpaqueV("files", "FreezerFiles"), "tip": mk_option(had_tip.t, OpaqueV("old_tip_header", "HeaderView"), "Option<HeaderView>")}[n] for n, _ in sorted(INN.items(), key=lambda kv: kv[1])), "Inner"))

        def nmv(ex, v):
            v = deref(ex, v)
            if isinstance(v, IntV):
                return str(v.t)
            return getattr(v, "name", None) or type(v).__name__
        call = lambda tag: (lambda ex, c, a, d: OpaqueV(tag + "(" + ",".join(nmv(ex, x) for x in a) + ")", d))

        def ev(tag, ok_name=None):
            def h(ex, c, a, d):
                ex.log.append(("c10", tag, [nmv(ex, x) for x in a[1:]], list(ex.pc)))
                okv = ex.ctx.bool(ok_name + "_" + "_".join(nmv(ex, x) for x in a[1:2])).t if ok_name else True
                return mk_result(okv, UNIT, OpaqueV("ioerr", "io::Error"), d)
            return h

        def fetch(ex, c, a, d):
            tup = deref(ex, a[1]) if isinstance(a[1], RefV) else a[1]
            n = tup.fields[0].t if isinstance(tup, AggV) else tup.t
            ex.log.append(("c10", "fetch", [str(n)], list(ex.pc)))
            return mk_option(ex.ctx.bool(f"block_{n}_is_stored").t, OpaqueV(f"blk{n}", "BlockView"), d)

        def result_insert(ex, c, a, d):
            from mir2smt.exec import ENV_PASS
            v = deref(ex, a[2]) if isinstance(a[2], RefV) else a[2]
            ex.log.append(("c10", "result", [v.fields[0].t, v.fields[1].t], list(ex.pc)))
            return ENV_PASS

        def ne(ex, c, a, d):
            x, y = nmv(ex, a[0]), nmv(ex, a[1])
            ex.log.append(("c10", "parent_check", [x, y], list(ex.pc)))
            return ex.ctx.bool("mismatch_" + re.sub(r"[^A-Za-z0-9]", "_", x + "_vs_" + y))
        ctx.env = list(E.LOGGING_OFF) + [
            (E.rx(r"Freezer::number$"), lambda ex, c, a, d: IntV(F0, "u64")),
            (E.rx(r"<Arc<.*Mutex<.*Inner>> as Deref>::deref$"), lambda ex, c, a, d: ex.ctx.ref_to(OpaqueV("mutex", "Mutex"))),
            (E.rx(r"Mutex::<.*Inner>::lock$"), lambda ex, c, a, d: OpaqueV("guard", d)),
            (E.rx(r"MutexGuard<'_, .*Inner> as Deref(Mut)?>::deref(_mut)?$"), lambda ex, c, a, d: inner),
            (E.rx(r"<Arc<AtomicBool> as Deref>::deref$"), lambda ex, c, a, d: ex.ctx.ref_to(OpaqueV("stop_flag", "AtomicBool"))),
            (E.rx(r"AtomicBool::load$"), lambda ex, c, a, d: ex.ctx.bool("stopped_before_" + str(len([1 for e in ex.log if e[0] == "c10" and e[1] == "fetch"]) + F0))),
            (E.rx(r"<F as Fn<\(u64,\)>>::call$"), fetch),
            (E.rx(r"FreezerFiles::append$"), ev("append", "append_ok")),
            (E.rx(r"FreezerFiles::sync_all$"), ev("sync")),
            (E.rx(r"BlockView::header$"), call("header")),
            (E.rx(r"HeaderView::hash$"), call("hash")),
            (E.rx(r"HeaderView::parent_hash$"), call("parent_hash")),
            (E.rx(r"BlockView::data$"), call("data")),
            (E.rx(r"BlockView::transactions$"), call("txs")),
            (E.rx(r"Vec::<.*TransactionView>::len$"), lambda ex, c, a, d: ex.ctx.int("len_" + re.sub(r"[^A-Za-z0-9]", "_", nmv(ex, a[0])), "usize")),
            (E.rx(r"as (ckb_types::prelude::)?Entity>::as_slice$"), call("bytes")),
            (E.rx(r"Byte32 as PartialEq>::ne$"), ne),
            (E.rx(r"^(ckb_error::)?internal_error::<"), lambda ex, c, a, d: OpaqueV("internal_error", d)),
            (E.rx(r"^format$|must_use::<"), E.opaque_call()),
            (E.rx(r"BTreeMap::<Byte32, \(u64, u32\)>::insert$"), result_insert),
        ] + SM.handlers(r"Byte32") + SM.EXTRAS + list(E.LIST_ADAPTORS)
        ps = S.run(ctx, f[0], [ctx.ref_to(OpaqueV("freezer", "Freezer")), IntV(F0 + k, "u64"), OpaqueV("get_block_by_number", "F")])
        tag = f"{k}_heights"
        pre = [T.le(ctx.int(f"len_txs_blk{n}_", "usize").t, (1 << 32) - 1) for n in range(F0, F0 + k)]
        S.prove(ctx, ob, f"{tag}_no_panic", pre, T.not_(cond_of(panics(ps))))
        b = lambda name: ctx.bool(name).t
        goals = []
        for p in returns(ps):
            evs = [(e[1], e[2]) for e in p.log if e[0] == "c10"]
            apps = [a_ for t, a_ in evs if t == "append"]
            ok = True
            # appended heights: F0, F0+1, ... without gaps, each with the bytes of the block fetched for that height
            ok = ok and apps == [[str(F0 + i), f"bytes(data(blk{F0 + i}))"] for i in range(len(apps))]
            # fetches: ascending, one per height, no height after the first that was not appended
            fet = [a_[0] for t, a_ in evs if t == "fetch"]
            ok = ok and fet == [str(F0 + i) for i in range(len(fet))] and len(fet) in (len(apps), len(apps) + 1) and len(fet) <= k
            # parent checks: block n against the previous tip
            chk = [a_ for t, a_ in evs if t == "parent_check"]
            want_chk = []
            for i in range(len(fet)):
                n = F0 + i
                prev = "hash(old_tip_header)" if i == 0 else f"hash(header(blk{n - 1}))"
                want_chk.append([prev, f"parent_hash(header(blk{n}))"])
            # the first check only happens when the freezer had a tip; it is decided per path below
            # (a check is made for every fetched block that exists: the appended ones and possibly one more whose check or append failed)
            if not any(chk in (want_chk[:m_], want_chk[1:m_]) for m_ in (len(apps), len(apps) + 1)):
                ok = False
            # sync before every Ok return
            v = p.value
            is_ok = isinstance(v, EnumV) and v.disc == 0
            if is_ok:
                ok = ok and evs and evs[-1][0] == "sync"
                m_ = v.payload(0)[0]
                keys = sorted(str(k_) for k_, _, _ in m_.items) if isinstance(m_, SM.MapV) else None
                want_keys = sorted(str(ctx.int(f"id!hash(header(blk{F0 + i}))", "u64").t) for i in range(len(apps)))
                ok = ok and keys == want_keys
                recs = [a_ for t, a_ in evs if t == "result"]
                ok = ok and len(recs) == len(apps)
                for j, (numt, lent) in enumerate(recs):
                    goals.append(T.implies(p.cond(), T.and_(T.eq(numt, F0 + j), T.eq(lent, ctx.int(f"len_txs_blk{F0 + j}_", "usize").t))))
            goals.append(T.implies(p.cond(), bool(ok)))
            # semantic conditions: an append of height n happened iff every earlier height was stored, matched its parent and was appended, and no stop was raised before n
            for i in range(k):
                n = F0 + i
                appended = len(apps) > i
                cond = T.and_(*[T.and_(T.not_(b(f"stopped_before_{F0 + j}")), b(f"block_{F0 + j}_is_stored"),
                                       T.not_(b("mismatch_hash_header_blk%d___vs_parent_hash_header_blk%d__" % (F0 + j - 1, F0 + j))) if j > 0 else T.or_(T.not_(had_tip.t), T.not_(b("mismatch_hash_old_tip_header__vs_parent_hash_header_blk%d__" % F0))))
                                for j in range(i + 1)], *[b(f"append_ok_{F0 + j}") for j in range(i)])
                goals.append(T.implies(p.cond(), T.iff(bool(appended), cond)))
        S.prove(ctx, ob, f"{tag}_contiguous_ascending_appends_of_the_block_of_each_height_parent_checked_result_lists_exactly_them", pre, T.and_(*goals) if goals else False)
        if k:
            S.witness(ctx, ob, f"{tag}_reach_all_appended", pre, T.or_(*[p.cond() for p in returns(ps) if len([1 for e in p.log if e[0] == "c10" and e[1] == "append"]) == k]))


OBLIGATIONS = [m1_freeze_threshold, m2_freeze_loop, m3_reads_switch_to_freezer, m4_frozen_block_decoding]

ENGINE = "M"
LEVEL = "other"
EXPLANATION = ("Shared::freeze (threshold computation) and the ChainStore readers' freezer branch are executed symbolically from their MIR with the store, snapshot and freezer "
               "calls as environment symbols; the threshold handed to the freezer and the condition/argument of every freezer read are compared with the rule stated in the property.")
BOUNDS = {"values": "all u64 heights/epochs, no bound", "outside": "RocksDB batches and iterators, wipe_out_frozen_data, the background thread and its stop flag, crash behaviour (file level: C09), Freezer::freeze loop body"}
ASSUMPTIONS = ["store/snapshot/freezer accessors are environment symbols (arbitrary values)", "frozen_number + MAX_FREEZE_LIMIT fits u64 and the epoch number is below 2^24 (its header field width); otherwise the real code panics on overflow"]
TRUSTED = []
LEVEL_TEXT = ("Decided by SMT over the real MIR: blocks are handed to the freezer only below min(last block of epoch current-2, frozen + per-run limit) and never during IBD or before "
              "epoch 3; block readers switch to the freezer exactly for 0 < number < frozen height and ask for that number. Invisibility of freezing to every query over histories, "
              "the wipe-out and crash clauses are outside and not claimed.")
LEVEL_NOTE = "Partial claim (threshold rule + read switch condition). RocksDB-level behaviour, wipe-out, crashes: outside (C09 covers the freezer files)."
TECHNIQUE = "symbolic execution of rustc MIR -> integer-theory SMT (cvc5 + z3) with environment symbols for store/freezer calls"
DESIGN_REF = "DESIGN.md section 4 (C10)"

# ---- extended claim (session 3)
LEVEL_TEXT = LEVEL_TEXT + " m4: the bytes read back from the freezer are decoded as a block in compatible mode (a frozen BlockV1 carries its extension as an extra field), get_block returns the view of that block and get_transaction_with_info the transaction at the recorded index together with the stored info."

# ---- extended claim (session 4)
LEVEL_TEXT = LEVEL_TEXT + ' m2: Freezer::freeze appends the heights from the frozen height up to the threshold contiguously and in order, each with the block fetched for that height, checks every parent hash against the previous tip, stops at the first missing block / stop flag / mismatch, and reports exactly the appended blocks.'
LEVEL_NOTE = LEVEL_NOTE + ' Freeze loop: up to 3 heights per call.'


def m5_wipe_out(S):
    """`Shared::wipe_out_frozen_data` -- what leaves the key-value store after a successful freeze: for every frozen main-chain block only its BODY is deleted (under its own
    number and hash; the header stays), every OTHER block recorded at a frozen height (a side-chain block, found through the number->hash rows of that height) is deleted
    completely with the number and transaction count of its own row, and nothing else is deleted; the body deletions are written (synced) before the side-chain deletions
    (one frozen block whose height holds the main block and two side-chain blocks; two frozen blocks with one side block; errors of the batch are returned)"""
    from mir2smt import symmap as SM
    from mir2smt.session_extra import extra_session
    ob = "C10.m5"
    f = [x for x in S.prog.funcs if x.kind == "fn" and x.short == "wipe_out_frozen_data" and "shared/src/shared.rs" in x.name and "{closure" not in x.name]
    if len(f) != 1:
        raise Inconclusive(f"wipe_out_frozen_data: {len(f)} candidates")
    scenarios = [("one_frozen_two_side", [("m0", 10)], {10: ["m0", "s0", "s1"]}), ("two_frozen_one_side", [("m0", 10), ("m1", 11)], {10: ["m0"], 11: ["s2", "m1"]}), ("nothing_frozen", [], {})]
    for name, frozen, rows in scenarios:
        ctx = S.ctx(unwind=12)
        ctx.uninterpreted_unknown_calls = True
        ctx.prune_with_solver = True
        ctx.max_paths = 4000
        stopped = ctx.bool("freezer_was_stopped")
        allh = sorted({h for hs in rows.values() for h in hs} | {h for h, _ in frozen})
        for i_ in range(len(allh)):
            for j_ in range(i_):
                ctx.add_side(T.ne(ctx.int("id!" + allh[i_], "u64").t, ctx.int("id!" + allh[j_], "u64").t))     # different blocks, different hashes

        def nmv(ex, v):
            v = deref(ex, v)
            if isinstance(v, IntV):
                return v.t if isinstance(v.t, int) else (v.t[2] if isinstance(v.t, tuple) and v.t[0] == "var" else str(v.t))
            if isinstance(v, AggV):
                return tuple(nmv(ex, x) for x in v.fields)
            return getattr(v, "name", None) or type(v).__name__

        def rec(tag, okname=None):
            def h(ex, c, a, d):
                ex.log.append(("c10w", tag, [nmv(ex, x) for x in a[1:]], list(ex.pc)))
                return mk_result(ex.ctx.bool(okname).t if okname else True, UNIT, OpaqueV("db_error", "Error"), d)
            return h

        def get_iter(ex, c, a, d):
            mode = deref(ex, a[2])
            # IteratorMode::From(prefix, Forward): prefix = bytes of the packed number
            pref = None
            for sub in (mode.payloads[0][1] if isinstance(mode, EnumV) and mode.payloads else (mode.fields if isinstance(mode, AggV) else ())):
                n_ = nmv(ex, sub)
                if isinstance(n_, str) and n_.startswith("bytes(u64:"):
                    pref = int(n_[len("bytes(u64:"):-1])
            if pref is None:
                raise Stop(f"get_iter with an unknown prefix {str(mode)[:120]}")
            ex.log.append(("c10w", "scan", [pref], list(ex.pc)))
            return E._owned([AggV((OpaqueV(f"k{pref}x{h_}", "Box<[u8]>"), OpaqueV(f"txcount({h_})", "Box<[u8]>")), "(Box<[u8]>, Box<[u8]>)") for h_ in rows.get(pref, [])]
                            + [AggV((OpaqueV(f"k{pref + 1}xother", "Box<[u8]>"), OpaqueV("txcount(other)", "Box<[u8]>")), "(Box<[u8]>, Box<[u8]>)")])

        def starts_with(ex, c, a, d):
            k, p_ = nmv(ex, a[0]), nmv(ex, a[1])
            if os.environ.get("VERIF_DEBUG"):
                print("DEBUG starts_with", k, p_)
            m_ = re.match(r"k(\d+)x", str(k))
            return BoolV(bool(m_) and p_ == f"bytes(u64:{m_.group(1)})")
        keyparts = lambda n_: re.match(r"reader\(k(\d+)x([A-Za-z0-9]+)", n_)
        ctx.env = list(E.LOGGING_OFF) + [
            (E.rx(r"ChainDB::new_write_batch$"), lambda ex, c, a, d: OpaqueV("batch", d)),
            (E.rx(r"StoreWriteBatch::delete_block_body$"), rec("delete_body", "batch_ok")),
            (E.rx(r"StoreWriteBatch::delete_block$"), rec("delete_block", "batch_ok")),
            (E.rx(r"StoreWriteBatch::clear$"), rec("clear")),
            (E.rx(r"ChainDB::write_sync$"), rec("write_sync", "write_ok")),
            (E.rx(r"ChainDB::write$"), rec("write", "write_ok")),
            (E.rx(r"Shared::compact_block_body$"), lambda ex, c, a, d: (ex.log.append(("c10w", "compact", [], list(ex.pc))), UNIT)[1]),
            (E.rx(r"<&u64 as Into<Uint64>>::into$"), lambda ex, c, a, d: OpaqueV("u64:" + str(nmv(ex, a[0])), d)),
            (E.rx(r"<&Uint64 as Into<u64>>::into$"), lambda ex, c, a, d: IntV(int(re.match(r"numfield\((\d+)\)", nmv(ex, a[0])).group(1)), "u64")),
            (E.rx(r"Uint64 as (ckb_types::prelude::)?Entity>::as_slice$"), lambda ex, c, a, d: OpaqueV("bytes(" + nmv(ex, a[0]) + ")", d)),
            (E.rx(r"ChainStore>::get_iter$"), get_iter),
            (E.rx(r"<impl \[u8\]>::starts_with$|<\[u8\]>::starts_with$"), starts_with),
            (E.rx(r"as AsRef<\[u8\]>>::as_ref$|as Deref>::deref$"), lambda ex, c, a, d: OpaqueV(nmv(ex, a[0]), d)),
            (E.rx(r"NumberHashReader<'_> as .*FromSliceShouldBeOk<'_>>::from_slice_should_be_ok$"), lambda ex, c, a, d: OpaqueV("reader(" + nmv(ex, a[0]) + ")", d)),
            (E.rx(r"NumberHashReader::<'_>::block_hash$"), lambda ex, c, a, d: OpaqueV(keyparts(nmv(ex, a[0])).group(2), d)),
            (E.rx(r"NumberHashReader::<'_>::number$"), lambda ex, c, a, d: OpaqueV("numfield(" + keyparts(nmv(ex, a[0])).group(1) + ")", d)),
            (E.rx(r"Reader<'_>>::to_entity$"), lambda ex, c, a, d: OpaqueV(nmv(ex, a[0]), d)),
            (E.rx(r"Uint32Reader<'_> as .*FromSliceShouldBeOk<'_>>::from_slice_should_be_ok$"), lambda ex, c, a, d: OpaqueV(nmv(ex, a[0]), d)),
            (E.rx(r"<Uint32Reader<'_> as Into<u32>>::into$"), lambda ex, c, a, d: ex.ctx.int(re.sub(r"[^A-Za-z0-9]", "_", nmv(ex, a[0])), "u32")),
            (E.rx(r"<&Byte32 as PartialEq>::ne$"), lambda ex, c, a, d: BoolV(T.ne(SM.key_term(ex, deref(ex, a[0])), SM.key_term(ex, deref(ex, a[1]))))),
            (E.rx(r" as Iterator>::(min|max)$"), lambda ex, c, a, d: mk_option(True, ex.ctx.ref_to(OpaqueV(c.split("::")[-1] + "_key", "Byte32")), d)),
        ] + SM.handlers(r"Byte32") + SM.EXTRAS + list(E.LIST_ADAPTORS)
        fr = SM.MapV(tuple((ctx.int("id!" + h_, "u64").t, ctx.ref_to(AggV((IntV(n_, "u64"), ctx.int("txs_" + h_, "u32")), "(u64, u32)")), OpaqueV(h_, "Byte32")) for h_, n_ in frozen), "BTreeMap<Byte32, (u64, u32)>")
        ps = S.run(ctx, f[0], [ctx.ref_to(OpaqueV("shared", "Shared")), ctx.ref_to(OpaqueV("snapshot", "Snapshot")), fr, stopped])
        S.prove(ctx, ob, f"{name}_no_panic", [], T.not_(cond_of(panics(ps))))
        side = [(h_, n_) for n_, hs in rows.items() for h_ in hs if h_ not in dict(frozen)]
        goals = []
        for p in returns(ps):
            evs = [(e[1], e[2]) for e in p.log if e[0] == "c10w"]
            bodies = [a_ for t, a_ in evs if t == "delete_body"]
            blocks = [a_ for t, a_ in evs if t == "delete_block"]
            v = p.value
            is_ok = isinstance(v, EnumV) and v.disc == 0
            ok = True
            want_bodies = [[n_, h_, "txs_" + h_] for h_, n_ in frozen]
            want_blocks = sorted([n_, h_, "txcount_" + h_ + "_"] for h_, n_ in side)
            if is_ok:
                ok = ok and sorted(bodies) == sorted(want_bodies) and sorted(blocks) == want_blocks
                tags = [t for t, _ in evs]
                if frozen:
                    ok = ok and "write_sync" in tags and (not blocks or tags.index("write_sync") < tags.index("delete_block"))
                if blocks:
                    ok = ok and "write" in tags and tags.index("write") > max(i for i, t in enumerate(tags) if t == "delete_block")
            else:
                # an error: only deletions from the expected sets were queued so far
                ok = ok and all(b_ in want_bodies for b_ in bodies) and all(b_ in want_blocks for b_ in blocks)
            if os.environ.get("VERIF_DEBUG") and not ok:
                print("DEBUG wipe", is_ok, bodies, blocks, want_bodies, want_blocks, [t for t, _ in evs])
            goals.append(T.implies(p.cond(), bool(ok)))
        S.prove(ctx, ob, f"{name}_frozen_blocks_lose_only_their_bodies_side_blocks_of_those_heights_are_deleted_whole_nothing_else", [], T.and_(*goals) if goals else False)
        okret = T.or_(*[p.cond() for p in returns(ps) if isinstance(p.value, EnumV) and p.value.disc == 0])
        S.prove(ctx, ob, f"{name}_succeeds_iff_every_batch_operation_and_write_succeeds", [], T.iff(okret, T.and_(ctx.bool("batch_ok").t, ctx.bool("write_ok").t)) if frozen else okret)


OBLIGATIONS = OBLIGATIONS + [m5_wipe_out]
