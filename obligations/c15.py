"""C15 — encodings round-trip and hashes commit to content.
Engine M: dataflow obligations on the hand-written hash and conversion code (which bytes feed which hash; JSON block
conversion keeps the extension). Engine K: molecule reader harnesses generated from the schema (canonical form of strictly
accepted inputs) for the types CBMC can finish (see kani/molecule/gen.py)."""
import json as _json, os, re
from mir2smt.ob import *
from mir2smt import terms as T
from mir2smt.exec import OpaqueV, IntV, BoolV, AggV, EnumV, RefV, UNIT, Stop, mk_option
from mir2smt import envlib as E
from mir2smt.builtins import deref

CRATES = ["ckb-constant", "ckb-occupied-capacity-core", "ckb-gen-types", "ckb-types", "ckb-jsonrpc-types"]


def nm(ex, v):
    v = deref(ex, v)
    return getattr(v, "name", None) or type(v).__name__


def hash_env(ctx):
    def update(ex, callee, args, dty):
        ex.log.append(("update", callee, [nm(ex, args[1])], list(ex.pc)))
        return UNIT

    def finalize(ex, callee, args, dty):
        ups = [e[2][0] for e in ex.log if e[0] == "update"]
        r = args[1]
        ex._write(r.frame, r.local, list(r.proj), OpaqueV("H(" + "|".join(ups) + ")", "[u8; 32]"))
        return UNIT

    return [
        (E.rx(r"new_blake2b"), lambda ex, c, a, d: OpaqueV("hasher", d)),
        (E.rx(r"Blake2b>?::update"), update),
        (E.rx(r"Blake2b>?::finalize"), finalize),
        (E.rx(r"blake2b_256"), lambda ex, c, a, d: OpaqueV("H(" + nm(ex, a[0]) + ")", d)),
        (E.rx(r"::as_slice$"), lambda ex, c, a, d: OpaqueV("slice." + nm(ex, a[0]), d)),
        (E.rx(r"::as_reader$"), lambda ex, c, a, d: OpaqueV("reader." + nm(ex, a[0]), d)),
        (E.rx(r"Reader(::<'_>)?(<'_>)?>?::raw$"), lambda ex, c, a, d: OpaqueV("raw." + nm(ex, a[0]), d)),
        (E.rx(r"as Into<.*Byte32>>::into$|Byte32 as From<\[u8; 32\]>>::from$"), lambda ex, c, a, d: OpaqueV(nm(ex, a[0]), d)),
        (E.rx(r"Byte32 as Clone>::clone"), lambda ex, c, a, d: deref(ex, a[0])),
    ]


def m1_extra_hash(S):
    ob = "C15.m1"
    ctx = S.ctx()
    ctx.env = hash_env(ctx)
    ctx.uninterpreted_unknown_calls = True
    fn = S.fn("ExtraHashView::new")
    for label, ext in (("with_extension", mk_option(True, OpaqueV("ext_hash", "Byte32"), "Option<Byte32>")), ("without_extension", mk_option(False, None, "Option<Byte32>"))):
        ps = S.run(ctx, fn, [OpaqueV("uncles_hash", "Byte32"), ext])
        rs = returns(ps)
        S.prove(ctx, ob, f"{label}_single_path_no_panic", [], bool(len(rs) == 1 and not panics(ps)))
        view = rs[0].value
        ps2 = S.run(ctx, "ExtraHashView::extra_hash", [ctx.ref_to(view)])
        out = returns(ps2)[0].value
        if label == "with_extension":
            ups = [e[2][0] for e in rs[0].log if e[0] == "update"]
            S.prove(ctx, ob, "extra_hash_binds_uncles_then_extension", [],
                    bool(ups == ["slice.uncles_hash", "slice.ext_hash"] and getattr(out, "name", "") == "H(slice.uncles_hash|slice.ext_hash)"))
            ps3 = S.run(ctx, "ExtraHashView::extension_hash", [ctx.ref_to(view)])
            eh = returns(ps3)[0].value
            S.prove(ctx, ob, "extension_hash_is_kept", [], bool(isinstance(eh, EnumV) and eh.disc == 1 and getattr(eh.payload(1)[0], "name", "") == "ext_hash"))
        else:
            S.prove(ctx, ob, "extra_hash_is_uncles_hash_without_extension", [], bool(getattr(out, "name", "") == "uncles_hash" and not [e for e in rs[0].log if e[0] == "update"]))
        ps4 = S.run(ctx, "ExtraHashView::uncles_hash", [ctx.ref_to(view)])
        S.prove(ctx, ob, f"{label}_uncles_hash_is_kept", [], bool(getattr(returns(ps4)[0].value, "name", "") == "uncles_hash"))


def _find_reader_fn(S, reader, name):
    c = [f for f in S.prog.by_short.get(name, []) if re.search(r"\b" + reader + r"\b", f.impl_header or "") and len(f.params) == 1]
    if len(c) != 1:
        raise Inconclusive(f"{reader}::{name}: {len(c)} candidates")
    return c[0]


def m2_hash_inputs(S):
    """which bytes each hash covers: tx hash = H(raw tx only) (witnesses excluded), witness hash = H(whole tx),
    header hash = H(whole header), pow hash = H(raw header)"""
    ob = "C15.m2"
    spec = [
        ("TransactionReader", "calc_tx_hash", "tx", "H(slice.raw.tx)"),
        ("TransactionReader", "calc_witness_hash", "tx", "H(slice.tx)"),
        ("RawTransactionReader", "calc_tx_hash", "rawtx", "H(slice.rawtx)"),
        ("HeaderReader", "calc_header_hash", "hdr", "H(slice.hdr)"),
        ("HeaderReader", "calc_pow_hash", "hdr", "H(slice.raw.hdr)"),
        ("RawHeaderReader", "calc_pow_hash", "rawhdr", "H(slice.rawhdr)"),
        ("ScriptReader", "calc_script_hash", "script", "H(slice.script)"),
    ]
    for reader, name, obj, expect in spec:
        ctx = S.ctx()
        ctx.env = hash_env(ctx)
        fn = _find_reader_fn(S, reader, name)
        ps = S.run(ctx, fn, [ctx.ref_to(OpaqueV(obj, reader))])
        rs = returns(ps)
        got = getattr(rs[0].value, "name", "?") if len(rs) == 1 else "?"
        S.prove(ctx, ob, f"{reader}_{name}_is_{re.sub(r'[^A-Za-z0-9]+', '_', expect)}", [], bool(got == expect and not panics(ps)))
    # entity variants delegate to the reader variants
    for ent, name in (("Transaction", "calc_tx_hash"), ("Transaction", "calc_witness_hash"), ("Header", "calc_header_hash")):
        ctx = S.ctx()
        calls = []
        ctx.env = [(E.rx(r"::as_reader$"), lambda ex, c, a, d: OpaqueV("reader." + nm(ex, a[0]), d)),
                   (E.rx(r"Reader(::<'_>)?(<'_>)?>?::" + name + "$"), lambda ex, c, a, d: (calls.append((c, nm(ex, a[0]))), OpaqueV("out", d))[1])]
        c = [f for f in S.prog.by_short.get(name, []) if re.search(r"impl packed::" + ent + r"\b|impl " + ent + r"\b", f.impl_header or "") and "Reader" not in (f.impl_header or "")]
        if len(c) != 1:
            # macro generated impls: header is the macro call site; fall back to type of the first parameter
            c = [f for f in S.prog.by_short.get(name, []) if f.params and f.params[0][1].split("::")[-1] == ent and f.params[0][1].startswith("&")]
        if len(c) != 1:
            raise Inconclusive(f"{ent}::{name}: {len(c)} candidates")
        ps = S.run(ctx, c[0], [ctx.ref_to(OpaqueV("ent", ent))])
        S.prove(ctx, ob, f"{ent}_{name}_delegates_to_reader", [], bool(len(calls) == 1 and calls[0][1] == "reader.ent" and ent + "Reader" in calls[0][0]))


def m3_json_block_extension(S):
    """JSON -> packed block: an extension that is present (even empty) yields a BlockV1 carrying it; absent -> plain Block"""
    ob = "C15.m3"
    for label, ext in (("some", mk_option(True, OpaqueV("json_ext", "JsonBytes"), "Option<JsonBytes>")), ("none", mk_option(False, None, "Option<JsonBytes>"))):
        ctx = S.ctx()
        ctx.uninterpreted_unknown_calls = True
        sets = []

        def setter(ex, callee, args, dty, sets=sets):
            f = re.sub(r"::<.*$", "", callee)
            sets.append((f.split("::")[-2], f.split("::")[-1], nm(ex, args[1])))
            return args[0]
        ctx.env = [
            (E.rx(r"Block(V1)?Builder::(header|uncles|transactions|proposals|extension)(::<.*>)?$"), setter),
            (E.rx(r"::new_builder$"), lambda ex, c, a, d: OpaqueV("builder", d)),
            (E.rx(r"Builder>?::build$"), lambda ex, c, a, d: OpaqueV("built." + nm(ex, a[0]), d)),
            (E.rx(r"as IntoIterator>::into_iter|as Iterator>::(map|collect)"), lambda ex, c, a, d: OpaqueV("iter(" + nm(ex, a[0]) + ")", d)),
            (E.rx(r"as From<.*>>::from$|as Into<.*>>::into$"), lambda ex, c, a, d: OpaqueV("conv(" + nm(ex, a[0]) + ")", d)),
        ]
        cands = [f for f in S.prog.by_short.get("from", []) if re.search(r"From<Block> for packed::Block", f.impl_header or "")]
        if len(cands) != 1:
            raise Inconclusive(f"From<Block> for packed::Block: {len(cands)} candidates")
        jb = AggV((OpaqueV("json_header", "Header"), OpaqueV("json_uncles", "Vec<UncleBlock>"), OpaqueV("json_txs", "Vec<Transaction>"),
                   OpaqueV("json_proposals", "Vec<ProposalShortId>"), ext), "Block")
        ps = S.run(ctx, cands[0], [jb])
        S.prove(ctx, ob, f"{label}_no_panic_single_path", [], bool(len(returns(ps)) == 1 and not panics(ps)))
        kinds = {b for b, _, _ in sets}
        if label == "some":
            extsets = [v for b, f, v in sets if f == "extension"]
            S.prove(ctx, ob, "present_extension_yields_v1_block_carrying_it", [],
                    bool(kinds == {"BlockV1Builder"} and len(extsets) == 1 and "json_ext" in extsets[0]))
        else:
            S.prove(ctx, ob, "absent_extension_yields_plain_block", [], bool(kinds == {"BlockBuilder"} and not [1 for b, f, v in sets if f == "extension"]))
        flows = {f: v for b, f, v in sets}
        S.prove(ctx, ob, f"{label}_fields_flow_from_same_named_json_fields", [],
                bool("json_header" in flows.get("header", "") and "json_uncles" in flows.get("uncles", "") and "json_txs" in flows.get("transactions", "")
                     and "json_proposals" in flows.get("proposals", "")))


def m4_molecule_strict_is_canonical(S):
    """every dynamic schema type: strict decoding accepts exactly the canonical encodings (one level per type, nested types as
    predicates: assume-guarantee over the acyclic schema); fixed-size types: exactly their size, getters at their offsets"""
    from obligations import molecule_m as MM
    MM.set_tier(S)
    ob = "C15.m4"
    for t in MM.dynamic_types():
        MM.strict_and_compat(S, ob, t, 5)
    for t in MM.fixed_types():
        MM.fixed_type(S, ob, t)


def m5_molecule_builders_write_canonical_layout(S):
    """encode side: every generated builder writes the canonical layout of its fields' bytes (total size, offsets derived from the
    field lengths, fields back to back in schema order; vectors with 0..2 items; every union arm; option none/some)"""
    from obligations import molecule_m as MM
    ob = "C15.m5"
    for t in MM.ORDER:
        MM.builder_layout(S, ob, t)


OBLIGATIONS = [m1_extra_hash, m2_hash_inputs, m3_json_block_extension, m4_molecule_strict_is_canonical, m5_molecule_builders_write_canonical_layout]

_P = os.path.join(os.path.dirname(__file__), "..", "kani", "molecule", "gen_molecule.json")
_OKFILE = os.path.join(os.path.dirname(__file__), "..", "kani", "molecule", "feasible.json")
_L = _json.load(open(_P)) if os.path.exists(_P) else []
_FEAS = set(_json.load(open(_OKFILE))) if os.path.exists(_OKFILE) else set()
KANI = []
for e in _L:
    if e["kind"] != "can" or e["harness"] not in _FEAS:
        continue
    KANI.append({"id": "C15.k2:" + e["type"], "crate": "molecule", "harness": e["harness"], "tiers": ("quick", "thorough") if e["tier"] == "quick" else ("thorough",),
                 "bound": f"every byte string of length <= {e['n']} (minimal valid encoding: {e['min_valid']} bytes); vector items checked: first 2",
                 "functions": [f"util/gen-types/src/generated::{e['type']}Reader::{{verify,from_slice,from_compatible_slice,accessors}}"], "timeout_quick": 600, "timeout_thorough": 1800, "mem_gb": 16})
KANI_FEATURES = {"thorough": ("thorough",)}

ENGINE = "M+K"
LEVEL = "other"
EXPLANATION = ("Hash commitments as dataflow facts over the real MIR (which byte string feeds which hash), the JSON->packed block conversion's handling of the "
               "extension, and canonical-form harnesses over the generated molecule readers for the schema types CBMC can finish.")
BOUNDS = {"M": "dataflow obligations: no numeric bound. Molecule obligations (m4): byte slices of ANY length; every type of the three schema files; per table at most 1 extra field, per dynamic vector at most 2 items (inputs beyond are excluded by the `out` condition)",
          "K": "byte strings up to the per-type buffer length written in each harness bound; only types listed in kani/molecule/feasible.json",
          "outside": "collision resistance; serde_json text layer; byte-level content equality of the round trip (decided at the layout level: builders write the canonical layout, strict decoding accepts exactly canonical layouts and getters return the field ranges)"}
ASSUMPTIONS = ["blake2b is an opaque function of the sequence of its update() arguments", "as_slice/as_reader/raw accessors are environment symbols named by their receiver"]
TRUSTED = []
LEVEL_TEXT = ("Decides (a) the commitment structure of tx/witness/header/pow/script/extra hashes, (b) extension handling of the JSON block conversion and (c) for every molecule schema type that "
              "strict decoding accepts exactly the canonical encodings (SMT over the MIR of the generated verify functions, modular over the schema) ; (d) Kani harnesses for five small types. "
              "(e) every generated builder writes the canonical layout of its fields (encode side). The JSON text layer is outside.")
LEVEL_NOTE = "Round trip decided at the layout level for all schema types within stated count bounds (<=1 extra field, <=2 vector items, field lengths < 2^28); JSON text and collision resistance not covered."
TECHNIQUE = "symbolic execution of rustc MIR (dataflow) -> SMT, plus Kani/CBMC harnesses generated from the molecule schema"
