"""C15 — encodings round-trip and hashes commit to content.
Engine M: dataflow obligations on the hand-written hash and conversion code (which bytes feed which hash; JSON block
conversion keeps the extension). Engine K: molecule reader harnesses generated from the schema (canonical form of strictly
accepted inputs) for the types CBMC can finish (see kani/molecule/gen.py)."""
import json as _json, os, re
from mir2smt.ob import *
from mir2smt import terms as T
from mir2smt.exec import OpaqueV, IntV, BoolV, AggV, EnumV, RefV, UNIT, Stop, mk_option, mk_result
from mir2smt import envlib as E
from mir2smt.builtins import deref

CRATES = ["ckb-constant", "ckb-occupied-capacity-core", "ckb-gen-types", "ckb-types", "ckb-jsonrpc-types"]


def nm(ex, v):
    v = deref(ex, v)
    return getattr(v, "name", None) or type(v).__name__


def hash_env(ctx):
    def update(ex, callee, args, dty):
        ex.log.append(("update", callee, [nm(ex, args[1])], list(ex.pc)))
        return UNIT

    def finalize(ex, callee, args, dty):
        ups = [e[2][0] for e in ex.log if e[0] == "update"]
        r = args[1]
        ex._write(r.frame, r.local, list(r.proj), OpaqueV("H(" + "|".join(ups) + ")", "[u8; 32]"))
        return UNIT

    return [
        (E.rx(r"new_blake2b"), lambda ex, c, a, d: OpaqueV("hasher", d)),
        (E.rx(r"Blake2b>?::update"), update),
        (E.rx(r"Blake2b>?::finalize"), finalize),
        (E.rx(r"blake2b_256"), lambda ex, c, a, d: OpaqueV("H(" + nm(ex, a[0]) + ")", d)),
        (E.rx(r"::as_slice$"), lambda ex, c, a, d: OpaqueV("slice." + nm(ex, a[0]), d)),
        (E.rx(r"::as_reader$"), lambda ex, c, a, d: OpaqueV("reader." + nm(ex, a[0]), d)),
        (E.rx(r"Reader(::<'_>)?(<'_>)?>?::raw$"), lambda ex, c, a, d: OpaqueV("raw." + nm(ex, a[0]), d)),
        (E.rx(r"as Into<.*Byte32>>::into$|Byte32 as From<\[u8; 32\]>>::from$"), lambda ex, c, a, d: OpaqueV(nm(ex, a[0]), d)),
        (E.rx(r"Byte32 as Clone>::clone"), lambda ex, c, a, d: deref(ex, a[0])),
    ]


def m1_extra_hash(S):
    ob = "C15.m1"
    ctx = S.ctx()
    ctx.env = hash_env(ctx)
    ctx.uninterpreted_unknown_calls = True
    fn = S.fn("ExtraHashView::new")
    for label, ext in (("with_extension", mk_option(True, OpaqueV("ext_hash", "Byte32"), "Option<Byte32>")), ("without_extension", mk_option(False, None, "Option<Byte32>"))):
        ps = S.run(ctx, fn, [OpaqueV("uncles_hash", "Byte32"), ext])
        rs = returns(ps)
        S.prove(ctx, ob, f"{label}_single_path_no_panic", [], bool(len(rs) == 1 and not panics(ps)))
        view = rs[0].value
        ps2 = S.run(ctx, "ExtraHashView::extra_hash", [ctx.ref_to(view)])
        out = returns(ps2)[0].value
        if label == "with_extension":
            ups = [e[2][0] for e in rs[0].log if e[0] == "update"]
            S.prove(ctx, ob, "extra_hash_binds_uncles_then_extension", [],
                    bool(ups == ["slice.uncles_hash", "slice.ext_hash"] and getattr(out, "name", "") == "H(slice.uncles_hash|slice.ext_hash)"))
            ps3 = S.run(ctx, "ExtraHashView::extension_hash", [ctx.ref_to(view)])
            eh = returns(ps3)[0].value
            S.prove(ctx, ob, "extension_hash_is_kept", [], bool(isinstance(eh, EnumV) and eh.disc == 1 and getattr(eh.payload(1)[0], "name", "") == "ext_hash"))
        else:
            S.prove(ctx, ob, "extra_hash_is_uncles_hash_without_extension", [], bool(getattr(out, "name", "") == "uncles_hash" and not [e for e in rs[0].log if e[0] == "update"]))
        ps4 = S.run(ctx, "ExtraHashView::uncles_hash", [ctx.ref_to(view)])
        S.prove(ctx, ob, f"{label}_uncles_hash_is_kept", [], bool(getattr(returns(ps4)[0].value, "name", "") == "uncles_hash"))


def _find_reader_fn(S, reader, name):
    c = [f for f in S.prog.by_short.get(name, []) if re.search(r"\b" + reader + r"\b", f.impl_header or "") and len(f.params) == 1]
    if len(c) != 1:
        raise Inconclusive(f"{reader}::{name}: {len(c)} candidates")
    return c[0]


def m2_hash_inputs(S):
    """which bytes each hash covers: tx hash = H(raw tx only) (witnesses excluded), witness hash = H(whole tx),
    header hash = H(whole header), pow hash = H(raw header)"""
    ob = "C15.m2"
    spec = [
        ("TransactionReader", "calc_tx_hash", "tx", "H(slice.raw.tx)"),
        ("TransactionReader", "calc_witness_hash", "tx", "H(slice.tx)"),
        ("RawTransactionReader", "calc_tx_hash", "rawtx", "H(slice.rawtx)"),
        ("HeaderReader", "calc_header_hash", "hdr", "H(slice.hdr)"),
        ("HeaderReader", "calc_pow_hash", "hdr", "H(slice.raw.hdr)"),
        ("RawHeaderReader", "calc_pow_hash", "rawhdr", "H(slice.rawhdr)"),
        ("ScriptReader", "calc_script_hash", "script", "H(slice.script)"),
    ]
    for reader, name, obj, expect in spec:
        ctx = S.ctx()
        ctx.env = hash_env(ctx)
        fn = _find_reader_fn(S, reader, name)
        ps = S.run(ctx, fn, [ctx.ref_to(OpaqueV(obj, reader))])
        rs = returns(ps)
        got = getattr(rs[0].value, "name", "?") if len(rs) == 1 else "?"
        S.prove(ctx, ob, f"{reader}_{name}_is_{re.sub(r'[^A-Za-z0-9]+', '_', expect)}", [], bool(got == expect and not panics(ps)))
    # entity variants delegate to the reader variants
    for ent, name in (("Transaction", "calc_tx_hash"), ("Transaction", "calc_witness_hash"), ("Header", "calc_header_hash")):
        ctx = S.ctx()
        calls = []
        ctx.env = [(E.rx(r"::as_reader$"), lambda ex, c, a, d: OpaqueV("reader." + nm(ex, a[0]), d)),
                   (E.rx(r"Reader(::<'_>)?(<'_>)?>?::" + name + "$"), lambda ex, c, a, d: (calls.append((c, nm(ex, a[0]))), OpaqueV("out", d))[1])]
        c = [f for f in S.prog.by_short.get(name, []) if re.search(r"impl packed::" + ent + r"\b|impl " + ent + r"\b", f.impl_header or "") and "Reader" not in (f.impl_header or "")]
        if len(c) != 1:
            # macro generated impls: header is the macro call site; fall back to type of the first parameter
            c = [f for f in S.prog.by_short.get(name, []) if f.params and f.params[0][1].split("::")[-1] == ent and f.params[0][1].startswith("&")]
        if len(c) != 1:
            raise Inconclusive(f"{ent}::{name}: {len(c)} candidates")
        ps = S.run(ctx, c[0], [ctx.ref_to(OpaqueV("ent", ent))])
        S.prove(ctx, ob, f"{ent}_{name}_delegates_to_reader", [], bool(len(calls) == 1 and calls[0][1] == "reader.ent" and ent + "Reader" in calls[0][0]))


def m3_json_block_extension(S):
    """JSON -> packed block: an extension that is present (even empty) yields a BlockV1 carrying it; absent -> plain Block"""
    ob = "C15.m3"
    for label, ext in (("some", mk_option(True, OpaqueV("json_ext", "JsonBytes"), "Option<JsonBytes>")), ("none", mk_option(False, None, "Option<JsonBytes>"))):
        ctx = S.ctx()
        ctx.uninterpreted_unknown_calls = True
        sets = []

        def setter(ex, callee, args, dty, sets=sets):
            f = re.sub(r"::<.*$", "", callee)
            sets.append((f.split("::")[-2], f.split("::")[-1], nm(ex, args[1])))
            return args[0]
        ctx.env = [
            (E.rx(r"Block(V1)?Builder::(header|uncles|transactions|proposals|extension)(::<.*>)?$"), setter),
            (E.rx(r"::new_builder$"), lambda ex, c, a, d: OpaqueV("builder", d)),
            (E.rx(r"Builder>?::build$"), lambda ex, c, a, d: OpaqueV("built." + nm(ex, a[0]), d)),
            (E.rx(r"as IntoIterator>::into_iter|as Iterator>::(map|collect)"), lambda ex, c, a, d: OpaqueV("iter(" + nm(ex, a[0]) + ")", d)),
            (E.rx(r"as From<.*>>::from$|as Into<.*>>::into$"), lambda ex, c, a, d: OpaqueV("conv(" + nm(ex, a[0]) + ")", d)),
        ]
        cands = [f for f in S.prog.by_short.get("from", []) if re.search(r"From<Block> for packed::Block", f.impl_header or "")]
        if len(cands) != 1:
            raise Inconclusive(f"From<Block> for packed::Block: {len(cands)} candidates")
        jb = AggV((OpaqueV("json_header", "Header"), OpaqueV("json_uncles", "Vec<UncleBlock>"), OpaqueV("json_txs", "Vec<Transaction>"),
                   OpaqueV("json_proposals", "Vec<ProposalShortId>"), ext), "Block")
        ps = S.run(ctx, cands[0], [jb])
        S.prove(ctx, ob, f"{label}_no_panic_single_path", [], bool(len(returns(ps)) == 1 and not panics(ps)))
        kinds = {b for b, _, _ in sets}
        if label == "some":
            extsets = [v for b, f, v in sets if f == "extension"]
            S.prove(ctx, ob, "present_extension_yields_v1_block_carrying_it", [],
                    bool(kinds == {"BlockV1Builder"} and len(extsets) == 1 and "json_ext" in extsets[0]))
        else:
            S.prove(ctx, ob, "absent_extension_yields_plain_block", [], bool(kinds == {"BlockBuilder"} and not [1 for b, f, v in sets if f == "extension"]))
        flows = {f: v for b, f, v in sets}
        S.prove(ctx, ob, f"{label}_fields_flow_from_same_named_json_fields", [],
                bool("json_header" in flows.get("header", "") and "json_uncles" in flows.get("uncles", "") and "json_txs" in flows.get("transactions", "")
                     and "json_proposals" in flows.get("proposals", "")))


def m4_molecule_strict_is_canonical(S):
    """every dynamic schema type: strict decoding accepts exactly the canonical encodings (one level per type, nested types as
    predicates: assume-guarantee over the acyclic schema); fixed-size types: exactly their size, getters at their offsets"""
    from obligations import molecule_m as MM
    MM.set_tier(S)
    ob = "C15.m4"
    for t in MM.dynamic_types():
        MM.strict_and_compat(S, ob, t, 5)
    for t in MM.fixed_types():
        MM.fixed_type(S, ob, t)


def m5_molecule_builders_write_canonical_layout(S):
    """encode side: every generated builder writes the canonical layout of its fields' bytes (total size, offsets derived from the
    field lengths, fields back to back in schema order; vectors with 0..2 items; every union arm; option none/some)"""
    from obligations import molecule_m as MM
    ob = "C15.m5"
    for t in MM.ORDER:
        MM.builder_layout(S, ob, t)


# ---------------------------------------------------------------- m6: JSON <-> packed field wiring
_J = "util/jsonrpc-types/src/blockchain.rs"
# independent specification: which JSON field feeds which builder setter (json -> packed) and which packed getter path feeds which JSON
# field (packed -> json).  `raw.` marks fields of the nested Raw* table.
_JSON_SPEC = {
    "Script": {"": ["code_hash", "hash_type", "args"]},
    "CellOutput": {"": ["capacity", "lock", "type_"]},
    "OutPoint": {"": ["tx_hash", "index"]},
    "CellInput": {"": ["since", "previous_output"]},
    "CellDep": {"": ["out_point", "dep_type"]},
    "Transaction": {"raw": ["version", "cell_deps", "header_deps", "inputs", "outputs", "outputs_data"], "": ["witnesses"]},
    "Header": {"raw": ["version", "compact_target", "timestamp", "number", "epoch", "parent_hash", "transactions_root", "proposals_hash", "extra_hash", "dao"], "": ["nonce"]},
    "UncleBlock": {"": ["header", "proposals"]},
    "Block": {"": ["header", "uncles", "transactions", "proposals", "extension"]},
}
_OPTION_FIELDS = {("CellOutput", "type_"), ("Block", "extension")}


def _leaves(ex, v, depth=0):
    """provenance leaves (JF<k>x = JSON field k, PG<k>x = packed getter k) occurring in a value"""
    v = deref(ex, v) if ex is not None else v
    out = set()
    if isinstance(v, OpaqueV):
        out |= set(re.findall(r"(?:JF|PG)\d+x", v.name))
    elif isinstance(v, (IntV, BoolV)):
        out |= set(re.findall(r"(?:JF|PG)\d+x", repr(v.t)))
    elif isinstance(v, AggV):
        for f in v.fields:
            if depth < 6:
                out |= _leaves(ex, f, depth + 1)
    elif isinstance(v, EnumV):
        out |= set(re.findall(r"(?:JF|PG)\d+x", repr(v.disc)))
        for _, fs in v.payloads:
            for f in fs:
                if depth < 6:
                    out |= _leaves(ex, f, depth + 1)
    else:
        items = getattr(v, "items", None)
        if items is not None and depth < 6:
            for f in items:
                out |= _leaves(ex, f, depth + 1)
    return out


def _conv(ex, c, a, d):
    ls = set()
    for x in a:
        ls |= _leaves(ex, x)
    ex.ctx.counter += 1
    return OpaqueV("conv%d_" % ex.ctx.counter + "_".join(sorted(ls)), d)


def _find_from(S, hdr):
    c = [f for f in S.prog.by_short.get("from", []) if "jsonrpc-types/src/blockchain.rs" in f.name and (f.impl_header or "") == hdr]
    if len(c) != 1:
        raise Inconclusive(f"{hdr}: {len(c)} candidates")
    return c[0]


def m6_json_field_wiring(S):
    """packed -> JSON -> packed at the field-wiring level, for every JSON blockchain struct with both conversions: each JSON field is computed from
    the same-named packed getter only, each builder setter receives the same-named JSON field only, every schema field is set exactly once (no field
    left at the builder default), no path panics except the documented `expect(\"checked data\")` on an invalid enum byte; the enum conversions
    (hash type, dep type) compose to the identity"""
    from mir2smt.srcinfo import struct_fields
    ob = "C15.m6"
    for ty, spec in _JSON_SPEC.items():
        fields = struct_fields(_J, ty)
        want = [f for grp in spec.values() for f in grp]
        S.prove(S.ctx(), ob, f"{ty}_spec_lists_every_json_field", [], bool(sorted(fields) == sorted(want)), extra={"note": f"{fields} vs {want}"})
        # ---------------- json -> packed
        optf = [f for f in fields if (ty, f) in _OPTION_FIELDS]
        for variant in ([("some", True), ("none", False)] if optf else [("", None)]):
            label, present = variant
            ctx = S.ctx()
            ctx.uninterpreted_unknown_calls = True
            sets = []

            def setter(ex, callee, args, dty, sets=sets):
                f = re.sub(r"::<.*$", "", callee)
                sets.append((f.split("::")[-2], f.split("::")[-1], _leaves(ex, args[1]), list(ex.pc)))
                return OpaqueV(nm(ex, args[0]), dty)

            def build(ex, c, a, d):
                b = nm(ex, a[0])
                ls = set()
                for bb, f, l, _ in sets:
                    if bb == b.split("::")[-1]:
                        ls |= l
                ex.ctx.counter += 1
                return OpaqueV("built%d_%s_" % (ex.ctx.counter, b.split("::")[-1]) + "_".join(sorted(ls)), d)
            ctx.env = [
                (E.rx(r"Builder::\w+(::<.*>)?$"), setter),
                (E.rx(r"::new_builder$"), lambda ex, c, a, d: OpaqueV(d, d)),
                (E.rx(r"Builder>?::build$"), build),
                (E.rx(r"as From<.*>>::from$|as Into<.*>>::into$|JsonBytes::into_bytes$|as Pack<.*>>::pack$|as Iterator>::|as IntoIterator>::|::iter$|::value$"), _conv),
            ]
            vals = []
            for k, f in enumerate(fields):
                leaf = OpaqueV(f"JF{k}x", "?")
                vals.append(mk_option(present, leaf if present else None, "Option<?>") if f in optf else leaf)
            ps = S.run(ctx, _find_from(S, f"impl From<{ty}> for packed::{ty}"), [AggV(tuple(vals), ty)])
            tag = f"{ty}_to_packed" + (f"_{label}" if label else "")
            S.prove(ctx, ob, f"{tag}_single_path_no_panic", [], bool(len(returns(ps)) == 1 and not panics(ps)))
            for grp, names in spec.items():
                for f in names:
                    k = fields.index(f)
                    if f in optf and not present:
                        continue
                    if ty == "Block" and f == "extension":
                        got = [l for b, s, l, _ in sets if s == "extension"]
                    elif f in optf:
                        # Option field: goes through the <X>OptBuilder::set and then the same-named setter
                        got = [l for b, s, l, _ in sets if s == f and not b.endswith("OptBuilder")]
                    else:
                        got = [l for b, s, l, _ in sets if s == f and (b.startswith("Raw") == (grp == "raw"))]
                    S.prove(ctx, ob, f"{tag}_setter_{f}_receives_json_{f}_only", [], bool(len(got) == 1 and got[0] == {f"JF{k}x"}), extra={"note": str(got)})
            # nothing else is set, the outer builder receives the built raw part
            extra_sets = [(b, s) for b, s, l, _ in sets if s not in want + ["raw", "set"]]
            S.prove(ctx, ob, f"{tag}_no_other_setter", [], bool(not extra_sets), extra={"note": str(extra_sets)})
            if "raw" in spec:
                rawset = [l for b, s, l, _ in sets if s == "raw"]
                S.prove(ctx, ob, f"{tag}_raw_part_is_the_built_raw_builder", [],
                        bool(len(rawset) == 1 and rawset[0] == {f"JF{fields.index(f)}x" for f in spec["raw"]}), extra={"note": str(rawset)})
        # ---------------- packed -> json
        ctx = S.ctx()
        ctx.uninterpreted_unknown_calls = True
        getters = {}

        def getter(ex, callee, args, dty, getters=getters):
            base = deref(ex, args[0])
            bname = getattr(base, "name", "?")
            g = re.sub(r"::<[^<>]*>$", "", callee).split("::")[-1]
            path = (getters[bname][0] + "." if bname in getters else "") + g
            name = f"PG{len(getters)}x"
            for n, (pth, _) in getters.items():
                if pth == path:
                    name = n
            getters[name] = (path, None)
            if dty.strip() in ("bool", "usize", "u8", "u32", "u64"):
                return ex.ctx.fresh_of_type(name + "_" + g, dty)
            return OpaqueV(name, dty)

        def to_opt(ex, c, a, d):
            base = deref(ex, a[0])
            return mk_option(ex.ctx.bool("present_" + getattr(base, "name", "x")).t, OpaqueV(getattr(base, "name", "x"), "?"), d)
        ctx.env = [
            (E.rx(r"(^|::)(Raw)?(Script|CellOutput|OutPoint|CellInput|CellDep|Transaction|Header|UncleBlock|Block)::(?!to_opt|as_|new_|default)\w+$|::extension$"), getter),
            (E.rx(r"::to_opt$"), to_opt),
            (E.rx(r"as TryFrom<.*>>::try_from$"), lambda ex, c, a, d: mk_result(ex.ctx.bool("enum_byte_valid").t, _conv(ex, c, a, "?"), OpaqueV("err", "?"), d)),
            (E.rx(r"as From<.*>>::from$|as Into<.*>>::into$|JsonBytes::from_vec$|JsonBytes::from_bytes$|as Unpack<.*>>::unpack$|as Iterator>::|as IntoIterator>::|::iter$|closure"), _conv),
        ]
        ps = S.run(ctx, _find_from(S, f"impl From<packed::{ty}> for {ty}"), [OpaqueV("PGroot", "packed::" + ty)])
        getters_by_path = {pth: n for n, (pth, _) in getters.items()}
        if os.environ.get("VERIF_DEBUG"):
            print("DEBUG", ty, getters_by_path, [[sorted(_leaves(None, x)) for x in getattr(p.value, "fields", [])] for p in returns(ps)][:2])
        rs = returns(ps)
        tag = f"{ty}_to_json"
        valid = [T.var("enum_byte_valid")] if "enum_byte_valid" in ctx.decls else []
        S.prove(ctx, ob, f"{tag}_panics_only_on_invalid_enum_byte", valid, T.not_(cond_of(panics(ps))))
        S.prove(ctx, ob, f"{tag}_returns", [], bool(len(rs) >= 1))
        for grp, names in spec.items():
            for f in names:
                k = fields.index(f)
                src = getters_by_path.get(("raw." if grp == "raw" else "") + f)
                oks = []
                for p in rs:
                    v = p.value
                    fv = v.fields[k] if isinstance(v, AggV) and len(v.fields) == len(fields) else None
                    ls = _leaves(None, fv) if fv is not None else None
                    if fv is not None and (ty, f) in _OPTION_FIELDS and isinstance(fv, EnumV) and fv.disc == 0:
                        oks.append(True)      # None arm: decided by presence of the packed option only
                        continue
                    oks.append(src is not None and ls == {src})
                S.prove(ctx, ob, f"{tag}_field_{f}_comes_from_packed_{f}_only", [], bool(oks and all(oks)), extra={"note": f"getter={src} paths={len(rs)}"})
    # ---------------- enum conversions: json <-> core compose to the identity
    for ety, discs in (("ScriptHashType", [0, 1] + [n << 1 for n in range(1, 128)]), ("DepType", [0, 1])):
        f1 = _find_from(S, f"impl From<{ety}> for core::{ety}")
        f2 = _find_from(S, f"impl From<core::{ety}> for {ety}")
        bad = []
        for a_, b_, lab in ((f1, f2, "json_core_json"), (f2, f1, "core_json_core")):
            for d in discs:
                ctx = S.ctx()
                ps = S.run(ctx, a_, [EnumV(d, (), "?")])
                r1 = returns(ps)
                if len(r1) != 1 or panics(ps) or not isinstance(r1[0].value, EnumV) or r1[0].value.disc != d:
                    bad.append((lab, d, "first"))
                    continue
                ps2 = S.run(ctx, b_, [r1[0].value])
                r2 = returns(ps2)
                if not (len(r2) == 1 and not panics(ps2) and isinstance(r2[0].value, EnumV) and r2[0].value.disc == d):
                    bad.append((lab, d, "second"))
        if os.environ.get("VERIF_DEBUG"):
            print("DEBUG", ety, bad[:6])
        S.prove(S.ctx(), ob, f"{ety}_json_core_conversions_keep_the_discriminant_for_all_{len(discs)}_values", [], bool(not bad), extra={"note": str(bad[:5])})


# ---------------------------------------------------------------- m7: cached hashes of views and header commitments
def _nmx(ex, v):
    v = deref(ex, v)
    if isinstance(v, AggV):
        return "[" + ",".join(_nmx(ex, f) for f in v.fields) + "]"
    items = getattr(v, "items", None)
    if items is not None:
        return "[" + ",".join(_nmx(ex, f) for f in items) + "]"
    return getattr(v, "name", None) or type(v).__name__


def _call(tag):
    return lambda ex, c, a, d: OpaqueV(tag + "(" + ",".join(_nmx(ex, x) for x in a) + ")", d)


def _by_impl(S, short, impl_rx, nparams=None):
    c = [f for f in S.prog.by_short.get(short, []) if re.search(impl_rx, f.impl_header or "") and (nparams is None or len(f.params) == nparams)]
    if len(c) != 1:
        raise Inconclusive(f"{short} [{impl_rx}]: {len(c)} candidates")
    return c[0]


def m7_view_hashes_and_roots(S):
    """cached hashes in views equal recomputation, and the header commitments bind what the statement says: `into_view` of transaction / header / uncle stores the entity
    itself together with calc_tx_hash / calc_witness_hash / calc_header_hash of that same entity; the block view's hash is the header hash of the block it stores;
    `reset_header_with_hashes` writes transactions_root = merkle_root([merkle_root(tx hashes), merkle_root(witness hashes)]) (that order), proposals_hash and extra_hash of this
    block; `BlockView::calc_transactions_root / calc_witnesses_root`; extra hash = ExtraHashView(uncles hash, extension hash); uncles hash = H(header hashes in order), zero
    when empty; proposals hash = H(ids in order), zero when empty"""
    ob = "C15.m7"
    base_env = [
        (E.rx(r"::calc_tx_hash$"), _call("txhash")),
        (E.rx(r"::calc_witness_hash$"), _call("whash")),
        (E.rx(r"::calc_header_hash$"), _call("hhash")),
        (E.rx(r"::as_reader$"), lambda ex, c, a, d: OpaqueV(_nmx(ex, a[0]), d)),
        (E.rx(r"(^|::)merkle_root$"), _call("MR")),
    ]
    # --- into_view of transaction / header / uncle
    for ent, impl, want in (("Transaction", r"IntoTransactionView for packed::Transaction", ["tx", "txhash(tx)", "whash(tx)"]),
                            ("Header", r"IntoHeaderView for packed::Header", ["hdr", "hhash(hdr)"]),
                            ("UncleBlock", r"IntoUncleBlockView for packed::UncleBlock", ["uncle", "hhash(uncle)"])):
        ctx = S.ctx()
        ctx.env = list(base_env)
        ps = S.run(ctx, _by_impl(S, "into_view", impl), [OpaqueV(want[0], ent)])
        rs = returns(ps)
        got = [_nmx(None, f) for f in rs[0].value.fields] if len(rs) == 1 and isinstance(rs[0].value, AggV) else None
        S.prove(ctx, ob, f"{ent}_into_view_stores_the_entity_and_its_own_hashes", [], bool(got == want and not panics(ps)), extra={"note": str(got)})
    # --- block view: hash is the header hash of the stored block, uncle hashes from the stored block's uncles
    ctx = S.ctx()
    ctx.uninterpreted_unknown_calls = True
    ctx.env = list(base_env) + [(E.rx(r"Reader(::<'_>)?(<'_>)?::uncles$"), _call("uncles")), (E.rx(r"as Iterator>::|as IntoIterator>::|::iter$|as From<.*>>::from$|as Into<.*>>::into$"), _call("it"))]
    ps = S.run(ctx, _by_impl(S, "block_into_view_internal", r"IntoBlockView for packed::Block"), [OpaqueV("blk", "Block"), OpaqueV("txh", "Vec<Byte32>"), OpaqueV("twh", "Vec<Byte32>")])
    rs = returns(ps)
    got = [_nmx(None, f) for f in rs[0].value.fields] if len(rs) == 1 and isinstance(rs[0].value, AggV) else None
    fi = None
    from mir2smt.srcinfo import field_index
    fi = field_index("util/types/src/core/views.rs", "BlockView")
    S.prove(ctx, ob, "block_view_hash_is_header_hash_of_the_stored_block", [],
            bool(got is not None and got[fi["data"]] == "blk" and got[fi["hash"]] == "hhash(blk)" and got[fi["tx_hashes"]] == "txh" and got[fi["tx_witness_hashes"]] == "twh"
                 and "uncles(blk)" in got[fi["uncle_hashes"]] and not panics(ps)), extra={"note": str(got)})
    # --- into_view of a block: hashes of this block's transactions, header reset with exactly those
    ctx = S.ctx()
    ctx.env = [(E.rx(r"::calc_tx_hashes$"), _call("txhashes")), (E.rx(r"::calc_tx_witness_hashes$"), _call("whashes")),
               (E.rx(r"::reset_header_with_hashes$"), _call("reset")), (E.rx(r"::block_into_view_internal$"), _call("view")),
               (E.rx(r"as Index<RangeFull>>::index$|as Deref>::deref$"), lambda ex, c, a, d: OpaqueV(_nmx(ex, a[0]), d))]
    ps = S.run(ctx, _by_impl(S, "into_view", r"IntoBlockView for packed::Block"), [OpaqueV("blk", "Block")])
    rs = returns(ps)
    got = _nmx(None, rs[0].value) if len(rs) == 1 else None
    S.prove(ctx, ob, "block_into_view_resets_header_with_this_blocks_tx_and_witness_hashes", [],
            bool(got == "view(reset(blk,txhashes(blk),whashes(blk)),txhashes(blk),whashes(blk))" and not panics(ps)), extra={"note": str(got)})
    # --- reset_header_with_hashes
    for label, present in (("with_extension", True), ("without_extension", False)):
        ctx = S.ctx()
        ctx.uninterpreted_unknown_calls = True
        sets = []

        def setter(ex, callee, args, dty, sets=sets):
            f = re.sub(r"::<[^<>]*>$", "", callee)
            sets.append((f.split("::")[-2], f.split("::")[-1], _nmx(ex, args[1]), _nmx(ex, args[0])))
            return OpaqueV(_nmx(ex, args[0]), dty)
        ctx.env = list(base_env) + [
            (E.rx(r"Builder::\w+(::<.*>)?$"), setter),
            (E.rx(r"::new_builder$"), lambda ex, c, a, d: OpaqueV("new:" + d.split("::")[-1], d)),
            (E.rx(r"::as_builder$"), lambda ex, c, a, d: OpaqueV("builder_of:" + _nmx(ex, a[0]), d)),
            (E.rx(r"Builder>?::build$"), lambda ex, c, a, d: OpaqueV("built:" + _nmx(ex, a[0]), d)),
            (E.rx(r"::calc_proposals_hash$"), _call("phash")), (E.rx(r"::calc_extra_hash$"), _call("xview")), (E.rx(r"ExtraHashView::extra_hash$"), _call("xhash")),
            (E.rx(r"::extension$"), lambda ex, c, a, d: mk_option(present, OpaqueV("ext(" + _nmx(ex, a[0]) + ")", "Bytes") if present else None, d)),
            (E.rx(r"Block::(header|uncles|transactions|proposals)$|Header::raw$|::as_v0$"), lambda ex, c, a, d: OpaqueV(c.split("::")[-1] + "(" + _nmx(ex, a[0]) + ")", d)),
        ]
        ps = S.run(ctx, _by_impl(S, "reset_header_with_hashes", r"ResetBlock for packed::Block"), [OpaqueV("blk", "Block"), ctx.ref_to(OpaqueV("txh", "[Byte32]")), ctx.ref_to(OpaqueV("twh", "[Byte32]"))])
        rs = returns(ps)
        S.prove(ctx, ob, f"reset_header_{label}_single_path_no_panic", [], bool(len(rs) == 1 and not panics(ps)))
        d = {(b, f): (v, recv) for b, f, v, recv in sets}
        S.prove(ctx, ob, f"reset_header_{label}_transactions_root_binds_tx_hashes_then_witness_hashes", [],
                bool(d.get(("RawHeaderBuilder", "transactions_root"), ("",))[0] == "MR([MR(txh),MR(twh)])"), extra={"note": str(d.get(("RawHeaderBuilder", "transactions_root")))})
        S.prove(ctx, ob, f"reset_header_{label}_proposals_hash_of_this_block", [], bool(d.get(("RawHeaderBuilder", "proposals_hash"), ("",))[0] == "phash(blk)"), extra={"note": str(d.get(("RawHeaderBuilder", "proposals_hash")))})
        S.prove(ctx, ob, f"reset_header_{label}_extra_hash_of_this_block", [], bool(d.get(("RawHeaderBuilder", "extra_hash"), ("",))[0] == "xhash(xview(blk))"), extra={"note": str(d.get(("RawHeaderBuilder", "extra_hash")))})
        S.prove(ctx, ob, f"reset_header_{label}_starts_from_this_blocks_raw_header_and_header", [],
                bool(d.get(("RawHeaderBuilder", "transactions_root"), ("", ""))[1] == "builder_of:raw(header(blk))" and d.get(("HeaderBuilder", "raw"), ("", ""))[1] == "builder_of:header(blk)"
                     and d.get(("HeaderBuilder", "raw"), ("",))[0] == "built:builder_of:raw(header(blk))"), extra={"note": str(d.get(("HeaderBuilder", "raw")))})
        if present:
            want = {"header": "built:builder_of:header(blk)", "uncles": "uncles(blk)", "transactions": "transactions(blk)", "proposals": "proposals(blk)", "extension": "ext(blk)"}
            got = {f: v for (b, f), (v, r) in d.items() if b == "BlockV1Builder"}
            S.prove(ctx, ob, "reset_header_with_extension_keeps_body_and_extension", [], bool(got == want), extra={"note": str(got)})
        else:
            got = {f: (v, r) for (b, f), (v, r) in d.items() if b == "BlockBuilder"}
            S.prove(ctx, ob, "reset_header_without_extension_replaces_only_the_header", [], bool(got == {"header": ("built:builder_of:header(blk)", "builder_of:blk")}), extra={"note": str(got)})
    # --- BlockView::calc_transactions_root / calc_witnesses_root (what the merkle-root verifier compares)
    from mir2smt.srcinfo import struct_fields
    bvf = struct_fields("util/types/src/core/views.rs", "BlockView")
    for fn, want in (("calc_witnesses_root", "MR(tx_witness_hashes)"), ("calc_raw_transactions_root", "MR(tx_hashes)"), ("calc_transactions_root", "MR([rroot,wroot])")):
        ctx = S.ctx()
        ctx.env = list(base_env) + [(E.rx(r"as Index<RangeFull>>::index$|as Deref>::deref$"), lambda ex, c, a, d: OpaqueV(_nmx(ex, a[0]), d))]
        if fn == "calc_transactions_root":
            ctx.env += [(E.rx(r"BlockView::calc_witnesses_root$"), lambda ex, c, a, d: OpaqueV("wroot", d)), (E.rx(r"BlockView::calc_raw_transactions_root$"), lambda ex, c, a, d: OpaqueV("rroot", d))]
        ps = S.run(ctx, _by_impl(S, fn, r"impl BlockView"), [ctx.ref_to(AggV(tuple(OpaqueV(f, "?") for f in bvf), "BlockView"))])
        rs = returns(ps)
        got = _nmx(None, rs[0].value) if len(rs) == 1 else None
        S.prove(ctx, ob, f"BlockView_{fn}_is_{re.sub(r'[^A-Za-z0-9]+', '_', want)}", [], bool(got == want and not panics(ps)), extra={"note": str(got)})
    # --- extra hash view of a block reader
    ctx = S.ctx()
    ctx.env = [(E.rx(r"::calc_uncles_hash$"), _call("uhash")), (E.rx(r"::calc_extension_hash$"), _call("ehash")), (E.rx(r"ExtraHashView::new$"), _call("XV"))]
    ps = S.run(ctx, _by_impl(S, "calc_extra_hash", r"CalcExtraHash for packed::BlockReader"), [ctx.ref_to(OpaqueV("br", "BlockReader"))])
    rs = returns(ps)
    got = _nmx(None, rs[0].value) if len(rs) == 1 else None
    S.prove(ctx, ob, "block_extra_hash_view_is_uncles_hash_and_extension_hash", [], bool(got == "XV(uhash(br),ehash(br))" and not panics(ps)), extra={"note": str(got)})
    # --- uncles hash / proposals hash over 0..2 items
    for fn, impl, item in (("calc_uncles_hash", r"packed::UncleBlockVecReader", lambda i: f"slice.hhash(u{i})"), ("calc_proposals_hash", r"packed::ProposalShortIdVecReader", lambda i: f"slice.u{i}")):
        for n in (0, 1, 2):
            ctx = S.ctx()
            items = [OpaqueV(f"u{i}", "?") for i in range(n)]
            ctx.env = hash_env(ctx) + list(base_env) + [(E.rx(r"Reader(::<'_>)?(<'_>)?::is_empty$"), lambda ex, c, a, d, n=n: BoolV(n == 0)),
                                                       (E.rx(r"Reader(::<'_>)?(<'_>)?::iter$"), E.list_source(items)), (E.rx(r"Byte32>?::zero$"), lambda ex, c, a, d: OpaqueV("ZERO", d))] + list(E.LIST_ITER)
            ps = S.run(ctx, _by_impl(S, fn, impl), [ctx.ref_to(OpaqueV("vec", "?"))])
            rs = returns(ps)
            got = _nmx(None, rs[0].value) if len(rs) == 1 else None
            want = "ZERO" if n == 0 else "H(" + "|".join(item(i) for i in range(n)) + ")"
            S.prove(ctx, ob, f"{fn}_of_{n}_items_binds_them_in_order", [], bool(got == want and not panics(ps)), extra={"note": str(got)})


def m8_decode_helpers_and_extension_hash(S):
    """(a) the store's decode helper `from_slice_should_be_ok` is STRICT decoding (`from_slice`) and panics on rejection, `from_compatible_slice_should_be_ok` is the compatible one
    -- so records read back from the store are canonical encodings; (b) `BlockReader::calc_extension_hash` is Some(H(raw data of the extension)) exactly when the block has an
    extension field -- also for an EMPTY extension -- so the extra hash binds the extension's presence"""
    ob = "C15.m8"
    for short, want in (("from_slice_should_be_ok", "from_slice"), ("from_compatible_slice_should_be_ok", "from_compatible_slice")):
        f = [x for x in S.prog.funcs if x.kind == "fn" and x.short == short and "gen-types/src/prelude.rs" in x.name and "{closure" not in x.name]
        if len(f) != 1:
            raise Inconclusive(f"{short}: {len(f)} candidates")
        ctx = S.ctx()
        ctx.uninterpreted_unknown_calls = True
        calls = []
        okb = ctx.bool("decoder_accepts")

        def dec(ex, c, a, d, calls=calls):
            calls.append(re.sub(r"::<[^<>]*>$", "", c).split("::")[-1])
            return mk_result(okb.t, OpaqueV("decoded_reader", "R"), OpaqueV("verr", "VerificationError"), d)
        ctx.env = [(E.rx(r"Reader<'_>>::(from_slice|from_compatible_slice|new_unchecked)$|Reader<'r>>::(from_slice|from_compatible_slice|new_unchecked)$"), dec),
                   (E.rx(r"hex_string|fmt::|panic_fmt|format"), E.opaque_call())]
        ps = S.run(ctx, f[0], [ctx.ref_to(OpaqueV("slice", "[u8]"))], allow=("return", "panic", "unsupported"))
        rs = returns(ps)
        S.prove(ctx, ob, f"{short}_decodes_with_{want}_only", [], bool(calls and all(c == want for c in calls)), extra={"note": str(calls)})
        S.prove(ctx, ob, f"{short}_returns_iff_the_decoder_accepts", [], T.iff(T.or_(*[p.cond() for p in rs]) if rs else False, okb.t))
        S.prove(ctx, ob, f"{short}_returns_the_decoded_reader", [], bool(rs and all(getattr(p.value, "name", "") == "decoded_reader" for p in rs)))
    # (b)
    f = _by_impl(S, "calc_extension_hash", r"packed::BlockReader<'r>")
    ctx = S.ctx()
    ctx.uninterpreted_unknown_calls = True
    has_ext = ctx.bool("block_has_extension_field")
    ctx.env = [(E.rx(r"::extension$"), lambda ex, c, a, d: mk_option(has_ext.t, OpaqueV("ext", "BytesReader"), d)),
               (E.rx(r"::calc_raw_data_hash$"), _call("H_raw")),
               (E.rx(r"::is_empty$|::len$|::raw_data$"), lambda ex, c, a, d: ex.ctx.fresh_of_type("extension_is_empty_or_len", d))]
    ps = S.run(ctx, f, [ctx.ref_to(OpaqueV("blk", "BlockReader"))])
    S.prove(ctx, ob, "calc_extension_hash_no_panic", [], T.not_(cond_of(panics(ps))))
    some = []
    bad_val = False
    for p in returns(ps):
        v = p.value
        if not isinstance(v, EnumV):
            raise Inconclusive("calc_extension_hash: unexpected value")
        is_some = (v.disc == 1) if isinstance(v.disc, int) else T.eq(v.disc, 1)
        some.append(T.and_(p.cond(), is_some))
        pay = v.payload(1)
        if pay and v.disc != 0 and _nmx(None, pay[0]) != "H_raw(ext)":
            bad_val = True
    S.prove(ctx, ob, "extension_hash_is_present_iff_the_block_has_an_extension_field_even_if_empty", [], T.iff(T.or_(*some), has_ext.t))
    S.prove(ctx, ob, "extension_hash_is_the_hash_of_the_extension_raw_data", [], bool(not bad_val))


OBLIGATIONS = [m1_extra_hash, m2_hash_inputs, m3_json_block_extension, m4_molecule_strict_is_canonical, m5_molecule_builders_write_canonical_layout, m6_json_field_wiring, m7_view_hashes_and_roots, m8_decode_helpers_and_extension_hash]

_P = os.path.join(os.path.dirname(__file__), "..", "kani", "molecule", "gen_molecule.json")
_OKFILE = os.path.join(os.path.dirname(__file__), "..", "kani", "molecule", "feasible.json")
_L = _json.load(open(_P)) if os.path.exists(_P) else []
_FEAS = set(_json.load(open(_OKFILE))) if os.path.exists(_OKFILE) else set()
KANI = []
for e in _L:
    if e["kind"] != "can" or e["harness"] not in _FEAS:
        continue
    KANI.append({"id": "C15.k2:" + e["type"], "crate": "molecule", "harness": e["harness"], "tiers": ("quick", "thorough") if e["tier"] == "quick" else ("thorough",),
                 "bound": f"every byte string of length <= {e['n']} (minimal valid encoding: {e['min_valid']} bytes); vector items checked: first 2",
                 "functions": [f"util/gen-types/src/generated::{e['type']}Reader::{{verify,from_slice,from_compatible_slice,accessors}}"], "timeout_quick": 600, "timeout_thorough": 1800, "mem_gb": 16})
KANI_FEATURES = {"thorough": ("thorough",)}

ENGINE = "M+K"
LEVEL = "other"
EXPLANATION = ("Hash commitments as dataflow facts over the real MIR (which byte string feeds which hash), the JSON->packed block conversion's handling of the "
               "extension, and canonical-form harnesses over the generated molecule readers for the schema types CBMC can finish.")
BOUNDS = {"M": "dataflow obligations: no numeric bound. Molecule obligations (m4): byte slices of ANY length; every type of the three schema files; per table at most 1 extra field, per dynamic vector at most 2 items (inputs beyond are excluded by the `out` condition)",
          "K": "byte strings up to the per-type buffer length written in each harness bound; only types listed in kani/molecule/feasible.json",
          "outside": "collision resistance; serde_json text layer; byte-level content equality of the round trip (decided at the layout level: builders write the canonical layout, strict decoding accepts exactly canonical layouts and getters return the field ranges)"}
ASSUMPTIONS = ["blake2b is an opaque function of the sequence of its update() arguments", "as_slice/as_reader/raw accessors are environment symbols named by their receiver"]
TRUSTED = []
LEVEL_TEXT = ("Decides (a) the commitment structure of tx/witness/header/pow/script/extra hashes, (b) extension handling of the JSON block conversion and (c) for every molecule schema type that "
              "strict decoding accepts exactly the canonical encodings (SMT over the MIR of the generated verify functions, modular over the schema) ; (d) Kani harnesses for five small types. "
              "(e) every generated builder writes the canonical layout of its fields (encode side). The JSON text layer is outside.")
LEVEL_NOTE = "Round trip decided at the layout level for all schema types within stated count bounds (<=1 extra field, <=2 vector items, field lengths < 2^28); JSON text and collision resistance not covered."
TECHNIQUE = "symbolic execution of rustc MIR (dataflow) -> SMT, plus Kani/CBMC harnesses generated from the molecule schema"

# ---- extended claim (session 3)
LEVEL_TEXT = LEVEL_TEXT + " (f) JSON<->packed conversions of Script, CellOutput, OutPoint, CellInput, CellDep, Transaction, Header, UncleBlock, Block: every JSON field is computed from the same-named packed getter only and every builder setter receives the same-named JSON field only, each schema field set once; hash-type / dep-type enum conversions keep the discriminant. (g) cached hashes of views equal recomputation on the stored entity; reset_header_with_hashes / BlockView roots bind tx hashes then witness hashes, proposals, uncles (in order) and the extension (present even if empty). (h) the store's from_slice_should_be_ok helper is strict decoding."


def m9_serialized_size_helpers(S):
    """util/gen-types/src/extension/serialized_size.rs -- the size constants and formulas the block-size rule (C03) and the template size accounting (C13) are built on, against
    the molecule layout derived from the schema: a transaction in a block costs its own bytes plus one offset; `UncleBlock::serialized_size_in_block()` is the layout contribution
    of an uncle with empty proposals (its minimal table encoding plus one offset in the uncle vector); `ProposalShortId::serialized_size()` is the schema's array size; the
    block size without uncle proposals is the block size minus, per uncle, the proposals' bytes beyond the 4-byte length header (two uncles, any sizes)"""
    from obligations import molecule_m as MM
    from mir2smt.exec import ListV
    ob = "C15.m9"
    imp = "util/gen-types/src/extension/serialized_size.rs"
    one = lambda short, pred=lambda x: True: _one_fn(S, lambda x: x.short == short and imp in x.name and pred(x), short)
    # --- constants
    ctx = S.ctx()
    ps = S.run(ctx, one("serialized_size_in_block", lambda x: len(x.params) == 0), [])
    want_uncle = len(MM.minimal_encoding("UncleBlock")) + 4
    S.prove(ctx, ob, "uncle_size_in_block_is_the_minimal_uncle_table_plus_one_offset", [], bool(len(ps) == 1 and ps[0].outcome == "return") and T.eq(as_int(ps[0].value), want_uncle), extra={"note": f"want {want_uncle}"})
    ctx = S.ctx()
    ps = S.run(ctx, one("serialized_size", lambda x: len(x.params) == 0), [])
    S.prove(ctx, ob, "proposal_short_id_size_is_the_schemas_array_size", [], bool(len(ps) == 1 and ps[0].outcome == "return") and T.eq(as_int(ps[0].value), MM.fixed_size("ProposalShortId")))
    # --- a transaction in a block
    ctx = S.ctx()
    ctx.uninterpreted_unknown_calls = True
    n = ctx.int("tx_bytes", "usize")
    from mir2smt.exec import SliceV
    ctx.env = [(E.rx(r"::as_slice$"), lambda ex, c, a, d: SliceV("txbuf", 0, n.t))]
    f = one("serialized_size_in_block", lambda x: len(x.params) == 1 and "TransactionReader" in x.params[0][1])
    ps = S.run(ctx, f, [ctx.ref_to(OpaqueV("tx_reader", "TransactionReader"))])
    pre = [T.le(n.t, 1 << 40)]
    S.prove(ctx, ob, "transaction_in_block_costs_its_bytes_plus_one_offset", pre, T.and_(T.not_(cond_of(panics(ps))), T.eq(merged(ps, as_int), T.add(n.t, 4))))
    # --- block size without uncle proposals
    ctx = S.ctx(unwind=6)
    ctx.uninterpreted_unknown_calls = True
    B = ctx.int("block_bytes", "usize")
    Pk = [ctx.int(f"uncle{k}_proposals_bytes", "usize") for k in range(2)]

    def ln(ex, c, a, d):
        nme = getattr(deref(ex, a[0]), "name", "")
        m_ = re.search(r"proposals\(uncle(\d)\)", nme)
        return Pk[int(m_.group(1))] if m_ else B
    ctx.env = [
        (E.rx(r"BlockReader(::<'_>)?(<'_>)?::uncles$"), lambda ex, c, a, d: OpaqueV("uncles", d)),
        (E.rx(r"UncleBlockVecReader(::<'_>)?(<'_>)?::iter$"), E.list_source([OpaqueV(f"uncle{k}", "UncleBlockReader") for k in range(2)])),
        (E.rx(r"UncleBlockReader(::<'_>)?(<'_>)?::proposals$"), lambda ex, c, a, d: OpaqueV("proposals(" + getattr(deref(ex, a[0]), "name", "?") + ")", d)),
        (E.rx(r"::as_slice$"), lambda ex, c, a, d: SliceV("buf_" + re.sub(r"[^A-Za-z0-9]", "_", getattr(deref(ex, a[0]), "name", "?")), 0, ln(ex, c, a, d).t)),
        (E.rx(r" as Iterator>::sum::<usize>$"), lambda ex, c, a, d: IntV(_sum_terms(ex, a[0]), "usize")),
    ] + list(E.LIST_ADAPTORS)
    f = one("serialized_size_without_uncle_proposals", lambda x: "BlockReader" in x.params[0][1])
    ps = S.run(ctx, f, [ctx.ref_to(OpaqueV("block_reader", "BlockReader"))])
    # a well-formed block: every uncle's proposals vector has at least its 4-byte header and lies inside the block
    pre = [T.le(B.t, 1 << 40)] + [T.ge(p_.t, 4) for p_ in Pk] + [T.le(T.add(Pk[0].t, Pk[1].t), B.t)]
    S.prove(ctx, ob, "block_size_without_uncle_proposals_no_panic_on_well_formed_blocks", pre, T.not_(cond_of(panics(ps))))
    S.prove(ctx, ob, "block_size_without_uncle_proposals_subtracts_exactly_the_proposal_items_of_every_uncle", pre, T.eq(merged(ps, as_int), T.sub(B.t, T.add(T.sub(Pk[0].t, 4), T.sub(Pk[1].t, 4)))))


def _sum_terms(ex, itv):
    it = deref(ex, itv)
    t = 0
    for x in E._rest(ex, it):
        x = deref(ex, x) if isinstance(x, RefV) else x
        t = T.add(t, x.t)
    return t


def _one_fn(S, pred, what):
    f = [x for x in S.prog.funcs if x.kind == "fn" and pred(x)]
    if len(f) != 1:
        raise Inconclusive(f"{what}: {len(f)} candidates")
    return f[0]


OBLIGATIONS = OBLIGATIONS + [m9_serialized_size_helpers]
