"""C04 — transaction acceptance: `since` decoding and absolute/relative lock verdicts, commit-position arithmetic (engine M).
Liveness/double-spend resolution, dep groups, scripts and capacity sums are outside."""
import re
from mir2smt.ob import *
from mir2smt import terms as T
from mir2smt.exec import OpaqueV, IntV, BoolV, AggV, EnumV, RefV, UNIT, Stop, mk_option
from mir2smt import envlib as E
from mir2smt.builtins import deref

CRATES = ["ckb-constant", "ckb-occupied-capacity-core", "ckb-types", "ckb-chain-spec", "ckb-script", "ckb-verification", "ckb-verification-contextual", "ckb-snapshot"]
U64 = (1 << 64) - 1
B63 = 1 << 63
VALUE = (1 << 56)
VAL = []


def since_fields(s):
    relative = T.ge(s, B63)
    metric = T.emod(T.ediv(s, 1 << 61), 4)
    remain = T.emod(T.ediv(s, 1 << 56), 32)
    value = T.emod(s, VALUE)
    return relative, metric, remain, value


def fields_of_epoch(full):
    return (T.emod(full, 1 << 24), T.emod(T.ediv(full, 1 << 24), 1 << 16), T.emod(T.ediv(full, 1 << 40), 1 << 16))


def S_(v):
    return newtype(v, "Since")


def m1_since_decode(S):
    ob = "C04.m1"
    ctx = S.ctx()
    s = ctx.int("s", "u64")
    rel, metric, remain, value = since_fields(s.t)
    ps = S.run(ctx, "Since::is_absolute", [S_(s)])
    S.prove(ctx, ob, "is_absolute_is_bit63_clear", [], T.and_(T.not_(cond_of(panics(ps))), T.iff(merged(ps, as_bool), T.not_(rel))))
    ps = S.run(ctx, "Since::is_relative", [S_(s)])
    S.prove(ctx, ob, "is_relative_is_bit63_set", [], T.iff(merged(ps, as_bool), rel))
    ps = S.run(ctx, "Since::flags_is_valid", [S_(s)])
    S.prove(ctx, ob, "flags_valid_iff_reserved_bits_clear_and_metric_not_3", [], T.and_(T.not_(cond_of(panics(ps))), T.iff(merged(ps, as_bool), T.and_(T.eq(remain, 0), T.ne(metric, 3)))))
    ps = S.run(ctx, "Since::extract_metric", [S_(s)])

    def em(v, k):
        if v.disc == 0:
            return 0
        m = v.payload(1)[0]
        return [1, m.disc, as_int(m.payload(m.disc)[0])][k]
    S.native(ctx, "since_extract_metric", [s.t], [merged(ps, lambda v: em(v, 0)), merged(ps, lambda v: em(v, 1)), merged(ps, lambda v: em(v, 2))], cond_of(panics(ps)))
    VAL.append((S, ctx, [{"s": x} for x in (0, 1, 0x2000_0a00_0500_0010, 0x4000_0000_0000_0001, 0x40ff_ffff_ffff_ffff, 0xc000_0000_0000_0064, 0x6000_0000_0000_0000,
                                            0x8000_0000_0000_0064, 0x00ff_ffff_ffff_ffff, 0x5fff_ffff_ffff_ffff, U64, 0x4000_4189_374b_c6a7, 0x4000_4189_374b_c6a8)]))
    S.prove(ctx, ob, "extract_metric_no_panic", [], T.not_(cond_of(panics(ps))))
    # Option<SinceMetric>: disc 1 = Some; SinceMetric variants BlockNumber(0), EpochNumberWithFraction(1), Timestamp(2)
    for k, p in enumerate(returns(ps)):
        v = p.value
        c = [p.cond()]
        if v.disc == 0:
            S.prove(ctx, ob, f"path{k}_none_only_for_metric_3", c, T.eq(metric, 3))
            continue
        m = v.payload(1)[0]
        vi = m.disc
        inner = m.payload(vi)[0]
        if vi == 0:
            S.prove(ctx, ob, f"path{k}_block_number_metric", c, T.and_(T.eq(metric, 0), T.eq(as_int(inner), value)))
        elif vi == 1:
            S.prove(ctx, ob, f"path{k}_epoch_metric", c, T.and_(T.eq(metric, 1), T.eq(as_int(inner), value)))
        else:
            S.prove(ctx, ob, f"path{k}_timestamp_metric_is_seconds_times_1000_saturating", c, T.and_(T.eq(metric, 2), T.eq(as_int(inner), T.imin(T.mul(value, 1000), U64))))
    S.witness(ctx, ob, "reach_timestamp_metric", [], T.and_(T.eq(metric, 2), T.gt(value, 5)))


def rat_of_epoch(full):
    n, i, l = T.emod(full, 1 << 24), T.emod(T.ediv(full, 1 << 24), 1 << 16), T.emod(T.ediv(full, 1 << 40), 1 << 16)
    # to_rational: 0 when the packed value is 0, otherwise n + i/l  (l = 0 panics in the real code: division by zero)
    num = T.ite(T.eq(full, 0), 0, T.add(T.mul(n, l), i))
    den = T.ite(T.eq(full, 0), 1, l)
    return num, den


def lock_env(ctx, syms):
    def to_rational(ex, callee, args, dty):
        a = deref(ex, args[0])
        full = as_int(a)
        num, den = rat_of_epoch(full)
        # the real RationalU256::new panics on a zero denominator
        if not ex.decide(T.ne(den, 0)):
            from mir2smt.exec import Panic
            raise Panic("to_rational: zero epoch length")
        return AggV((IntV(num, "U256"), IntV(den, "U256")), "RationalU256")

    def rat_add(ex, callee, args, dty):
        a, b = deref(ex, args[0]), deref(ex, args[1])
        return AggV((IntV(T.add(T.mul(as_int(a.fields[0]), as_int(b.fields[1])), T.mul(as_int(b.fields[0]), as_int(a.fields[1]))), "U256"),
                     IntV(T.mul(as_int(a.fields[1]), as_int(b.fields[1])), "U256")), "RationalU256")

    def rat_lt(ex, callee, args, dty):
        a, b = deref(ex, args[0]), deref(ex, args[1])
        return BoolV(T.lt(T.mul(as_int(a.fields[0]), as_int(b.fields[1])), T.mul(as_int(b.fields[0]), as_int(a.fields[1]))))

    def into_err(ex, callee, args, dty):
        a = deref(ex, args[0])
        return a

    def median(ex, callee, args, dty):
        a = deref(ex, args[-1])
        return ctx.int("median." + getattr(a, "name", "x"), "u64")

    return [
        (E.rx(r"EpochNumberWithFraction::to_rational$"), to_rational),
        (E.rx(r"RationalU256 as Add(<.*>)?>::add$"), rat_add),
        (E.rx(r"RationalU256 as PartialOrd>::lt$"), rat_lt),
        (E.rx(r"as Into<.*Error>>::into$|Error as From<.*>>::from$"), into_err),
        (E.rx(r"TxVerifyEnv::block_number$"), lambda ex, c, a, d: syms["commit_number"]),
        (E.rx(r"TxVerifyEnv::epoch$"), lambda ex, c, a, d: AggV((syms["commit_epoch"],), "EpochNumberWithFraction")),
        (E.rx(r"TxVerifyEnv::epoch_number$"), lambda ex, c, a, d: syms["commit_epoch_number"]),
        (E.rx(r"TxVerifyEnv::parent_hash$"), lambda ex, c, a, d: OpaqueV("parent_hash", d)),
        (E.rx(r"Consensus::tx_proposal_window$"), lambda ex, c, a, d: OpaqueV("pw", d)),
        (E.rx(r"Consensus::(hardfork_switch|median_time_block_count)$"), E.opaque_call()),
        (E.rx(r"is_block_ts_as_relative_since_start_enabled$"), lambda ex, c, a, d: syms["ts_base_is_block_ts"]),
        (E.rx(r"block_median_time$"), median),
        (E.rx(r"get_header_fields$"), lambda ex, c, a, d: mk_option(True, OpaqueV("hf." + getattr(deref(ex, a[-1]), "name", "x"), "HeaderFields"), d)),
        (E.rx(r"as Deref>::deref$"), lambda ex, c, a, d: a[0] if not isinstance(deref(ex, a[0]), OpaqueV) or not deref(ex, a[0]).ty.startswith("Arc<") else
            ex.ctx.ref_to(OpaqueV(deref(ex, a[0]).name + ".deref", deref(ex, a[0]).ty[4:-1]))),
    ]


def classify(S, v):
    """Ok / Immature / InvalidSince of a Result<(), Error> value"""
    if v.disc == 0:
        return "ok"
    e = v.payload(1)[0]
    if isinstance(e, EnumV):
        vs = S.prog.enum_variants("TransactionError", None, "verification/src/error.rs")
        names = {i: n for i, n in enumerate(vs)} if isinstance(vs, list) else {i: n for n, i in vs.items()}
        return names.get(e.disc, "err?")
    if isinstance(e, OpaqueV) and "TransactionError" in e.name:
        for nme in ("Immature", "InvalidSince"):
            if nme in e.name:
                return nme
    if isinstance(e, AggV) and e.ty.split("::")[-1] in ("Immature", "InvalidSince"):
        return e.ty.split("::")[-1]
    return "err?" + repr(e)[:120]


def m2_locks(S):
    ob = "C04.m2"
    for kind in ("absolute", "relative"):
        ctx = S.ctx()
        s = ctx.int("s", "u64")
        syms = {"commit_number": ctx.int("commit_number", "u64"), "commit_epoch": ctx.int("commit_epoch", "u64"),
                "commit_epoch_number": ctx.int("commit_epoch_number", "u64"), "ts_base_is_block_ts": ctx.bool("ts_base_is_block_ts")}
        ctx.env = lock_env(ctx, syms)
        me = OpaqueV("sv", "SinceVerifier<DL>")
        cm = OpaqueV("cm", "CellMeta")
        idx = ctx.int("index", "usize")
        if kind == "absolute":
            ps = S.run(ctx, "SinceVerifier::verify_absolute_lock", [ctx.ref_to(me), idx, S_(s)])
        else:
            ps = S.run(ctx, "SinceVerifier::verify_relative_lock", [ctx.ref_to(me), idx, S_(s), ctx.ref_to(cm)])
        rel, metric, remain, value = since_fields(s.t)
        vn, vi, vl = T.emod(value, 1 << 24), T.emod(T.ediv(value, 1 << 24), 1 << 16), T.emod(T.ediv(value, 1 << 40), 1 << 16)
        wf_inc = T.or_(T.gt(vl, vi), T.and_(T.eq(vl, 0), T.eq(vi, 0)))
        # normalize(): length 0 -> (n, 0, 1)
        nnum = T.ite(T.eq(vl, 0), vn, T.add(T.mul(vn, vl), vi))
        nden = T.ite(T.eq(vl, 0), 1, vl)
        nnum = T.ite(T.eq(value, 0), 0, nnum)
        cnum, cden = rat_of_epoch(syms["commit_epoch"].t)
        # symbols created lazily for the cell's transaction info
        def sym(rx_):
            c = [n for n in ctx.decls if re.fullmatch(rx_, n)]
            return T.var(c[0]) if len(c) == 1 else None
        info_some = sym(r"cm\.\d+\.some")
        info_num = sym(r"cm\.\d+\.Some\.1")
        info_epoch = sym(r"cm\.\d+\.Some\.2\.0")
        applies = T.not_(rel) if kind == "absolute" else rel
        groups = {"ok": [], "Immature": [], "InvalidSince": []}
        for p in returns(ps):
            groups.setdefault(classify(S, p.value), []).append(p.cond())
        if set(groups) - {"ok", "Immature", "InvalidSince"}:
            raise Inconclusive(f"unexpected verdict classes {set(groups)}")
        ok, imm, inv = [T.or_(*groups[k]) for k in ("ok", "Immature", "InvalidSince")]
        pre = [T.ne(cden, 0)]
        if kind == "relative":
            if info_some is None or info_num is None or info_epoch is None:
                raise Inconclusive("transaction_info symbols not found")
            inum, iden = rat_of_epoch(info_epoch)
            pre += [T.ne(iden, 0), T.le(T.add(info_num, value), U64)]
            has_info = T.eq(info_some, 1)
            base_n = T.add(info_num, value)
            thr_num, thr_den = T.add(T.mul(inum, nden), T.mul(nnum, iden)), T.mul(iden, nden)
            med_cur = ctx.int("median.parent_hash", "u64").t
            hf_ts = sym(r"hf\.cm\.\d+\.Some\.0\.\d+")
        else:
            has_info = True
            base_n = value
            thr_num, thr_den = nnum, nden
            med_cur = ctx.int("median.parent_hash", "u64").t
        S.prove(ctx, ob, f"{kind}_no_panic_for_well_formed_context", pre, T.not_(cond_of(panics(ps))))
        S.prove(ctx, ob, f"{kind}_lock_of_other_kind_is_ignored", pre + [T.not_(applies)], ok)
        if kind == "relative":
            S.prove(ctx, ob, "relative_lock_on_cell_without_tx_info_is_immature", pre + [applies, T.not_(has_info)], imm)
        base = pre + [applies, has_info]
        S.prove(ctx, ob, f"{kind}_reserved_metric_is_invalid_since", base + [T.eq(metric, 3)], inv)
        S.prove(ctx, ob, f"{kind}_block_number_metric", base + [T.eq(metric, 0)],
                T.and_(T.iff(imm, T.lt(syms["commit_number"].t, base_n)), T.iff(ok, T.not_(T.lt(syms["commit_number"].t, base_n))), T.not_(inv)))
        S.prove(ctx, ob, f"{kind}_epoch_metric", base + [T.eq(metric, 1)],
                T.and_(T.iff(inv, T.not_(wf_inc)), T.implies(wf_inc, T.iff(imm, T.lt(T.mul(cnum, thr_den), T.mul(thr_num, cden))))), timeout_s=180,
                small=[T.le(x, 12) for x in (vn, vi, vl) + tuple(fields_of_epoch(syms["commit_epoch"].t)) + (tuple(fields_of_epoch(info_epoch)) if kind == "relative" else ())])
        ms = T.imin(T.mul(value, 1000), U64)
        if kind == "absolute":
            S.prove(ctx, ob, "absolute_timestamp_metric", base + [T.eq(metric, 2)], T.and_(T.iff(imm, T.lt(med_cur, ms)), T.not_(inv)))
        else:
            # base timestamp: the cell block's own timestamp (ckb2021) or the median time of its parent; either way a u64 symbol
            bts = [n for n in ctx.decls if re.fullmatch(r"hf\..*\.\d+", n) or re.fullmatch(r"median\.hf\..*", n)]
            S.prove(ctx, ob, "relative_timestamp_metric_never_invalid_and_decided", base + [T.eq(metric, 2)], T.and_(T.not_(inv), T.or_(ok, imm)))
            S.prove(ctx, ob, "relative_timestamp_unreachable_threshold_is_immature", base + [T.eq(metric, 2), T.eq(ms, U64), T.lt(med_cur, U64)], imm)
        S.witness(ctx, ob, f"{kind}_reach_epoch_immature", base + [T.eq(metric, 1), wf_inc], imm)


def m3_commit_position(S):
    """TxVerifyEnv: the block number a transaction is assumed to be committed at, per submission stage"""
    ob = "C04.m3"
    ctx = S.ctx()
    env_ = OpaqueV("env", "TxVerifyEnv")
    c = ctx.int("pw.0", "u64"); f = ctx.int("pw.1", "u64")
    pw = AggV((c, f), "ProposalWindow")
    ps = S.run(ctx, "TxVerifyEnv::block_number", [ctx.ref_to(env_), pw])
    tip = ctx.int("env.1", "u64").t     # TxVerifyEnv.number (second field; the phase is the first)
    d = [n for n in ctx.decls if re.fullmatch(r"env\.\d+\.disc", n)]
    if len(d) != 1:
        raise Inconclusive(f"phase discriminant symbol: {d}")
    disc = T.var(d[0])
    v = merged(ps, as_int)
    vs = S.prog.enum_variants("TxVerifyPhase")
    k = [n for n in ctx.decls if re.fullmatch(r"env\.\d+\.Proposed\.0", n)]
    pre = [T.le(1, c.t), T.le(c.t, f.t), T.lt(f.t, 1 << 32), T.le(T.add(tip, T.add(f.t, 2)), U64)]
    S.prove(ctx, ob, "no_panic", pre, T.not_(cond_of(panics(ps))))
    S.prove(ctx, ob, "submitted_commits_at_tip_plus_one_plus_close", pre + [T.eq(disc, vs.index("Submitted"))], T.eq(v, T.add(T.add(tip, 1), c.t)))
    S.prove(ctx, ob, "committed_commits_at_tip", pre + [T.eq(disc, vs.index("Committed"))], T.eq(v, tip))
    if len(k) == 1:
        kk = T.var(k[0])
        S.prove(ctx, ob, "proposed_after_k_blocks_commits_at_tip_minus_k_plus_close", pre + [T.eq(disc, vs.index("Proposed"))],
                T.eq(v, T.add(T.imax(0, T.sub(tip, kk)), c.t)))


def m4_verify_loop(S):
    """SinceVerifier::verify for one input: only a since that is exactly zero is ignored; invalid flags are InvalidSince;
    otherwise the verdict is the absolute lock's, then the relative lock's (both as environment results here; m2 decides them)"""
    ob = "C04.m4"
    ctx = S.ctx(unwind=4)
    s = ctx.int("s", "u64")
    abs_ok = ctx.bool("abs_ok"); rel_ok = ctx.bool("rel_ok")
    calls = []

    def it_next(ex, callee, args, dty):
        n = len([e for e in ex.log if e[0] == "next"])
        ex.log.append(("next", callee, [], list(ex.pc)))
        if n == 0:
            item = AggV((IntV(0, "usize"), AggV((ex.ctx.ref_to(OpaqueV("cm", "CellMeta")), OpaqueV("input", "CellInput")), "(&CellMeta, CellInput)")), "(usize, (&CellMeta, CellInput))")
            return mk_option(True, item, dty)
        return mk_option(False, None, dty)

    def lock(which, okv):
        def h(ex, callee, args, dty):
            sv = args[2]
            ex.log.append((which, callee, [as_int(sv)], list(ex.pc)))
            from mir2smt.exec import mk_result
            return mk_result(okv.t, UNIT, OpaqueV("err_" + which, "Error"), dty)
        return h

    ctx.env = [
        (E.rx(r"as Deref>::deref$"), lambda ex, c, a, d: ex.ctx.ref_to(OpaqueV("d." + getattr(deref(ex, a[0]), "name", "x"), "T"))),
        (E.rx(r"impl \[CellMeta\]>::iter$|TransactionView::inputs$|as Iterator>::(zip|enumerate)|as IntoIterator>::into_iter"), E.opaque_call()),
        (E.rx(r"Enumerate<.*> as Iterator>::next$"), it_next),
        (E.rx(r"CellInput::since$"), lambda ex, c, a, d: OpaqueV("since_field", d)),
        (E.rx(r"Uint64 as Into<u64>>::into$"), lambda ex, c, a, d: s),
        (E.rx(r"SinceVerifier::<DL>::verify_absolute_lock$"), lock("abs", abs_ok)),
        (E.rx(r"SinceVerifier::<DL>::verify_relative_lock$"), lock("rel", rel_ok)),
        (E.rx(r"as Into<.*Error>>::into$|Error as From<.*>>::from$"), lambda ex, c, a, d: deref(ex, a[0])),
    ]
    cands = [f for f in S.prog.by_short.get("verify", []) if f.params and "SinceVerifier" in f.params[0][1]]
    if len(cands) != 1:
        raise Inconclusive(f"SinceVerifier::verify: {len(cands)} candidates")
    ps = S.run(ctx, cands[0], [ctx.ref_to(OpaqueV("sv", "SinceVerifier<DL>"))])
    S.prove(ctx, ob, "no_panic", [], T.not_(cond_of(panics(ps))))
    rel, metric, remain, value = since_fields(s.t)
    flags_ok = T.and_(T.eq(remain, 0), T.ne(metric, 3))
    groups = {}
    for p in returns(ps):
        v = p.value
        if v.disc == 0:
            k = "ok"
        else:
            e = v.payload(1)[0]
            k = getattr(e, "name", None) or (e.ty.split("::")[-1] if isinstance(e, AggV) else "err?")
        groups.setdefault(k, []).append(p)
    okc = cond_of(groups.get("ok", []))
    inv = cond_of(groups.get("InvalidSince", []))
    eabs = cond_of(groups.get("err_abs", []))
    erel = cond_of(groups.get("err_rel", []))
    if set(groups) - {"ok", "InvalidSince", "err_abs", "err_rel"}:
        raise Inconclusive(f"unexpected verdict classes {set(groups)}")
    S.prove(ctx, ob, "only_exactly_zero_since_is_ignored", [], T.implies(T.eq(s.t, 0), okc))
    S.prove(ctx, ob, "invalid_flags_are_invalid_since_whatever_the_value_bits", [T.ne(s.t, 0)], T.iff(inv, T.not_(flags_ok)))
    S.prove(ctx, ob, "valid_nonzero_since_takes_both_lock_verdicts", [T.ne(s.t, 0), flags_ok],
            T.and_(T.iff(okc, T.and_(abs_ok.t, rel_ok.t)), T.iff(eabs, T.not_(abs_ok.t)), T.iff(erel, T.and_(abs_ok.t, T.not_(rel_ok.t)))))
    # both lock functions receive the input's own since
    for k, p in enumerate(returns(ps)):
        for e in p.log:
            if e[0] in ("abs", "rel"):
                S.prove(ctx, ob, f"path{k}_{e[0]}_lock_gets_the_inputs_since", [p.cond()], T.eq(e[2][0], s.t))
    S.witness(ctx, ob, "reach_zero_value_bits_with_flags", [], T.and_(T.ne(s.t, 0), T.eq(value, 0), inv))


def m5_cellbase_maturity(S):
    """MaturityVerifier's predicate `cellbase_immature` on one cell: immature iff the cell is a non-genesis cellbase output and
    the current epoch (exact fraction) is below cell epoch + maturity"""
    ob = "C04.m5"
    ctx = S.ctx()
    syms = {"commit_number": ctx.int("x1", "u64"), "commit_epoch": ctx.int("x2", "u64"), "commit_epoch_number": ctx.int("x3", "u64"), "ts_base_is_block_ts": ctx.bool("x4")}
    ctx.env = lock_env(ctx, syms)
    cands = [f for f in S.prog.funcs if f.kind == "fn" and f.name.endswith("::verify::{closure#0}") and "transaction_verifier.rs:370" in f.name]
    if len(cands) != 1:
        raise Inconclusive(f"cellbase_immature closure: {len(cands)} candidates")
    clo = cands[0]
    mv = OpaqueV("mv", "MaturityVerifier")
    cm = OpaqueV("cm", "CellMeta")
    env_clo = AggV((ctx.ref_to(mv),), clo.params[0][1].lstrip("&"))
    ps = S.run(ctx, clo, [ctx.ref_to(env_clo), ctx.ref_to(cm)])

    def sym(rx_):
        c = [n for n in ctx.decls if re.fullmatch(rx_, n)]
        return T.var(c[0]) if len(c) == 1 else None
    some = sym(r"cm\.2\.some"); bnum = sym(r"cm\.2\.Some\.(_\.)?1"); bep = sym(r"cm\.2\.Some\.(_\.)?2\.0"); idx = sym(r"cm\.2\.Some\.(_\.)?3")
    cur = sym(r"mv\.1\.0"); mat = sym(r"mv\.2\.0")
    if None in (some, bnum, bep, idx, cur, mat):
        raise Inconclusive("symbols of the cell's transaction info / verifier fields not found")
    cn, cd = rat_of_epoch(cur); mn, md = rat_of_epoch(mat); bn_, bd = rat_of_epoch(bep)
    pre = [T.ne(cd, 0), T.ne(md, 0), T.ne(bd, 0)]
    S.prove(ctx, ob, "no_panic_for_well_formed_epochs", pre, T.not_(cond_of(panics(ps))))
    imm = merged(ps, as_bool)
    # current < maturity + cell epoch   <=>   cn/cd < mn/md + bn/bd
    thr_n, thr_d = T.add(T.mul(mn, bd), T.mul(bn_, md)), T.mul(md, bd)
    spec = T.and_(T.eq(some, 1), T.gt(bnum, 0), T.eq(idx, 0), T.lt(T.mul(cn, thr_d), T.mul(thr_n, cd)))
    S.prove(ctx, ob, "immature_iff_non_genesis_cellbase_below_epoch_threshold", pre, T.iff(imm, spec), timeout_s=180)
    S.witness(ctx, ob, "reach_immature", pre, T.and_(imm, T.gt(bn_, 0)))


def m6_resolve_inputs(S):
    """resolve_transaction (the liveness / double-spend gate shared by block verification and the pool): with two inputs and one
    header dep, Ok iff (cellbase or: the inputs are distinct, none was spent earlier in the same batch, the provider reports
    each Live) and the deps resolve and the header dep is valid; on Ok the inputs are recorded as spent, on Err nothing is"""
    ob = "C04.m6"
    ctx = S.ctx(unwind=6)
    ins = [OpaqueV("in0", "OutPoint"), OpaqueV("in1", "OutPoint")]
    hds = [OpaqueV("hd0", "Byte32")]
    is_cb = ctx.bool("is_cellbase"); deps_ok = ctx.bool("deps_ok")
    ctx.uf_decls["cell_status"] = (T.INT, (T.INT,))
    from mir2smt import smt as _smt
    _smt.POINTWISE_ONLY.add("cell_status")
    ctx.uf_decls["header_valid"] = (T.BOOL, (T.INT,))
    variants = S.prog.enum_variants("CellStatus", "Live", "util/types/src/core/cell.rs")
    LIVE, DEAD, UNKNOWN = variants.index("Live"), variants.index("Dead"), variants.index("Unknown")
    statuses = []

    def cell(ex, callee, args, dty):
        x = E.ident(ex, args[1])
        st = T.app("cell_status", T.INT, x)
        ex.ctx.add_side(T.and_(T.le(0, st), T.le(st, 2)))
        statuses.append(x)
        return EnumV(st, ((LIVE, (OpaqueV("meta", "CellMeta"),)),), dty)

    def check_valid(ex, callee, args, dty):
        x = E.ident(ex, args[1])
        ok = T.app("header_valid", T.BOOL, x)
        return EnumV(T.ite(ok, 0, 1), ((0, (UNIT,)), (1, (EnumV(S.prog.enum_variants("OutPointError", "Dead", "util/types/src/core/error.rs").index("InvalidHeader"), (), "OutPointError"),))), dty)

    def deps(ex, callee, args, dty):
        return EnumV(T.ite(deps_ok.t, 0, 1), ((0, (UNIT,)), (1, (OpaqueV("dep_err", "OutPointError"),))), dty)

    def entry(ex, callee, args, dty):
        # the per-call memo of resolved cells: a miss (the provider is a function of the out point, so a hit returns the same)
        return EnumV(1, ((1, (OpaqueV("vacant", "VacantEntry"),)),), dty)

    ctx.env = [
        (E.rx(r"TransactionView::is_cellbase$"), lambda ex, c, a, d: is_cb),
        (E.rx(r"TransactionView::input_pts_iter$"), E.list_source(ins)),
        (E.rx(r"TransactionView::header_deps_iter$"), E.list_source(hds)),
        (E.rx(r"TransactionView::(inputs|cell_deps)$|CellInputVec::len$|CellDepVec::len$"), E.opaque_call()),
        (E.rx(r"as CellProvider>::cell$"), cell),
        (E.rx(r"as HeaderChecker>::check_valid$"), check_valid),
        (E.rx(r"resolve_transaction_deps_with_system_cell_cache"), deps),
        (E.rx(r"HashMap::<\(.*OutPoint, bool\), CellMeta>::(new|entry)$"), lambda ex, c, a, d: entry(ex, c, a, d) if c.endswith("entry") else OpaqueV("memo", "HashMap")),
        (E.rx(r"VacantEntry::<.*>::insert$"), E.opaque_call()),
        (E.rx(r"OutPoint as (ToOwned|Clone)>::(to_owned|clone)$|<CellMeta as Clone>::clone$"), lambda ex, c, a, d: deref(ex, a[0])),
        (E.rx(r"Vec::<CellMeta>::(with_capacity|new|push)$"), lambda ex, c, a, d: UNIT if c.endswith("push") else OpaqueV("vec", "Vec<CellMeta>")),
    ] + E.set_env(r"(?:ckb_gen_types::)?(?:packed::)?OutPoint") + E.LIST_ITER
    seen = ctx.ref_to(E.SetV("seen_before"))
    ps = S.run(ctx, "resolve_transaction", [OpaqueV("tx", "TransactionView"), seen, ctx.ref_to(OpaqueV("cp", "CP")), ctx.ref_to(OpaqueV("hc", "HC"))], nparams=4)
    S.prove(ctx, ob, "no_panic", [], T.not_(cond_of(panics(ps))))
    ok = T.or_(*[T.and_(p.cond(), T.eq(p.value.disc, 0)) for p in returns(ps)])
    i0, i1 = ctx.int("id!in0", "u64").t, ctx.int("id!in1", "u64").t
    h0 = ctx.int("id!hd0", "u64").t
    st = lambda x: T.app("cell_status", T.INT, x)
    was = lambda x: T.app("seen_before", T.BOOL, x)
    ctx.uf_decls["seen_before"] = (T.BOOL, (T.INT,))
    inputs_fine = T.and_(T.ne(i0, i1), T.not_(was(i0)), T.not_(was(i1)), T.eq(st(i0), LIVE), T.eq(st(i1), LIVE))
    spec = T.and_(T.or_(is_cb.t, inputs_fine), deps_ok.t, T.app("header_valid", T.BOOL, h0))
    S.prove(ctx, ob, "ok_iff_distinct_unspent_live_inputs_and_deps", [], T.iff(ok, spec))
    S.witness(ctx, ob, "reach_ok", [ok], T.not_(is_cb.t))
    S.witness(ctx, ob, "reach_duplicate_input", [T.not_(ok), T.not_(is_cb.t)], T.and_(T.eq(i0, i1), T.eq(st(i0), LIVE), T.not_(was(i0)), deps_ok.t))
    # error kinds: a repeated or already-spent input is reported Dead
    errs = S.prog.enum_variants("OutPointError", "Dead", "util/types/src/core/error.rs")
    e_dead = errs.index("Dead")

    def err_kind(v):
        p = v.payload(1)
        e = p[0] if p else None
        return e.disc if isinstance(e, EnumV) else -1
    kind = merged(ps, err_kind)
    S.prove(ctx, ob, "double_spend_is_reported_dead", [T.not_(is_cb.t), T.or_(was(i0), T.and_(T.eq(i0, i1), T.eq(st(i0), LIVE)))], T.and_(T.not_(ok), T.eq(kind, e_dead)))
    # native counterpart (replay + translator validation): error kinds in the driver's fixed numbering
    from mir2smt.exec import post_value
    NUM = {"Dead": 0, "Unknown": 1, "OutOfOrder": 2, "InvalidDepGroup": 3, "InvalidHeader": 4}
    kind_n = 5
    for nm_, num in NUM.items():
        if nm_ in errs:
            kind_n = T.ite(T.eq(kind, errs.index(nm_)), num, kind_n)
    rs_ = returns(ps)
    def distinct_new(xs):
        # how many elements the real set gains: distinct among themselves and not in the initial contents
        n_ = 0
        for k_, x in enumerate(xs):
            n_ = T.add(n_, T.ite(T.or_(was(x), *[T.eq(x, y) for y in xs[:k_]]), 0, 1))
        return n_
    added_n = distinct_new(post_value(ctx, rs_[-1], seen).added)
    for p in reversed(rs_[:-1]):
        added_n = T.ite(p.cond(), distinct_new(post_value(ctx, p, seen).added), added_n)
    S.native(ctx, "resolve_tx", [i0, i1, st(i0), st(i1), T.ite(was(i0), 1, 0), T.ite(was(i1), 1, 0), T.ite(T.app("header_valid", T.BOOL, h0), 1, 0)],
             [T.ite(ok, 0, 1), T.ite(ok, 99, kind_n), added_n], cond_of(panics(ps)), pre=T.and_(T.not_(is_cb.t), deps_ok.t))
    VAL.append((S, ctx, [{"id!in0": a, "id!in1": b, "is_cellbase": False, "deps_ok": True, "cell_status": {a: sa, b: sb}, "seen_before": {a: wa, b: wb}, "header_valid": {0: hv}, "id!hd0": 0}
                         for a in (1, 2) for b in (1, 3) for sa in (0, 1, 2) for sb in (0, 2) for wa in (False, True) for wb in (False, True) for hv in (True, False)
                         if not (a == b and (sa != sb or wa != wb))]))
    # post-state of the batch's spent set
    for k, p in enumerate(returns(ps)):
        after = post_value(ctx, p, seen)
        added = tuple(after.added)
        c = [p.cond()]
        S.prove(ctx, ob, f"path{k}_spent_set_unchanged_on_error", c + [T.ne(p.value.disc, 0)], bool(added == ()))
        S.prove(ctx, ob, f"path{k}_spent_set_gains_exactly_the_inputs_on_ok", c + [T.eq(p.value.disc, 0), T.not_(is_cb.t)], bool(added == (i0, i1)))
        S.prove(ctx, ob, f"path{k}_cellbase_spends_nothing", c + [T.eq(p.value.disc, 0), is_cb.t], bool(added == ()))



def _fn_by_self(S, file_part, self_rx, short="verify"):
    c = [f for f in S.prog.funcs if f.kind == "fn" and f.short == short and file_part in f.name and f.params and re.match(self_rx, f.params[0][1])]
    if len(c) != 1:
        raise Inconclusive(f"{self_rx}::{short}: {len(c)} candidates")
    return c[0]


ERRC = [(E.rx(r"as Into<.*Error>>::into$|Error as From<.*>>::from$|ErrorKind::because|::other$"), E.opaque_call())]


def m7_tx_verifier_composition(S):
    """the composite transaction verifiers accept only if every part ran and accepted: NonContextual (version, size, empty, duplicate deps,
    outputs data, script hash type), TimeRelative (maturity, since), Contextual::verify / ::complete (time relative, capacity, scripts unless
    skipped, fee); skipping scripts reports zero cycles"""
    from mir2smt import compose as C
    ob = "C04.m7"
    TV = "transaction_verifier.rs"
    # --- NonContextualTransactionVerifier::verify
    ctx = S.ctx()
    ctx.uninterpreted_unknown_calls = True
    parts = [("version", r"VersionVerifier::<.*>::verify$"), ("size", r"SizeVerifier::<.*>::verify$"), ("empty", r"EmptyVerifier::<.*>::verify$"),
             ("duplicate_deps", r"DuplicateDepsVerifier::<.*>::verify$"), ("outputs_data", r"OutputsDataVerifier::<.*>::verify$"), ("script_hash_type", r"ScriptHashTypeVerifier::<.*>::verify$")]
    ctx.env = C.parts_env(parts) + ERRC
    ps = S.run(ctx, _fn_by_self(S, TV, r"^&(?:'\w+ )?NonContextualTransactionVerifier<"), [ctx.ref_to(OpaqueV("nv", "NonContextualTransactionVerifier"))])
    C.check(S, ctx, ob, "non_contextual", ps, [t for t, _ in parts], complete_when=[])
    # --- TimeRelativeTransactionVerifier::verify
    ctx = S.ctx()
    ctx.uninterpreted_unknown_calls = True
    parts = [("maturity", r"MaturityVerifier::verify$"), ("since", r"SinceVerifier::<.*>::verify$")]
    ctx.env = C.parts_env(parts) + ERRC
    ps = S.run(ctx, _fn_by_self(S, TV, r"^&(?:'\w+ )?TimeRelativeTransactionVerifier<"), [ctx.ref_to(OpaqueV("tv", "TimeRelativeTransactionVerifier"))])
    C.check(S, ctx, ob, "time_relative", ps, [t for t, _ in parts], complete_when=[])
    # --- ContextualTransactionVerifier::verify / complete
    for short, script_rx, nargs in (("verify", r"ScriptsVerifier::<.*>::verify$", 3), ("complete", r"ScriptsVerifier::<.*>::complete$", 4)):
        ctx = S.ctx()
        ctx.uninterpreted_unknown_calls = True
        parts = [("time_relative", r"TimeRelativeTransactionVerifier::<.*>::verify$"), ("capacity", r"CapacityVerifier::verify$"), ("script", script_rx), ("fee", r"FeeCalculator::<.*>::transaction_fee$")]
        ctx.env = C.parts_env(parts) + ERRC
        skip = ctx.bool("skip_script_verify"); mx = ctx.int("max_cycles", "u64")
        args = [ctx.ref_to(OpaqueV("cv", "ContextualTransactionVerifier")), mx, skip] + ([ctx.ref_to(OpaqueV("state", "TransactionState"))] if nargs == 4 else [])
        ps = S.run(ctx, _fn_by_self(S, TV, r"^&(?:'\w+ )?ContextualTransactionVerifier<", short), args)
        C.check(S, ctx, ob, f"contextual_{short}", ps, [t for t, _ in parts], assume=[T.not_(skip.t)], complete_when=[])
        C.check(S, ctx, ob, f"contextual_{short}_skip_scripts", ps, ["time_relative", "capacity", "fee"], assume=[skip.t], complete_when=[])
        # the reported cycles/fee are the script part's and the fee part's results; zero cycles when scripts are skipped
        forder = None
        from mir2smt.srcinfo import struct_fields
        forder = struct_fields("verification/src/cache.rs", "Completed")
        for k, p in enumerate(returns(ps)):
            v = p.value
            okp = v.payload(0) if isinstance(v, EnumV) else None
            if not okp or not isinstance(okp[0], AggV):
                continue
            comp = dict(zip(forder, okp[0].fields))
            cyc = comp["cycles"]
            called_script = bool(C.called(p, "script"))
            want = ctx.int("val.script.0", "u64").t if called_script else 0
            S.prove(ctx, ob, f"contextual_{short}_path{k}_cycles_are_the_script_result", [p.cond(), T.eq(v.disc, 0)], T.eq(as_int(cyc), want))
            S.prove(ctx, ob, f"contextual_{short}_path{k}_script_gets_max_cycles", [p.cond(), T.eq(v.disc, 0)],
                    bool(all(any(isinstance(a, IntV) and a.t == mx.t for a in e[2]) for e in C.called(p, "script"))))


def m8_header_dep_on_main_chain(S):
    """HeaderChecker::check_valid as used by block verification (VerifyContext) and by the pool (Snapshot): a header dep is valid iff the
    referenced block is on the main chain and its header is stored"""
    ob = "C04.m8"
    for label, file_part, self_rx in (("verify_context", "contextual_block_verifier.rs", r"^&(?:'\w+ )?VerifyContext<"), ("snapshot", "util/snapshot/src/lib.rs", r"^&(?:'\w+ )?Snapshot$")):
        ctx = S.ctx()
        ctx.uninterpreted_unknown_calls = True
        main = ctx.bool("is_main_chain"); stored = ctx.bool("header_stored")
        seen = []

        def is_main(ex, c, a, d):
            seen.append(("is_main_chain", getattr(deref(ex, a[-1]), "name", "?")))
            return main

        def get_hdr(ex, c, a, d):
            seen.append(("get_block_header", getattr(deref(ex, a[-1]), "name", "?")))
            return mk_option(stored.t, OpaqueV("hdr", "HeaderView"), d)
        ctx.env = [(E.rx(r"is_main_chain$"), is_main), (E.rx(r"get_block_header$"), get_hdr), (E.rx(r"Byte32 as Clone>::clone$"), lambda ex, c, a, d: deref(ex, a[0]))] + ERRC
        f = _fn_by_self(S, file_part, self_rx, "check_valid")
        ps = S.run(ctx, f, [ctx.ref_to(OpaqueV("me", "Self")), ctx.ref_to(OpaqueV("block_hash", "Byte32"))])
        ok = T.or_(*[T.and_(p.cond(), T.eq(p.value.disc, 0)) for p in returns(ps)])
        S.prove(ctx, ob, f"{label}_valid_iff_on_main_chain_and_stored", [], T.and_(T.not_(cond_of(panics(ps))), T.iff(ok, T.and_(main.t, stored.t))))
        S.prove(ctx, ob, f"{label}_both_lookups_use_the_given_hash", [], bool(seen and all(n == "block_hash" for _, n in seen) and {k for k, _ in seen} == {"is_main_chain", "get_block_header"}),
                extra={"note": str(seen)})
        S.witness(ctx, ob, f"{label}_reach", [], ok)


OBLIGATIONS = [m1_since_decode, m2_locks, m3_commit_position, m4_verify_loop, m5_cellbase_maturity, m6_resolve_inputs, m7_tx_verifier_composition, m8_header_dep_on_main_chain]


def validate(S, native):
    cases, mism = 0, []
    for (S_x, ctx, inputs) in VAL:
        c, m = S.validate(ctx, inputs)
        cases += c
        mism += m
    del VAL[:]
    return {"cases": cases, "mismatches": mism}

ENGINE = "M"
LEVEL = "other"
EXPLANATION = ("RFC-0017 `since` decoding for all 2^64 values and the verdict table of absolute/relative locks (block number, epoch fraction in exact rationals, median time), "
               "plus the commit-position arithmetic of TxVerifyEnv, decided by SMT over the real MIR.")
BOUNDS = {"values": "all u64 since values and contexts", "outside": "input liveness/double spend (HashSet + store), dep groups, scripts (VM), capacity sums, relative timestamp branch base selection beyond dataflow"}
ASSUMPTIONS = ["RationalU256 arithmetic/comparison and EpochNumberWithFraction::to_rational are replaced by exact rationals (numerator/denominator integers); a zero epoch length is the documented panic",
               "tx_env, consensus and data-loader accessors are environment symbols", "relative block-number lock: info.block_number + value does not overflow u64 (otherwise the real code panics: reported as precondition)"]
TRUSTED = ["exact-rational model of ckb-rational (not cross-checked against the numext code in this run)"]
LEVEL_TEXT = "The since-related clauses of C04 are decided for all encodings and contexts by SMT over the real MIR; every other clause of C04 is outside and not claimed."
LEVEL_NOTE = "Partial claim (since semantics + commit position). Liveness, deps, scripts, capacity: outside."
TECHNIQUE = "symbolic execution of rustc MIR -> integer-theory SMT (cvc5 + z3); rationals as integer pairs"


def m9_pool_and_overlay_cell_status(S):
    """where a pooled transaction's inputs are resolved: `PoolCell::cell` / `is_live` (tx-pool/src/pool_cell.rs) and the overlay combinators of util/types/src/core/cell.rs.
    A cell spent by a pooled transaction is Dead (unless the lookup is made for a replacement, rbf); otherwise an output created by a pooled transaction is Live with that output,
    its data and the REQUESTED out-point; anything else is Unknown to the pool; the checker answers the same three ways.  An overlay answers with the overlay's verdict when it
    knows the cell (Live or Dead) and asks the underlying provider, with the same out-point, only when the overlay does not know it."""
    from mir2smt.session_extra import extra_session
    ob = "C04.m9"
    S2 = extra_session(S, ["ckb-constant", "ckb-occupied-capacity-core", "ckb-types", "ckb-tx-pool"])
    try:
        _m9_body(S2, ob)
    finally:
        S2.finish()


def _m9_body(S2, ob):
    variants = None
    src = open(os.path.join(os.environ.get("VERIF_REPO", "/repo"), "util/types/src/core/cell.rs")).read()
    m_ = re.search(r"pub enum CellStatus\s*\{(.*?)\n\}", src, re.S)
    variants = [re.match(r"\s*(\w+)", l).group(1) for l in re.sub(r"///[^\n]*", "", m_.group(1)).split("\n") if re.match(r"\s*[A-Z]\w*", l)]
    if sorted(variants) != ["Dead", "Live", "Unknown"]:
        raise Inconclusive(f"CellStatus variants: {variants}")
    vi = {v: i for i, v in enumerate(variants)}

    def nm(ex, v):
        v = deref(ex, v) if ex is not None else v
        return getattr(v, "name", None) or type(v).__name__
    for short in ("cell", "is_live"):
        f = [x for x in S2.prog.funcs if x.kind == "fn" and x.short == short and "tx-pool/src/pool_cell.rs" in x.name]
        if len(f) != 1:
            raise Inconclusive(f"PoolCell::{short}: {len(f)} candidates")
        ctx = S2.ctx()
        ctx.uninterpreted_unknown_calls = True
        rbf, spent, created = ctx.bool("rbf_lookup"), ctx.bool("spent_by_a_pooled_transaction"), ctx.bool("created_by_a_pooled_transaction")
        asked = []
        ctx.env = [
            (E.rx(r"Edges::get_input_ref$"), lambda ex, c, a, d: (asked.append(("input_ref", nm(ex, a[1]))), mk_option(spent.t, ex.ctx.ref_to(OpaqueV("spender", "ProposalShortId")), d))[1]),
            (E.rx(r"PoolMap::get_output_with_data$"), lambda ex, c, a, d: (asked.append(("output", nm(ex, a[1]))), mk_option(created.t, AggV((OpaqueV("pooled_output", "CellOutput"), OpaqueV("pooled_data", "Bytes")), "(CellOutput, Bytes)"), d))[1]),
            (E.rx(r"CellMetaBuilder::from_cell_output$"), lambda ex, c, a, d: OpaqueV("meta{" + nm(ex, a[0]) + "," + nm(ex, a[1]), d)),
            (E.rx(r"CellMetaBuilder::out_point$"), lambda ex, c, a, d: OpaqueV(nm(ex, a[0]) + ",out_point=" + nm(ex, a[1]), d)),
            (E.rx(r"CellMetaBuilder::build$"), lambda ex, c, a, d: OpaqueV(nm(ex, a[0]) + "}", d)),
            (E.rx(r"CellStatus::live_cell$"), lambda ex, c, a, d: EnumV(vi["Live"], ((vi["Live"], (a[0],)),), "CellStatus")),
            (E.rx(r"as (ToOwned|Clone)>::(to_owned|clone)$"), lambda ex, c, a, d: OpaqueV(nm(ex, a[0]), d)),
        ]
        me = ctx.ref_to(AggV((ctx.ref_to(OpaqueV("pool_map", "PoolMap")), rbf), "PoolCell"))
        args = [me, ctx.ref_to(OpaqueV("asked_out_point", "OutPoint"))] + ([BoolV(True)] if short == "cell" else [])
        ps = S2.run(ctx, f[0], args)
        S2.prove(ctx, ob, f"pool_{short}_no_panic", [], T.not_(cond_of(panics(ps))))
        dead = T.and_(T.not_(rbf.t), spent.t)
        live = T.and_(T.not_(dead), created.t)
        rs = returns(ps)
        if short == "cell":
            is_v = lambda name: T.or_(*[T.and_(p.cond(), T.eq(p.value.disc, vi[name]) if not isinstance(p.value.disc, int) else (p.value.disc == vi[name])) for p in rs if isinstance(p.value, EnumV)])
            S2.prove(ctx, ob, "pool_cell_dead_iff_spent_in_the_pool_and_not_an_rbf_lookup", [], T.iff(is_v("Dead"), dead))
            S2.prove(ctx, ob, "pool_cell_live_iff_not_dead_and_created_in_the_pool", [], T.iff(is_v("Live"), live))
            S2.prove(ctx, ob, "pool_cell_unknown_otherwise", [], T.iff(is_v("Unknown"), T.and_(T.not_(dead), T.not_(created.t))))
            metas = {nm(None, p.value.payload(vi["Live"])[0]) for p in rs if isinstance(p.value, EnumV) and p.value.disc == vi["Live"]}
            S2.prove(ctx, ob, "pool_cell_live_meta_is_the_pooled_output_with_its_data_and_the_requested_out_point", [], bool(metas == {"meta{pooled_output,pooled_data,out_point=asked_out_point}"}), extra={"note": str(metas)})
        else:
            some = lambda b_: T.or_(*[T.and_(p.cond(), bool(isinstance(p.value, EnumV) and p.value.disc == 1 and isinstance(p.value.payload(1)[0], BoolV) and p.value.payload(1)[0].t is b_)) for p in rs])
            none = T.or_(*[p.cond() for p in rs if isinstance(p.value, EnumV) and p.value.disc == 0])
            S2.prove(ctx, ob, "pool_is_live_answers_false_true_unknown_under_the_same_conditions", [], T.and_(T.iff(some(False), dead), T.iff(some(True), live), T.iff(none, T.and_(T.not_(dead), T.not_(created.t)))))
        S2.prove(ctx, ob, f"pool_{short}_lookups_are_about_the_requested_out_point", [], bool(asked and all(n == "asked_out_point" for _, n in asked)), extra={"note": str(asked)})
    # ---------------- overlays
    fo = [x for x in S2.prog.funcs if x.kind == "fn" and x.short == "cell" and "util/types/src/core/cell.rs" in x.name and len(x.params) == 3 and "OverlayCellProvider" in x.params[0][1]]
    if len(fo) != 1:
        raise Inconclusive(f"OverlayCellProvider::cell: {len(fo)} candidates")
    ctx = S2.ctx()
    ctx.uninterpreted_unknown_calls = True
    od = ctx.int("overlay_verdict", "u8")
    ud = ctx.int("underlying_verdict", "u8")
    ctx.add_side(T.le(od.t, 2)); ctx.add_side(T.le(ud.t, 2))
    asked = []

    def provider(tag, dsc):
        def h(ex, c, a, d):
            asked.append((tag, nm(ex, a[1]), list(ex.pc)))
            return EnumV(dsc.t, ((vi["Live"], (OpaqueV(tag + "_meta", "CellMeta"),)),), "CellStatus")
        return h
    ctx.env = [(E.rx(r"<A as CellProvider>::cell$"), provider("overlay", od)), (E.rx(r"<B as CellProvider>::cell$"), provider("underlying", ud))]
    me = ctx.ref_to(AggV((ctx.ref_to(OpaqueV("overlay", "A")), ctx.ref_to(OpaqueV("underlying", "B"))), "OverlayCellProvider"))
    ps = S2.run(ctx, fo[0], [me, ctx.ref_to(OpaqueV("asked_out_point", "OutPoint")), BoolV(True)])
    S2.prove(ctx, ob, "overlay_no_panic", [], T.not_(cond_of(panics(ps))))
    res = merged(ps, lambda v: v.disc if isinstance(v, EnumV) else None)
    unk = T.eq(od.t, vi["Unknown"])
    S2.prove(ctx, ob, "overlay_verdict_wins_when_it_knows_the_cell_else_the_underlying_provider_decides", [], T.eq(res, T.ite(unk, ud.t, od.t)))
    und = [(n, pc) for t, n, pc in asked if t == "underlying"]
    S2.prove(ctx, ob, "underlying_provider_is_asked_iff_the_overlay_does_not_know_the_cell_with_the_same_out_point", [],
             T.and_(T.iff(T.or_(*[T.and_(*pc) for _, pc in und]) if und else False, unk), bool(all(n == "asked_out_point" for _, n, _ in asked))))
    live_src = []
    for p in returns(ps):
        v = p.value
        pay = v.payload(vi["Live"]) if isinstance(v, EnumV) else None
        if pay:
            live_src.append(T.implies(T.and_(p.cond(), T.eq(res, vi["Live"])), bool(nm(None, pay[0]) == ("overlay_meta" if not any(t == "underlying" and all(str(x) in [str(y) for y in p.pc] for x in pc) for t, _, pc in asked) else "underlying_meta"))))
    S2.prove(ctx, ob, "live_cell_meta_comes_from_the_provider_that_answered", [], T.and_(*live_src) if live_src else True)


OBLIGATIONS = OBLIGATIONS + [m9_pool_and_overlay_cell_status]
