"""C04 — transaction acceptance: `since` decoding and absolute/relative lock verdicts, commit-position arithmetic (engine M).
Liveness/double-spend resolution, dep groups, scripts and capacity sums are outside."""
import re
from mir2smt.ob import *
from mir2smt import terms as T
from mir2smt.exec import OpaqueV, IntV, BoolV, AggV, EnumV, RefV, UNIT, Stop, mk_option
from mir2smt import envlib as E
from mir2smt.builtins import deref

CRATES = ["ckb-constant", "ckb-occupied-capacity-core", "ckb-types", "ckb-chain-spec", "ckb-script", "ckb-verification"]
U64 = (1 << 64) - 1
B63 = 1 << 63
VALUE = (1 << 56)
VAL = []


def since_fields(s):
    relative = T.ge(s, B63)
    metric = T.emod(T.ediv(s, 1 << 61), 4)
    remain = T.emod(T.ediv(s, 1 << 56), 32)
    value = T.emod(s, VALUE)
    return relative, metric, remain, value


def S_(v):
    return newtype(v, "Since")


def m1_since_decode(S):
    ob = "C04.m1"
    ctx = S.ctx()
    s = ctx.int("s", "u64")
    rel, metric, remain, value = since_fields(s.t)
    ps = S.run(ctx, "Since::is_absolute", [S_(s)])
    S.prove(ctx, ob, "is_absolute_is_bit63_clear", [], T.and_(T.not_(cond_of(panics(ps))), T.iff(merged(ps, as_bool), T.not_(rel))))
    ps = S.run(ctx, "Since::is_relative", [S_(s)])
    S.prove(ctx, ob, "is_relative_is_bit63_set", [], T.iff(merged(ps, as_bool), rel))
    ps = S.run(ctx, "Since::flags_is_valid", [S_(s)])
    S.prove(ctx, ob, "flags_valid_iff_reserved_bits_clear_and_metric_not_3", [], T.and_(T.not_(cond_of(panics(ps))), T.iff(merged(ps, as_bool), T.and_(T.eq(remain, 0), T.ne(metric, 3)))))
    ps = S.run(ctx, "Since::extract_metric", [S_(s)])

    def em(v, k):
        if v.disc == 0:
            return 0
        m = v.payload(1)[0]
        return [1, m.disc, as_int(m.payload(m.disc)[0])][k]
    S.native(ctx, "since_extract_metric", [s.t], [merged(ps, lambda v: em(v, 0)), merged(ps, lambda v: em(v, 1)), merged(ps, lambda v: em(v, 2))], cond_of(panics(ps)))
    VAL.append((S, ctx, [{"s": x} for x in (0, 1, 0x2000_0a00_0500_0010, 0x4000_0000_0000_0001, 0x40ff_ffff_ffff_ffff, 0xc000_0000_0000_0064, 0x6000_0000_0000_0000,
                                            0x8000_0000_0000_0064, 0x00ff_ffff_ffff_ffff, 0x5fff_ffff_ffff_ffff, U64, 0x4000_4189_374b_c6a7, 0x4000_4189_374b_c6a8)]))
    S.prove(ctx, ob, "extract_metric_no_panic", [], T.not_(cond_of(panics(ps))))
    # Option<SinceMetric>: disc 1 = Some; SinceMetric variants BlockNumber(0), EpochNumberWithFraction(1), Timestamp(2)
    for k, p in enumerate(returns(ps)):
        v = p.value
        c = [p.cond()]
        if v.disc == 0:
            S.prove(ctx, ob, f"path{k}_none_only_for_metric_3", c, T.eq(metric, 3))
            continue
        m = v.payload(1)[0]
        vi = m.disc
        inner = m.payload(vi)[0]
        if vi == 0:
            S.prove(ctx, ob, f"path{k}_block_number_metric", c, T.and_(T.eq(metric, 0), T.eq(as_int(inner), value)))
        elif vi == 1:
            S.prove(ctx, ob, f"path{k}_epoch_metric", c, T.and_(T.eq(metric, 1), T.eq(as_int(inner), value)))
        else:
            S.prove(ctx, ob, f"path{k}_timestamp_metric_is_seconds_times_1000_saturating", c, T.and_(T.eq(metric, 2), T.eq(as_int(inner), T.imin(T.mul(value, 1000), U64))))
    S.witness(ctx, ob, "reach_timestamp_metric", [], T.and_(T.eq(metric, 2), T.gt(value, 5)))


def rat_of_epoch(full):
    n, i, l = T.emod(full, 1 << 24), T.emod(T.ediv(full, 1 << 24), 1 << 16), T.emod(T.ediv(full, 1 << 40), 1 << 16)
    # to_rational: 0 when the packed value is 0, otherwise n + i/l  (l = 0 panics in the real code: division by zero)
    num = T.ite(T.eq(full, 0), 0, T.add(T.mul(n, l), i))
    den = T.ite(T.eq(full, 0), 1, l)
    return num, den


def lock_env(ctx, syms):
    def to_rational(ex, callee, args, dty):
        a = deref(ex, args[0])
        full = as_int(a)
        num, den = rat_of_epoch(full)
        # the real RationalU256::new panics on a zero denominator
        if not ex.decide(T.ne(den, 0)):
            from mir2smt.exec import Panic
            raise Panic("to_rational: zero epoch length")
        return AggV((IntV(num, "U256"), IntV(den, "U256")), "RationalU256")

    def rat_add(ex, callee, args, dty):
        a, b = deref(ex, args[0]), deref(ex, args[1])
        return AggV((IntV(T.add(T.mul(as_int(a.fields[0]), as_int(b.fields[1])), T.mul(as_int(b.fields[0]), as_int(a.fields[1]))), "U256"),
                     IntV(T.mul(as_int(a.fields[1]), as_int(b.fields[1])), "U256")), "RationalU256")

    def rat_lt(ex, callee, args, dty):
        a, b = deref(ex, args[0]), deref(ex, args[1])
        return BoolV(T.lt(T.mul(as_int(a.fields[0]), as_int(b.fields[1])), T.mul(as_int(b.fields[0]), as_int(a.fields[1]))))

    def into_err(ex, callee, args, dty):
        a = deref(ex, args[0])
        return a

    def median(ex, callee, args, dty):
        a = deref(ex, args[-1])
        return ctx.int("median." + getattr(a, "name", "x"), "u64")

    return [
        (E.rx(r"EpochNumberWithFraction::to_rational$"), to_rational),
        (E.rx(r"RationalU256 as Add(<.*>)?>::add$"), rat_add),
        (E.rx(r"RationalU256 as PartialOrd>::lt$"), rat_lt),
        (E.rx(r"as Into<.*Error>>::into$|Error as From<.*>>::from$"), into_err),
        (E.rx(r"TxVerifyEnv::block_number$"), lambda ex, c, a, d: syms["commit_number"]),
        (E.rx(r"TxVerifyEnv::epoch$"), lambda ex, c, a, d: AggV((syms["commit_epoch"],), "EpochNumberWithFraction")),
        (E.rx(r"TxVerifyEnv::epoch_number$"), lambda ex, c, a, d: syms["commit_epoch_number"]),
        (E.rx(r"TxVerifyEnv::parent_hash$"), lambda ex, c, a, d: OpaqueV("parent_hash", d)),
        (E.rx(r"Consensus::tx_proposal_window$"), lambda ex, c, a, d: OpaqueV("pw", d)),
        (E.rx(r"Consensus::(hardfork_switch|median_time_block_count)$"), E.opaque_call()),
        (E.rx(r"is_block_ts_as_relative_since_start_enabled$"), lambda ex, c, a, d: syms["ts_base_is_block_ts"]),
        (E.rx(r"block_median_time$"), median),
        (E.rx(r"get_header_fields$"), lambda ex, c, a, d: mk_option(True, OpaqueV("hf." + getattr(deref(ex, a[-1]), "name", "x"), "HeaderFields"), d)),
        (E.rx(r"as Deref>::deref$"), lambda ex, c, a, d: a[0] if not isinstance(deref(ex, a[0]), OpaqueV) or not deref(ex, a[0]).ty.startswith("Arc<") else
            ex.ctx.ref_to(OpaqueV(deref(ex, a[0]).name + ".deref", deref(ex, a[0]).ty[4:-1]))),
    ]


def classify(S, v):
    """Ok / Immature / InvalidSince of a Result<(), Error> value"""
    if v.disc == 0:
        return "ok"
    e = v.payload(1)[0]
    if isinstance(e, EnumV):
        vs = S.prog.enum_variants("TransactionError", None, "verification/src/error.rs")
        names = {i: n for i, n in enumerate(vs)} if isinstance(vs, list) else {i: n for n, i in vs.items()}
        return names.get(e.disc, "err?")
    if isinstance(e, OpaqueV) and "TransactionError" in e.name:
        for nme in ("Immature", "InvalidSince"):
            if nme in e.name:
                return nme
    if isinstance(e, AggV) and e.ty.split("::")[-1] in ("Immature", "InvalidSince"):
        return e.ty.split("::")[-1]
    return "err?" + repr(e)[:120]


def m2_locks(S):
    ob = "C04.m2"
    for kind in ("absolute", "relative"):
        ctx = S.ctx()
        s = ctx.int("s", "u64")
        syms = {"commit_number": ctx.int("commit_number", "u64"), "commit_epoch": ctx.int("commit_epoch", "u64"),
                "commit_epoch_number": ctx.int("commit_epoch_number", "u64"), "ts_base_is_block_ts": ctx.bool("ts_base_is_block_ts")}
        ctx.env = lock_env(ctx, syms)
        me = OpaqueV("sv", "SinceVerifier<DL>")
        cm = OpaqueV("cm", "CellMeta")
        idx = ctx.int("index", "usize")
        if kind == "absolute":
            ps = S.run(ctx, "SinceVerifier::verify_absolute_lock", [ctx.ref_to(me), idx, S_(s)])
        else:
            ps = S.run(ctx, "SinceVerifier::verify_relative_lock", [ctx.ref_to(me), idx, S_(s), ctx.ref_to(cm)])
        rel, metric, remain, value = since_fields(s.t)
        vn, vi, vl = T.emod(value, 1 << 24), T.emod(T.ediv(value, 1 << 24), 1 << 16), T.emod(T.ediv(value, 1 << 40), 1 << 16)
        wf_inc = T.or_(T.gt(vl, vi), T.and_(T.eq(vl, 0), T.eq(vi, 0)))
        # normalize(): length 0 -> (n, 0, 1)
        nnum = T.ite(T.eq(vl, 0), vn, T.add(T.mul(vn, vl), vi))
        nden = T.ite(T.eq(vl, 0), 1, vl)
        nnum = T.ite(T.eq(value, 0), 0, nnum)
        cnum, cden = rat_of_epoch(syms["commit_epoch"].t)
        # symbols created lazily for the cell's transaction info
        def sym(rx_):
            c = [n for n in ctx.decls if re.fullmatch(rx_, n)]
            return T.var(c[0]) if len(c) == 1 else None
        info_some = sym(r"cm\.\d+\.some")
        info_num = sym(r"cm\.\d+\.Some\.1")
        info_epoch = sym(r"cm\.\d+\.Some\.2\.0")
        applies = T.not_(rel) if kind == "absolute" else rel
        groups = {"ok": [], "Immature": [], "InvalidSince": []}
        for p in returns(ps):
            groups.setdefault(classify(S, p.value), []).append(p.cond())
        if set(groups) - {"ok", "Immature", "InvalidSince"}:
            raise Inconclusive(f"unexpected verdict classes {set(groups)}")
        ok, imm, inv = [T.or_(*groups[k]) for k in ("ok", "Immature", "InvalidSince")]
        pre = [T.ne(cden, 0)]
        if kind == "relative":
            if info_some is None or info_num is None or info_epoch is None:
                raise Inconclusive("transaction_info symbols not found")
            inum, iden = rat_of_epoch(info_epoch)
            pre += [T.ne(iden, 0), T.le(T.add(info_num, value), U64)]
            has_info = T.eq(info_some, 1)
            base_n = T.add(info_num, value)
            thr_num, thr_den = T.add(T.mul(inum, nden), T.mul(nnum, iden)), T.mul(iden, nden)
            med_cur = ctx.int("median.parent_hash", "u64").t
            hf_ts = sym(r"hf\.cm\.\d+\.Some\.0\.\d+")
        else:
            has_info = True
            base_n = value
            thr_num, thr_den = nnum, nden
            med_cur = ctx.int("median.parent_hash", "u64").t
        S.prove(ctx, ob, f"{kind}_no_panic_for_well_formed_context", pre, T.not_(cond_of(panics(ps))))
        S.prove(ctx, ob, f"{kind}_lock_of_other_kind_is_ignored", pre + [T.not_(applies)], ok)
        if kind == "relative":
            S.prove(ctx, ob, "relative_lock_on_cell_without_tx_info_is_immature", pre + [applies, T.not_(has_info)], imm)
        base = pre + [applies, has_info]
        S.prove(ctx, ob, f"{kind}_reserved_metric_is_invalid_since", base + [T.eq(metric, 3)], inv)
        S.prove(ctx, ob, f"{kind}_block_number_metric", base + [T.eq(metric, 0)],
                T.and_(T.iff(imm, T.lt(syms["commit_number"].t, base_n)), T.iff(ok, T.not_(T.lt(syms["commit_number"].t, base_n))), T.not_(inv)))
        S.prove(ctx, ob, f"{kind}_epoch_metric", base + [T.eq(metric, 1)],
                T.and_(T.iff(inv, T.not_(wf_inc)), T.implies(wf_inc, T.iff(imm, T.lt(T.mul(cnum, thr_den), T.mul(thr_num, cden))))), timeout_s=180)
        ms = T.imin(T.mul(value, 1000), U64)
        if kind == "absolute":
            S.prove(ctx, ob, "absolute_timestamp_metric", base + [T.eq(metric, 2)], T.and_(T.iff(imm, T.lt(med_cur, ms)), T.not_(inv)))
        else:
            # base timestamp: the cell block's own timestamp (ckb2021) or the median time of its parent; either way a u64 symbol
            bts = [n for n in ctx.decls if re.fullmatch(r"hf\..*\.\d+", n) or re.fullmatch(r"median\.hf\..*", n)]
            S.prove(ctx, ob, "relative_timestamp_metric_never_invalid_and_decided", base + [T.eq(metric, 2)], T.and_(T.not_(inv), T.or_(ok, imm)))
            S.prove(ctx, ob, "relative_timestamp_unreachable_threshold_is_immature", base + [T.eq(metric, 2), T.eq(ms, U64), T.lt(med_cur, U64)], imm)
        S.witness(ctx, ob, f"{kind}_reach_epoch_immature", base + [T.eq(metric, 1), wf_inc], imm)


def m3_commit_position(S):
    """TxVerifyEnv: the block number a transaction is assumed to be committed at, per submission stage"""
    ob = "C04.m3"
    ctx = S.ctx()
    env_ = OpaqueV("env", "TxVerifyEnv")
    c = ctx.int("pw.0", "u64"); f = ctx.int("pw.1", "u64")
    pw = AggV((c, f), "ProposalWindow")
    ps = S.run(ctx, "TxVerifyEnv::block_number", [ctx.ref_to(env_), pw])
    tip = ctx.int("env.1", "u64").t     # TxVerifyEnv.number (second field; the phase is the first)
    d = [n for n in ctx.decls if re.fullmatch(r"env\.\d+\.disc", n)]
    if len(d) != 1:
        raise Inconclusive(f"phase discriminant symbol: {d}")
    disc = T.var(d[0])
    v = merged(ps, as_int)
    vs = S.prog.enum_variants("TxVerifyPhase")
    k = [n for n in ctx.decls if re.fullmatch(r"env\.\d+\.Proposed\.0", n)]
    pre = [T.le(1, c.t), T.le(c.t, f.t), T.lt(f.t, 1 << 32), T.le(T.add(tip, T.add(f.t, 2)), U64)]
    S.prove(ctx, ob, "no_panic", pre, T.not_(cond_of(panics(ps))))
    S.prove(ctx, ob, "submitted_commits_at_tip_plus_one_plus_close", pre + [T.eq(disc, vs.index("Submitted"))], T.eq(v, T.add(T.add(tip, 1), c.t)))
    S.prove(ctx, ob, "committed_commits_at_tip", pre + [T.eq(disc, vs.index("Committed"))], T.eq(v, tip))
    if len(k) == 1:
        kk = T.var(k[0])
        S.prove(ctx, ob, "proposed_after_k_blocks_commits_at_tip_minus_k_plus_close", pre + [T.eq(disc, vs.index("Proposed"))],
                T.eq(v, T.add(T.imax(0, T.sub(tip, kk)), c.t)))


def m4_verify_loop(S):
    """SinceVerifier::verify for one input: only a since that is exactly zero is ignored; invalid flags are InvalidSince;
    otherwise the verdict is the absolute lock's, then the relative lock's (both as environment results here; m2 decides them)"""
    ob = "C04.m4"
    ctx = S.ctx(unwind=4)
    s = ctx.int("s", "u64")
    abs_ok = ctx.bool("abs_ok"); rel_ok = ctx.bool("rel_ok")
    calls = []

    def it_next(ex, callee, args, dty):
        n = len([e for e in ex.log if e[0] == "next"])
        ex.log.append(("next", callee, [], list(ex.pc)))
        if n == 0:
            item = AggV((IntV(0, "usize"), AggV((ex.ctx.ref_to(OpaqueV("cm", "CellMeta")), OpaqueV("input", "CellInput")), "(&CellMeta, CellInput)")), "(usize, (&CellMeta, CellInput))")
            return mk_option(True, item, dty)
        return mk_option(False, None, dty)

    def lock(which, okv):
        def h(ex, callee, args, dty):
            sv = args[2]
            ex.log.append((which, callee, [as_int(sv)], list(ex.pc)))
            from mir2smt.exec import mk_result
            return mk_result(okv.t, UNIT, OpaqueV("err_" + which, "Error"), dty)
        return h

    ctx.env = [
        (E.rx(r"as Deref>::deref$"), lambda ex, c, a, d: ex.ctx.ref_to(OpaqueV("d." + getattr(deref(ex, a[0]), "name", "x"), "T"))),
        (E.rx(r"impl \[CellMeta\]>::iter$|TransactionView::inputs$|as Iterator>::(zip|enumerate)|as IntoIterator>::into_iter"), E.opaque_call()),
        (E.rx(r"Enumerate<.*> as Iterator>::next$"), it_next),
        (E.rx(r"CellInput::since$"), lambda ex, c, a, d: OpaqueV("since_field", d)),
        (E.rx(r"Uint64 as Into<u64>>::into$"), lambda ex, c, a, d: s),
        (E.rx(r"SinceVerifier::<DL>::verify_absolute_lock$"), lock("abs", abs_ok)),
        (E.rx(r"SinceVerifier::<DL>::verify_relative_lock$"), lock("rel", rel_ok)),
        (E.rx(r"as Into<.*Error>>::into$|Error as From<.*>>::from$"), lambda ex, c, a, d: deref(ex, a[0])),
    ]
    cands = [f for f in S.prog.by_short.get("verify", []) if f.params and "SinceVerifier" in f.params[0][1]]
    if len(cands) != 1:
        raise Inconclusive(f"SinceVerifier::verify: {len(cands)} candidates")
    ps = S.run(ctx, cands[0], [ctx.ref_to(OpaqueV("sv", "SinceVerifier<DL>"))])
    S.prove(ctx, ob, "no_panic", [], T.not_(cond_of(panics(ps))))
    rel, metric, remain, value = since_fields(s.t)
    flags_ok = T.and_(T.eq(remain, 0), T.ne(metric, 3))
    groups = {}
    for p in returns(ps):
        v = p.value
        if v.disc == 0:
            k = "ok"
        else:
            e = v.payload(1)[0]
            k = getattr(e, "name", None) or (e.ty.split("::")[-1] if isinstance(e, AggV) else "err?")
        groups.setdefault(k, []).append(p)
    okc = cond_of(groups.get("ok", []))
    inv = cond_of(groups.get("InvalidSince", []))
    eabs = cond_of(groups.get("err_abs", []))
    erel = cond_of(groups.get("err_rel", []))
    if set(groups) - {"ok", "InvalidSince", "err_abs", "err_rel"}:
        raise Inconclusive(f"unexpected verdict classes {set(groups)}")
    S.prove(ctx, ob, "only_exactly_zero_since_is_ignored", [], T.implies(T.eq(s.t, 0), okc))
    S.prove(ctx, ob, "invalid_flags_are_invalid_since_whatever_the_value_bits", [T.ne(s.t, 0)], T.iff(inv, T.not_(flags_ok)))
    S.prove(ctx, ob, "valid_nonzero_since_takes_both_lock_verdicts", [T.ne(s.t, 0), flags_ok],
            T.and_(T.iff(okc, T.and_(abs_ok.t, rel_ok.t)), T.iff(eabs, T.not_(abs_ok.t)), T.iff(erel, T.and_(abs_ok.t, T.not_(rel_ok.t)))))
    # both lock functions receive the input's own since
    for k, p in enumerate(returns(ps)):
        for e in p.log:
            if e[0] in ("abs", "rel"):
                S.prove(ctx, ob, f"path{k}_{e[0]}_lock_gets_the_inputs_since", [p.cond()], T.eq(e[2][0], s.t))
    S.witness(ctx, ob, "reach_zero_value_bits_with_flags", [], T.and_(T.ne(s.t, 0), T.eq(value, 0), inv))


def m5_cellbase_maturity(S):
    """MaturityVerifier's predicate `cellbase_immature` on one cell: immature iff the cell is a non-genesis cellbase output and
    the current epoch (exact fraction) is below cell epoch + maturity"""
    ob = "C04.m5"
    ctx = S.ctx()
    syms = {"commit_number": ctx.int("x1", "u64"), "commit_epoch": ctx.int("x2", "u64"), "commit_epoch_number": ctx.int("x3", "u64"), "ts_base_is_block_ts": ctx.bool("x4")}
    ctx.env = lock_env(ctx, syms)
    cands = [f for f in S.prog.funcs if f.kind == "fn" and f.name.endswith("::verify::{closure#0}") and "transaction_verifier.rs:370" in f.name]
    if len(cands) != 1:
        raise Inconclusive(f"cellbase_immature closure: {len(cands)} candidates")
    clo = cands[0]
    mv = OpaqueV("mv", "MaturityVerifier")
    cm = OpaqueV("cm", "CellMeta")
    env_clo = AggV((ctx.ref_to(mv),), clo.params[0][1].lstrip("&"))
    ps = S.run(ctx, clo, [ctx.ref_to(env_clo), ctx.ref_to(cm)])

    def sym(rx_):
        c = [n for n in ctx.decls if re.fullmatch(rx_, n)]
        return T.var(c[0]) if len(c) == 1 else None
    some = sym(r"cm\.2\.some"); bnum = sym(r"cm\.2\.Some\.(_\.)?1"); bep = sym(r"cm\.2\.Some\.(_\.)?2\.0"); idx = sym(r"cm\.2\.Some\.(_\.)?3")
    cur = sym(r"mv\.1\.0"); mat = sym(r"mv\.2\.0")
    if None in (some, bnum, bep, idx, cur, mat):
        raise Inconclusive("symbols of the cell's transaction info / verifier fields not found")
    cn, cd = rat_of_epoch(cur); mn, md = rat_of_epoch(mat); bn_, bd = rat_of_epoch(bep)
    pre = [T.ne(cd, 0), T.ne(md, 0), T.ne(bd, 0)]
    S.prove(ctx, ob, "no_panic_for_well_formed_epochs", pre, T.not_(cond_of(panics(ps))))
    imm = merged(ps, as_bool)
    # current < maturity + cell epoch   <=>   cn/cd < mn/md + bn/bd
    thr_n, thr_d = T.add(T.mul(mn, bd), T.mul(bn_, md)), T.mul(md, bd)
    spec = T.and_(T.eq(some, 1), T.gt(bnum, 0), T.eq(idx, 0), T.lt(T.mul(cn, thr_d), T.mul(thr_n, cd)))
    S.prove(ctx, ob, "immature_iff_non_genesis_cellbase_below_epoch_threshold", pre, T.iff(imm, spec), timeout_s=180)
    S.witness(ctx, ob, "reach_immature", pre, T.and_(imm, T.gt(bn_, 0)))


OBLIGATIONS = [m1_since_decode, m2_locks, m3_commit_position, m4_verify_loop, m5_cellbase_maturity]


def validate(S, native):
    cases, mism = 0, []
    for (S_x, ctx, inputs) in VAL:
        c, m = S.validate(ctx, inputs)
        cases += c
        mism += m
    del VAL[:]
    return {"cases": cases, "mismatches": mism}

ENGINE = "M"
LEVEL = "other"
EXPLANATION = ("RFC-0017 `since` decoding for all 2^64 values and the verdict table of absolute/relative locks (block number, epoch fraction in exact rationals, median time), "
               "plus the commit-position arithmetic of TxVerifyEnv, decided by SMT over the real MIR.")
BOUNDS = {"values": "all u64 since values and contexts", "outside": "input liveness/double spend (HashSet + store), dep groups, scripts (VM), capacity sums, relative timestamp branch base selection beyond dataflow"}
ASSUMPTIONS = ["RationalU256 arithmetic/comparison and EpochNumberWithFraction::to_rational are replaced by exact rationals (numerator/denominator integers); a zero epoch length is the documented panic",
               "tx_env, consensus and data-loader accessors are environment symbols", "relative block-number lock: info.block_number + value does not overflow u64 (otherwise the real code panics: reported as precondition)"]
TRUSTED = ["exact-rational model of ckb-rational (not cross-checked against the numext code in this run)"]
LEVEL_TEXT = "The since-related clauses of C04 are decided for all encodings and contexts by SMT over the real MIR; every other clause of C04 is outside and not claimed."
LEVEL_NOTE = "Partial claim (since semantics + commit position). Liveness, deps, scripts, capacity: outside."
TECHNIQUE = "symbolic execution of rustc MIR -> integer-theory SMT (cvc5 + z3); rationals as integer pairs"
