"""C14 — caches never change a verdict: the cache-hit path of block transaction verification (engine M).

Claimed (partial): for the per-transaction step of `BlockTxsVerifier::verify` — the only place a cached script result replaces a
computation during block verification — a cache hit is looked up under the transaction's *witness hash* (content including
witnesses), still runs the context-dependent checks (TimeRelativeTransactionVerifier: since + maturity; DaoScriptSizeVerifier once
RFC-0044 is active), reports the cached cycles/fee unchanged, and accepts/rejects exactly like a miss does whenever the
context-independent part (scripts, capacity, fee — what the cache stands for) accepts.  The store's read caches, the pool's async
`verify_rtx` (coroutine MIR) and the LRU containers themselves are outside.
"""
import os
import re
from mir2smt.ob import *
from mir2smt import terms as T
from mir2smt.exec import OpaqueV, IntV, BoolV, AggV, EnumV, RefV, UNIT, Stop, mk_option, mk_result
from mir2smt import envlib as E
from mir2smt import compose as C
from mir2smt.builtins import deref

CRATES = ["ckb-constant", "ckb-occupied-capacity-core", "ckb-types", "ckb-chain-spec", "ckb-verification", "ckb-verification-contextual", "ckb-store", "ckb-tx-pool"]
ERRC = [(E.rx(r"as Into<.*Error>>::into$|Error as From<.*>>::from$|ErrorKind::because|::other$"), E.opaque_call())]


def _closure(S):
    c = [f for f in S.prog.funcs if f.kind == "fn" and "contextual_block_verifier.rs" in f.name and f.name.endswith("::verify::{closure#0}") and f.params
         and len(f.params) == 2 and "Arc<ResolvedTransaction>" in f.params[1][1] and "usize" in f.params[1][1]]
    if len(c) != 1:
        raise Inconclusive(f"BlockTxsVerifier::verify per-transaction closure: {len(c)} candidates")
    return c[0]


def run_step(S, ctx, hit):
    """one transaction of BlockTxsVerifier::verify; `hit`: Bool term = the fetched cache has an entry for the looked-up key"""
    parts = [("time_relative", r"TimeRelativeTransactionVerifier::<.*>::verify$"), ("contextual", r"ContextualTransactionVerifier::<.*>::verify$"),
             ("dao_script_size", r"DaoScriptSizeVerifier::<.*>::verify$")]
    rfc44 = ctx.bool("rfc0044_active")
    lookups = []

    def wh(ex, c, a, d):
        src = deref(ex, a[0])
        return OpaqueV("witness_hash_of." + getattr(src, "name", "?"), d)

    def cache_get(ex, c, a, d):
        key = deref(ex, a[1])
        lookups.append(getattr(key, "name", "?"))
        cached = AggV((ctx.int("cached.cycles", "u64"), AggV((ctx.int("cached.fee", "u64"),), "Capacity")), "Completed")
        return mk_option(hit, ex.ctx.ref_to(cached), d)

    def ctor(ex, c, a, d):
        # verifier constructors: remember which transaction they were built for
        names = [getattr(deref(ex, x), "name", "?") for x in a]
        return OpaqueV(c.split("::")[0] + "(" + ",".join(names) + ")", d)

    def contextual_value(ex, k, ty):
        return AggV((ex.ctx.int("fresh.cycles", "u64"), AggV((ex.ctx.int("fresh.fee", "u64"),), "Capacity")), "Completed")

    env = [(E.rx(r), C.part(tag, contextual_value if tag == "contextual" else None)) for tag, r in parts]
    ctx.env = env + [
        (E.rx(r"TransactionView::witness_hash$"), wh),
        (E.rx(r"HashMap::<Byte32, .*Completed>::get"), cache_get),
        (E.rx(r"Consensus::rfc0044_active$"), lambda ex, c, a, d: rfc44),
        (E.rx(r"(TimeRelativeTransactionVerifier|ContextualTransactionVerifier|DaoScriptSizeVerifier)::<.*>::new$"), ctor),
        (E.rx(r"<Arc<.*> as (Deref|Clone)>::(deref|clone)$"), lambda ex, c, a, d: a[0] if c.endswith("deref") else deref(ex, a[0])),
        (E.rx(r"as_data_loader$|Consensus::max_block_cycles$|HeaderView::epoch$|EpochNumberWithFraction::number$|Byte32 as Clone>::clone$"), E.opaque_call()),
    ] + ERRC
    f = _closure(S)
    cap_ty = f.params[0][1].lstrip("&")
    # captured variables in the order of the closure's debug map: fetched_cache, self, tx_env, skip_script_verify
    skip = ctx.bool("skip_script_verify")
    caps = {}
    for name, place in f.debug.items():
        m = re.match(r"\(\*\(\(\*_1\)\.(\d+): ", place)
        if m:
            caps[int(m.group(1))] = name
    vals = []
    for i in range(len(caps)):
        nm = caps.get(i)
        if nm == "skip_script_verify":
            vals.append(ctx.ref_to(skip))
        else:
            vals.append(ctx.ref_to(OpaqueV(nm or f"cap{i}", "?")))
    clo = ctx.ref_to(AggV(tuple(vals), cap_ty))
    tx = ctx.ref_to(OpaqueV("tx", "Arc<ResolvedTransaction>"))
    idx = ctx.int("index", "usize")
    ps = S.run(ctx, f, [clo, AggV((idx, tx), "(usize, &Arc<ResolvedTransaction>)")])
    return ps, rfc44, lookups


def payload_terms(p):
    v = p.value
    okp = v.payload(0) if isinstance(v, EnumV) else None
    if not okp:
        return None
    tup = okp[0]
    key, comp = tup.fields
    cyc, fee = comp.fields
    return getattr(key, "name", "?"), as_int(cyc), as_int(fee)


def m1_cache_hit_path(S):
    ob = "C14.m1"
    ctx = S.ctx()
    ctx.uninterpreted_unknown_calls = True
    hit = ctx.bool("cache_hit")
    ps, rfc44, lookups = run_step(S, ctx, hit.t)
    from mir2smt.srcinfo import field_index
    WH = "witness_hash_of.tx.%d" % field_index("util/types/src/core/cell.rs", "ResolvedTransaction")["transaction"]
    S.prove(ctx, ob, "no_panic", [], T.not_(cond_of(panics(ps))))
    # the cache is consulted under the witness hash of this very transaction
    S.prove(ctx, ob, "cache_key_is_the_witness_hash_of_the_transaction", [], bool(lookups and all(k == WH for k in lookups)), extra={"note": str(lookups[:4])})
    # hit: context-dependent checks still run and decide; DAO script size check once RFC-0044 is active
    C.check(S, ctx, ob, "hit_before_rfc0044", ps, ["time_relative"], assume=[hit.t, T.not_(rfc44.t)], complete_when=[])
    C.check(S, ctx, ob, "hit_after_rfc0044", ps, ["time_relative", "dao_script_size"], assume=[hit.t, rfc44.t], complete_when=[])
    # miss: the full contextual verifier (which contains the same time-relative part) runs
    C.check(S, ctx, ob, "miss_before_rfc0044", ps, ["contextual"], assume=[T.not_(hit.t), T.not_(rfc44.t)], complete_when=[])
    C.check(S, ctx, ob, "miss_after_rfc0044", ps, ["contextual", "dao_script_size"], assume=[T.not_(hit.t), rfc44.t], complete_when=[])
    # what is reported: cached cycles/fee on a hit, the fresh result on a miss, under the same key
    for k, p in enumerate(returns(ps)):
        pt = payload_terms(p)
        if pt is None:
            continue
        key, cyc, fee = pt
        okc = [p.cond(), T.eq(p.value.disc, 0)]
        S.prove(ctx, ob, f"path{k}_result_keyed_by_witness_hash", okc, bool(key == WH))
        S.prove(ctx, ob, f"path{k}_hit_reports_cached_entry", okc + [hit.t], T.and_(T.eq(cyc, ctx.int("cached.cycles", "u64").t), T.eq(fee, ctx.int("cached.fee", "u64").t)))
        S.prove(ctx, ob, f"path{k}_miss_reports_fresh_result", okc + [T.not_(hit.t)], T.and_(T.eq(cyc, ctx.int("fresh.cycles", "u64").t), T.eq(fee, ctx.int("fresh.fee", "u64").t)))
    # the verifiers are built for this transaction
    for k, p in enumerate(returns(ps)):
        for tag in ("time_relative", "contextual", "dao_script_size"):
            for e in C.called(p, tag):
                me = e[2][0]
                nm = getattr(me, "name", "")
                S.prove(ctx, ob, f"path{k}_{tag}_is_built_for_this_transaction", [p.cond()], bool("(tx" in nm or ",tx" in nm), extra={"note": nm})


# ---------------------------------------------------------------- m2: the pool's verify_rtx (async fn: its coroutine body is executed from the initial state)
def _coro(S, name_rx, file_part):
    c = [f for f in S.prog.funcs if f.kind == "fn" and re.search(r"(^|::)" + name_rx + r"::\{closure#0\}$", f.name) and len(f.params) == 2 and "Context" in f.params[1][1] and file_part in f.params[0][1]]
    if len(c) != 1:
        raise Inconclusive(f"coroutine body {name_rx}: {len(c)} candidates")
    return c[0]


def _upvar_index(f):
    """argument name -> field index of the coroutine state, read from the MIR `debug` map of the coroutine body"""
    out = {}
    for name, place in f.debug.items():
        m = re.match(r"\(\(\*\(_1\.0: .*?\)\)\.(\d+): ", place)
        if m:
            out[name] = int(m.group(1))
    return out


def m2_pool_verify_rtx(S):
    """`ckb_tx_pool::util::verify_rtx` (every pool admission, local/remote submission, re-verification after a reorg): with a cache entry the context-dependent
    TimeRelativeTransactionVerifier (since + maturity) is STILL built for this very transaction and environment, run, and its verdict honoured; the answer on acceptance is the
    cached entry unchanged; without an entry the full ContextualTransactionVerifier and then DaoScriptSizeVerifier run (both the pausable and the blocking variant) and the
    answer is what the contextual verifier computed"""
    from mir2smt.exec import CoroV
    ob = "C14.m2"
    f = _coro(S, r"verify_rtx", "util::verify_rtx")
    ix = _upvar_index(f)
    need = ["snapshot", "rtx", "tx_env", "cache_entry", "max_tx_verify_cycles", "command_rx"]
    if any(n not in ix for n in need):
        raise Inconclusive(f"verify_rtx coroutine upvars: {ix}")
    for label, hit, pausable in (("cache_hit", True, None), ("miss_blocking", False, False), ("miss_pausable", False, True)):
        ctx = S.ctx()
        ctx.uninterpreted_unknown_calls = True
        built = []

        def nmv(ex, v):
            v = deref(ex, v)
            return getattr(v, "name", None) or type(v).__name__

        def ctor(ex, c, a, d, built=built):
            names = [nmv(ex, x) for x in a]
            built.append((c.split("::")[0], names))
            return OpaqueV(c.split("::")[0] + "(" + ",".join(names) + ")", d)

        def fresh_completed(ex, k, ty):
            return AggV((ex.ctx.int("fresh.cycles", "u64"), AggV((ex.ctx.int("fresh.fee", "u64"),), "Capacity")), "Completed")

        def poll(ex, c, a, d):
            # the awaited `verify_with_pause` future completes with the contextual verifier's verdict
            inner = C.part("contextual", fresh_completed)(ex, "verify_with_pause", [], "Result<Completed, Error>")
            return EnumV(0, ((0, (inner,)),), d)
        cached = AggV((ctx.int("cached.cycles", "u64"), AggV((ctx.int("cached.fee", "u64"),), "Capacity")), "Completed")
        ctx.env = [
            (E.rx(r"TimeRelativeTransactionVerifier::<.*>::verify$"), C.part("time_relative")),
            (E.rx(r"ContextualTransactionVerifier::<.*>::verify$"), C.part("contextual", fresh_completed)),
            (E.rx(r"ContextualTransactionVerifier::<.*>::verify_with_pause$"), lambda ex, c, a, d: OpaqueV("pausable_future", d)),
            (E.rx(r" as Future>::poll$"), poll),
            (E.rx(r"DaoScriptSizeVerifier::<.*>::verify$"), C.part("dao_script_size")),
            (E.rx(r"(TimeRelativeTransactionVerifier|ContextualTransactionVerifier|DaoScriptSizeVerifier)::<.*>::new$"), ctor),
            (E.rx(r"<Arc<.*> as (Deref|Clone)>::(deref|clone)$"), lambda ex, c, a, d: a[0] if c.endswith("deref") else deref(ex, a[0])),
            (E.rx(r"block_in_place::<"), lambda ex, c, a, d: ex.call_value(ex.top_frame, a[0], [], d)),
            (E.rx(r"cloned_consensus$|as_data_loader$"), E.opaque_call()),
            (E.rx(r"Reject::Verification$"), lambda ex, c, a, d: OpaqueV("reject_verification", d)),
        ] + ERRC
        ups = {
            ix["snapshot"]: OpaqueV("snapshot", "Arc<Snapshot>"), ix["rtx"]: OpaqueV("rtx", "Arc<ResolvedTransaction>"), ix["tx_env"]: OpaqueV("tx_env", "Arc<TxVerifyEnv>"),
            ix["cache_entry"]: ctx.ref_to(mk_option(hit, cached if hit else None, "Option<Completed>")), ix["max_tx_verify_cycles"]: ctx.int("max_cycles", "u64"),
            ix["command_rx"]: mk_option(bool(pausable), ctx.ref_to(OpaqueV("command_rx", "Receiver")) if pausable else None, "Option<&mut Receiver>"),
        }
        coro = CoroV(0, tuple(sorted(ups.items())), (), "coroutine")
        ps = S.run(ctx, f, [AggV((ctx.ref_to(coro),), "Pin"), ctx.ref_to(OpaqueV("task_context", "Context"))])
        rs = returns(ps)
        ready = [p for p in rs if isinstance(p.value, EnumV) and p.value.disc == 0]
        S.prove(ctx, ob, f"{label}_every_path_completes_without_suspending_or_panicking", [], bool(ready and len(ready) == len(rs)) and T.not_(cond_of(panics(ps))))
        # unwrap Poll::Ready(result)
        import copy
        inner = []
        for p in ready:
            q = copy.copy(p)
            q.value = p.value.payload(0)[0]
            inner.append(q)
        if label == "cache_hit":
            C.check(S, ctx, ob, label, inner, required=("time_relative",), complete_when=[])
            tr = [n for t, n in built if t == "TimeRelativeTransactionVerifier"]
            S.prove(ctx, ob, "cache_hit_time_relative_verifier_is_built_for_this_transaction_and_environment", [], bool(tr and all(n[0] == "rtx" and n[-1] == "tx_env" for n in tr)), extra={"note": str(tr)})
            S.prove(ctx, ob, "cache_hit_runs_no_script_verification", [], bool(not [1 for p in inner if C.called(p, "contextual")]))
            bad = []
            for p in inner:
                v = p.value
                okp = v.payload(0)
                if okp:
                    cyc, fee = okp[0].fields
                    bad.append(T.and_(p.cond(), C.ok_cond(p), T.not_(T.and_(T.eq(as_int(cyc), T.var("cached.cycles")), T.eq(as_int(fee), T.var("cached.fee"))))))
            S.prove(ctx, ob, "cache_hit_answers_the_cached_cycles_and_fee_unchanged", [], T.not_(T.or_(*bad)))
        else:
            C.check(S, ctx, ob, label, inner, required=("contextual", "dao_script_size"), complete_when=[])
            cv = [n for t, n in built if t == "ContextualTransactionVerifier"]
            S.prove(ctx, ob, f"{label}_contextual_verifier_is_built_for_this_transaction_and_environment", [], bool(cv and all(n[0] == "rtx" and n[-1] == "tx_env" for n in cv)), extra={"note": str(cv) + " all=" + str(built)})
            bad = []
            for p in inner:
                okp = p.value.payload(0)
                if okp:
                    cyc, fee = okp[0].fields
                    bad.append(T.and_(p.cond(), C.ok_cond(p), T.not_(T.and_(T.eq(as_int(cyc), T.var("fresh.cycles")), T.eq(as_int(fee), T.var("fresh.fee"))))))
            S.prove(ctx, ob, f"{label}_answers_what_the_contextual_verifier_computed", [], T.not_(T.or_(*bad)))


# ---------------------------------------------------------------- m3: the read cache is never written from an uncommitted transaction
def m3_store_transaction_never_writes_the_read_cache(S):
    """`StoreTransaction` (the RocksDB write transaction) shares the `StoreCache` of the store; its READ accessors are read-through like the store's, but none of its block/cell
    WRITE methods touches the cache -- an entry put there by a write before `commit` would make queries answer from data the database does not (yet, or ever) contain.  Every call
    reachable from the listed write methods is inspected (catch-all environment handler): no argument derives from `self.cache`."""
    ob = "C14.m3"
    from mir2smt.srcinfo import struct_fields
    from mir2smt.exec import ENV_PASS
    fields = struct_fields("store/src/transaction.rs", "StoreTransaction")
    names = ("insert_block", "delete_block", "insert_block_ext", "attach_block", "detach_block", "insert_tip_header", "insert_block_epoch_index", "insert_epoch_ext",
             "insert_current_epoch_ext", "insert_cells", "delete_cells", "insert_header_digest", "delete_header_digest", "insert_block_filter", "commit")
    for n in names:
        f = [x for x in S.prog.funcs if x.kind == "fn" and x.short == n and "store/src/transaction.rs" in x.name and "{closure" not in x.name and re.search(r"impl StoreTransaction\b", x.impl_header or "")]
        if len(f) != 1:
            S.prove(S.ctx(), ob, f"{n}_found", [], False, extra={"note": f"{len(f)} candidates"})
            continue
        ctx = S.ctx()
        ctx.uninterpreted_unknown_calls = True
        ctx.max_paths = 64
        touched = []

        def spy(ex, c, a, d, touched=touched):
            for x in a:
                v = deref(ex, x)
                nm = getattr(v, "name", "") or ""
                if "field_cache" in nm:
                    touched.append((c, nm))
            return ENV_PASS
        def db_write(ex, c, a, d):
            spy(ex, c, a, d)
            k = len([e for e in ex.log if e[0] == "dbw"])
            ex.log.append(("dbw", c, [], list(ex.pc)))
            return mk_result(ex.ctx.bool(f"db_write_ok_{k}").t, UNIT, OpaqueV("dberr", "Error"), d)

        def one_item_iter(ex, c, a, d):
            # loops over block parts / cell lists: the iterator yields one arbitrary item, then ends (bound: one item per loop)
            spy(ex, c, a, d)
            it = deref(ex, a[0])
            key = getattr(it, "name", None) or repr(it)[:60]
            k = len([e for e in ex.log if e[0] == "next" and e[2] == [key]])
            ex.log.append(("next", c, [key], list(ex.pc)))
            if k == 0 and d.strip().startswith(("Option<", "std::option::Option<", "core::option::Option<")):
                inner = d[d.index("<") + 1:d.rindex(">")]
                return mk_option(True, ex.ctx.fresh_of_type(f"item_{len(ex.log)}", inner), d)
            return mk_option(False, None, d)
        ctx.env = [(E.rx(r"RocksDBTransaction::(put|delete|commit)$"), db_write), (E.rx(r" as Iterator>::next$"), one_item_iter), (E.rx(r"."), spy)]
        me = AggV(tuple(OpaqueV("field_" + fn_, "?") for fn_ in fields), "StoreTransaction")
        args = [ctx.ref_to(me)] + [ctx.fresh_of_type(f"arg{i}", t) for i, (_, t) in enumerate(f[0].params[1:])]
        try:
            ps = S.run(ctx, f[0], args, allow=("return", "panic", "stop", "unsupported", "unwind"))
        except Inconclusive as e:
            S.prove(ctx, ob, f"{n}_explored", [], False, extra={"note": str(e)})
            continue
        outcomes = sorted({p.outcome for p in ps})
        if os.environ.get("VERIF_DEBUG"):
            print("DEBUG m3", n, len(ps), outcomes, [str(p.value)[:80] for p in ps if p.outcome not in ("return", "panic")][:2])
        S.prove(ctx, ob, f"{n}_never_hands_the_read_cache_to_any_call", [], bool(ps and not touched), extra={"note": str(touched[:3])})
        S.prove(ctx, ob, f"{n}_explored_to_the_end_on_every_path", [], bool(ps and all(p.outcome in ("return", "panic") for p in ps)), extra={"note": str(outcomes)})


OBLIGATIONS = [m1_cache_hit_path, m2_pool_verify_rtx, m3_store_transaction_never_writes_the_read_cache]

ENGINE = "M"
LEVEL = "other"
EXPLANATION = ("The per-transaction step of BlockTxsVerifier::verify is executed symbolically from its MIR with the sub-verifiers and the cache lookup as environment "
               "symbols: on a cache hit the context-dependent verifiers still run and decide, the cached entry is reported unchanged, the key is the witness hash.")
BOUNDS = {"values": "one transaction step, hit/miss and RFC-0044 activation symbolic; no bound on values",
          "outside": "LRU/hash containers themselves, the store read caches (store/src/cache.rs), the pool's async verify_rtx (coroutine MIR), relational whole-node equivalence"}
ASSUMPTIONS = ["sub-verifiers are environment symbols returning an arbitrary Result", "HashMap::get returns an arbitrary Option (hit symbolic)"]
TRUSTED = []
LEVEL_TEXT = ("Decided by SMT/path enumeration over the real MIR of the block-verification cache-hit path: a cached script result is used only under the transaction's witness hash, "
              "since/maturity (and the DAO script size rule once active) are always re-evaluated, and the cached cycles/fee are reported unchanged; the store read caches and "
              "the relational whole-node statement are outside and not claimed.")
LEVEL_NOTE = "Partial claim (cache-hit path of BlockTxsVerifier). Store caches, tx-pool async path, containers: outside."
TECHNIQUE = "symbolic execution of rustc MIR (path enumeration with environment symbols) -> SMT (cvc5 + z3)"
DESIGN_REF = "DESIGN.md section 4 (C14)"

# ---- extended claim (session 3)
BOUNDS = dict(BOUNDS, m2="verify_rtx: the async fn's coroutine body executed from its initial state; the awaited verify_with_pause future completes (its result is an environment symbol)", m3="15 write methods of StoreTransaction; loops over block parts / cell lists bounded to one item")
LEVEL_TEXT = LEVEL_TEXT + " m2: the pool's verify_rtx: a cache hit still builds and runs TimeRelativeTransactionVerifier for this transaction/environment and answers the cached entry unchanged, a miss runs the contextual verifier then DaoScriptSizeVerifier (pausable and blocking variants). m3: no write method of StoreTransaction hands the shared read cache to any call (nothing is cached before commit)."
LEVEL_NOTE = "Partial claim (cache-hit paths of block verification and of the pool's verify_rtx; store write methods never populate the read cache). LRU containers, read-through getters and the relational whole-node statement: outside."


def m4_read_through_getters(S):
    """the read-through getters of `ChainStore` that keep an LRU (block header, proposals, uncles, extension, cell data, cell data hash): the cache consulted is the getter's OWN cache
    under the REQUESTED key; a hit returns the cached value without touching the database; a miss (or no cache at all) reads the getter's column under the same key and returns the
    value decoded from exactly those bytes; what is put into the cache is that returned value, under that key, into that same cache -- so with any cache contents that were put by these
    getters the answer equals the answer of a store without caches"""
    from mir2smt.srcinfo import field_index
    ob = "C14.m4"
    sc = field_index("store/src/cache.rs", "StoreCache")
    cols = {}
    src = open(os.path.join(os.environ.get("VERIF_REPO", "/repo"), "db-schema/src/lib.rs")).read()
    for m_ in re.finditer(r"pub const (COLUMN_\w+): Col = \"(\d+)\";", src):
        cols[m_.group(1)] = m_.group(2)
    spec = [("get_block_header", "headers", "COLUMN_BLOCK_HEADER", "hash"), ("get_block_proposal_txs_ids", "block_proposals", "COLUMN_BLOCK_PROPOSAL_IDS", "hash"),
            ("get_block_uncles", "block_uncles", "COLUMN_BLOCK_UNCLE", "hash"), ("get_block_extension", "block_extensions", "COLUMN_BLOCK_EXTENSION", "hash"),
            ("get_cell_data", "cell_data", "COLUMN_CELL_DATA", "cell_key(out_point)"), ("get_cell_data_hash", "cell_data_hash", "COLUMN_CELL_DATA_HASH", "cell_key(out_point)")]
    for short, field, col, keyname in spec:
        if field not in sc:
            raise Inconclusive(f"StoreCache has no field {field}")
        f = [x for x in S.prog.funcs if x.kind == "fn" and x.name == "ChainStore::" + short]
        if len(f) != 1:
            raise Inconclusive(f"ChainStore::{short}: {len(f)} candidates")
        ctx = S.ctx(unwind=6)
        ctx.uninterpreted_unknown_calls = True
        has_cache, hit, found, empty = ctx.bool("store_has_a_cache"), ctx.bool("cache_hit"), ctx.bool("row_exists"), ctx.bool("row_is_empty")
        log = []

        def nmv(ex, v):
            v = deref(ex, v) if ex is not None else v
            if isinstance(v, AggV):
                return "(" + ",".join(nmv(ex, x) for x in v.fields) + ")"
            if isinstance(v, EnumV) and isinstance(v.disc, int):
                return ("Some(" + nmv(ex, v.payload(1)[0]) + ")") if v.disc == 1 else "None"
            if isinstance(v, StrV):
                return v.s.strip('"')
            return getattr(v, "name", None) or type(v).__name__

        def colname(ex, v):
            n = nmv(ex, v)
            m_ = re.match(r"const\.ckb_db_schema__(COLUMN_\w+)$", n)
            return cols[m_.group(1)] if m_ else n
        call = lambda t_: (lambda ex, c, a, d: OpaqueV(t_ + "(" + ",".join(nmv(ex, x) for x in a) + ")", d))

        def lock(ex, c, a, d):
            return OpaqueV("guard(" + nmv(ex, a[0]) + ")", d)

        def cget(ex, c, a, d, log=log):
            log.append(("cache_get", nmv(ex, a[0]), nmv(ex, a[1]), list(ex.pc)))
            return mk_option(hit.t, ex.ctx.ref_to(OpaqueV("cached_value", "?")), d)

        def cput(ex, c, a, d, log=log):
            log.append(("cache_put", nmv(ex, a[0]), nmv(ex, a[1]), nmv(ex, a[2]), list(ex.pc)))
            return mk_option(False, None, d)

        def dbget(ex, c, a, d, log=log):
            log.append(("db_get", colname(ex, a[1]), nmv(ex, a[2]), list(ex.pc)))
            return mk_option(found.t, OpaqueV("raw", "DBPinnableSlice"), d)
        from mir2smt.exec import StrV

        def opt_inspect(ex, c, a, d):
            o = a[0]
            if not isinstance(o, EnumV):
                raise Stop("Option::inspect of a non-option")
            some = o.disc == 1 if isinstance(o.disc, int) else ex.decide(T.eq(o.disc, 1))
            if some:
                ex.call_value(ex.top_frame, a[1], [ex.ctx.ref_to(o.payload(1)[0])], "()")
                return mk_option(True, o.payload(1)[0], d)
            return mk_option(False, None, d)
        ctx.env = list(E.LOGGING_OFF) + [
            (E.rx(r"ChainStore>::cache$"), lambda ex, c, a, d: mk_option(has_cache.t, ex.ctx.ref_to(OpaqueV("cache", "StoreCache")), d)),
            (E.rx(r"Mutex::<.*LruCache<.*>>::lock$"), lock),
            (E.rx(r"MutexGuard<'_, .*LruCache<.*>> as Deref(Mut)?>::deref(_mut)?$"), lambda ex, c, a, d: ex.ctx.ref_to(OpaqueV(nmv(ex, a[0]), "LruCache"))),
            (E.rx(r"LruCache::<.*>::get::<"), cget),
            (E.rx(r"LruCache::<.*>::put$"), cput),
            (E.rx(r"ChainStore>::get$"), dbget),
            (E.rx(r"::to_cell_key$"), call("cell_key")),
            (E.rx(r"from_slice_should_be_ok$"), call("decode")),
            (E.rx(r"<\[u8\]>::is_empty$|core::slice::<impl \[u8\]>::is_empty$"), lambda ex, c, a, d: empty),
            (E.rx(r"Reader(<'_>)?(::<'_>)?::(output_data|output_data_hash|to_entity)$|::to_entity$|as Into<.*>>::into$|as From<.*>>::from$"), lambda ex, c, a, d: OpaqueV(c.split("::")[-1].split(">")[-1] + "(" + nmv(ex, a[0]) + ")", d)),
            (E.rx(r"Bytes::new$|Byte32>?::zero$|::zero$"), lambda ex, c, a, d: OpaqueV("default_" + ("Bytes" if "Bytes" in c else "Byte32"), d)),
            (E.rx(r"^Option::<.*>::inspect::<"), opt_inspect),
            (E.rx(r"as Clone>::clone$"), lambda ex, c, a, d: (OpaqueV(nmv(ex, a[0]), d) if isinstance(deref(ex, a[0]), OpaqueV) else deref(ex, a[0]))),
            (E.rx(r"::as_slice$|as AsRef<\[u8\]>>::as_ref$|as Deref>::deref$"), lambda ex, c, a, d: OpaqueV(nmv(ex, a[0]), d)),
        ]
        arg = ctx.ref_to(OpaqueV("hash" if keyname == "hash" else "out_point", "?"))
        ps = S.run(ctx, f[0], [ctx.ref_to(OpaqueV("store", "Self")), arg])
        S.prove(ctx, ob, f"{short}_no_panic", [], T.not_(cond_of(panics(ps))))
        when = lambda tag: T.or_(*[T.and_(*e[-1]) for e in log if e[0] == tag]) if any(e[0] == tag for e in log) else False
        want_cache = f"guard(cache.{sc[field]})"
        gets = {(e[1], e[2]) for e in log if e[0] == "cache_get"}
        S.prove(ctx, ob, f"{short}_consults_its_own_cache_under_the_requested_key", [], bool(gets == {(want_cache, keyname)}), extra={"note": str(gets)})
        dbs = {(e[1], e[2]) for e in log if e[0] == "db_get"}
        S.prove(ctx, ob, f"{short}_reads_its_own_column_under_the_requested_key", [], bool(dbs == {(cols[col], keyname)}), extra={"note": str(dbs)})
        S.prove(ctx, ob, f"{short}_cache_consulted_iff_there_is_a_cache_and_database_read_iff_no_hit", [], T.and_(T.iff(when("cache_get"), has_cache.t), T.iff(when("db_get"), T.not_(T.and_(has_cache.t, hit.t)))))
        rs = returns(ps)
        # answers: per path the returned value's provenance
        hit_vals = {nmv(None, p.value) for p in rs if any(str(hit.t) == str(c_) for c_ in p.pc)}
        S.prove(ctx, ob, f"{short}_a_hit_returns_the_cached_value", [], bool(hit_vals and all("cached_value" in v for v in hit_vals)), extra={"note": str(hit_vals)})
        # miss answers with and without a cache are the same function of the row
        def answers(with_cache):
            out = {}
            for p in rs:
                pcs = [str(c_) for c_ in p.pc]
                if with_cache and not (str(has_cache.t) in pcs and str(T.not_(hit.t)) in pcs):
                    continue
                if not with_cache and str(T.not_(has_cache.t)) not in pcs:
                    continue
                key = tuple(sorted(x for x in pcs if "row_" in x))
                out[key] = nmv(None, p.value)
            return out
        a1, a0 = answers(True), answers(False)
        S.prove(ctx, ob, f"{short}_a_miss_answers_exactly_like_a_store_without_caches", [], bool(a1 and a1 == a0 and all("cached_value" not in v for v in a1.values())), extra={"note": str(a1)[:300] + " vs " + str(a0)[:300]})
        S.prove(ctx, ob, f"{short}_an_existing_row_is_decoded_from_the_bytes_read", [], bool(all(("raw" in v) or ("default_" in v) or v == "None" for v in a0.values()) and any("raw" in v for v in a0.values())), extra={"note": str(a0)[:400]})
        puts = [(e[1], e[2], e[3], e[4]) for e in log if e[0] == "cache_put"]
        okp = bool(puts) and all(cf == want_cache and k_ == keyname for cf, k_, _, _ in puts)
        # the value put is the value returned on that path
        ret_by_pc = {tuple(str(c_) for c_ in p.pc): nmv(None, p.value) for p in rs}
        same = True
        for cf, k_, val, pc in puts:
            full = [v for pcs, v in ret_by_pc.items() if pcs[:len(pc)] == tuple(str(c_) for c_ in pc)]
            if not full or not all((v == val) or (v == "Some(" + val + ")") for v in full):
                same = False
        S.prove(ctx, ob, f"{short}_what_is_cached_is_the_returned_value_under_the_requested_key_in_its_own_cache", [], bool(okp and same), extra={"note": str([(a_, b_, c_) for a_, b_, c_, _ in puts])[:400]})
        S.prove(ctx, ob, f"{short}_nothing_is_cached_without_a_cache_or_on_a_hit", [], T.implies(when("cache_put"), T.and_(has_cache.t, T.not_(hit.t))))


OBLIGATIONS = OBLIGATIONS + [m4_read_through_getters]

# ---- extended claim (session 4)
LEVEL_TEXT = LEVEL_TEXT + " m4: the store's read-through getters (header, proposals, uncles, extension, cell data, cell data hash) consult their own cache under the requested key, a hit returns the cached value, a miss answers exactly like a store without caches and caches exactly the returned value under that key."
LEVEL_NOTE = LEVEL_NOTE + ' Read-through getters: one call per getter, cache and database as environment.'


def m5_pool_cache_keys(S):
    """the pool side of the verification cache (tx-pool/src/process.rs, coroutine bodies): `fetch_tx_verify_cache(tx)` looks the cache up under the WITNESS hash of that very
    transaction and returns a copy of the entry; the update task spawned by `_process_tx` stores the verified result under the witness hash captured at the beginning of the
    processing of that transaction, and `_process_tx` spawns it only after a cache miss and a successful submission, capturing witness_hash(tx) and the result verify_rtx returned"""
    from mir2smt.exec import CoroV
    ob = "C14.m5"
    def coro(rx):
        c = [f for f in S.prog.funcs if f.kind == "fn" and re.search(rx, f.name) and len(f.params) == 2 and "Context" in f.params[1][1]]
        if len(c) != 1:
            raise Inconclusive(f"coroutine {rx}: {len(c)} candidates")
        f = c[0]
        ix = {}
        for name, place in f.debug.items():
            m_ = re.match(r"\(\(\*\(_1\.0: .*?\)\)\.(\d+): ", place)
            if m_:
                ix[name] = int(m_.group(1))
        return f, ix

    def nmv(ex, v):
        v = deref(ex, v) if ex is not None else v
        if isinstance(v, AggV):
            return "(" + ",".join(nmv(ex, x) for x in v.fields) + ")"
        return getattr(v, "name", None) or type(v).__name__
    base_env = lambda log: list(E.LOGGING_OFF) + [
        (E.rx(r"<Arc<.*RwLock<.*LruCache<.*>>> as Deref>::deref$"), lambda ex, c, a, d: ex.ctx.ref_to(OpaqueV("lock_of(" + nmv(ex, a[0]) + ")", "RwLock"))),
        (E.rx(r"RwLock::<.*LruCache<.*>>::(read|write)$"), lambda ex, c, a, d: OpaqueV(c.split("::")[-1] + "_future(" + nmv(ex, a[0]) + ")", d)),
        (E.rx(r" as IntoFuture>::into_future$|Pin::<.*>::new_unchecked$"), lambda ex, c, a, d: a[0]),
        (E.rx(r" as Future>::poll$"), lambda ex, c, a, d: EnumV(0, ((0, (OpaqueV("guard(" + nmv(ex, a[0]) + ")", "Guard"),)),), d)),
        (E.rx(r"RwLock(Read|Write)Guard<'_, .*> as Deref(Mut)?>::deref(_mut)?$"), lambda ex, c, a, d: ex.ctx.ref_to(OpaqueV("cache_behind(" + nmv(ex, a[0]) + ")", "LruCache"))),
        (E.rx(r"TransactionView::witness_hash$"), lambda ex, c, a, d: OpaqueV("witness_hash(" + nmv(ex, a[0]) + ")", d)),
        (E.rx(r"TransactionView::hash$"), lambda ex, c, a, d: OpaqueV("hash(" + nmv(ex, a[0]) + ")", d)),
        (E.rx(r"LruCache::<.*>::peek::<"), lambda ex, c, a, d: (log.append(("peek", nmv(ex, a[0]), nmv(ex, a[1]))), mk_option(ex.ctx.bool("cache_hit").t, ex.ctx.ref_to(OpaqueV("cached_entry", "Completed")), d))[1]),
        (E.rx(r"LruCache::<.*>::put$"), lambda ex, c, a, d: (log.append(("put", nmv(ex, a[0]), nmv(ex, a[1]), nmv(ex, a[2]))), mk_option(False, None, d))[1]),
        (E.rx(r"Option::<&.*Completed>::cloned$"), lambda ex, c, a, d: (lambda o: mk_option(o.disc if isinstance(o.disc, int) else T.eq(o.disc, 1), OpaqueV(nmv(ex, o.payload(1)[0]), "Completed"), d) if not isinstance(o.disc, int) else (mk_option(True, OpaqueV(nmv(ex, o.payload(1)[0]), "Completed"), d) if o.disc == 1 else mk_option(False, None, d)))(a[0])),
    ]
    # ---- fetch
    f, ix = coro(r"process::<impl at [^>]*>::fetch_tx_verify_cache::\{closure#0\}$")
    ctx = S.ctx()
    ctx.uninterpreted_unknown_calls = True
    log = []
    ctx.env = base_env(log)
    ups = {ix["self"]: ctx.ref_to(OpaqueV("service", "TxPoolService")), ix["tx"]: ctx.ref_to(OpaqueV("tx", "TransactionView"))}
    ps = S.run(ctx, f, [AggV((ctx.ref_to(CoroV(0, tuple(sorted(ups.items())), (), "coroutine")),), "Pin"), ctx.ref_to(OpaqueV("task_context", "Context"))])
    S.prove(ctx, ob, "fetch_completes_without_panicking", [], T.not_(cond_of(panics(ps))))
    S.prove(ctx, ob, "fetch_looks_up_the_witness_hash_of_that_transaction", [], bool({(k_) for t, _, k_ in log if t == "peek"} == {"witness_hash(tx)"}), extra={"note": str(log)})
    vals = set()
    for p in returns(ps):
        v = p.value.payload(0)[0] if isinstance(p.value, EnumV) and p.value.disc == 0 else None
        if isinstance(v, EnumV):
            vals.add(nmv(None, v.payload(1)[0]) if (v.payloads and (v.disc == 1 or not isinstance(v.disc, int))) else "None")
    S.prove(ctx, ob, "fetch_returns_a_copy_of_the_cached_entry_or_nothing", [], bool(vals and vals <= {"cached_entry", "None"} and "cached_entry" in vals), extra={"note": str(vals)})
    # ---- the spawned update task
    f, ix = coro(r"process::<impl at [^>]*>::_process_tx::\{closure#0\}::\{closure#\d+\}$")
    if not all(k in ix for k in ("txs_verify_cache", "wtx_hash", "verified")):
        raise Inconclusive(f"update task upvars: {ix}")
    ctx = S.ctx()
    ctx.uninterpreted_unknown_calls = True
    log = []
    ctx.env = base_env(log)
    ups = {ix["txs_verify_cache"]: OpaqueV("shared_cache_handle", "Arc<RwLock<LruCache>>"), ix["wtx_hash"]: OpaqueV("captured_wtx_hash", "Byte32"), ix["verified"]: OpaqueV("captured_verified", "Completed")}
    ps = S.run(ctx, f, [AggV((ctx.ref_to(CoroV(0, tuple(sorted(ups.items())), (), "coroutine")),), "Pin"), ctx.ref_to(OpaqueV("task_context", "Context"))])
    S.prove(ctx, ob, "update_task_completes_without_panicking", [], T.not_(cond_of(panics(ps))))
    puts = {(k_, v_) for t, _, k_, v_ in log if t == "put"}
    S.prove(ctx, ob, "update_task_stores_the_captured_result_under_the_captured_witness_hash", [], bool(puts == {("captured_wtx_hash", "captured_verified")}), extra={"note": str(log)})
    S.prove(ctx, ob, "update_task_writes_the_shared_cache", [], bool(all("shared_cache_handle" in c_ for t, c_, *_ in log if t == "put") and any(t == "put" for t, *_ in log)), extra={"note": str(log)})


OBLIGATIONS = OBLIGATIONS + [m5_pool_cache_keys]


def _svc_field(name):
    from mir2smt.srcinfo import field_index
    return field_index("tx-pool/src/service.rs", "TxPoolService")[name]


def m5b_process_tx_spawns_the_update(S):
    """`_process_tx` (coroutine body executed): the cache-update task is spawned iff the lookup was a miss, verification succeeded (and matched the declared cycles) and the
    submission into the pool succeeded; it captures the witness hash of the processed transaction and the result `verify_rtx` returned; the lookup handed to `verify_rtx` is the
    one `fetch_tx_verify_cache` answered for this transaction"""
    from mir2smt.exec import CoroV
    ob = "C14.m5"
    c = [f for f in S.prog.funcs if f.kind == "fn" and re.search(r"process::<impl at [^>]*>::_process_tx::\{closure#0\}$", f.name) and len(f.params) == 2 and "Context" in f.params[1][1]]
    if len(c) != 1:
        raise Inconclusive(f"_process_tx coroutine: {len(c)} candidates")
    f = c[0]
    ix = {}
    for name, place in f.debug.items():
        m_ = re.match(r"\(\(\*\(_1\.0: .*?\)\)\.(\d+): ", place)
        if m_:
            ix[name] = int(m_.group(1))
    need = ["self", "tx", "declared_cycles", "command_rx"]
    if any(n not in ix for n in need):
        raise Inconclusive(f"_process_tx upvars: {ix}")
    ctx = S.ctx()
    ctx.uninterpreted_unknown_calls = True
    ctx.max_paths = 2000
    pre_ok, hit, ver_ok, sub_ok, declared = ctx.bool("pre_check_ok"), ctx.bool("cache_hit"), ctx.bool("verification_ok"), ctx.bool("submission_ok"), ctx.bool("cycles_declared")
    dcy, vcy = ctx.int("declared_cycles", "u64"), ctx.int("verified_cycles", "u64")
    spawned, verify_args = [], []

    def nmv(ex, v):
        v = deref(ex, v) if ex is not None else v
        if isinstance(v, AggV) and not (isinstance(v.ty, str) and v.ty.startswith("{")):
            return "(" + ",".join(nmv(ex, x) for x in v.fields) + ")"
        if isinstance(v, EnumV) and isinstance(v.disc, int):
            return ("Some(" + nmv(ex, v.payload(1)[0]) + ")") if v.disc == 1 else "None"
        if isinstance(v, EnumV):
            return "Option?(" + nmv(ex, v.payloads[0][1][0]) + ")" if v.payloads else "Option?"
        if isinstance(v, IntV):
            return v.t[2] if isinstance(v.t, tuple) and v.t[0] == "var" else str(v.t)
        return getattr(v, "name", None) or type(v).__name__
    verified = AggV((vcy, AggV((ctx.int("verified_fee", "u64"),), "Capacity")), "Completed")

    def poll(ex, c_, a, d):
        fut = nmv(ex, a[0])
        if "pre_check" in fut:
            ok = AggV((OpaqueV("tip_hash", "Byte32"), OpaqueV("rtx", "Arc<ResolvedTransaction>"), OpaqueV("status", "TxStatus"), AggV((ex.ctx.int("fee", "u64"),), "Capacity"), ex.ctx.int("tx_size", "usize")), "(..)")
            v = AggV((mk_result(pre_ok.t, ok, OpaqueV("pre_reject", "Reject"), "Result"), OpaqueV("snapshot", "Arc<Snapshot>")), "(Result, Arc<Snapshot>)")
        elif "fetch_cache" in fut:
            v = mk_option(hit.t, OpaqueV("cached_entry", "Completed"), "Option<Completed>")
        elif "verify_rtx" in fut:
            v = mk_result(ver_ok.t, verified, OpaqueV("verify_reject", "Reject"), "Result<Completed, Reject>")
        elif "submit" in fut:
            v = AggV((mk_result(sub_ok.t, UNIT, OpaqueV("submit_reject", "Reject"), "Result"), OpaqueV("submit_snapshot", "Arc<Snapshot>")), "(Result, Arc<Snapshot>)")
        else:
            v = UNIT
        return EnumV(0, ((0, (v,)),), d)

    def spawn(ex, c_, a, d):
        co = deref(ex, a[0]) if isinstance(a[0], RefV) else a[0]
        fields = [nmv(ex, x) for x in (co.fields if isinstance(co, AggV) else ())]
        spawned.append((fields, list(ex.pc)))
        return OpaqueV("join_handle", d)
    ctx.env = list(E.LOGGING_OFF) + [
        (E.rx(r"TransactionView::witness_hash$"), lambda ex, c_, a, d: OpaqueV("witness_hash(" + nmv(ex, a[0]) + ")", d)),
        (E.rx(r"TransactionView::hash$"), lambda ex, c_, a, d: OpaqueV("hash(" + nmv(ex, a[0]) + ")", d)),
        (E.rx(r"Instant::now$|Instant::elapsed$|Duration::as_secs_f64$"), E.opaque_call()),
        (E.rx(r"TxPoolService>::pre_check$"), lambda ex, c_, a, d: OpaqueV("pre_check_future", d)),
        (E.rx(r"TxPoolService>::fetch_tx_verify_cache$"), lambda ex, c_, a, d: OpaqueV("fetch_cache_future(" + nmv(ex, a[1]) + ")", d)),
        (E.rx(r"(^|::)verify_rtx$"), lambda ex, c_, a, d: (verify_args.append([nmv(ex, x) for x in a]), OpaqueV("verify_rtx_future", d))[1]),
        (E.rx(r"TxPoolService>::submit_entry$"), lambda ex, c_, a, d: OpaqueV("submit_future", d)),
        (E.rx(r"TxPoolService>::notify_block_assembler$"), lambda ex, c_, a, d: OpaqueV("notify_future", d)),
        (E.rx(r" as IntoFuture>::into_future$|Pin::<.*>::new_unchecked$"), lambda ex, c_, a, d: a[0]),
        (E.rx(r" as Future>::poll$"), poll),
        (E.rx(r"tokio::spawn::<"), spawn),
        (E.rx(r"Consensus::max_block_cycles$"), lambda ex, c_, a, d: ex.ctx.int("max_block_cycles", "u64")),
        (E.rx(r"<Arc<.*> as Deref>::deref$"), lambda ex, c_, a, d: ex.ctx.ref_to(OpaqueV(nmv(ex, a[0]), "?"))),
        (E.rx(r"<Arc<.*> as Clone>::clone$"), lambda ex, c_, a, d: OpaqueV(nmv(ex, a[0]), d)),
        (E.rx(r"Arc::<.*>::new$"), lambda ex, c_, a, d: OpaqueV("arc(" + nmv(ex, a[0]) + ")", d)),
        (E.rx(r"Snapshot::tip_header$|TxStatus::with_env$|TxEntry::new$|Reject as (std::convert::)?From<.*>>::from$"), E.opaque_call()),
    ]
    ups = {ix["self"]: ctx.ref_to(OpaqueV("service", "TxPoolService")), ix["tx"]: OpaqueV("tx", "TransactionView"),
           ix["declared_cycles"]: mk_option(declared.t, dcy, "Option<u64>"), ix["command_rx"]: mk_option(False, None, "Option<&mut Receiver>")}
    ps = S.run(ctx, f, [AggV((ctx.ref_to(CoroV(0, tuple(sorted(ups.items())), (), "coroutine")),), "Pin"), ctx.ref_to(OpaqueV("task_context", "Context"))])
    S.prove(ctx, ob, "process_tx_completes_without_panicking_or_suspending", [], T.and_(T.not_(cond_of(panics(ps))), bool(all(isinstance(p.value, EnumV) and p.value.disc == 0 for p in returns(ps)))))
    when = T.or_(*[T.and_(*pc) for _, pc in spawned]) if spawned else False
    cyc_ok = T.or_(T.not_(declared.t), T.eq(dcy.t, vcy.t))
    S.prove(ctx, ob, "update_task_is_spawned_iff_miss_and_verified_and_submitted", [], T.iff(when, T.and_(pre_ok.t, T.not_(hit.t), ver_ok.t, cyc_ok, sub_ok.t)))
    caps = {tuple(fl) for fl, _ in spawned}
    S.prove(ctx, ob, "update_task_captures_the_witness_hash_of_this_transaction_and_the_verification_result", [],
            bool(caps and all(len(fl) == 3 and fl[0] == "service.%d" % _svc_field("txs_verify_cache") and fl[1] == "witness_hash(tx)" and fl[2] == "(verified_cycles,(verified_fee))" for fl in caps)), extra={"note": str(caps)[:400]})
    S.prove(ctx, ob, "verification_gets_the_cache_answer_for_this_transaction", [], bool(verify_args and all(any("cached_entry" in x for x in va) for va in verify_args)), extra={"note": str(verify_args[:2])[:500]})


OBLIGATIONS = OBLIGATIONS + [m5b_process_tx_spawns_the_update]
