"""C14 — caches never change a verdict: the cache-hit path of block transaction verification (engine M).

Claimed (partial): for the per-transaction step of `BlockTxsVerifier::verify` — the only place a cached script result replaces a
computation during block verification — a cache hit is looked up under the transaction's *witness hash* (content including
witnesses), still runs the context-dependent checks (TimeRelativeTransactionVerifier: since + maturity; DaoScriptSizeVerifier once
RFC-0044 is active), reports the cached cycles/fee unchanged, and accepts/rejects exactly like a miss does whenever the
context-independent part (scripts, capacity, fee — what the cache stands for) accepts.  The store's read caches, the pool's async
`verify_rtx` (coroutine MIR) and the LRU containers themselves are outside.
"""
import re
from mir2smt.ob import *
from mir2smt import terms as T
from mir2smt.exec import OpaqueV, IntV, BoolV, AggV, EnumV, RefV, UNIT, Stop, mk_option
from mir2smt import envlib as E
from mir2smt import compose as C
from mir2smt.builtins import deref

CRATES = ["ckb-constant", "ckb-occupied-capacity-core", "ckb-types", "ckb-chain-spec", "ckb-verification", "ckb-verification-contextual"]
ERRC = [(E.rx(r"as Into<.*Error>>::into$|Error as From<.*>>::from$|ErrorKind::because|::other$"), E.opaque_call())]


def _closure(S):
    c = [f for f in S.prog.funcs if f.kind == "fn" and "contextual_block_verifier.rs" in f.name and f.name.endswith("::verify::{closure#0}") and f.params
         and len(f.params) == 2 and "Arc<ResolvedTransaction>" in f.params[1][1] and "usize" in f.params[1][1]]
    if len(c) != 1:
        raise Inconclusive(f"BlockTxsVerifier::verify per-transaction closure: {len(c)} candidates")
    return c[0]


def run_step(S, ctx, hit):
    """one transaction of BlockTxsVerifier::verify; `hit`: Bool term = the fetched cache has an entry for the looked-up key"""
    parts = [("time_relative", r"TimeRelativeTransactionVerifier::<.*>::verify$"), ("contextual", r"ContextualTransactionVerifier::<.*>::verify$"),
             ("dao_script_size", r"DaoScriptSizeVerifier::<.*>::verify$")]
    rfc44 = ctx.bool("rfc0044_active")
    lookups = []

    def wh(ex, c, a, d):
        src = deref(ex, a[0])
        return OpaqueV("witness_hash_of." + getattr(src, "name", "?"), d)

    def cache_get(ex, c, a, d):
        key = deref(ex, a[1])
        lookups.append(getattr(key, "name", "?"))
        cached = AggV((ctx.int("cached.cycles", "u64"), AggV((ctx.int("cached.fee", "u64"),), "Capacity")), "Completed")
        return mk_option(hit, ex.ctx.ref_to(cached), d)

    def ctor(ex, c, a, d):
        # verifier constructors: remember which transaction they were built for
        names = [getattr(deref(ex, x), "name", "?") for x in a]
        return OpaqueV(c.split("::")[0] + "(" + ",".join(names) + ")", d)

    def contextual_value(ex, k, ty):
        return AggV((ex.ctx.int("fresh.cycles", "u64"), AggV((ex.ctx.int("fresh.fee", "u64"),), "Capacity")), "Completed")

    env = [(E.rx(r), C.part(tag, contextual_value if tag == "contextual" else None)) for tag, r in parts]
    ctx.env = env + [
        (E.rx(r"TransactionView::witness_hash$"), wh),
        (E.rx(r"HashMap::<Byte32, .*Completed>::get"), cache_get),
        (E.rx(r"Consensus::rfc0044_active$"), lambda ex, c, a, d: rfc44),
        (E.rx(r"(TimeRelativeTransactionVerifier|ContextualTransactionVerifier|DaoScriptSizeVerifier)::<.*>::new$"), ctor),
        (E.rx(r"<Arc<.*> as (Deref|Clone)>::(deref|clone)$"), lambda ex, c, a, d: a[0] if c.endswith("deref") else deref(ex, a[0])),
        (E.rx(r"as_data_loader$|Consensus::max_block_cycles$|HeaderView::epoch$|EpochNumberWithFraction::number$|Byte32 as Clone>::clone$"), E.opaque_call()),
    ] + ERRC
    f = _closure(S)
    cap_ty = f.params[0][1].lstrip("&")
    # captured variables in the order of the closure's debug map: fetched_cache, self, tx_env, skip_script_verify
    skip = ctx.bool("skip_script_verify")
    caps = {}
    for name, place in f.debug.items():
        m = re.match(r"\(\*\(\(\*_1\)\.(\d+): ", place)
        if m:
            caps[int(m.group(1))] = name
    vals = []
    for i in range(len(caps)):
        nm = caps.get(i)
        if nm == "skip_script_verify":
            vals.append(ctx.ref_to(skip))
        else:
            vals.append(ctx.ref_to(OpaqueV(nm or f"cap{i}", "?")))
    clo = ctx.ref_to(AggV(tuple(vals), cap_ty))
    tx = ctx.ref_to(OpaqueV("tx", "Arc<ResolvedTransaction>"))
    idx = ctx.int("index", "usize")
    ps = S.run(ctx, f, [clo, AggV((idx, tx), "(usize, &Arc<ResolvedTransaction>)")])
    return ps, rfc44, lookups


def payload_terms(p):
    v = p.value
    okp = v.payload(0) if isinstance(v, EnumV) else None
    if not okp:
        return None
    tup = okp[0]
    key, comp = tup.fields
    cyc, fee = comp.fields
    return getattr(key, "name", "?"), as_int(cyc), as_int(fee)


def m1_cache_hit_path(S):
    ob = "C14.m1"
    ctx = S.ctx()
    ctx.uninterpreted_unknown_calls = True
    hit = ctx.bool("cache_hit")
    ps, rfc44, lookups = run_step(S, ctx, hit.t)
    from mir2smt.srcinfo import field_index
    WH = "witness_hash_of.tx.%d" % field_index("util/types/src/core/cell.rs", "ResolvedTransaction")["transaction"]
    S.prove(ctx, ob, "no_panic", [], T.not_(cond_of(panics(ps))))
    # the cache is consulted under the witness hash of this very transaction
    S.prove(ctx, ob, "cache_key_is_the_witness_hash_of_the_transaction", [], bool(lookups and all(k == WH for k in lookups)), extra={"note": str(lookups[:4])})
    # hit: context-dependent checks still run and decide; DAO script size check once RFC-0044 is active
    C.check(S, ctx, ob, "hit_before_rfc0044", ps, ["time_relative"], assume=[hit.t, T.not_(rfc44.t)], complete_when=[])
    C.check(S, ctx, ob, "hit_after_rfc0044", ps, ["time_relative", "dao_script_size"], assume=[hit.t, rfc44.t], complete_when=[])
    # miss: the full contextual verifier (which contains the same time-relative part) runs
    C.check(S, ctx, ob, "miss_before_rfc0044", ps, ["contextual"], assume=[T.not_(hit.t), T.not_(rfc44.t)], complete_when=[])
    C.check(S, ctx, ob, "miss_after_rfc0044", ps, ["contextual", "dao_script_size"], assume=[T.not_(hit.t), rfc44.t], complete_when=[])
    # what is reported: cached cycles/fee on a hit, the fresh result on a miss, under the same key
    for k, p in enumerate(returns(ps)):
        pt = payload_terms(p)
        if pt is None:
            continue
        key, cyc, fee = pt
        okc = [p.cond(), T.eq(p.value.disc, 0)]
        S.prove(ctx, ob, f"path{k}_result_keyed_by_witness_hash", okc, bool(key == WH))
        S.prove(ctx, ob, f"path{k}_hit_reports_cached_entry", okc + [hit.t], T.and_(T.eq(cyc, ctx.int("cached.cycles", "u64").t), T.eq(fee, ctx.int("cached.fee", "u64").t)))
        S.prove(ctx, ob, f"path{k}_miss_reports_fresh_result", okc + [T.not_(hit.t)], T.and_(T.eq(cyc, ctx.int("fresh.cycles", "u64").t), T.eq(fee, ctx.int("fresh.fee", "u64").t)))
    # the verifiers are built for this transaction
    for k, p in enumerate(returns(ps)):
        for tag in ("time_relative", "contextual", "dao_script_size"):
            for e in C.called(p, tag):
                me = e[2][0]
                nm = getattr(me, "name", "")
                S.prove(ctx, ob, f"path{k}_{tag}_is_built_for_this_transaction", [p.cond()], bool("(tx" in nm or ",tx" in nm), extra={"note": nm})


OBLIGATIONS = [m1_cache_hit_path]

ENGINE = "M"
LEVEL = "other"
EXPLANATION = ("The per-transaction step of BlockTxsVerifier::verify is executed symbolically from its MIR with the sub-verifiers and the cache lookup as environment "
               "symbols: on a cache hit the context-dependent verifiers still run and decide, the cached entry is reported unchanged, the key is the witness hash.")
BOUNDS = {"values": "one transaction step, hit/miss and RFC-0044 activation symbolic; no bound on values",
          "outside": "LRU/hash containers themselves, the store read caches (store/src/cache.rs), the pool's async verify_rtx (coroutine MIR), relational whole-node equivalence"}
ASSUMPTIONS = ["sub-verifiers are environment symbols returning an arbitrary Result", "HashMap::get returns an arbitrary Option (hit symbolic)"]
TRUSTED = []
LEVEL_TEXT = ("Decided by SMT/path enumeration over the real MIR of the block-verification cache-hit path: a cached script result is used only under the transaction's witness hash, "
              "since/maturity (and the DAO script size rule once active) are always re-evaluated, and the cached cycles/fee are reported unchanged; the store read caches and "
              "the relational whole-node statement are outside and not claimed.")
LEVEL_NOTE = "Partial claim (cache-hit path of BlockTxsVerifier). Store caches, tx-pool async path, containers: outside."
TECHNIQUE = "symbolic execution of rustc MIR (path enumeration with environment symbols) -> SMT (cvc5 + z3)"
DESIGN_REF = "DESIGN.md section 4 (C14)"
