"""C09 — the freezer never loses or corrupts a frozen block: engine-K harnesses on the real freezer_files.rs over the
cfg(kani) model file system; one operation from a valid on-disk state per harness (see kani/freezer/src/c09.rs)."""
import json, os

_L = json.load(open(os.path.join(os.path.dirname(__file__), "..", "kani", "freezer", "gen_c09.json")))
KIND_DESC = {
    "k1": "append after a retrieve that moved the shared handle offset (with / without rollover): invariant for items ++ [new]",
    "k2": "re-open + retrieve(any index): byte for byte inside 1..=n, None outside",
    "k3": "truncate(any threshold): invariant for the prefix, later data files removed",
    "k6": "truncate then append: invariant for prefix ++ [new], read back through the API",
    "k7": "crash at a rollover leaving a partially written next data file, re-open, append again (rolls over into the stale file): invariant holds",
    "k8": "crash cut of an append, re-open, a further append and an arbitrary read back: the handle the repair leaves (head file, head id, count) serves the surviving prefix, also after slipping back into an earlier data file with room",
    "k5": "crash cut of an append (data file and index independently cut, new head possibly missing) then re-open: contiguous prefix, n >= fully written items",
}
FUNCS = ["freezer/src/freezer_files.rs::FreezerFilesBuilder::build", "freezer/src/freezer_files.rs::FreezerFiles::{append,retrieve,truncate,preopen,get_bounds,write_index,open_*}",
         "freezer/src/freezer_files.rs::Head::write", "freezer/src/freezer_files.rs::IndexEntry::{encode,decode}"]
KANI = []
for e in _L:
    KANI.append({
        "id": "C09." + e["kind"] + ":" + e["harness"][len("c09_") + 3:], "crate": "freezer", "harness": e["harness"],
        "tiers": ("quick", "thorough") if e["tier"] == "quick" else ("thorough",),
        "bound": f"layout {e['shape']} (len, new-file per item)" + (f", new item {e['l']} bytes" if "l" in e else "") + (f", max_file_size {e['ms']}" if "ms" in e else "") + (f", truncate({e['t']})" if "t" in e else "") + "; item bytes, retrieve/truncate index, cut lengths symbolic; unwind 6",
        "functions": FUNCS, "timeout_quick": 1500, "timeout_thorough": 3600, "mem_gb": 24, "meta": e,
    })
KANI_FEATURES = {"thorough": ("thorough",)}
KANI_JOBS = 8


def kani_replay(harness, r, log_dir):
    """replay against the REAL crate on REAL files (vnative freezer_*): all remaining free parameters of the obligation
    are tried natively; the first failing combination is the reproduced counterexample"""
    from vlib.native import Native
    e = r["spec"]["meta"]
    args = [len(e["shape"])]
    for l, nf in e["shape"]:
        args += [l, 1 if nf else 0]
    if e["kind"] == "k6":
        args += [e["t"], e["l"]]
    elif e["kind"] in ("k7", "k8"):
        args += [e["l"], e["ms"], e["l2"]]
    elif "l" in e:
        args += [e["l"], e["ms"]]
    nat = Native(log_dir)
    out = nat.call("freezer_" + e["kind"], args)
    if out == "panic":
        return {"status": "reproduced", "kind": "native (real files): panic", "calls": [{"key": "freezer_" + e["kind"], "args": args, "native": out}]}
    if out and out[0] == 1:
        return {"status": "reproduced", "kind": "native run on real files in a temp dir", "calls": [{"key": "freezer_" + e["kind"], "args": args, "native": out}],
                "failing_parameters": out[1:]}
    return {"status": "not-reproduced", "calls": [{"key": "freezer_" + e["kind"], "args": args, "native": out}]}


ENGINE = "K"
LEVEL = "other"
EXPLANATION = ("Bounded model checking (Kani/CBMC) of the real freezer_files.rs against a cfg(kani) POSIX model file system: each harness starts from a valid "
               "on-disk layout with symbolic item bytes, performs one operation (or one crash-cut append + re-open) with symbolic indices/cut lengths and "
               "checks the representation invariant and the byte-for-byte clauses; the invariant makes the steps compose to histories of any length.")
BOUNDS = {"layouts": "quick: 10 harnesses; thorough: every layout with <= 2 items of 1..2 bytes plus every 3-item layout of 1-byte items, in <= 3 data files (417 harnesses; VERIF_C09_ALL=1 at generation time adds the 3-item layouts with 2-byte items, 610 harnesses)",
          "symbolic": "item bytes, retrieve/truncate index, crash cut lengths of data and index file, missing-new-head flag", "unwind": 6,
          "outside": "snappy compression (switched off by the builder option), LRU eviction below open_files_limit, Freezer wrapper (lock file, tip header), items > 2 bytes, > 4 data files"}
ASSUMPTIONS = ["model file system verif_fs.rs has POSIX semantics (dup shares offsets, writes at current offset, holes zero-filled)",
               "helper::file_name is replaced by a side channel carrying the file id (paths are not interpreted)",
               "ckb_metrics::handle -> None, alloc::fmt::format -> empty string, snappy codec unreachable (asserted)"]
TRUSTED = ["verif_fs.rs model file system (validated by native replay on real files)"]
LEVEL_TEXT = ("Each clause of C09 (append, retrieve, truncate, re-open after a crash cut) is decided by CBMC on the real freezer code for all item bytes, "
              "indices and cut lengths of the enumerated small layouts; counterexamples are replayed on real files before being reported.")
LEVEL_NOTE = ("Bounded: layouts with <= 3 items / <= 2 bytes / <= 3 files; model file system and stubs are trusted and listed in evidence; "
              "compression, LRU eviction and the Freezer wrapper are outside.")
TECHNIQUE = "Kani/CBMC bounded model checking of the real crate over a cfg(kani) model file system, one inductive step per harness"
