"""C13 — every block template would be accepted by the node itself (engine M, partial: size accounting, limits handed to the packagers, uncle selection).

Claimed (partial), decided on the real MIR of tx-pool/src/block_assembler:

 m1  `TemplateSize::calc_total_by_{proposals,uncles,txs}`: the new total is the old total with the old part replaced by the new one (exact below usize saturation);
 m2  `BlockAssembler::update_full` (async fn): proposals are packaged up to the consensus proposal limit, the basic size is computed from the template's cellbase, uncles,
     extension and the FRESHLY packaged proposals, transactions are packaged within `max_block_bytes - basic size` bytes (error if negative) and `max_block_cycles` cycles,
     and the recorded sizes are basic + sum of the committed transactions' sizes / number of proposals x short-id size;
 m3  `CandidateUncles::prepare_uncles`: a candidate is selected iff the cap is not reached and it has this epoch's number and target, is neither on the main chain nor already
     an uncle, is lower than the candidate block and its parent is selected before it, on the main chain or an uncle (the rule UnclesVerifier applies, C03.m7); at most
     `max_uncles_num` are ever selected; candidates of another epoch/target are dropped from the candidate set;
 m4  `update_uncles` / `update_proposals` / `update_transactions`: an incremental update is adopted only if the recomputed total stays within `max_block_bytes`.

Outside: the package selection itself (`CommitTxsScanner::txs_to_commit`, `package_proposals`: multi-index containers), cellbase/DAO/extension contents (C06 covers the reward and
DAO arithmetic), the template's acceptance as a whole-program run.
"""
import os
import re
from mir2smt.ob import *
from mir2smt import terms as T
from mir2smt.exec import StrV, OpaqueV, IntV, BoolV, AggV, EnumV, RefV, ListV, UNIT, Stop, mk_option, mk_result
from mir2smt import envlib as E
from mir2smt.builtins import deref

CRATES = ["ckb-constant", "ckb-occupied-capacity-core", "ckb-types", "ckb-chain-spec", "ckb-snapshot", "ckb-tx-pool"]
USIZE = (1 << 64) - 1


def nmv(ex, v):
    v = deref(ex, v) if ex is not None else v
    if isinstance(v, ListV):
        return "[" + ",".join(nmv(ex, x) for x in v.items) + "]"
    if isinstance(v, AggV) and isinstance(v.ty, str) and v.ty.startswith("ListIter"):
        return "[" + ",".join(nmv(ex, x) for x in E._rest(ex, v)) + "]"
    if isinstance(v, AggV):
        return "(" + ",".join(nmv(ex, x) for x in v.fields) + ")"
    if isinstance(v, (IntV, BoolV)):
        return v.t[2] if isinstance(v.t, tuple) and v.t[0] == "var" else str(v.t)
    return getattr(v, "name", None) or type(v).__name__


def _find(S, pred, what):
    f = [x for x in S.prog.funcs if x.kind == "fn" and pred(x)]
    if len(f) != 1:
        raise Inconclusive(f"{what}: {len(f)} candidates")
    return f[0]


def m1_template_size(S):
    from mir2smt.srcinfo import struct_fields
    ob = "C13.m1"
    fields = struct_fields("tx-pool/src/block_assembler/mod.rs", "TemplateSize")
    for part in ("proposals", "uncles", "txs"):
        f = _find(S, lambda x: x.short == f"calc_total_by_{part}" and "block_assembler/mod.rs" in x.name, f"TemplateSize::calc_total_by_{part}")
        ctx = S.ctx()
        vals = {k: ctx.int("size_" + k, "usize") for k in fields}
        new = ctx.int("new_" + part, "usize")
        ps = S.run(ctx, f, [ctx.ref_to(AggV(tuple(vals[k] for k in fields), "TemplateSize")), new])
        S.prove(ctx, ob, f"{part}_no_panic", [], T.not_(cond_of(panics(ps))))
        r = merged(ps, as_int)
        exact = T.add(T.sub(vals["total"].t, vals[part].t), new.t)
        # invariant of the accounting: the total contains the part
        inv = [T.le(vals[part].t, vals["total"].t)]
        S.prove(ctx, ob, f"{part}_new_total_replaces_the_old_part_by_the_new_one", inv + [T.le(exact, USIZE)], T.eq(r, exact))
        S.prove(ctx, ob, f"{part}_saturates_instead_of_wrapping", inv + [T.gt(exact, USIZE)], T.eq(r, USIZE))
        S.prove(ctx, ob, f"{part}_other_parts_do_not_enter", inv, T.and_(T.le(r, T.imax(T.add(vals["total"].t, new.t), 0)), T.ge(r, 0)))
        S.witness(ctx, ob, f"{part}_reach_shrinking", inv, T.lt(new.t, vals[part].t))


def m3_prepare_uncles(S):
    """one candidate list of n candidates in iteration order; every test the code makes on a candidate is an environment boolean / integer"""
    ob = "C13.m3"
    f = _find(S, lambda x: x.short == "prepare_uncles" and "candidate_uncles.rs" in x.name and "{closure" not in x.name and len(x.params) == 3, "CandidateUncles::prepare_uncles")
    for n, maxu in ((1, 2), (2, 1), (3, 2)):
        ctx = S.ctx(unwind=12)
        ctx.uninterpreted_unknown_calls = True
        ctx.max_paths = 20000
        tip = ctx.int("tip_number", "u64")
        cur_epoch = ctx.int("epoch_number", "u64")
        cur_target = ctx.int("epoch_target", "u32")
        removed = []
        cands = [OpaqueV(f"u{k}", "UncleBlockView") for k in range(n)]

        def who(ex, v):
            return nmv(ex, v).split(".")[0].split("(")[-1].rstrip(")")

        def member(kind):
            def h(ex, c, a, d):
                return ex.ctx.bool(f"{kind}_" + re.sub(r"[^A-Za-z0-9]", "_", nmv(ex, a[1])))
            return h

        def b32_eq(ex, c, a, d):
            x, y = nmv(ex, a[0]), nmv(ex, a[1])
            if x == y:
                return BoolV(True)
            return ex.ctx.bool("eq_" + "_".join(sorted(re.sub(r"[^A-Za-z0-9]", "_", z) for z in (x, y))))
        ctx.env = list(E.LOGGING_OFF) + [
            (E.rx(r"Snapshot::tip_number$"), lambda ex, c, a, d: tip),
            (E.rx(r"EpochExt::number$"), lambda ex, c, a, d: cur_epoch),
            (E.rx(r"EpochExt::compact_target$"), lambda ex, c, a, d: cur_target),
            (E.rx(r"Snapshot::consensus$"), lambda ex, c, a, d: ex.ctx.ref_to(OpaqueV("consensus", "Consensus"))),
            (E.rx(r"Consensus::max_uncles_num$"), lambda ex, c, a, d, maxu=maxu: IntV(maxu, "usize")),
            (E.rx(r"CandidateUncles::values$"), E.list_source(cands, owned=False)),
            (E.rx(r"UncleBlockView::header$"), lambda ex, c, a, d: OpaqueV("header(" + nmv(ex, a[0]) + ")", d)),
            (E.rx(r"HeaderView::parent_hash$"), lambda ex, c, a, d: OpaqueV("parent(" + who(ex, a[0]) + ")", d)),
            (E.rx(r"UncleBlockView::hash$"), lambda ex, c, a, d: OpaqueV("hash(" + nmv(ex, a[0]) + ")", d)),
            (E.rx(r"UncleBlockView::compact_target$"), lambda ex, c, a, d: ex.ctx.int("target_" + nmv(ex, a[0]), "u32")),
            (E.rx(r"UncleBlockView::epoch$"), lambda ex, c, a, d: OpaqueV("epoch(" + nmv(ex, a[0]) + ")", d)),
            (E.rx(r"EpochNumberWithFraction::number$"), lambda ex, c, a, d: ex.ctx.int("epochno_" + who(ex, a[0]), "u64")),
            (E.rx(r"UncleBlockView::number$"), lambda ex, c, a, d: ex.ctx.int("number_" + nmv(ex, a[0]), "u64")),
            (E.rx(r"ChainStore>::is_main_chain$"), member("main")),
            (E.rx(r"ChainStore>::is_uncle$"), member("uncle")),
            (E.rx(r"Byte32 as PartialEq>::eq$"), b32_eq),
            (E.rx(r"UncleBlockView as Clone>::clone$"), lambda ex, c, a, d: OpaqueV(nmv(ex, a[0]), d)),
            (E.rx(r"CandidateUncles::remove_by_number$"), lambda ex, c, a, d: (removed.append((nmv(ex, a[1]), list(ex.pc))), BoolV(True))[1]),
        ] + list(E.LIST_ADAPTORS)
        ps = S.run(ctx, f, [ctx.ref_to(OpaqueV("candidates", "CandidateUncles")), ctx.ref_to(OpaqueV("snapshot", "Snapshot")), ctx.ref_to(OpaqueV("epoch", "EpochExt"))])
        pre = [T.lt(tip.t, (1 << 64) - 1)]
        tag = f"{n}candidates_max{maxu}"
        S.prove(ctx, ob, f"{tag}_no_panic", pre, T.not_(cond_of(panics(ps))))
        rs = returns(ps)
        sel = lambda k: T.or_(*[p.cond() for p in rs if isinstance(p.value, ListV) and f"u{k}" in [nmv(None, x) for x in p.value.items]])
        S.prove(ctx, ob, f"{tag}_every_path_returns_a_list", [], bool(rs and all(isinstance(p.value, ListV) for p in rs)))
        S.prove(ctx, ob, f"{tag}_never_more_than_the_consensus_maximum", [], bool(all(len(p.value.items) <= maxu for p in rs if isinstance(p.value, ListV))), extra={"note": str(sorted({len(p.value.items) for p in rs if isinstance(p.value, ListV)}))})
        S.prove(ctx, ob, f"{tag}_selection_keeps_iteration_order_and_no_duplicates", [], bool(all([nmv(None, x) for x in p.value.items] == sorted(set(nmv(None, x) for x in p.value.items), key=lambda s: int(s[1:])) for p in rs if isinstance(p.value, ListV))))
        # the rule, candidate by candidate (count of earlier selections decides the cap)
        b = lambda name: ctx.bool(name).t
        for k in range(n):
            same_epoch = T.and_(T.eq(ctx.int(f"target_u{k}", "u32").t, cur_target.t), T.eq(ctx.int(f"epochno_u{k}", "u64").t, cur_epoch.t))
            fresh = T.and_(T.not_(b(f"main_hash_u{k}_")), T.not_(b(f"uncle_hash_u{k}_")), T.lt(ctx.int(f"number_u{k}", "u64").t, T.add(tip.t, 1)))
            parent_sel = T.or_(*[T.and_(sel(j), b("eq_" + "_".join(sorted([f"hash_u{j}_", f"parent_u{k}_"])))) for j in range(k)]) if k else False
            parent_ok = T.or_(parent_sel, b(f"main_parent_u{k}_"), b(f"uncle_parent_u{k}_"))
            earlier = [sel(j) for j in range(k)]
            cnt = 0
            for e in earlier:
                cnt = T.add(cnt, T.ite(e, 1, 0))
            room = T.lt(cnt, maxu) if earlier else (maxu > 0)
            S.prove(ctx, ob, f"{tag}_u{k}_selected_iff_room_same_epoch_and_target_not_included_lower_and_parent_known", pre, T.iff(sel(k), T.and_(room, same_epoch, fresh, parent_ok)))
            rem = T.or_(*[T.and_(*pc) for nme, pc in removed if nme == f"u{k}"]) if any(nme == f"u{k}" for nme, _ in removed) else False
            S.prove(ctx, ob, f"{tag}_u{k}_dropped_from_the_candidates_iff_examined_and_of_another_epoch_or_target", pre, T.iff(rem, T.and_(room, T.not_(same_epoch))))
        S.witness(ctx, ob, f"{tag}_reach_all_selected", pre, T.and_(*[sel(k) for k in range(min(n, maxu))]))


def _it_sum(ex, c, a, d):
    """`Iterator::sum::<usize>` over a list iterator of integers (exact sum: the sizes are far below the word size, see ASSUMPTIONS)"""
    it = deref(ex, a[0])
    if not E._is_it(it):
        from mir2smt.exec import ENV_PASS
        return ENV_PASS
    t = 0
    for x in E._rest(ex, it):
        x = deref(ex, x) if isinstance(x, RefV) else x
        if not isinstance(x, IntV):
            raise Stop(f"sum over a non-integer item {str(x)[:100]}")
        t = T.add(t, x.t)
    return IntV(t, "usize")


def _assembler_run(S, fname, nupvars=("self", "tx_pool")):
    from mir2smt.exec import CoroV, post_value
    from mir2smt.srcinfo import field_index
    c = [f for f in S.prog.funcs if f.kind == "fn" and re.search(r"block_assembler::<impl at [^>]*>::" + fname + r"::\{closure#0\}$", f.name) and len(f.params) == 2 and "Context" in f.params[1][1]]
    if len(c) != 1:
        raise Inconclusive(f"{fname} coroutine: {len(c)} candidates")
    f = c[0]
    ix = {}
    for name, place in f.debug.items():
        m = re.match(r"\(\(\*\(_1\.0: .*?\)\)\.(\d+): ", place)
        if m:
            ix[name] = int(m.group(1))
    if any(n not in ix for n in nupvars):
        raise Inconclusive(f"{fname} upvars: {ix}")
    M = "tx-pool/src/block_assembler/mod.rs"
    ct, bt, ts, te = field_index(M, "CurrentTemplate"), field_index(M, "BlockTemplate"), field_index(M, "TemplateSize"), field_index("tx-pool/src/component/entry.rs", "TxEntry")
    ctx = S.ctx(unwind=10)
    ctx.uninterpreted_unknown_calls = True
    ctx.max_paths = 2000
    maxb, maxc, maxp = ctx.int("max_block_bytes", "u64"), ctx.int("max_block_cycles", "u64"), ctx.int("max_block_proposals_limit", "u64")
    basic, nprop = ctx.int("basic_size", "usize"), ctx.int("n_fresh_proposals", "usize")
    tip_changed = ctx.bool("pool_is_on_another_tip")
    sizes = [ctx.int(f"tx{k}_size", "usize") for k in range(2)]
    template = AggV(tuple((ctx.int("old_" + k, "u64") if k in ("current_time", "work_id", "number", "cycles_limit", "bytes_limit") else OpaqueV("old_" + k, "?")) for k, _ in sorted(bt.items(), key=lambda kv: kv[1])), "BlockTemplate")
    old_size = AggV(tuple(ctx.int("old_size_" + k, "usize") for k, _ in sorted(ts.items(), key=lambda kv: kv[1])), "TemplateSize")
    current = AggV(tuple({"template": template, "size": old_size}.get(k, OpaqueV("cur_" + k, "?")) for k, _ in sorted(ct.items(), key=lambda kv: kv[1])), "CurrentTemplate")
    cur_cell = ctx.ref_to(current)
    calls = []

    def rec(tag, ret, *idx):
        def h(ex, c_, a, d):
            calls.append((tag, tuple(nmv(ex, a[i]) for i in idx), list(ex.pc)))
            ex.log.append(("c13", tag, [], list(ex.pc)))
            return ret(ex, d) if callable(ret) else ret
        return h

    def poll(ex, c_, a, d):
        return EnumV(0, ((0, (OpaqueV("guard_of_" + nmv(ex, a[0]), "Guard"),)),), d)
    entries = [AggV(tuple((sizes[k] if fld == "size" else OpaqueV(f"e{k}.{fld}", "?")) for fld, _ in sorted(te.items(), key=lambda kv: kv[1])), "TxEntry") for k in range(2)]

    def calc_dao(ex, c_, a, d):
        calls.append(("calc_dao", tuple(nmv(ex, x) for x in a), list(ex.pc)))
        ok = AggV((OpaqueV("dao", "Byte32"), ListV(tuple(entries), "Vec<TxEntry>"), ListV((), "Vec<FailedTxs>")), "(Byte32, Vec<TxEntry>, Vec<FailedTxs>)")
        return mk_result(ex.ctx.bool("dao_ok").t, ok, OpaqueV("dao_err", "AnyError"), d)
    ctx.env = list(E.LOGGING_OFF) + [
        (E.rx(r"Mutex::<CurrentTemplate>::lock$"), lambda ex, c_, a, d: OpaqueV("template_lock_future", d)),
        (E.rx(r"RwLock::<TxPool>::read$"), lambda ex, c_, a, d: OpaqueV("pool_read_future", d)),
        (E.rx(r" as Future>::poll$"), poll),
        (E.rx(r"MutexGuard<'_, CurrentTemplate> as Deref(Mut)?>::deref(_mut)?$"), lambda ex, c_, a, d: cur_cell),
        (E.rx(r"RwLockReadGuard<'_, TxPool> as Deref>::deref$"), lambda ex, c_, a, d: ex.ctx.ref_to(OpaqueV("pool", "TxPool"))),
        (E.rx(r"<Arc<tokio::sync::Mutex<CurrentTemplate>> as Deref>::deref$"), lambda ex, c_, a, d: ex.ctx.ref_to(OpaqueV("current_mutex", "Mutex"))),
        (E.rx(r"<Arc<.*> as Deref>::deref$"), lambda ex, c_, a, d: ex.ctx.ref_to(OpaqueV(nmv(ex, a[0]), "?"))),
        (E.rx(r"Snapshot::consensus$"), lambda ex, c_, a, d: ex.ctx.ref_to(OpaqueV("consensus_of(" + nmv(ex, a[0]) + ")", "Consensus"))),
        (E.rx(r"Consensus::max_block_bytes$"), lambda ex, c_, a, d: maxb),
        (E.rx(r"Consensus::max_block_cycles$"), lambda ex, c_, a, d: maxc),
        (E.rx(r"Consensus::max_block_proposals_limit$"), lambda ex, c_, a, d: maxp),
        (E.rx(r"Snapshot::tip_hash$"), lambda ex, c_, a, d: OpaqueV("tip_of(" + nmv(ex, a[0]) + ")", d)),
        (E.rx(r"TxPool::snapshot$"), lambda ex, c_, a, d: ex.ctx.ref_to(OpaqueV("pool_snapshot", "Snapshot"))),
        (E.rx(r"Byte32 as PartialEq>::ne$"), lambda ex, c_, a, d: (calls.append(("tip_compare", (nmv(ex, a[0]), nmv(ex, a[1])), list(ex.pc))), tip_changed)[1]),
        (E.rx(r"TxPool::package_proposals$"), rec("package_proposals", lambda ex, d: OpaqueV("fresh_proposals", d), 0, 1, 2)),
        (E.rx(r"TransactionView::data$"), lambda ex, c_, a, d: OpaqueV("data(" + nmv(ex, a[0]) + ")", d)),
        (E.rx(r"HashSet::<.*ProposalShortId>::iter$"), lambda ex, c_, a, d: OpaqueV("iter(" + nmv(ex, a[0]) + ")", d)),
        (E.rx(r"HashSet::<.*ProposalShortId>::len$"), lambda ex, c_, a, d: (calls.append(("len", (nmv(ex, a[0]),), list(ex.pc))), nprop)[1]),
        (E.rx(r"impl (ckb_types::packed::)?ProposalShortId>::serialized_size$"), lambda ex, c_, a, d: IntV(10, "usize")),
        (E.rx(r"BlockAssembler::basic_block_size::<"), rec("basic_block_size", lambda ex, d: basic, 0, 1, 2, 3)),
        (E.rx(r"TxPool::package_txs$"), rec("package_txs", lambda ex, d: AggV((OpaqueV("packaged_txs", "Vec<TxEntry>"), ex.ctx.int("pk_size", "usize"), ex.ctx.int("pk_cycles", "u64")), d), 1, 2)),
        (E.rx(r"BlockAssembler::calc_dao$"), calc_dao),
        (E.rx(r" as Iterator>::sum::<usize>$"), _it_sum),
        (E.rx(r"BlockTemplateBuilder::from_template$"), lambda ex, c_, a, d: OpaqueV("builder_from(" + nmv(ex, a[0])[:40] + ")", d)),
        (E.rx(r"BlockTemplateBuilder::(set_proposals|set_transactions)$"), rec("builder_set", lambda ex, d: ex.ctx.ref_to(OpaqueV("builder", "BlockTemplateBuilder")), 1)),
        (E.rx(r"BlockTemplateBuilder::(work_id|current_time|dao|extension)$"), lambda ex, c_, a, d: a[0]),
        (E.rx(r"BlockAssembler::build_extension$"), lambda ex, c_, a, d: mk_result(ex.ctx.bool("extension_ok").t, mk_option(ex.ctx.bool("has_extension").t, OpaqueV("new_extension", "Bytes"), "Option<Bytes>"), OpaqueV("ext_err", "AnyError"), d)),
        (E.rx(r"core::slice::<impl \[.*ProposalShortId\]>::iter$|<Vec<.*ProposalShortId> as Deref>::deref$"), lambda ex, c_, a, d: OpaqueV("iter(" + nmv(ex, a[0]) + ")", d)),
        (E.rx(r"BlockTemplateBuilder::build$"), lambda ex, c_, a, d: OpaqueV("built_template", d)),
        (E.rx(r"as FromIterator<.*>>::from_iter::<"), lambda ex, c_, a, d: OpaqueV("vec_of(" + nmv(ex, a[0]) + ")", d)),
        (E.rx(r"AtomicU64::fetch_add$"), lambda ex, c_, a, d: ex.ctx.int("work_id", "u64")),
        (E.rx(r"unix_time_as_millis$"), lambda ex, c_, a, d: ex.ctx.int("now", "u64")),
        (E.rx(r"as Clone>::clone$"), lambda ex, c_, a, d: (OpaqueV(nmv(ex, a[0]), d) if isinstance(deref(ex, a[0]), OpaqueV) else deref(ex, a[0]))),
        (E.rx(r"<Vec<.*> as Deref>::deref$"), lambda ex, c_, a, d: a[0]),
        (E.rx(r"Vec::<.*>::len$"), lambda ex, c_, a, d: (IntV(len(deref(ex, a[0]).items), "usize") if isinstance(deref(ex, a[0]), ListV) else ex.ctx.int("len_" + re.sub(r"[^A-Za-z0-9]", "_", nmv(ex, a[0])), "usize"))),
    ] + list(E.LIST_ADAPTORS)
    ups = {ix["self"]: ctx.ref_to(OpaqueV("assembler", "BlockAssembler"))}
    if "tx_pool" in ix:
        ups[ix["tx_pool"]] = ctx.ref_to(OpaqueV("pool_lock", "RwLock<TxPool>"))
    coro = CoroV(0, tuple(sorted(ups.items())), (), "coroutine")
    ps = S.run(ctx, f, [AggV((ctx.ref_to(coro),), "Pin"), ctx.ref_to(OpaqueV("task_context", "Context"))])
    return dict(locals())


def m2_update_full(S):
    from mir2smt.exec import post_value
    ob = "C13.m2"
    L = _assembler_run(S, "update_full")
    ctx, ps, calls, maxb, maxc, maxp, basic, nprop, tip_changed, sizes, template, old_size, cur_cell, entries, ct, bt, ts = (L[k] for k in
        ("ctx", "ps", "calls", "maxb", "maxc", "maxp", "basic", "nprop", "tip_changed", "sizes", "template", "old_size", "cur_cell", "entries", "ct", "bt", "ts"))
    # sizes of real blocks are far below the word size
    pre = [T.le(maxb.t, 1 << 40), T.le(basic.t, 1 << 40), T.le(nprop.t, 1 << 32)] + [T.le(x.t, 1 << 40) for x in sizes]
    rs = returns(ps)
    ready = [p for p in rs if isinstance(p.value, EnumV) and p.value.disc == 0]
    S.prove(ctx, ob, "completes_without_panicking_or_suspending", pre, bool(ready and len(ready) == len(rs)) and T.not_(cond_of(panics(ps))), extra={"note": str([(p.outcome, str(p.value)[:60]) for p in ps][:4])})
    when = lambda tag: T.or_(*[T.and_(*pc) for t, _, pc in calls if t == tag]) if any(t == tag for t, _, _ in calls) else False
    args = lambda tag: {n for t, n, _ in calls if t == tag}
    tc = args("tip_compare")
    S.prove(ctx, ob, "template_tip_is_compared_with_the_pools_tip", [], bool(tc == {("tip_of(cur_snapshot)", "tip_of(pool_snapshot)")}), extra={"note": str(tc)})
    S.prove(ctx, ob, "nothing_is_packaged_when_the_pool_is_on_another_tip", pre + [tip_changed.t], T.not_(T.or_(when("package_proposals"), when("package_txs"), when("basic_block_size"))))
    pp = args("package_proposals")
    S.prove(ctx, ob, "proposals_are_packaged_up_to_the_consensus_limit_excluding_the_templates_uncles", [], bool(pp == {("pool", "max_block_proposals_limit", "old_uncles")}), extra={"note": str(pp)})
    bb = args("basic_block_size")
    S.prove(ctx, ob, "basic_size_counts_cellbase_uncles_extension_and_the_freshly_packaged_proposals", [], bool(bb == {("data(old_cellbase)", "old_uncles", "iter(fresh_proposals)", "old_extension")}), extra={"note": str(bb)})
    pk = [(n, pc) for t, n, pc in calls if t == "package_txs"]
    S.prove(ctx, ob, "transactions_are_packaged_iff_the_basic_size_fits", pre + [T.not_(tip_changed.t)], T.iff(when("package_txs"), T.le(basic.t, maxb.t)))
    S.prove(ctx, ob, "package_limits_are_the_block_cycle_limit_and_the_bytes_left_after_the_basic_size", pre, bool(pk) and T.and_(*[T.implies(T.and_(*pc), bool(n[0] == "max_block_cycles")) for n, pc in pk]) and bool(all(n[0] == "max_block_cycles" for n, _ in pk)))
    # the size-limit argument as a term: re-run is not needed, the handler logged names only for symbols; compare through a dedicated symbol
    lim = [n[1] for n, _ in pk]
    S.prove(ctx, ob, "package_size_limit_is_max_block_bytes_minus_basic_size", [], bool(lim and all(x == str(T.sub(maxb.t, basic.t)) for x in lim)), extra={"note": str(lim)[:300]})
    bs = args("builder_set")
    S.prove(ctx, ob, "new_template_takes_the_fresh_proposals_and_the_dao_checked_transactions", [], bool(bs == {("vec_of(fresh_proposals)",), ("[" + ",".join(nmv(None, e) for e in entries) + "]",)}), extra={"note": str(bs)[:400]})
    ln = args("len")
    S.prove(ctx, ob, "proposal_bytes_are_counted_from_the_fresh_proposals", [], bool(ln == {("fresh_proposals",)}), extra={"note": str(ln)})
    # post-state of the current template on the paths that packaged
    goals = []
    for p in ready:
        post = post_value(ctx, p, cur_cell)
        packaged = any(e[0] == "c13" and e[1] == "builder_set" for e in p.log)
        if os.environ.get("VERIF_DEBUG"):
            print("DEBUG post", packaged, type(post).__name__, str(post)[:300])
        if not isinstance(post, AggV):
            goals.append(False)
            continue
        sz, tm = post.fields[ct["size"]], post.fields[ct["template"]]
        if not packaged:
            goals.append(bool(nmv(None, tm) == nmv(None, template) and nmv(None, sz) == nmv(None, old_size)))
            continue
        if not isinstance(sz, AggV):
            goals.append(False)
            continue
        tot = T.add(sizes[0].t, sizes[1].t)
        goals.append(T.implies(p.cond(), T.and_(T.eq(as_int(sz.fields[ts["txs"]]), tot), T.eq(as_int(sz.fields[ts["total"]]), T.add(basic.t, tot)),
                                                T.eq(as_int(sz.fields[ts["proposals"]]), T.mul(nprop.t, 10)), T.eq(as_int(sz.fields[ts["uncles"]]), ctx.int("old_size_uncles", "usize").t),
                                                bool(nmv(None, tm) == "built_template"))))
    if os.environ.get("VERIF_DEBUG"):
        print("DEBUG goals", [str(g)[:120] for g in goals])
    S.prove(ctx, ob, "recorded_sizes_are_basic_plus_committed_transactions_and_fresh_proposals_times_short_id_size", pre, T.and_(*goals) if goals else False)
    S.witness(ctx, ob, "reach_packaged", pre, when("package_txs"))
    S.witness(ctx, ob, "reach_basic_size_too_large", pre + [T.not_(tip_changed.t)], T.gt(basic.t, maxb.t))


def _is_diff(s, a, b):
    """the printed term of `a - b` (usize subtraction after the checked_sub succeeded)"""
    return a in s and b in s and ("sub" in s or "-" in s or "+" in s)


def m4_incremental_updates(S):
    """`update_proposals` / `update_transactions` (async fns): what they hand to the packagers and when the recomputed template is adopted.
    update_proposals: adopted iff old total - old proposals + new proposals stays strictly below max_block_bytes, and then the recorded proposals part and total are exactly those;
    update_transactions: the basic size counts the template's own proposals, the package gets max_block_bytes - basic size bytes and max_block_cycles cycles, and the recorded
    transactions part / total are those of the dao-checked package; a pool on another tip changes nothing"""
    from mir2smt.exec import post_value
    ob = "C13.m4"
    # ---------------- update_proposals
    L = _assembler_run(S, "update_proposals")
    ctx, ps, calls, maxb, maxp, nprop, tip_changed, template, old_size, cur_cell, ct, ts = (L[k] for k in ("ctx", "ps", "calls", "maxb", "maxp", "nprop", "tip_changed", "template", "old_size", "cur_cell", "ct", "ts"))
    old = {k: as_int(old_size.fields[i]) for k, i in ts.items()}
    pre = [T.le(maxb.t, 1 << 40), T.le(nprop.t, 1 << 32)] + [T.le(v, 1 << 40) for v in old.values()] + [T.le(old["proposals"], old["total"])]
    rs = returns(ps)
    ready = [p for p in rs if isinstance(p.value, EnumV) and p.value.disc == 0]
    S.prove(ctx, ob, "update_proposals_completes_without_panicking_or_suspending", pre, bool(ready and len(ready) == len(rs)) and T.not_(cond_of(panics(ps))))
    pp = {n for t, n, _ in calls if t == "package_proposals"}
    S.prove(ctx, ob, "update_proposals_packages_up_to_the_consensus_limit_excluding_the_templates_uncles", [], bool(pp == {("pool", "max_block_proposals_limit", "old_uncles")}), extra={"note": str(pp)})
    new_part = T.mul(nprop.t, 10)
    new_total = T.add(T.sub(old["total"], old["proposals"]), new_part)
    goals, adopted = [], []
    for p in ready:
        post = post_value(ctx, p, cur_cell)
        took = any(e[0] == "c13" and e[1] == "builder_set" for e in p.log)
        if not isinstance(post, AggV):
            goals.append(False)
            continue
        sz, tm = post.fields[ct["size"]], post.fields[ct["template"]]
        if took:
            adopted.append(p.cond())
            goals.append(T.implies(p.cond(), T.and_(T.eq(as_int(sz.fields[ts["proposals"]]), new_part), T.eq(as_int(sz.fields[ts["total"]]), new_total),
                                                    T.eq(as_int(sz.fields[ts["txs"]]), old["txs"]), T.eq(as_int(sz.fields[ts["uncles"]]), old["uncles"]), bool(nmv(None, tm) == "built_template"))))
        else:
            goals.append(bool(nmv(None, tm) == nmv(None, template) and nmv(None, sz) == nmv(None, old_size)))
    S.prove(ctx, ob, "update_proposals_records_exactly_the_new_proposals_part_and_total_or_leaves_the_template_alone", pre, T.and_(*goals) if goals else False)
    S.prove(ctx, ob, "update_proposals_adopts_iff_same_tip_and_the_new_total_stays_below_max_block_bytes", pre, T.iff(T.or_(*adopted) if adopted else False, T.and_(T.not_(tip_changed.t), T.lt(new_total, maxb.t))))
    S.witness(ctx, ob, "update_proposals_reach_rejected_for_size", pre + [T.not_(tip_changed.t)], T.ge(new_total, maxb.t))
    # ---------------- update_transactions
    L = _assembler_run(S, "update_transactions")
    ctx, ps, calls, maxb, maxc, basic, tip_changed, sizes, template, old_size, cur_cell, entries, ct, ts = (L[k] for k in ("ctx", "ps", "calls", "maxb", "maxc", "basic", "tip_changed", "sizes", "template", "old_size", "cur_cell", "entries", "ct", "ts"))
    old = {k: as_int(old_size.fields[i]) for k, i in ts.items()}
    pre = [T.le(maxb.t, 1 << 40), T.le(basic.t, 1 << 40)] + [T.le(v, 1 << 40) for v in old.values()] + [T.le(x.t, 1 << 40) for x in sizes] + [T.le(old["txs"], old["total"])]
    rs = returns(ps)
    ready = [p for p in rs if isinstance(p.value, EnumV) and p.value.disc == 0]
    S.prove(ctx, ob, "update_transactions_completes_without_panicking_or_suspending", pre, bool(ready and len(ready) == len(rs)) and T.not_(cond_of(panics(ps))))
    bb = {n for t, n, _ in calls if t == "basic_block_size"}
    S.prove(ctx, ob, "update_transactions_basic_size_counts_the_templates_cellbase_uncles_proposals_and_the_new_extension", [], bool(bb and all(n[0] == "data(old_cellbase)" and n[1] == "old_uncles" and "old_proposals" in n[2] for n in bb)), extra={"note": str(bb)})
    pk = [(n, pc) for t, n, pc in calls if t == "package_txs"]
    S.prove(ctx, ob, "update_transactions_package_limits_are_block_cycles_and_bytes_left_after_the_basic_size", [], bool(pk and all(n == ("max_block_cycles", str(T.sub(maxb.t, basic.t))) for n, _ in pk)), extra={"note": str([n for n, _ in pk])[:300]})
    whenpk = T.or_(*[T.and_(*pc) for _, pc in pk]) if pk else False
    S.prove(ctx, ob, "update_transactions_packages_iff_same_tip_and_the_basic_size_fits", pre + [ctx.bool("extension_ok").t], T.iff(whenpk, T.and_(T.not_(tip_changed.t), T.le(basic.t, maxb.t))))
    tot = T.add(sizes[0].t, sizes[1].t)
    goals = []
    for p in ready:
        post = post_value(ctx, p, cur_cell)
        took = any(e[0] == "c13" and e[1] == "builder_set" for e in p.log)
        if not isinstance(post, AggV):
            goals.append(False)
            continue
        sz, tm = post.fields[ct["size"]], post.fields[ct["template"]]
        if took:
            goals.append(T.implies(p.cond(), T.and_(T.eq(as_int(sz.fields[ts["txs"]]), tot), T.eq(as_int(sz.fields[ts["total"]]), T.add(T.sub(old["total"], old["txs"]), tot)),
                                                    T.eq(as_int(sz.fields[ts["proposals"]]), old["proposals"]), T.eq(as_int(sz.fields[ts["uncles"]]), old["uncles"]), bool(nmv(None, tm) == "built_template"))))
        else:
            goals.append(bool(nmv(None, tm) == nmv(None, template) and nmv(None, sz) == nmv(None, old_size)))
    S.prove(ctx, ob, "update_transactions_records_exactly_the_new_transactions_part_and_total_or_leaves_the_template_alone", pre, T.and_(*goals) if goals else False)
    S.witness(ctx, ob, "update_transactions_reach_adopted", pre, whenpk)


OBLIGATIONS = [m1_template_size, m2_update_full, m3_prepare_uncles, m4_incremental_updates]

ENGINE = "M"
LEVEL = "other"
EXPLANATION = ("The block assembler's size accounting (TemplateSize), the limits it hands to the packagers (update_full and the incremental updates) and the uncle selection (prepare_uncles) "
               "are executed symbolically from their MIR with the pool, snapshot and consensus accessors as environment symbols; the solver decides the arithmetic and the selection rule.")
BOUNDS = {"prepare_uncles": "1..3 candidates, cap 1..2", "update_full": "2 packaged proposals, 2 packaged transactions", "outside": "CommitTxsScanner / package_proposals (multi-index containers), cellbase, DAO and extension contents, whole-template verification"}
ASSUMPTIONS = ["pool, snapshot and consensus accessors are environment symbols (arbitrary values)", "TemplateSize invariant: each part is contained in the total"]
TRUSTED = []
LEVEL_TEXT = ("Decided on the real MIR: template size totals replace exactly the changed part; update_full reserves the bytes of the freshly packaged proposals before it sizes the transaction package and "
              "hands the consensus cycle/byte/proposal limits to the packagers; uncle candidates are selected by exactly the rule the verifier applies and never more than the consensus maximum. "
              "That a complete template passes full verification (package selection, cellbase, DAO, extension) is outside and not claimed.")
LEVEL_NOTE = "Partial claim (size accounting, limits, uncle selection). Package selection, cellbase/DAO/extension, whole-template verification: outside."
TECHNIQUE = "symbolic execution of rustc MIR (incl. coroutine body) -> integer-theory SMT (cvc5 + z3)"
DESIGN_REF = "DESIGN.md section 4 (C13)"
