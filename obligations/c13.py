"""C13 — every block template would be accepted by the node itself (engine M, partial: size accounting, limits handed to the packagers, uncle selection).

Claimed (partial), decided on the real MIR of tx-pool/src/block_assembler:

 m1  `TemplateSize::calc_total_by_{proposals,uncles,txs}`: the new total is the old total with the old part replaced by the new one (exact below usize saturation);
 m2  `BlockAssembler::update_full` (async fn): proposals are packaged up to the consensus proposal limit, the basic size is computed from the template's cellbase, uncles,
     extension and the FRESHLY packaged proposals, transactions are packaged within `max_block_bytes - basic size` bytes (error if negative) and `max_block_cycles` cycles,
     and the recorded sizes are basic + sum of the committed transactions' sizes / number of proposals x short-id size;
 m3  `CandidateUncles::prepare_uncles`: a candidate is selected iff the cap is not reached and it has this epoch's number and target, is neither on the main chain nor already
     an uncle, is lower than the candidate block and its parent is selected before it, on the main chain or an uncle (the rule UnclesVerifier applies, C03.m7); at most
     `max_uncles_num` are ever selected; candidates of another epoch/target are dropped from the candidate set;
 m4  `update_uncles` / `update_proposals` / `update_transactions`: an incremental update is adopted only if the recomputed total stays within `max_block_bytes`.

 m5  `TxSelector::txs_to_commit` on a three-entry proposed pool (a parent/child pair and an independent entry): limits respected, totals exact, parents first, nothing twice.

Outside: larger pools and the score order (multi-index containers), `package_proposals`, cellbase/DAO/extension contents (C06 covers the reward and
DAO arithmetic), the template's acceptance as a whole-program run.
"""
import os
import re
from mir2smt.ob import *
from mir2smt import terms as T
from mir2smt.exec import StrV, OpaqueV, IntV, BoolV, AggV, EnumV, RefV, ListV, UNIT, Stop, mk_option, mk_result
from mir2smt import envlib as E
from mir2smt.builtins import deref

CRATES = ["ckb-constant", "ckb-occupied-capacity-core", "ckb-types", "ckb-chain-spec", "ckb-snapshot", "ckb-verification-contextual", "ckb-tx-pool"]
USIZE = (1 << 64) - 1


def nmv(ex, v):
    v = deref(ex, v) if ex is not None else v
    if isinstance(v, ListV):
        return "[" + ",".join(nmv(ex, x) for x in v.items) + "]"
    if isinstance(v, AggV) and isinstance(v.ty, str) and v.ty.startswith("ListIter"):
        return "[" + ",".join(nmv(ex, x) for x in E._rest(ex, v)) + "]"
    if isinstance(v, AggV):
        return "(" + ",".join(nmv(ex, x) for x in v.fields) + ")"
    if isinstance(v, (IntV, BoolV)):
        return v.t[2] if isinstance(v.t, tuple) and v.t[0] == "var" else str(v.t)
    return getattr(v, "name", None) or type(v).__name__


def _find(S, pred, what):
    f = [x for x in S.prog.funcs if x.kind == "fn" and pred(x)]
    if len(f) != 1:
        raise Inconclusive(f"{what}: {len(f)} candidates")
    return f[0]


def m1_template_size(S):
    from mir2smt.srcinfo import struct_fields
    ob = "C13.m1"
    fields = struct_fields("tx-pool/src/block_assembler/mod.rs", "TemplateSize")
    for part in ("proposals", "uncles", "txs"):
        f = _find(S, lambda x: x.short == f"calc_total_by_{part}" and "block_assembler/mod.rs" in x.name, f"TemplateSize::calc_total_by_{part}")
        ctx = S.ctx()
        vals = {k: ctx.int("size_" + k, "usize") for k in fields}
        new = ctx.int("new_" + part, "usize")
        ps = S.run(ctx, f, [ctx.ref_to(AggV(tuple(vals[k] for k in fields), "TemplateSize")), new])
        S.prove(ctx, ob, f"{part}_no_panic", [], T.not_(cond_of(panics(ps))))
        r = merged(ps, as_int)
        exact = T.add(T.sub(vals["total"].t, vals[part].t), new.t)
        # invariant of the accounting: the total contains the part
        inv = [T.le(vals[part].t, vals["total"].t)]
        S.prove(ctx, ob, f"{part}_new_total_replaces_the_old_part_by_the_new_one", inv + [T.le(exact, USIZE)], T.eq(r, exact))
        S.prove(ctx, ob, f"{part}_saturates_instead_of_wrapping", inv + [T.gt(exact, USIZE)], T.eq(r, USIZE))
        S.prove(ctx, ob, f"{part}_other_parts_do_not_enter", inv, T.and_(T.le(r, T.imax(T.add(vals["total"].t, new.t), 0)), T.ge(r, 0)))
        S.witness(ctx, ob, f"{part}_reach_shrinking", inv, T.lt(new.t, vals[part].t))


def m3_prepare_uncles(S):
    """one candidate list of n candidates in iteration order; every test the code makes on a candidate is an environment boolean / integer"""
    ob = "C13.m3"
    f = _find(S, lambda x: x.short == "prepare_uncles" and "candidate_uncles.rs" in x.name and "{closure" not in x.name and len(x.params) == 3, "CandidateUncles::prepare_uncles")
    for n, maxu in ((1, 2), (2, 1), (3, 2)):
        ctx = S.ctx(unwind=12)
        ctx.uninterpreted_unknown_calls = True
        ctx.max_paths = 20000
        tip = ctx.int("tip_number", "u64")
        cur_epoch = ctx.int("epoch_number", "u64")
        cur_target = ctx.int("epoch_target", "u32")
        removed = []
        cands = [OpaqueV(f"u{k}", "UncleBlockView") for k in range(n)]

        def who(ex, v):
            return nmv(ex, v).split(".")[0].split("(")[-1].rstrip(")")

        def member(kind):
            def h(ex, c, a, d):
                return ex.ctx.bool(f"{kind}_" + re.sub(r"[^A-Za-z0-9]", "_", nmv(ex, a[1])))
            return h

        def b32_eq(ex, c, a, d):
            x, y = nmv(ex, a[0]), nmv(ex, a[1])
            if x == y:
                return BoolV(True)
            return ex.ctx.bool("eq_" + "_".join(sorted(re.sub(r"[^A-Za-z0-9]", "_", z) for z in (x, y))))
        ctx.env = list(E.LOGGING_OFF) + [
            (E.rx(r"Snapshot::tip_number$"), lambda ex, c, a, d: tip),
            (E.rx(r"EpochExt::number$"), lambda ex, c, a, d: cur_epoch),
            (E.rx(r"EpochExt::compact_target$"), lambda ex, c, a, d: cur_target),
            (E.rx(r"Snapshot::consensus$"), lambda ex, c, a, d: ex.ctx.ref_to(OpaqueV("consensus", "Consensus"))),
            (E.rx(r"Consensus::max_uncles_num$"), lambda ex, c, a, d, maxu=maxu: IntV(maxu, "usize")),
            (E.rx(r"CandidateUncles::values$"), E.list_source(cands, owned=False)),
            (E.rx(r"UncleBlockView::header$"), lambda ex, c, a, d: OpaqueV("header(" + nmv(ex, a[0]) + ")", d)),
            (E.rx(r"HeaderView::parent_hash$"), lambda ex, c, a, d: OpaqueV("parent(" + who(ex, a[0]) + ")", d)),
            (E.rx(r"UncleBlockView::hash$"), lambda ex, c, a, d: OpaqueV("hash(" + nmv(ex, a[0]) + ")", d)),
            (E.rx(r"UncleBlockView::compact_target$"), lambda ex, c, a, d: ex.ctx.int("target_" + nmv(ex, a[0]), "u32")),
            (E.rx(r"UncleBlockView::epoch$"), lambda ex, c, a, d: OpaqueV("epoch(" + nmv(ex, a[0]) + ")", d)),
            (E.rx(r"EpochNumberWithFraction::number$"), lambda ex, c, a, d: ex.ctx.int("epochno_" + who(ex, a[0]), "u64")),
            (E.rx(r"UncleBlockView::number$"), lambda ex, c, a, d: ex.ctx.int("number_" + nmv(ex, a[0]), "u64")),
            (E.rx(r"ChainStore>::is_main_chain$"), member("main")),
            (E.rx(r"ChainStore>::is_uncle$"), member("uncle")),
            (E.rx(r"Byte32 as PartialEq>::eq$"), b32_eq),
            (E.rx(r"UncleBlockView as Clone>::clone$"), lambda ex, c, a, d: OpaqueV(nmv(ex, a[0]), d)),
            (E.rx(r"CandidateUncles::remove_by_number$"), lambda ex, c, a, d: (removed.append((nmv(ex, a[1]), list(ex.pc))), BoolV(True))[1]),
        ] + list(E.LIST_ADAPTORS)
        ps = S.run(ctx, f, [ctx.ref_to(OpaqueV("candidates", "CandidateUncles")), ctx.ref_to(OpaqueV("snapshot", "Snapshot")), ctx.ref_to(OpaqueV("epoch", "EpochExt"))])
        pre = [T.lt(tip.t, (1 << 64) - 1)]
        tag = f"{n}candidates_max{maxu}"
        S.prove(ctx, ob, f"{tag}_no_panic", pre, T.not_(cond_of(panics(ps))))
        rs = returns(ps)
        sel = lambda k: T.or_(*[p.cond() for p in rs if isinstance(p.value, ListV) and f"u{k}" in [nmv(None, x) for x in p.value.items]])
        S.prove(ctx, ob, f"{tag}_every_path_returns_a_list", [], bool(rs and all(isinstance(p.value, ListV) for p in rs)))
        S.prove(ctx, ob, f"{tag}_never_more_than_the_consensus_maximum", [], bool(all(len(p.value.items) <= maxu for p in rs if isinstance(p.value, ListV))), extra={"note": str(sorted({len(p.value.items) for p in rs if isinstance(p.value, ListV)}))})
        S.prove(ctx, ob, f"{tag}_selection_keeps_iteration_order_and_no_duplicates", [], bool(all([nmv(None, x) for x in p.value.items] == sorted(set(nmv(None, x) for x in p.value.items), key=lambda s: int(s[1:])) for p in rs if isinstance(p.value, ListV))))
        # the rule, candidate by candidate (count of earlier selections decides the cap)
        b = lambda name: ctx.bool(name).t
        for k in range(n):
            same_epoch = T.and_(T.eq(ctx.int(f"target_u{k}", "u32").t, cur_target.t), T.eq(ctx.int(f"epochno_u{k}", "u64").t, cur_epoch.t))
            fresh = T.and_(T.not_(b(f"main_hash_u{k}_")), T.not_(b(f"uncle_hash_u{k}_")), T.lt(ctx.int(f"number_u{k}", "u64").t, T.add(tip.t, 1)))
            parent_sel = T.or_(*[T.and_(sel(j), b("eq_" + "_".join(sorted([f"hash_u{j}_", f"parent_u{k}_"])))) for j in range(k)]) if k else False
            parent_ok = T.or_(parent_sel, b(f"main_parent_u{k}_"), b(f"uncle_parent_u{k}_"))
            earlier = [sel(j) for j in range(k)]
            cnt = 0
            for e in earlier:
                cnt = T.add(cnt, T.ite(e, 1, 0))
            room = T.lt(cnt, maxu) if earlier else (maxu > 0)
            S.prove(ctx, ob, f"{tag}_u{k}_selected_iff_room_same_epoch_and_target_not_included_lower_and_parent_known", pre, T.iff(sel(k), T.and_(room, same_epoch, fresh, parent_ok)))
            rem = T.or_(*[T.and_(*pc) for nme, pc in removed if nme == f"u{k}"]) if any(nme == f"u{k}" for nme, _ in removed) else False
            S.prove(ctx, ob, f"{tag}_u{k}_dropped_from_the_candidates_iff_examined_and_of_another_epoch_or_target", pre, T.iff(rem, T.and_(room, T.not_(same_epoch))))
        S.witness(ctx, ob, f"{tag}_reach_all_selected", pre, T.and_(*[sel(k) for k in range(min(n, maxu))]))


def _it_sum(ex, c, a, d):
    """`Iterator::sum::<usize>` over a list iterator of integers (exact sum: the sizes are far below the word size, see ASSUMPTIONS)"""
    it = deref(ex, a[0])
    if not E._is_it(it):
        from mir2smt.exec import ENV_PASS
        return ENV_PASS
    t = 0
    for x in E._rest(ex, it):
        x = deref(ex, x) if isinstance(x, RefV) else x
        if not isinstance(x, IntV):
            raise Stop(f"sum over a non-integer item {str(x)[:100]}")
        t = T.add(t, x.t)
    return IntV(t, "usize")


def _assembler_run(S, fname, nupvars=("self", "tx_pool")):
    from mir2smt.exec import CoroV, post_value
    from mir2smt.srcinfo import field_index
    c = [f for f in S.prog.funcs if f.kind == "fn" and re.search(r"block_assembler::<impl at [^>]*>::" + fname + r"::\{closure#0\}$", f.name) and len(f.params) == 2 and "Context" in f.params[1][1]]
    if len(c) != 1:
        raise Inconclusive(f"{fname} coroutine: {len(c)} candidates")
    f = c[0]
    ix = {}
    for name, place in f.debug.items():
        m = re.match(r"\(\(\*\(_1\.0: .*?\)\)\.(\d+): ", place)
        if m:
            ix[name] = int(m.group(1))
    if any(n not in ix for n in nupvars):
        raise Inconclusive(f"{fname} upvars: {ix}")
    M = "tx-pool/src/block_assembler/mod.rs"
    ct, bt, ts, te = field_index(M, "CurrentTemplate"), field_index(M, "BlockTemplate"), field_index(M, "TemplateSize"), field_index("tx-pool/src/component/entry.rs", "TxEntry")
    ctx = S.ctx(unwind=10)
    ctx.uninterpreted_unknown_calls = True
    ctx.max_paths = 2000
    maxb, maxc, maxp = ctx.int("max_block_bytes", "u64"), ctx.int("max_block_cycles", "u64"), ctx.int("max_block_proposals_limit", "u64")
    basic, nprop = ctx.int("basic_size", "usize"), ctx.int("n_fresh_proposals", "usize")
    tip_changed = ctx.bool("pool_is_on_another_tip")
    sizes = [ctx.int(f"tx{k}_size", "usize") for k in range(2)]
    template = AggV(tuple((ctx.int("old_" + k, "u64") if k in ("current_time", "work_id", "number", "cycles_limit", "bytes_limit") else OpaqueV("old_" + k, "?")) for k, _ in sorted(bt.items(), key=lambda kv: kv[1])), "BlockTemplate")
    old_size = AggV(tuple(ctx.int("old_size_" + k, "usize") for k, _ in sorted(ts.items(), key=lambda kv: kv[1])), "TemplateSize")
    current = AggV(tuple({"template": template, "size": old_size}.get(k, OpaqueV("cur_" + k, "?")) for k, _ in sorted(ct.items(), key=lambda kv: kv[1])), "CurrentTemplate")
    cur_cell = ctx.ref_to(current)
    calls = []

    def rec(tag, ret, *idx):
        def h(ex, c_, a, d):
            calls.append((tag, tuple(nmv(ex, a[i]) for i in idx), list(ex.pc)))
            ex.log.append(("c13", tag, [], list(ex.pc)))
            return ret(ex, d) if callable(ret) else ret
        return h

    def poll(ex, c_, a, d):
        if "prepare_uncles" in nmv(ex, a[0]):
            return EnumV(0, ((0, (OpaqueV("prepared_uncles", "Vec<UncleBlockView>"),)),), d)
        return EnumV(0, ((0, (OpaqueV("guard_of_" + nmv(ex, a[0]), "Guard"),)),), d)
    entries = [AggV(tuple((sizes[k] if fld == "size" else OpaqueV(f"e{k}.{fld}", "?")) for fld, _ in sorted(te.items(), key=lambda kv: kv[1])), "TxEntry") for k in range(2)]

    def calc_dao(ex, c_, a, d):
        calls.append(("calc_dao", tuple(nmv(ex, x) for x in a), list(ex.pc)))
        ok = AggV((OpaqueV("dao", "Byte32"), ListV(tuple(entries), "Vec<TxEntry>"), ListV((), "Vec<FailedTxs>")), "(Byte32, Vec<TxEntry>, Vec<FailedTxs>)")
        return mk_result(ex.ctx.bool("dao_ok").t, ok, OpaqueV("dao_err", "AnyError"), d)
    ctx.env = list(E.LOGGING_OFF) + [
        (E.rx(r"Mutex::<CurrentTemplate>::lock$"), lambda ex, c_, a, d: OpaqueV("template_lock_future", d)),
        (E.rx(r"RwLock::<TxPool>::read$"), lambda ex, c_, a, d: OpaqueV("pool_read_future", d)),
        (E.rx(r" as Future>::poll$"), poll),
        (E.rx(r"MutexGuard<'_, CurrentTemplate> as Deref(Mut)?>::deref(_mut)?$"), lambda ex, c_, a, d: cur_cell),
        (E.rx(r"RwLockReadGuard<'_, TxPool> as Deref>::deref$"), lambda ex, c_, a, d: ex.ctx.ref_to(OpaqueV("pool", "TxPool"))),
        (E.rx(r"<Arc<tokio::sync::Mutex<CurrentTemplate>> as Deref>::deref$"), lambda ex, c_, a, d: ex.ctx.ref_to(OpaqueV("current_mutex", "Mutex"))),
        (E.rx(r"<Arc<.*> as Deref>::deref$"), lambda ex, c_, a, d: ex.ctx.ref_to(OpaqueV(nmv(ex, a[0]), "?"))),
        (E.rx(r"Snapshot::consensus$"), lambda ex, c_, a, d: ex.ctx.ref_to(OpaqueV("consensus_of(" + nmv(ex, a[0]) + ")", "Consensus"))),
        (E.rx(r"Consensus::max_block_bytes$"), lambda ex, c_, a, d: maxb),
        (E.rx(r"Consensus::max_block_cycles$"), lambda ex, c_, a, d: maxc),
        (E.rx(r"Consensus::max_block_proposals_limit$"), lambda ex, c_, a, d: maxp),
        (E.rx(r"Snapshot::tip_hash$"), lambda ex, c_, a, d: OpaqueV("tip_of(" + nmv(ex, a[0]) + ")", d)),
        (E.rx(r"TxPool::snapshot$"), lambda ex, c_, a, d: ex.ctx.ref_to(OpaqueV("pool_snapshot", "Snapshot"))),
        (E.rx(r"Byte32 as PartialEq>::ne$"), lambda ex, c_, a, d: (calls.append(("tip_compare", (nmv(ex, a[0]), nmv(ex, a[1])), list(ex.pc))), tip_changed)[1]),
        (E.rx(r"TxPool::package_proposals$"), rec("package_proposals", lambda ex, d: OpaqueV("fresh_proposals", d), 0, 1, 2)),
        (E.rx(r"TransactionView::data$"), lambda ex, c_, a, d: OpaqueV("data(" + nmv(ex, a[0]) + ")", d)),
        (E.rx(r"HashSet::<.*ProposalShortId>::iter$"), lambda ex, c_, a, d: OpaqueV("iter(" + nmv(ex, a[0]) + ")", d)),
        (E.rx(r"HashSet::<.*ProposalShortId>::len$"), lambda ex, c_, a, d: (calls.append(("len", (nmv(ex, a[0]),), list(ex.pc))), nprop)[1]),
        (E.rx(r"impl (ckb_types::packed::)?ProposalShortId>::serialized_size$"), lambda ex, c_, a, d: IntV(10, "usize")),
        (E.rx(r"BlockAssembler::basic_block_size::<"), rec("basic_block_size", lambda ex, d: basic, 0, 1, 2, 3)),
        (E.rx(r"TxPool::package_txs$"), rec("package_txs", lambda ex, d: AggV((OpaqueV("packaged_txs", "Vec<TxEntry>"), ex.ctx.int("pk_size", "usize"), ex.ctx.int("pk_cycles", "u64")), d), 1, 2)),
        (E.rx(r"BlockAssembler::calc_dao$"), calc_dao),
        (E.rx(r" as Iterator>::sum::<usize>$"), _it_sum),
        (E.rx(r"BlockTemplateBuilder::from_template$"), lambda ex, c_, a, d: OpaqueV("builder_from(" + nmv(ex, a[0])[:40] + ")", d)),
        (E.rx(r"Consensus::max_uncles_num$"), lambda ex, c_, a, d: ex.ctx.int("max_uncles_num", "usize")),
        (E.rx(r"UncleBlockView>?::serialized_size_in_block$"), lambda ex, c_, a, d: ex.ctx.int("uncle_size_in_block", "usize")),
        (E.rx(r"BlockAssembler::prepare_uncles$"), lambda ex, c_, a, d: OpaqueV("prepare_uncles_future", d)),
        (E.rx(r"BlockTemplateBuilder::(set_proposals|set_transactions|set_uncles)$"), rec("builder_set", lambda ex, d: ex.ctx.ref_to(OpaqueV("builder", "BlockTemplateBuilder")), 1)),
        (E.rx(r"BlockTemplateBuilder::(work_id|current_time|dao|extension)$"), lambda ex, c_, a, d: a[0]),
        (E.rx(r"BlockAssembler::build_extension$"), lambda ex, c_, a, d: mk_result(ex.ctx.bool("extension_ok").t, mk_option(ex.ctx.bool("has_extension").t, OpaqueV("new_extension", "Bytes"), "Option<Bytes>"), OpaqueV("ext_err", "AnyError"), d)),
        (E.rx(r"core::slice::<impl \[.*ProposalShortId\]>::iter$|<Vec<.*ProposalShortId> as Deref>::deref$"), lambda ex, c_, a, d: OpaqueV("iter(" + nmv(ex, a[0]) + ")", d)),
        (E.rx(r"BlockTemplateBuilder::build$"), lambda ex, c_, a, d: OpaqueV("built_template", d)),
        (E.rx(r"as FromIterator<.*>>::from_iter::<"), lambda ex, c_, a, d: OpaqueV("vec_of(" + nmv(ex, a[0]) + ")", d)),
        (E.rx(r"AtomicU64::fetch_add$"), lambda ex, c_, a, d: ex.ctx.int("work_id", "u64")),
        (E.rx(r"unix_time_as_millis$"), lambda ex, c_, a, d: ex.ctx.int("now", "u64")),
        (E.rx(r"as Clone>::clone$"), lambda ex, c_, a, d: (OpaqueV(nmv(ex, a[0]), d) if isinstance(deref(ex, a[0]), OpaqueV) else deref(ex, a[0]))),
        (E.rx(r"<Vec<.*> as Deref>::deref$"), lambda ex, c_, a, d: a[0]),
        (E.rx(r"Vec::<.*>::len$"), lambda ex, c_, a, d: (IntV(len(deref(ex, a[0]).items), "usize") if isinstance(deref(ex, a[0]), ListV) else ex.ctx.int(("n_new_uncles" if nmv(ex, a[0]) == "prepared_uncles" else "len_" + re.sub(r"[^A-Za-z0-9]", "_", nmv(ex, a[0]))), "usize"))),
    ] + list(E.LIST_ADAPTORS)
    ups = {ix["self"]: ctx.ref_to(OpaqueV("assembler", "BlockAssembler"))}
    if "tx_pool" in ix:
        ups[ix["tx_pool"]] = ctx.ref_to(OpaqueV("pool_lock", "RwLock<TxPool>"))
    coro = CoroV(0, tuple(sorted(ups.items())), (), "coroutine")
    ps = S.run(ctx, f, [AggV((ctx.ref_to(coro),), "Pin"), ctx.ref_to(OpaqueV("task_context", "Context"))])
    return dict(locals())


def m2_update_full(S):
    from mir2smt.exec import post_value
    ob = "C13.m2"
    L = _assembler_run(S, "update_full")
    ctx, ps, calls, maxb, maxc, maxp, basic, nprop, tip_changed, sizes, template, old_size, cur_cell, entries, ct, bt, ts = (L[k] for k in
        ("ctx", "ps", "calls", "maxb", "maxc", "maxp", "basic", "nprop", "tip_changed", "sizes", "template", "old_size", "cur_cell", "entries", "ct", "bt", "ts"))
    # sizes of real blocks are far below the word size
    pre = [T.le(maxb.t, 1 << 40), T.le(basic.t, 1 << 40), T.le(nprop.t, 1 << 32)] + [T.le(x.t, 1 << 40) for x in sizes]
    rs = returns(ps)
    ready = [p for p in rs if isinstance(p.value, EnumV) and p.value.disc == 0]
    S.prove(ctx, ob, "completes_without_panicking_or_suspending", pre, bool(ready and len(ready) == len(rs)) and T.not_(cond_of(panics(ps))), extra={"note": str([(p.outcome, str(p.value)[:60]) for p in ps][:4])})
    when = lambda tag: T.or_(*[T.and_(*pc) for t, _, pc in calls if t == tag]) if any(t == tag for t, _, _ in calls) else False
    args = lambda tag: {n for t, n, _ in calls if t == tag}
    tc = args("tip_compare")
    S.prove(ctx, ob, "template_tip_is_compared_with_the_pools_tip", [], bool(tc == {("tip_of(cur_snapshot)", "tip_of(pool_snapshot)")}), extra={"note": str(tc)})
    S.prove(ctx, ob, "nothing_is_packaged_when_the_pool_is_on_another_tip", pre + [tip_changed.t], T.not_(T.or_(when("package_proposals"), when("package_txs"), when("basic_block_size"))))
    pp = args("package_proposals")
    S.prove(ctx, ob, "proposals_are_packaged_up_to_the_consensus_limit_excluding_the_templates_uncles", [], bool(pp == {("pool", "max_block_proposals_limit", "old_uncles")}), extra={"note": str(pp)})
    bb = args("basic_block_size")
    S.prove(ctx, ob, "basic_size_counts_cellbase_uncles_extension_and_the_freshly_packaged_proposals", [], bool(bb == {("data(old_cellbase)", "old_uncles", "iter(fresh_proposals)", "old_extension")}), extra={"note": str(bb)})
    pk = [(n, pc) for t, n, pc in calls if t == "package_txs"]
    S.prove(ctx, ob, "transactions_are_packaged_iff_the_basic_size_fits", pre + [T.not_(tip_changed.t)], T.iff(when("package_txs"), T.le(basic.t, maxb.t)))
    S.prove(ctx, ob, "package_limits_are_the_block_cycle_limit_and_the_bytes_left_after_the_basic_size", pre, bool(pk) and T.and_(*[T.implies(T.and_(*pc), bool(n[0] == "max_block_cycles")) for n, pc in pk]) and bool(all(n[0] == "max_block_cycles" for n, _ in pk)))
    # the size-limit argument as a term: re-run is not needed, the handler logged names only for symbols; compare through a dedicated symbol
    lim = [n[1] for n, _ in pk]
    S.prove(ctx, ob, "package_size_limit_is_max_block_bytes_minus_basic_size", [], bool(lim and all(x == str(T.sub(maxb.t, basic.t)) for x in lim)), extra={"note": str(lim)[:300]})
    bs = args("builder_set")
    S.prove(ctx, ob, "new_template_takes_the_fresh_proposals_and_the_dao_checked_transactions", [], bool(bs == {("vec_of(fresh_proposals)",), ("[" + ",".join(nmv(None, e) for e in entries) + "]",)}), extra={"note": str(bs)[:400]})
    ln = args("len")
    S.prove(ctx, ob, "proposal_bytes_are_counted_from_the_fresh_proposals", [], bool(ln == {("fresh_proposals",)}), extra={"note": str(ln)})
    # post-state of the current template on the paths that packaged
    goals = []
    for p in ready:
        post = post_value(ctx, p, cur_cell)
        packaged = any(e[0] == "c13" and e[1] == "builder_set" for e in p.log)
        if os.environ.get("VERIF_DEBUG"):
            print("DEBUG post", packaged, type(post).__name__, str(post)[:300])
        if not isinstance(post, AggV):
            goals.append(False)
            continue
        sz, tm = post.fields[ct["size"]], post.fields[ct["template"]]
        if not packaged:
            goals.append(bool(nmv(None, tm) == nmv(None, template) and nmv(None, sz) == nmv(None, old_size)))
            continue
        if not isinstance(sz, AggV):
            goals.append(False)
            continue
        tot = T.add(sizes[0].t, sizes[1].t)
        goals.append(T.implies(p.cond(), T.and_(T.eq(as_int(sz.fields[ts["txs"]]), tot), T.eq(as_int(sz.fields[ts["total"]]), T.add(basic.t, tot)),
                                                T.eq(as_int(sz.fields[ts["proposals"]]), T.mul(nprop.t, 10)), T.eq(as_int(sz.fields[ts["uncles"]]), ctx.int("old_size_uncles", "usize").t),
                                                bool(nmv(None, tm) == "built_template"))))
    if os.environ.get("VERIF_DEBUG"):
        print("DEBUG goals", [str(g)[:120] for g in goals])
    S.prove(ctx, ob, "recorded_sizes_are_basic_plus_committed_transactions_and_fresh_proposals_times_short_id_size", pre, T.and_(*goals) if goals else False)
    S.witness(ctx, ob, "reach_packaged", pre, when("package_txs"))
    S.witness(ctx, ob, "reach_basic_size_too_large", pre + [T.not_(tip_changed.t)], T.gt(basic.t, maxb.t))


def _is_diff(s, a, b):
    """the printed term of `a - b` (usize subtraction after the checked_sub succeeded)"""
    return a in s and b in s and ("sub" in s or "-" in s or "+" in s)


def m4_incremental_updates(S):
    """`update_proposals` / `update_transactions` (async fns): what they hand to the packagers and when the recomputed template is adopted.
    update_proposals: adopted iff old total - old proposals + new proposals stays strictly below max_block_bytes, and then the recorded proposals part and total are exactly those;
    update_transactions: the basic size counts the template's own proposals, the package gets max_block_bytes - basic size bytes and max_block_cycles cycles, and the recorded
    transactions part / total are those of the dao-checked package; a pool on another tip changes nothing"""
    from mir2smt.exec import post_value
    ob = "C13.m4"
    # ---------------- update_proposals
    L = _assembler_run(S, "update_proposals")
    ctx, ps, calls, maxb, maxp, nprop, tip_changed, template, old_size, cur_cell, ct, ts = (L[k] for k in ("ctx", "ps", "calls", "maxb", "maxp", "nprop", "tip_changed", "template", "old_size", "cur_cell", "ct", "ts"))
    old = {k: as_int(old_size.fields[i]) for k, i in ts.items()}
    pre = [T.le(maxb.t, 1 << 40), T.le(nprop.t, 1 << 32)] + [T.le(v, 1 << 40) for v in old.values()] + [T.le(old["proposals"], old["total"])]
    rs = returns(ps)
    ready = [p for p in rs if isinstance(p.value, EnumV) and p.value.disc == 0]
    S.prove(ctx, ob, "update_proposals_completes_without_panicking_or_suspending", pre, bool(ready and len(ready) == len(rs)) and T.not_(cond_of(panics(ps))))
    pp = {n for t, n, _ in calls if t == "package_proposals"}
    S.prove(ctx, ob, "update_proposals_packages_up_to_the_consensus_limit_excluding_the_templates_uncles", [], bool(pp == {("pool", "max_block_proposals_limit", "old_uncles")}), extra={"note": str(pp)})
    new_part = T.mul(nprop.t, 10)
    new_total = T.add(T.sub(old["total"], old["proposals"]), new_part)
    goals, adopted = [], []
    for p in ready:
        post = post_value(ctx, p, cur_cell)
        took = any(e[0] == "c13" and e[1] == "builder_set" for e in p.log)
        if not isinstance(post, AggV):
            goals.append(False)
            continue
        sz, tm = post.fields[ct["size"]], post.fields[ct["template"]]
        if took:
            adopted.append(p.cond())
            goals.append(T.implies(p.cond(), T.and_(T.eq(as_int(sz.fields[ts["proposals"]]), new_part), T.eq(as_int(sz.fields[ts["total"]]), new_total),
                                                    T.eq(as_int(sz.fields[ts["txs"]]), old["txs"]), T.eq(as_int(sz.fields[ts["uncles"]]), old["uncles"]), bool(nmv(None, tm) == "built_template"))))
        else:
            goals.append(bool(nmv(None, tm) == nmv(None, template) and nmv(None, sz) == nmv(None, old_size)))
    S.prove(ctx, ob, "update_proposals_records_exactly_the_new_proposals_part_and_total_or_leaves_the_template_alone", pre, T.and_(*goals) if goals else False)
    S.prove(ctx, ob, "update_proposals_adopts_iff_same_tip_and_the_new_total_stays_below_max_block_bytes", pre, T.iff(T.or_(*adopted) if adopted else False, T.and_(T.not_(tip_changed.t), T.lt(new_total, maxb.t))))
    S.witness(ctx, ob, "update_proposals_reach_rejected_for_size", pre + [T.not_(tip_changed.t)], T.ge(new_total, maxb.t))
    # ---------------- update_uncles
    L = _assembler_run(S, "update_uncles", nupvars=("self",))
    ctx, ps, calls, maxb, template, old_size, cur_cell, ct, ts = (L[k] for k in ("ctx", "ps", "calls", "maxb", "template", "old_size", "cur_cell", "ct", "ts"))
    old = {k: as_int(old_size.fields[i]) for k, i in ts.items()}
    nunc, maxu, cur_unc, usz = ctx.int("n_new_uncles", "usize"), ctx.int("max_uncles_num", "usize"), ctx.int("len_old_uncles", "usize"), ctx.int("uncle_size_in_block", "usize")
    pre = [T.le(maxb.t, 1 << 40), T.le(nunc.t, 1 << 8), T.ge(usz.t, 1), T.le(usz.t, 1 << 20)] + [T.le(v, 1 << 40) for v in old.values()] + [T.le(old["uncles"], old["total"])]
    rs = returns(ps)
    ready = [p for p in rs if isinstance(p.value, EnumV) and p.value.disc == 0]
    S.prove(ctx, ob, "update_uncles_completes_without_panicking_or_suspending", pre, bool(ready and len(ready) == len(rs)) and T.not_(cond_of(panics(ps))))
    new_part = T.mul(nunc.t, usz.t)
    new_total = T.add(T.sub(old["total"], old["uncles"]), new_part)
    goals, adopted = [], []
    for p in ready:
        post = post_value(ctx, p, cur_cell)
        took = any(e[0] == "c13" and e[1] == "builder_set" for e in p.log)
        if not isinstance(post, AggV):
            goals.append(False)
            continue
        sz, tm = post.fields[ct["size"]], post.fields[ct["template"]]
        if took:
            adopted.append(p.cond())
            goals.append(T.implies(p.cond(), T.and_(T.eq(as_int(sz.fields[ts["uncles"]]), new_part), T.eq(as_int(sz.fields[ts["total"]]), new_total),
                                                    T.eq(as_int(sz.fields[ts["txs"]]), old["txs"]), T.eq(as_int(sz.fields[ts["proposals"]]), old["proposals"]), bool(nmv(None, tm) == "built_template"))))
        else:
            goals.append(bool(nmv(None, tm) == nmv(None, template) and nmv(None, sz) == nmv(None, old_size)))
    S.prove(ctx, ob, "update_uncles_records_exactly_the_new_uncles_part_and_total_or_leaves_the_template_alone", pre, T.and_(*goals) if goals else False)
    remain = T.ite(T.ge(maxb.t, old["total"]), T.sub(maxb.t, old["total"]), 0)
    S.prove(ctx, ob, "update_uncles_adopts_iff_room_for_an_uncle_and_the_new_total_stays_below_max_block_bytes", pre,
            T.iff(T.or_(*adopted) if adopted else False, T.and_(T.lt(cur_unc.t, maxu.t), T.gt(remain, usz.t), T.lt(new_total, maxb.t))))
    bs = {n for t, n, _ in calls if t == "builder_set"}
    S.prove(ctx, ob, "update_uncles_new_template_takes_the_freshly_prepared_uncles", [], bool(bs == {("prepared_uncles",)}), extra={"note": str(bs)})
    S.witness(ctx, ob, "update_uncles_reach_adopted", pre, T.or_(*adopted) if adopted else False)
    # ---------------- update_transactions
    L = _assembler_run(S, "update_transactions")
    ctx, ps, calls, maxb, maxc, basic, tip_changed, sizes, template, old_size, cur_cell, entries, ct, ts = (L[k] for k in ("ctx", "ps", "calls", "maxb", "maxc", "basic", "tip_changed", "sizes", "template", "old_size", "cur_cell", "entries", "ct", "ts"))
    old = {k: as_int(old_size.fields[i]) for k, i in ts.items()}
    pre = [T.le(maxb.t, 1 << 40), T.le(basic.t, 1 << 40)] + [T.le(v, 1 << 40) for v in old.values()] + [T.le(x.t, 1 << 40) for x in sizes] + [T.le(old["txs"], old["total"])]
    rs = returns(ps)
    ready = [p for p in rs if isinstance(p.value, EnumV) and p.value.disc == 0]
    S.prove(ctx, ob, "update_transactions_completes_without_panicking_or_suspending", pre, bool(ready and len(ready) == len(rs)) and T.not_(cond_of(panics(ps))))
    bb = {n for t, n, _ in calls if t == "basic_block_size"}
    S.prove(ctx, ob, "update_transactions_basic_size_counts_the_templates_cellbase_uncles_proposals_and_the_new_extension", [], bool(bb and all(n[0] == "data(old_cellbase)" and n[1] == "old_uncles" and "old_proposals" in n[2] for n in bb)), extra={"note": str(bb)})
    pk = [(n, pc) for t, n, pc in calls if t == "package_txs"]
    S.prove(ctx, ob, "update_transactions_package_limits_are_block_cycles_and_bytes_left_after_the_basic_size", [], bool(pk and all(n == ("max_block_cycles", str(T.sub(maxb.t, basic.t))) for n, _ in pk)), extra={"note": str([n for n, _ in pk])[:300]})
    whenpk = T.or_(*[T.and_(*pc) for _, pc in pk]) if pk else False
    S.prove(ctx, ob, "update_transactions_packages_iff_same_tip_and_the_basic_size_fits", pre + [ctx.bool("extension_ok").t], T.iff(whenpk, T.and_(T.not_(tip_changed.t), T.le(basic.t, maxb.t))))
    tot = T.add(sizes[0].t, sizes[1].t)
    goals = []
    for p in ready:
        post = post_value(ctx, p, cur_cell)
        took = any(e[0] == "c13" and e[1] == "builder_set" for e in p.log)
        if not isinstance(post, AggV):
            goals.append(False)
            continue
        sz, tm = post.fields[ct["size"]], post.fields[ct["template"]]
        if took:
            goals.append(T.implies(p.cond(), T.and_(T.eq(as_int(sz.fields[ts["txs"]]), tot), T.eq(as_int(sz.fields[ts["total"]]), T.add(T.sub(old["total"], old["txs"]), tot)),
                                                    T.eq(as_int(sz.fields[ts["proposals"]]), old["proposals"]), T.eq(as_int(sz.fields[ts["uncles"]]), old["uncles"]), bool(nmv(None, tm) == "built_template"))))
        else:
            goals.append(bool(nmv(None, tm) == nmv(None, template) and nmv(None, sz) == nmv(None, old_size)))
    S.prove(ctx, ob, "update_transactions_records_exactly_the_new_transactions_part_and_total_or_leaves_the_template_alone", pre, T.and_(*goals) if goals else False)
    S.witness(ctx, ob, "update_transactions_reach_adopted", pre, whenpk)


def m5_txs_to_commit(S):
    """`TxSelector::txs_to_commit` (tx-pool/src/component/tx_selector.rs) on a proposed pool of three entries: E0 and E1 without pooled ancestors, E2 a child of E1; sizes, cycles
    and the two limits are symbolic, the ancestor aggregates equal a recomputation (C11), the score order is E0, E2, E1 or E2, E0, E1 (the child's package first).  The set
    containers carry symbolic ids (symmap), the modified-entries index is a list with at most one entry.  Decided: the packaged transactions never exceed the size or the cycle limit,
    the reported totals are the sums over the packaged entries, nothing is packaged twice, and the child is never packaged without its parent before it (a package is admitted as a
    whole: accumulated + package size / cycles within the limits)."""
    from mir2smt import symmap as SM
    from mir2smt.exec import ListV, EnumV
    from mir2smt.srcinfo import struct_fields, field_index
    ob = "C13.m5"
    f = _find(S, lambda x: x.short == "txs_to_commit" and "tx_selector.rs" in x.name and "{closure" not in x.name and len(x.params) == 3, "TxSelector::txs_to_commit")
    te = struct_fields("tx-pool/src/component/entry.rs", "TxEntry")
    ts = field_index("tx-pool/src/component/tx_selector.rs", "TxSelector")
    for order in ((0, 2, 1), (2, 0, 1)):
        ctx = S.ctx(unwind=14)
        ctx.uninterpreted_unknown_calls = True
        ctx.prune_with_solver = True
        ctx.max_paths = 20000
        SL, CL = ctx.int("size_limit", "usize"), ctx.int("cycles_limit", "u64")
        sz = [ctx.int(f"E{k}_size", "usize") for k in range(3)]
        cy = [ctx.int(f"E{k}_cycles", "u64") for k in range(3)]
        for k in range(3):
            for j in range(k):
                ctx.add_side(T.ne(ctx.int(f"id!id_E{k}", "u64").t, ctx.int(f"id!id_E{j}", "u64").t))
        anc_sz = [sz[0].t, sz[1].t, T.add(sz[1].t, sz[2].t)]
        anc_cy = [cy[0].t, cy[1].t, T.add(cy[1].t, cy[2].t)]
        anc_n = [1, 1, 2]

        def mk(k, asz=None, acy=None, an=None):
            vals = []
            for fld in te:
                if fld == "size":
                    vals.append(sz[k])
                elif fld == "cycles":
                    vals.append(cy[k])
                elif fld == "ancestors_size":
                    vals.append(IntV(anc_sz[k] if asz is None else asz, "usize"))
                elif fld == "ancestors_cycles":
                    vals.append(IntV(anc_cy[k] if acy is None else acy, "u64"))
                elif fld == "ancestors_count":
                    vals.append(IntV(anc_n[k] if an is None else an, "usize"))
                elif fld in ("fee", "ancestors_fee", "descendants_fee"):
                    vals.append(AggV((ctx.int(f"E{k}_{fld}", "u64"),), "Capacity"))
                elif fld in ("descendants_size", "descendants_count"):
                    vals.append(ctx.int(f"E{k}_{fld}", "usize"))
                elif fld in ("descendants_cycles", "timestamp"):
                    vals.append(ctx.int(f"E{k}_{fld}", "u64"))
                else:
                    vals.append(OpaqueV(f"E{k}.{fld}", "?"))
            return AggV(tuple(vals), "TxEntry")
        E_ = [mk(k) for k in range(3)]
        i_rtx = te.index("rtx")

        def who(ex, v):
            v = deref(ex, v)
            if isinstance(v, AggV) and v.ty == "TxEntry":
                return int(re.match(r"E(\d)", v.fields[i_rtx].name).group(1))
            m_ = re.search(r"id_E(\d)", getattr(v, "name", ""))
            if m_:
                return int(m_.group(1))
            raise Stop(f"not an entry / id: {str(v)[:60]}")
        idv = lambda k, d="ProposalShortId": OpaqueV(f"id_E{k}", d)
        mkset = lambda ks: SM.MapV(tuple((ctx.int(f"id!id_E{k}", "u64").t, None, idv(k)) for k in ks), "HashSet<ProposalShortId>", True)

        def mod_list(ex, ref):
            v = deref(ex, ref)
            if not isinstance(v, ListV):
                raise Stop("modified entries index is not the list model")
            return v

        def m_next_best(ex, c, a, d):
            v = mod_list(ex, a[0])
            if len(v.items) > 1:
                raise Stop("more than one modified entry (ordering by score is outside this obligation)")
            return mk_option(bool(v.items), ex.ctx.ref_to(v.items[0]) if v.items else None, d)

        def m_find(ex, a):
            v = mod_list(ex, a[0])
            k = who(ex, a[1])
            for i, it in enumerate(v.items):
                if who(ex, it) == k:
                    return v, i
            return v, None

        def m_get(ex, c, a, d):
            v, i = m_find(ex, a)
            if c.endswith("contains_key"):
                return BoolV(i is not None)
            return mk_option(i is not None, ex.ctx.ref_to(v.items[i]) if i is not None else None, d)

        def m_remove(ex, c, a, d):
            from mir2smt.builtins import _wr
            v, i = m_find(ex, a)
            if i is None:
                return mk_option(False, None, d)
            _wr(ex, a[0], ListV(v.items[:i] + v.items[i + 1:], v.ty))
            return mk_option(True, v.items[i], d)

        def m_insert(ex, c, a, d):
            from mir2smt.builtins import _wr
            v = mod_list(ex, a[0])
            _wr(ex, a[0], ListV(v.items + (deref(ex, a[1]) if isinstance(a[1], RefV) else a[1],), v.ty))
            return UNIT
        ctx.env = list(E.LOGGING_OFF) + [
            (E.rx(r"PoolMap::sorted_proposed_iter$"), lambda ex, c, a, d: AggV((ListV(tuple(E_[k] for k in order), "Vec<?>"), IntV(0, "usize")), "ListIterRef")),
            (E.rx(r"TxEntry::proposal_short_id$"), lambda ex, c, a, d: idv(who(ex, a[0]), d)),
            (E.rx(r"PoolMap::calc_ancestors$"), lambda ex, c, a, d: mkset([1] if who(ex, a[1]) == 2 else [])),
            (E.rx(r"PoolMap::calc_descendants$"), lambda ex, c, a, d: mkset([2] if who(ex, a[1]) == 1 else [])),
            (E.rx(r"PoolMap::has_proposed$"), E.const_bool(True)),
            (E.rx(r"PoolMap::(get_proposed|get)$"), lambda ex, c, a, d: mk_option(True, ex.ctx.ref_to(E_[who(ex, a[1])]), d)),
            (E.rx(r"MultiIndexModifiedTxMap::next_best_entry$"), m_next_best),
            (E.rx(r"MultiIndexModifiedTxMap::(get|contains_key)$"), m_get),
            (E.rx(r"MultiIndexModifiedTxMap::remove$"), m_remove),
            (E.rx(r"MultiIndexModifiedTxMap::insert_entry$"), m_insert),
            (E.rx(r"<TxEntry as (Clone|ToOwned)>::(clone|to_owned)$|<(ckb_types::packed::)?ProposalShortId as Clone>::clone$"), lambda ex, c, a, d: deref(ex, a[0])),
            (E.rx(r"<&&TxEntry as PartialOrd>::gt$"), lambda ex, c, a, d: ex.ctx.bool("modified_scores_higher")),
            (E.rx(r"get_transaction_weight$"), lambda ex, c, a, d: ex.ctx.fresh_of_type("w", d)),
        ] + SM.handlers(r"(ckb_types::packed::)?ProposalShortId") + SM.EXTRAS + list(E.LIST_ADAPTORS)
        init = {"pool_map": ctx.ref_to(OpaqueV("pool_map", "PoolMap")), "entries": ListV((), "Vec<TxEntry>"), "modified_entries": ListV((), "MultiIndexModifiedTxMap"),
                "fetched_txs": SM.MapV((), "HashSet<ProposalShortId>", True), "failed_txs": SM.MapV((), "HashSet<ProposalShortId>", True)}
        me = AggV(tuple(init[n] for n, _ in sorted(ts.items(), key=lambda kv: kv[1])), "TxSelector")
        ps = S.run(ctx, f, [me, SL, CL])
        tag = "order_" + "".join(f"E{k}" for k in order)
        big = 1 << 40
        pre = [T.le(SL.t, big), T.le(CL.t, big)] + [T.le(x.t, big) for x in sz + cy] + [T.ge(x.t, 1) for x in sz]
        S.prove(ctx, ob, f"{tag}_no_panic", pre, T.not_(cond_of(panics(ps))))
        rs = returns(ps)
        goals_lim, goals_sum, goals_once, goals_parent = [], [], [], []
        for p in rs:
            v = p.value
            if not (isinstance(v, AggV) and len(v.fields) == 3 and isinstance(v.fields[0], ListV)):
                goals_lim.append(T.not_(p.cond()))
                continue
            ks = [who(None, x) for x in v.fields[0].items]
            tot_s, tot_c = 0, 0
            for k in ks:
                tot_s, tot_c = T.add(tot_s, sz[k].t), T.add(tot_c, cy[k].t)
            goals_sum.append(T.implies(p.cond(), T.and_(T.eq(as_int(v.fields[1]), tot_s), T.eq(as_int(v.fields[2]), tot_c))))
            goals_lim.append(T.implies(p.cond(), T.and_(T.le(tot_s, SL.t), T.le(tot_c, CL.t))))
            goals_once.append(T.implies(p.cond(), bool(len(set(ks)) == len(ks))))
            goals_parent.append(T.implies(p.cond(), bool(2 not in ks or (1 in ks and ks.index(1) < ks.index(2)))))
        S.prove(ctx, ob, f"{tag}_packaged_transactions_stay_within_the_size_and_cycle_limits", pre, T.and_(*goals_lim) if goals_lim else False)
        S.prove(ctx, ob, f"{tag}_reported_totals_are_the_sums_over_the_packaged_entries", pre, T.and_(*goals_sum) if goals_sum else False)
        S.prove(ctx, ob, f"{tag}_nothing_is_packaged_twice", pre, T.and_(*goals_once) if goals_once else False)
        S.prove(ctx, ob, f"{tag}_a_child_is_packaged_only_after_its_pooled_parent", pre, T.and_(*goals_parent) if goals_parent else False)
        full = T.or_(*[p.cond() for p in rs if isinstance(p.value, AggV) and isinstance(p.value.fields[0], ListV) and sorted(who(None, x) for x in p.value.fields[0].items) == [0, 1, 2]])
        S.prove(ctx, ob, f"{tag}_everything_is_packaged_when_everything_fits", pre + [T.le(T.add(T.add(sz[0].t, sz[1].t), sz[2].t), SL.t), T.le(T.add(T.add(cy[0].t, cy[1].t), cy[2].t), CL.t)], full)
        S.witness(ctx, ob, f"{tag}_reach_package_rejected_for_cycles_after_an_earlier_admission", pre, T.and_(T.le(anc_cy[2], CL.t), T.gt(T.add(cy[0].t, anc_cy[2]), CL.t), T.le(cy[0].t, CL.t), T.le(T.add(T.add(sz[0].t, sz[1].t), sz[2].t), SL.t)))


OBLIGATIONS = [m1_template_size, m2_update_full, m3_prepare_uncles, m4_incremental_updates, m5_txs_to_commit]

ENGINE = "M"
LEVEL = "other"
EXPLANATION = ("The block assembler's size accounting (TemplateSize), the limits it hands to the packagers (update_full and the incremental updates) and the uncle selection (prepare_uncles) "
               "are executed symbolically from their MIR with the pool, snapshot and consensus accessors as environment symbols; the solver decides the arithmetic and the selection rule.")
BOUNDS = {"prepare_uncles": "1..3 candidates, cap 1..2", "update_full": "2 packaged proposals, 2 packaged transactions", "txs_to_commit": "3 proposed entries (one parent/child pair), 2 score orders, <= 1 modified entry", "outside": "larger pools / score order (multi-index containers), package_proposals, cellbase, DAO and extension contents, whole-template verification"}
ASSUMPTIONS = ["pool, snapshot and consensus accessors are environment symbols (arbitrary values)", "TemplateSize invariant: each part is contained in the total"]
TRUSTED = []
LEVEL_TEXT = ("Decided on the real MIR: template size totals replace exactly the changed part; update_full reserves the bytes of the freshly packaged proposals before it sizes the transaction package and "
              "hands the consensus cycle/byte/proposal limits to the packagers; uncle candidates are selected by exactly the rule the verifier applies and never more than the consensus maximum; the transaction selector keeps a bounded pool within the size and cycle limits, parents first. "
              "That a complete template passes full verification (package selection, cellbase, DAO, extension) is outside and not claimed.")
LEVEL_NOTE = "Partial claim (size accounting, limits, uncle selection). Package selection, cellbase/DAO/extension, whole-template verification: outside."
TECHNIQUE = "symbolic execution of rustc MIR (incl. coroutine body) -> integer-theory SMT (cvc5 + z3)"
DESIGN_REF = "DESIGN.md section 4 (C13)"


def m6_cellbase_reward_output_rule(S):
    """`BlockAssembler::build_cellbase` against `RewardVerifier::verify` (the node's own check of the same cellbase): the template's cellbase carries no reward output exactly when
    the verifier demands an empty cellbase -- candidate number (tip + 1) within the finalization delay, or a reward too small to create a cell -- and otherwise one output with the
    finalised reward total and the target lock the calculator returned for the tip; the cellbase input is the cellbase input of the candidate number"""
    from mir2smt.srcinfo import field_index
    ob = "C13.m6"
    fa = _find(S, lambda x: x.short == "build_cellbase" and "block_assembler/mod.rs" in x.name and "{closure" not in x.name and len(x.params) == 2, "BlockAssembler::build_cellbase")
    fv = [x for x in S.prog.funcs if x.kind == "fn" and x.short == "verify" and "contextual_block_verifier.rs:223" in x.name and "{closure" not in x.name]
    if len(fv) != 1:
        fv = [x for x in S.prog.funcs if x.kind == "fn" and x.short == "verify" and "contextual_block_verifier.rs" in x.name and "{closure" not in x.name and len(x.params) == 1 and "RewardVerifier" in x.params[0][1]]
    if len(fv) != 1:
        raise Inconclusive(f"RewardVerifier::verify: {len(fv)} candidates")
    br = field_index("util/types/src/core/reward.rs", "BlockReward")

    def common(ctx, log):
        def nm(ex, v):
            v = deref(ex, v) if ex is not None else v
            if isinstance(v, IntV):
                return v.t[2] if isinstance(v.t, tuple) and v.t[0] == "var" else str(v.t)
            if isinstance(v, AggV):
                return "(" + ",".join(nm(ex, x) for x in v.fields) + ")"
            return getattr(v, "name", None) or type(v).__name__

        def setter(ex, c, a, d):
            fld = re.sub(r"::<.*>$", "", c).split("::")[-1]
            b = nm(ex, a[0])
            ex.log.append(("set", c, [re.sub(r"::<.*>$", "", c).split("::")[-2], fld, nm(ex, a[1])], list(ex.pc)))
            return OpaqueV(b + ("," if not b.endswith("{") else "") + fld + "=" + nm(ex, a[1]), d)
        reward = AggV(tuple((AggV((ctx.int("reward_total", "u64"),), "Capacity") if k == "total" else AggV((ctx.int("reward_" + k, "u64"),), "Capacity")) for k, _ in sorted(br.items(), key=lambda kv: kv[1])), "BlockReward")
        fin = lambda ex, c, a, d: mk_result(ex.ctx.bool("reward_ok").t, AggV((OpaqueV("target_lock", "Script"), reward), "(Script, BlockReward)"), OpaqueV("dao_err", "DaoError"), d)
        return nm, [
            (E.rx(r"Consensus::finalization_delay_length$"), lambda ex, c, a, d: ex.ctx.int("finalization_delay_length", "u64")),
            (E.rx(r"HeaderView::number$"), lambda ex, c, a, d: ex.ctx.int("tip_number", "u64")),
            (E.rx(r"block_reward_to_finalize$|finalize_block_reward$"), fin),
            (E.rx(r"CellOutput>?::is_lack_of_capacity$"), lambda ex, c, a, d: (log.append(("lack_of", nm(ex, a[0]))), mk_result(ex.ctx.bool("capacity_ok").t, ex.ctx.bool("reward_too_small_for_a_cell"), OpaqueV("cap_err", "CapacityError"), d))[1]),
            (E.rx(r"::new_builder$|Builder as Default>::default$"), lambda ex, c, a, d: OpaqueV(re.search(r"(\w+)Builder", d + c).group(1) + "{", d)),
            (E.rx(r"Builder>?::build$|TransactionBuilder::build$"), lambda ex, c, a, d: OpaqueV(nm(ex, a[0]) + "}", d)),
            (E.rx(r"(CellOutputBuilder|TransactionBuilder)::(capacity|lock|input|witness|output|output_data)(::<.*>)?$"), setter),
        ]
    # ---------------- the assembler
    ctx = S.ctx()
    ctx.uninterpreted_unknown_calls = True
    log = []
    nm, env = common(ctx, log)
    ctx.env = list(E.LOGGING_OFF) + [
        (E.rx(r"Snapshot::tip_header$"), lambda ex, c, a, d: ex.ctx.ref_to(OpaqueV("tip", "HeaderView"))),
        (E.rx(r"Snapshot::consensus$"), lambda ex, c, a, d: ex.ctx.ref_to(OpaqueV("consensus", "Consensus"))),
        (E.rx(r"block_in_place::<"), lambda ex, c, a, d: ex.call_value(ex.top_frame, a[0], [], d)),
        (E.rx(r"RewardCalculator::<.*>::new$"), lambda ex, c, a, d: OpaqueV("calculator", d)),
        (E.rx(r"build_cellbase_witness$"), lambda ex, c, a, d: OpaqueV("cellbase_witness", d)),
        (E.rx(r"CellInput>?::new_cellbase_input$"), lambda ex, c, a, d: OpaqueV("cellbase_input(" + nm(ex, a[0]) + ")", d)),
        (E.rx(r"::as_bytes$|Bytes as Default>::default$|Capacity::zero$"), E.opaque_call()),
    ] + env[:2] + env[2:]
    ps = S.run(ctx, fa, [ctx.ref_to(OpaqueV("config", "BlockAssemblerConfig")), ctx.ref_to(OpaqueV("snapshot", "Snapshot"))])
    N, D = ctx.int("tip_number", "u64"), ctx.int("finalization_delay_length", "u64")
    small, rok, cok = ctx.bool("reward_too_small_for_a_cell").t, ctx.bool("reward_ok").t, ctx.bool("capacity_ok").t
    pre = [T.lt(N.t, (1 << 64) - 1)]
    S.prove(ctx, ob, "assembler_no_panic", pre, T.not_(cond_of(panics(ps))))
    with_out, without, bad_shape = [], [], []
    for p in returns(ps):
        if not (isinstance(p.value, EnumV) and p.value.disc == 0):
            continue
        sets = [e[2] for e in p.log if e[0] == "set"]
        outs = [x for x in sets if x[0] == "TransactionBuilder" and x[1] == "output"]
        ins = [x for x in sets if x[0] == "TransactionBuilder" and x[1] == "input"]
        (with_out if outs else without).append(p.cond())
        ok = len(ins) == 1 and ins[0][2].startswith("cellbase_input(") and len(outs) <= 1
        if outs:
            ok = ok and outs[0][2] == "CellOutput{capacity=(reward_total),lock=target_lock}"
        if not ok:
            bad_shape.append(p.cond())
        if os.environ.get("VERIF_DEBUG") and not ok:
            print("DEBUG cellbase sets", sets)
    has_out = T.or_(*with_out) if with_out else False
    no_out = T.or_(*without) if without else False
    rule_empty = T.or_(T.le(T.add(N.t, 1), D.t), small)
    S.prove(ctx, ob, "assembler_builds_a_cellbase_iff_reward_and_capacity_computations_succeed", pre, T.iff(T.or_(has_out, no_out), T.and_(rok, cok)))
    S.prove(ctx, ob, "assembler_leaves_the_reward_output_out_iff_within_the_finalization_delay_or_reward_too_small", pre + [rok, cok], T.and_(T.iff(no_out, rule_empty), T.iff(has_out, T.not_(rule_empty))))
    S.prove(ctx, ob, "assembler_output_is_the_finalised_total_to_the_target_lock_and_the_input_is_the_candidates_cellbase_input", pre, T.not_(T.or_(*bad_shape)) if bad_shape else True)
    lk = {x[1] for x in log if x[0] == "lack_of"}
    S.prove(ctx, ob, "assembler_smallness_is_judged_on_that_very_output", [], bool(lk == {"CellOutput{capacity=(reward_total),lock=target_lock}"}), extra={"note": str(lk)})
    # ---------------- the verifier
    ctx2 = S.ctx()
    ctx2.uninterpreted_unknown_calls = True
    log2 = []
    nm2, env2 = common(ctx2, log2)
    empty = ctx2.bool("cellbase_has_no_outputs")
    ctx2.env = list(E.LOGGING_OFF) + [
        (E.rx(r"CellOutputVec::is_empty$"), lambda ex, c, a, d: empty),
        (E.rx(r"TransactionView::outputs$"), lambda ex, c, a, d: OpaqueV("outputs", d)),
        (E.rx(r"TransactionView::outputs_capacity$"), lambda ex, c, a, d: mk_result(True, AggV((ex.ctx.int("cellbase_outputs_capacity", "u64"),), "Capacity"), OpaqueV("cap_err", "CapacityError"), d)),
        (E.rx(r"Capacity as PartialEq>::(ne|eq)$"), lambda ex, c, a, d: BoolV(T.ne(as_int(deref(ex, a[0])), as_int(deref(ex, a[1]))) if c.endswith("ne") else T.eq(as_int(deref(ex, a[0])), as_int(deref(ex, a[1]))))),
        (E.rx(r"Script as PartialEq>::(ne|eq)$"), lambda ex, c, a, d: BoolV(T.not_(ex.ctx.bool("cellbase_lock_is_the_target").t) if c.endswith("ne") else ex.ctx.bool("cellbase_lock_is_the_target").t)),
        (E.rx(r"CellOutputVec::get$"), lambda ex, c, a, d: mk_option(T.not_(empty.t), OpaqueV("output0", "CellOutput"), d)),
        (E.rx(r"CellOutput::lock$"), lambda ex, c, a, d: OpaqueV("lock_of_output0", d)),
        (E.rx(r"Capacity::zero$|as Clone>::clone$"), E.opaque_call()),
    ] + env2
    from mir2smt.srcinfo import field_index as _fi
    rv = _fi("verification/contextual/src/contextual_block_verifier.rs", "RewardVerifier")
    me = AggV(tuple({"resolved": ctx2.ref_to(ListV((ctx2.ref_to(OpaqueV("cellbase_rtx", "ResolvedTransaction")),), "[Arc<ResolvedTransaction>]"))}.get(k, ctx2.ref_to(OpaqueV(k, "?"))) for k, _ in sorted(rv.items(), key=lambda kv: kv[1])), "RewardVerifier")
    ps2 = S.run(ctx2, fv[0], [ctx2.ref_to(me)])
    N2, D2 = ctx2.int("tip_number", "u64"), ctx2.int("finalization_delay_length", "u64")
    small2, rok2, cok2 = ctx2.bool("reward_too_small_for_a_cell").t, ctx2.bool("reward_ok").t, ctx2.bool("capacity_ok").t
    # a cell that does not lack capacity has a positive capacity; a cellbase without outputs has output capacity zero
    pre2 = [T.lt(N2.t, (1 << 64) - 1), T.implies(T.not_(small2), T.ge(ctx2.int("reward_total", "u64").t, 1)), T.implies(empty.t, T.eq(ctx2.int("cellbase_outputs_capacity", "u64").t, 0))]
    S.prove(ctx2, ob, "verifier_no_panic", pre2, T.not_(cond_of(panics(ps2))))
    accept = T.or_(*[T.and_(p.cond(), (p.value.disc == 0) if isinstance(p.value.disc, int) else T.eq(p.value.disc, 0)) for p in returns(ps2) if isinstance(p.value, EnumV)])
    rule_empty2 = T.or_(T.le(T.add(N2.t, 1), D2.t), small2)
    S.prove(ctx2, ob, "verifier_accepts_an_empty_cellbase_iff_within_the_finalization_delay_or_reward_too_small", pre2 + [rok2, cok2, empty.t], T.iff(accept, rule_empty2))
    S.prove(ctx2, ob, "verifier_accepts_a_paying_cellbase_iff_a_target_exists_and_amount_and_lock_match", pre2 + [rok2, cok2, T.not_(empty.t)],
            T.iff(accept, T.and_(T.not_(rule_empty2), T.eq(ctx2.int("cellbase_outputs_capacity", "u64").t, ctx2.int("reward_total", "u64").t), ctx2.bool("cellbase_lock_is_the_target").t)))
    S.witness(ctx2, ob, "verifier_reach_boundary", pre2 + [rok2, cok2], T.and_(T.eq(T.add(N2.t, 1), D2.t), accept))


OBLIGATIONS = OBLIGATIONS + [m6_cellbase_reward_output_rule]


def m7_calc_dao_rechecks_against_what_is_in_the_template(S):
    """`BlockAssembler::calc_dao` re-resolves the packaged transactions for the template: the k-th entry is checked against the snapshot overlaid with the cellbase and exactly the
    transactions ACCEPTED before it -- not the dropped ones, not later ones -- so a transaction whose parent was dropped cannot stay (its parent's outputs are not visible);
    dropped entries are reported, kept entries keep their order, and the DAO field is computed over cellbase + kept entries (three packaged entries, each check may fail)"""
    ob = "C13.m7"
    f = _find(S, lambda x: x.short == "calc_dao" and "block_assembler/mod.rs" in x.name and "{closure" not in x.name and len(x.params) == 4, "BlockAssembler::calc_dao")
    from mir2smt.srcinfo import struct_fields
    te = struct_fields("tx-pool/src/component/entry.rs", "TxEntry")
    ctx = S.ctx(unwind=10)
    ctx.uninterpreted_unknown_calls = True
    ctx.max_paths = 400
    n = 3
    ents = [AggV(tuple(OpaqueV(f"e{k}.{fld}", "?") for fld in te), "TxEntry") for k in range(n)]

    def nm(ex, v):
        v = deref(ex, v) if ex is not None else v
        if isinstance(v, ListV):
            return "[" + ",".join(nm(ex, x) for x in v.items) + "]"
        if isinstance(v, AggV) and isinstance(v.ty, str) and v.ty.startswith("ListIter"):
            return "[" + ",".join(nm(ex, x) for x in E._rest(ex, v)) + "]"
        if isinstance(v, AggV) and v.ty == "TxEntry":
            return v.fields[0].name.split(".")[0]
        if isinstance(v, AggV):
            return "(" + ",".join(nm(ex, x) for x in v.fields) + ")"
        return getattr(v, "name", None) or type(v).__name__
    checks = []

    def tc_new(ex, c, a, d):
        items = E._as_items(ex, deref(ex, a[0])) or []
        return ListV(tuple(OpaqueV(nm(ex, x), "tx") for x in items), "TransactionsChecker")

    def tc_insert(ex, c, a, d):
        from mir2smt.builtins import _wr
        v = deref(ex, a[0])
        _wr(ex, a[0], ListV(v.items + (OpaqueV(nm(ex, a[1]), "tx"),), v.ty))
        return UNIT

    def overlay_new(ex, c, a, d):
        return AggV((ListV(tuple(deref(ex, a[0]).items), "snapshot_of_checker"), OpaqueV(nm(ex, a[1]), "?")), "OverlayCellChecker")

    def check(ex, c, a, d):
        who = nm(ex, a[0]).split(".")[0].replace("rtx_of_", "")
        ov = deref(ex, a[2])
        seen = [x.name for x in ov.fields[0].items] if isinstance(ov, AggV) and ov.ty == "OverlayCellChecker" else None
        ex.log.append(("check", c, [who, seen], list(ex.pc)))
        return mk_result(ex.ctx.bool(f"resolves_{who}").t, UNIT, OpaqueV(f"outpoint_error_{who}", "OutPointError"), d)
    ctx.env = list(E.LOGGING_OFF) + [
        (E.rx(r"Snapshot::tip_header$|Snapshot::consensus$"), E.opaque_call()),
        (E.rx(r"HashSet::<.*OutPoint>::new$"), lambda ex, c, a, d: OpaqueV("seen_inputs", d)),
        (E.rx(r"^(std::iter::|core::iter::)?once::<"), lambda ex, c, a, d: E._owned([a[0]])),
        (E.rx(r"TransactionsChecker::new::<"), tc_new),
        (E.rx(r"TransactionsChecker::insert$"), tc_insert),
        (E.rx(r"OverlayCellChecker::<.*>::new$"), overlay_new),
        (E.rx(r"block_in_place::<"), lambda ex, c, a, d: ex.call_value(ex.top_frame, a[0], [], d)),
        (E.rx(r"<Arc<.*ResolvedTransaction> as Deref>::deref$"), lambda ex, c, a, d: ex.ctx.ref_to(OpaqueV("rtx_of_" + nm(ex, a[0]), "ResolvedTransaction"))),
        (E.rx(r"ResolvedTransaction::check::<"), check),
        (E.rx(r"TxEntry::transaction$"), lambda ex, c, a, d: ex.ctx.ref_to(OpaqueV("tx_of_" + nm(ex, a[0]), "TransactionView"))),
        (E.rx(r"TxEntry::proposal_short_id$"), lambda ex, c, a, d: OpaqueV("id_of_" + nm(ex, a[0]), d)),
        (E.rx(r"OutPointError::out_point$"), lambda ex, c, a, d: mk_option(True, ex.ctx.ref_to(OpaqueV("op_of_" + nm(ex, a[0]), "OutPoint")), d)),
        (E.rx(r"TxEntry::dummy_resolve$"), lambda ex, c, a, d: AggV(tuple(OpaqueV(f"cellbase_entry.{fld}", "?") for fld in te), "TxEntry")),
        (E.rx(r" as Iterator>::chain::<"), lambda ex, c, a, d: E._owned((E._as_items(ex, deref(ex, a[0])) or []) + (E._as_items(ex, deref(ex, a[1])) or []))),
        (E.rx(r"DaoCalculator::<.*>::new$|borrow_as_data_loader$|Capacity::zero$"), E.opaque_call()),
        (E.rx(r"dao_field_with_current_epoch::<"), lambda ex, c, a, d: (ex.log.append(("dao", c, [nm(ex, a[1])], list(ex.pc))), mk_result(True, OpaqueV("dao", "Byte32"), OpaqueV("dao_err", "DaoError"), d))[1]),
        (E.rx(r"as Clone>::clone$|::cloned$"), lambda ex, c, a, d: deref(ex, a[0]) if not isinstance(a[0], EnumV) else a[0]),
        (E.rx(r"HeaderView::(number|hash)$|TransactionView::hash$"), E.opaque_call()),
    ] + list(E.LIST_ADAPTORS)
    ps = S.run(ctx, f, [ctx.ref_to(OpaqueV("snapshot", "Snapshot")), ctx.ref_to(OpaqueV("epoch", "EpochExt")), OpaqueV("cellbase", "TransactionView"), ListV(tuple(ents), "Vec<TxEntry>")])
    S.prove(ctx, ob, "no_panic", [], T.not_(cond_of(panics(ps))))
    ok_b = [ctx.bool(f"resolves_e{k}").t for k in range(n)]
    goals = []
    for p in returns(ps):
        cks = [e[2] for e in p.log if e[0] == "check"]
        ok = len(cks) == n and [w for w, _ in cks] == [f"e{k}" for k in range(n)]
        pcs = [str(c_) for c_ in p.pc]
        accepted = []
        for k in range(n):
            if ok:
                want = ["cellbase"] + [f"tx_of_e{j}" for j in accepted]
                if cks[k][1] != want:
                    ok = False
            if str(ok_b[k]) in pcs:
                accepted.append(k)
            elif str(T.not_(ok_b[k])) not in pcs:
                ok = False
        v = p.value
        if ok and isinstance(v, EnumV) and v.disc == 0:
            dao, kept, failed = v.payload(0)[0].fields
            ok = ok and nm(None, kept) == "[" + ",".join(f"e{k}" for k in accepted) + "]"
            ok = ok and isinstance(failed, ListV) and [nm(None, x.fields[0]) for x in failed.items] == [f"id_of_e{k}" for k in range(n) if k not in accepted]
            daos = [e[2][0] for e in p.log if e[0] == "dao"]
            ok = ok and len(daos) == 1 and re.findall(r"(cellbase_entry|e\d)\.rtx", daos[0]) == ["cellbase_entry"] + [f"e{k}" for k in accepted]
        else:
            ok = False
        if os.environ.get("VERIF_DEBUG") and not ok:
            print("DEBUG calc_dao", cks, str(v)[:200], [e[2] for e in p.log if e[0] == "dao"])
        goals.append(T.implies(p.cond(), bool(ok)))
    S.prove(ctx, ob, "each_entry_is_checked_against_cellbase_plus_the_entries_accepted_before_it_dropped_entries_are_reported_kept_order_dao_over_kept", [], T.and_(*goals) if goals else False)
    S.prove(ctx, ob, "every_combination_of_failing_checks_is_explored", [], bool(len(returns(ps)) == 2 ** n))


OBLIGATIONS = OBLIGATIONS + [m7_calc_dao_rechecks_against_what_is_in_the_template]

# ---- extended claim (session 4, after seed round 5)
LEVEL_TEXT = LEVEL_TEXT + " m4 also covers update_uncles; m6: the cellbase carries no reward output exactly when the node's RewardVerifier demands an empty cellbase, otherwise the finalised total to the target lock; m7: calc_dao re-resolves each packaged entry against cellbase + the entries accepted before it, so a child cannot stay without its dropped parent."
LEVEL_NOTE = LEVEL_NOTE + ' calc_dao: three packaged entries; cellbase rule: reward calculator and capacity test as environment.'
