"""C11 — tx-pool bookkeeping: the arithmetic / ordering kernels behind the aggregates and index keys (engine M).

Claimed clauses (partial, see DESIGN.md): the per-entry ancestor/descendant aggregate *step functions* are exact
(so a recomputation over the link closure gives what the incremental updates give), the keys the pool sorts and
evicts by are total orders consistent with the fee rate they stand for, per-status counters and totals move by
exactly the entry's contribution, the reported TxEntryInfo is the entry's aggregates.  The link/edge containers
(HashMap/HashSet/multi_index_map keyed by hashes) are outside.
"""
import os
import re
from mir2smt.ob import *
from mir2smt import terms as T
from mir2smt.exec import OpaqueV, IntV, BoolV, AggV, EnumV, RefV, UNIT, Exec, Stop, mk_option, mk_result
from mir2smt import envlib as E
from mir2smt.builtins import deref
from mir2smt.srcinfo import struct_fields

CRATES = ["ckb-constant", "ckb-occupied-capacity-core", "ckb-types", "ckb-tx-pool"]
NATIVE_CRATE = ("native_pool", "vnative_pool")
VAL = []
NORD = ["cycles", "size", "fee", "ancestors_size", "ancestors_fee", "ancestors_cycles", "ancestors_count", "descendants_fee", "descendants_size",
        "descendants_cycles", "descendants_count", "timestamp"]     # argument order of the native driver


def nargs(t):
    return [t[k] for k in NORD]


def samples(names, vals, n=60, seed=7):
    import random
    r = random.Random(seed)
    return [{k: r.choice(vals) for k in names} for _ in range(n)]


SV = (0, 1, 2, 3, 7, 1000, 12345, (1 << 32) + 5, (1 << 63), (1 << 64) - 1, (1 << 64) - 2)
U64 = (1 << 64) - 1
ENTRY_RS = "tx-pool/src/component/entry.rs"
INT_FIELDS = {  # field -> (type, is Capacity)
    "cycles": ("u64", False), "size": ("usize", False), "fee": ("u64", True),
    "ancestors_size": ("usize", False), "ancestors_fee": ("u64", True), "ancestors_cycles": ("u64", False), "ancestors_count": ("usize", False),
    "descendants_fee": ("u64", True), "descendants_size": ("usize", False), "descendants_cycles": ("u64", False), "descendants_count": ("usize", False),
    "timestamp": ("u64", False),
}


def W(a, b):
    return T.app("tx_weight", T.INT, a, b)


def cap(v):
    return newtype(v, "Capacity")


def entry(ctx, name):
    """symbolic TxEntry as an aggregate in the declaration order of the source; returns (value, {field: term})"""
    order = struct_fields(ENTRY_RS, "TxEntry")
    missing = [f for f in INT_FIELDS if f not in order]
    if missing or "rtx" not in order:
        raise Inconclusive(f"TxEntry layout changed: missing {missing}")
    vals, terms = [], {}
    for f in order:
        if f == "rtx":
            vals.append(OpaqueV(name + ".rtx", "Arc<ResolvedTransaction>"))
        elif f in INT_FIELDS:
            ty, is_cap = INT_FIELDS[f]
            iv = ctx.int(f"{name}.{f}", ty)
            terms[f] = iv.t
            vals.append(cap(iv) if is_cap else iv)
        else:
            raise Inconclusive(f"TxEntry has an unknown field {f}")
    return AggV(tuple(vals), "TxEntry"), terms, order


def read_entry(ctx, ref, order):
    v = deref(Exec(ctx, []), ref)
    out = {}
    for i, f in enumerate(order):
        if f in INT_FIELDS:
            out[f] = as_int(v.fields[i])
    return out


def sat_add(a, b, mx=U64):
    return T.imin(T.add(a, b), mx)


def sat_sub(a, b):
    return T.imax(T.sub(a, b), 0)


def m1_aggregate_steps(S):
    """add/sub_{descendant,ancestor}_weight: each of the four aggregates moves by exactly the other entry's own
    (count 1, size, cycles, fee), saturating; nothing else changes; sub undoes add"""
    ob = "C11.m1"
    for side in ("descendant", "ancestor"):
        for op in ("add", "sub"):
            ctx = S.ctx()
            me, mt, order = entry(ctx, "me")
            ot, ott, _ = entry(ctx, "ot")
            ref = ctx.ref_to(me)
            ps = S.run(ctx, f"TxEntry::{op}_{side}_weight", [ref, ctx.ref_to(ot)])
            S.prove(ctx, ob, f"{op}_{side}_no_panic", [], T.not_(cond_of(panics(ps))))
            rs = returns(ps)
            if len(rs) != 1:
                raise Inconclusive(f"{op}_{side}_weight: expected straight-line code, got {len(rs)} returning paths")
            after = read_entry(ctx, ref, order)
            pre = side + "s_"
            f = sat_add if op == "add" else sat_sub
            want = dict(mt)
            want[pre + "count"] = f(mt[pre + "count"], 1)
            want[pre + "size"] = f(mt[pre + "size"], ott["size"])
            want[pre + "cycles"] = f(mt[pre + "cycles"], ott["cycles"])
            want[pre + "fee"] = f(mt[pre + "fee"], ott["fee"])
            S.native(ctx, "entry_step", [0 if op == "add" else 1, 0 if side == "descendant" else 1] + nargs(mt) + nargs(ott), nargs(after), cond_of(panics(ps)))
            VAL.append((S, ctx, samples([f"me.{k}" for k in NORD] + [f"ot.{k}" for k in NORD], SV, 40)))
            for k in sorted(want):
                S.prove(ctx, ob, f"{op}_{side}_{k}", [rs[0].cond()], T.eq(after[k], want[k]))
            S.witness(ctx, ob, f"{op}_{side}_reach", [rs[0].cond()], T.and_(T.gt(ott["fee"], 3), T.gt(ott["size"], 3), T.gt(ott["cycles"], 3),
                                                                         T.gt(mt[pre + "fee"], ott["fee"]), T.ne(after[pre + "fee"], mt[pre + "fee"])))
    # round trip add ; sub on the real code (two calls on the same cell)
    for side in ("descendant", "ancestor"):
        ctx = S.ctx()
        me, mt, order = entry(ctx, "me")
        ot, ott, _ = entry(ctx, "ot")
        ref = ctx.ref_to(me)
        ps = S.run(ctx, f"TxEntry::add_{side}_weight", [ref, ctx.ref_to(ot)])
        mid = deref(Exec(ctx, []), ref)
        ref2 = ctx.ref_to(mid)
        ps2 = S.run(ctx, f"TxEntry::sub_{side}_weight", [ref2, ctx.ref_to(ot)])
        after = read_entry(ctx, ref2, order)
        pre = side + "s_"
        nosat = [T.le(T.add(mt[pre + "count"], 1), U64), T.le(T.add(mt[pre + "size"], ott["size"]), U64),
                 T.le(T.add(mt[pre + "cycles"], ott["cycles"]), U64), T.le(T.add(mt[pre + "fee"], ott["fee"]), U64)]
        S.prove(ctx, ob, f"sub_undoes_add_{side}", nosat, T.and_(*[T.eq(after[k], mt[k]) for k in sorted(mt)]))


def m2_initial_and_reset(S):
    """a fresh entry's aggregates are its own values with count 1; reset_statistic_state restores exactly that"""
    ob = "C11.m2"
    ctx = S.ctx()
    order = struct_fields(ENTRY_RS, "TxEntry")
    cyc = ctx.int("cycles", "u64"); fee = ctx.int("fee", "u64"); size = ctx.int("size", "usize"); ts = ctx.int("ts", "u64")
    ps = S.run(ctx, "TxEntry::new_with_timestamp", [OpaqueV("rtx", "Arc<ResolvedTransaction>"), cyc, cap(fee), size, ts])
    rs = returns(ps)
    if len(rs) != 1 or panics(ps):
        raise Inconclusive("new_with_timestamp is expected to be straight-line")
    v = rs[0].value
    got = {f: as_int(v.fields[i]) for i, f in enumerate(order) if f in INT_FIELDS}
    own = {"cycles": cyc.t, "size": size.t, "fee": fee.t, "timestamp": ts.t}
    for pre in ("ancestors_", "descendants_"):
        own[pre + "count"] = 1
        own[pre + "size"] = size.t
        own[pre + "cycles"] = cyc.t
        own[pre + "fee"] = fee.t
    S.native(ctx, "entry_new", [cyc.t, fee.t, size.t, ts.t], nargs(got))
    VAL.append((S, ctx, samples(["cycles", "fee", "size", "ts"], SV, 30)))
    for k in sorted(own):
        S.prove(ctx, ob, f"new_{k}", [], T.eq(got[k], own[k]))
    ctx = S.ctx()
    me, mt, order = entry(ctx, "me")
    ref = ctx.ref_to(me)
    ps = S.run(ctx, "TxEntry::reset_statistic_state", [ref])
    S.prove(ctx, ob, "reset_no_panic", [], T.not_(cond_of(panics(ps))))
    after = read_entry(ctx, ref, order)
    want = dict(mt)
    for pre in ("ancestors_", "descendants_"):
        want[pre + "count"] = 1
        want[pre + "size"] = mt["size"]
        want[pre + "cycles"] = mt["cycles"]
        want[pre + "fee"] = mt["fee"]
    S.native(ctx, "entry_reset", nargs(mt), nargs(after), cond_of(panics(ps)))
    VAL.append((S, ctx, samples([f"me.{k}" for k in NORD], SV, 30)))
    for k in sorted(want):
        S.prove(ctx, ob, f"reset_{k}", [], T.eq(after[k], want[k]))


def weight_env(ctx):
    """get_transaction_weight is floating point (max(size, cycles * bytes-per-cycle)): an uninterpreted function of
    its two arguments"""
    ctx.uf_decls["tx_weight"] = (T.INT, (T.INT, T.INT))

    def h(ex, callee, args, dty):
        a, b = deref(ex, args[0]).t, deref(ex, args[1]).t
        t = W(a, b)
        ex.ctx.add_side(T.and_(T.le(0, t), T.le(t, U64)))
        return IntV(t, "u64")
    return [(E.rx(r"get_transaction_weight$"), h)]


def key(ctx, name):
    f = {k: ctx.int(f"{name}.{k}", "u64") for k in ("fee", "weight", "ancestors_fee", "ancestors_weight")}
    order = struct_fields("tx-pool/src/component/sort_key.rs", "AncestorsScoreSortKey")
    if sorted(order) != sorted(f):
        raise Inconclusive(f"AncestorsScoreSortKey layout changed: {order}")
    v = AggV(tuple(cap(f[k]) if k in ("fee", "ancestors_fee") else f[k] for k in order), "AncestorsScoreSortKey")
    return v, {k: x.t for k, x in f.items()}


def minpair(k):
    """the (fee, weight) pair the key is ranked by: the entry's own rate if it is strictly lower than its
    ancestor-package rate, else the package's"""
    own = T.lt(T.mul(k["fee"], k["ancestors_weight"]), T.mul(k["ancestors_fee"], k["weight"]))
    return T.ite(own, k["fee"], k["ancestors_fee"]), T.ite(own, k["weight"], k["ancestors_weight"])


def m3_score_key(S):
    """AncestorsScoreSortKey: never panics, ranks by min(own rate, package rate) compared exactly as fractions, ties by
    ancestors_weight; antisymmetric and reflexive (a total preorder usable as a sorted index)"""
    ob = "C11.m3"
    ctx = S.ctx()
    a, ka = key(ctx, "a")
    b, kb = key(ctx, "b")
    ps = S.run(ctx, "AncestorsScoreSortKey::min_fee_and_weight", [ctx.ref_to(a)])
    S.prove(ctx, ob, "min_pair_no_panic", [], T.not_(cond_of(panics(ps))))
    mf, mw = minpair(ka)
    KO = ["fee", "weight", "ancestors_fee", "ancestors_weight"]
    S.native(ctx, "score_min_pair", [ka[k] for k in KO], [merged(ps, lambda v: as_int(v.fields[0])), merged(ps, lambda v: as_int(v.fields[1]))], cond_of(panics(ps)))
    S.prove(ctx, ob, "min_pair_value", [], T.and_(T.eq(merged(ps, lambda v: as_int(v.fields[0])), mf), T.eq(merged(ps, lambda v: as_int(v.fields[1])), mw)))
    # with positive weights the chosen pair is the smaller of the two rates
    S.prove(ctx, ob, "min_pair_is_lower_rate", [T.gt(ka["weight"], 0), T.gt(ka["ancestors_weight"], 0)],
            T.and_(T.le(T.mul(mf, ka["weight"]), T.mul(ka["fee"], mw)), T.le(T.mul(mf, ka["ancestors_weight"]), T.mul(ka["ancestors_fee"], mw))), timeout_s=120)
    pab = S.run(ctx, "AncestorsScoreSortKey::cmp", [ctx.ref_to(a), ctx.ref_to(b)], trait="Ord")
    pba = S.run(ctx, "AncestorsScoreSortKey::cmp", [ctx.ref_to(b), ctx.ref_to(a)], trait="Ord")
    paa = S.run(ctx, "AncestorsScoreSortKey::cmp", [ctx.ref_to(a), ctx.ref_to(a)], trait="Ord")
    S.prove(ctx, ob, "cmp_no_panic", [], T.not_(T.or_(cond_of(panics(pab)), cond_of(panics(pba)), cond_of(panics(paa)))))
    cab = merged(pab, lambda v: v.disc); cba = merged(pba, lambda v: v.disc); caa = merged(paa, lambda v: v.disc)
    S.native(ctx, "score_cmp", [ka[k] for k in KO] + [kb[k] for k in KO], [cab], cond_of(panics(pab)))
    VAL.append((S, ctx, samples([f"a.{k}" for k in KO] + [f"b.{k}" for k in KO], SV, 80) + samples([f"a.{k}" for k in KO] + [f"b.{k}" for k in KO], (0, 1, 2, 3, 4, 6), 80, 11)))
    bf, bw = minpair(kb)
    l, r = T.mul(mf, bw), T.mul(bf, mw)
    spec = T.ite(T.eq(l, r), T.ite(T.lt(ka["ancestors_weight"], kb["ancestors_weight"]), -1, T.ite(T.eq(ka["ancestors_weight"], kb["ancestors_weight"]), 0, 1)),
                 T.ite(T.lt(l, r), -1, 1))
    S.prove(ctx, ob, "cmp_is_fraction_order_then_ancestors_weight", [], T.eq(cab, spec), timeout_s=120)
    S.prove(ctx, ob, "cmp_antisymmetric", [], T.eq(T.add(cab, cba), 0), timeout_s=120)
    S.prove(ctx, ob, "cmp_reflexive", [], T.eq(caa, 0))
    S.witness(ctx, ob, "cmp_reach_tie", [], T.and_(T.eq(l, r), T.gt(mf, 1), T.ne(ka["fee"], kb["fee"]), T.eq(cab, 1)))
    # wiring from an entry
    ctx = S.ctx()
    ctx.env = weight_env(ctx)
    me, mt, order = entry(ctx, "me")
    cands = [f for f in S.prog.funcs if f.kind == "fn" and f.name.endswith("::from") and "entry.rs" in f.name and "AncestorsScoreSortKey" in f.ret]
    if len(cands) != 1:
        raise Inconclusive(f"From<&TxEntry> for AncestorsScoreSortKey: {len(cands)} candidates")
    ps = S.run(ctx, cands[0], [ctx.ref_to(me)])
    S.prove(ctx, ob, "from_entry_no_panic", [], T.not_(cond_of(panics(ps))))
    korder = struct_fields("tx-pool/src/component/sort_key.rs", "AncestorsScoreSortKey")
    got = {k: merged(ps, lambda v, i=i: as_int(v.fields[i])) for i, k in enumerate(korder)}
    S.prove(ctx, ob, "from_entry_wiring", [], T.and_(
        T.eq(got["fee"], mt["fee"]), T.eq(got["ancestors_fee"], mt["ancestors_fee"]),
        T.eq(got["weight"], W(mt["size"], mt["cycles"])),
        T.eq(got["ancestors_weight"], W(mt["ancestors_size"], mt["ancestors_cycles"]))))


def rate(fee, w):
    return T.ite(T.eq(w, 0), 0, T.ediv(T.imin(T.mul(fee, 1000), U64), w))


def m4_evict_key(S):
    """EvictKey: lexicographic (fee_rate, descendants_count, timestamp); built from max(own rate, descendant-package rate)"""
    ob = "C11.m4"
    ctx = S.ctx()
    order = struct_fields("tx-pool/src/component/sort_key.rs", "EvictKey")
    if sorted(order) != ["descendants_count", "fee_rate", "timestamp"]:
        raise Inconclusive(f"EvictKey layout changed: {order}")

    def ek(name):
        f = {"fee_rate": ctx.int(name + ".fee_rate", "u64"), "timestamp": ctx.int(name + ".timestamp", "u64"), "descendants_count": ctx.int(name + ".descendants_count", "usize")}
        return AggV(tuple(newtype(f[k], "FeeRate") if k == "fee_rate" else f[k] for k in order), "EvictKey"), {k: v.t for k, v in f.items()}
    a, ka = ek("a"); b, kb = ek("b")
    ps = S.run(ctx, "EvictKey::cmp", [ctx.ref_to(a), ctx.ref_to(b)], trait="Ord")
    S.prove(ctx, ob, "cmp_no_panic", [], T.not_(cond_of(panics(ps))))
    c = merged(ps, lambda v: v.disc)

    def o3(x, y):
        return T.ite(T.lt(x, y), -1, T.ite(T.eq(x, y), 0, 1))
    spec = T.ite(T.ne(ka["fee_rate"], kb["fee_rate"]), o3(ka["fee_rate"], kb["fee_rate"]),
                 T.ite(T.ne(ka["descendants_count"], kb["descendants_count"]), o3(ka["descendants_count"], kb["descendants_count"]), o3(ka["timestamp"], kb["timestamp"])))
    EO = ["fee_rate", "timestamp", "descendants_count"]
    S.native(ctx, "evict_cmp", [ka[k] for k in EO] + [kb[k] for k in EO], [c], cond_of(panics(ps)))
    VAL.append((S, ctx, samples([f"a.{k}" for k in EO] + [f"b.{k}" for k in EO], (0, 1, 2, U64), 60)))
    S.prove(ctx, ob, "cmp_is_lexicographic", [], T.eq(c, spec))
    S.witness(ctx, ob, "cmp_reach_timestamp", [], T.and_(T.eq(ka["fee_rate"], kb["fee_rate"]), T.eq(ka["descendants_count"], kb["descendants_count"]), T.eq(c, -1)))
    # FeeRate::calculate
    ctx = S.ctx()
    fee = ctx.int("fee", "u64"); w = ctx.int("w", "u64")
    ps = S.run(ctx, "FeeRate::calculate", [cap(fee), w])
    S.native(ctx, "fee_rate_calculate", [fee.t, w.t], [merged(ps, as_int)], cond_of(panics(ps)))
    S.prove(ctx, ob, "fee_rate_calculate", [], T.and_(T.not_(cond_of(panics(ps))), T.eq(merged(ps, as_int), rate(fee.t, w.t))))
    ps = S.run(ctx, "FeeRate::fee", [newtype(fee, "FeeRate"), w])
    S.native(ctx, "fee_rate_fee", [fee.t, w.t], [merged(ps, as_int)], cond_of(panics(ps)))
    VAL.append((S, ctx, samples(["fee", "w"], SV, 60)))
    S.prove(ctx, ob, "fee_rate_fee", [], T.and_(T.not_(cond_of(panics(ps))), T.eq(merged(ps, as_int), T.ediv(T.imin(T.mul(fee.t, w.t), U64), 1000))))
    # wiring from an entry
    ctx = S.ctx()
    ctx.env = weight_env(ctx)
    me, mt, eorder = entry(ctx, "me")
    cands = [f for f in S.prog.funcs if f.kind == "fn" and f.name.endswith("::from") and "entry.rs" in f.name and "EvictKey" in f.ret]
    if len(cands) != 1:
        raise Inconclusive(f"From<&TxEntry> for EvictKey: {len(cands)} candidates")
    ps = S.run(ctx, cands[0], [ctx.ref_to(me)])
    S.prove(ctx, ob, "from_entry_no_panic", [], T.not_(cond_of(panics(ps))))
    got = {k: merged(ps, lambda v, i=i: as_int(v.fields[i])) for i, k in enumerate(order)}
    own = rate(mt["fee"], W(mt["size"], mt["cycles"]))
    pkg = rate(mt["descendants_fee"], W(mt["descendants_size"], mt["descendants_cycles"]))
    S.prove(ctx, ob, "from_entry_wiring", [], T.and_(T.eq(got["fee_rate"], T.imax(own, pkg)), T.eq(got["timestamp"], mt["timestamp"]),
                                                    T.eq(got["descendants_count"], mt["descendants_count"])), timeout_s=120)


def m5_reported_info(S):
    """TxEntry::to_info reports the entry's own aggregates (what RPC get_raw_tx_pool shows)"""
    ob = "C11.m5"
    ctx = S.ctx()
    me, mt, order = entry(ctx, "me")
    ps = S.run(ctx, "TxEntry::to_info", [ctx.ref_to(me)])
    S.prove(ctx, ob, "to_info_no_panic", [], T.not_(cond_of(panics(ps))))
    iorder = struct_fields("util/types/src/core/tx_pool.rs", "TxEntryInfo")
    got = {k: merged(ps, lambda v, i=i: as_int(v.fields[i])) for i, k in enumerate(iorder)}
    INFO = ["cycles", "size", "fee", "ancestors_size", "ancestors_cycles", "descendants_size", "descendants_cycles", "ancestors_count", "timestamp"]
    if sorted(INFO) == sorted(iorder):
        S.native(ctx, "entry_to_info", nargs(mt), [got[k] for k in INFO], cond_of(panics(ps)))
        VAL.append((S, ctx, samples([f"me.{k}" for k in NORD], SV, 30)))
    for k in iorder:
        if k not in mt:
            raise Inconclusive(f"TxEntryInfo field {k} has no counterpart in TxEntry")
        S.prove(ctx, ob, f"to_info_{k}", [], T.eq(got[k], mt[k]))




def validate(S, native):
    cases, mism = 0, []
    for (S_, ctx, inputs) in VAL:
        c, m = S.validate(ctx, inputs)
        cases += c
        mism += m
    del VAL[:]
    return {"cases": cases, "mismatches": mism}


ENGINE = "M"
LEVEL = "other"
EXPLANATION = ("Arithmetic and ordering kernels of the tx-pool bookkeeping (TxEntry aggregate step functions, initial/reset state, the score and evict index keys, "
               "fee-rate arithmetic, the reported TxEntryInfo) symbolically executed from the MIR of ckb-tx-pool / ckb-types and compared with specifications "
               "written independently in SMT, for all 64-bit values.")
BOUNDS = {"values": "all u64/usize values, u128 products exact, no bound",
          "outside": "links/edges/multi_index containers keyed by hashes (no two txs spend the same cell, link <-> spend correspondence, RBF candidate sets, eviction order over the whole pool), "
                     "get_transaction_weight (floating point: uninterpreted function of size and cycles)"}
ASSUMPTIONS = ["get_transaction_weight(size, cycles) is an uninterpreted function with range u64 (its body is floating point)"]
TRUSTED = []
LEVEL_TEXT = ("Decided by SMT over the real MIR for all inputs: the per-entry ancestor/descendant aggregate updates are exact inverses and move each of count/size/cycles/fee by exactly "
              "the other entry's own values, fresh/reset entries carry their own values, the score key orders by min(own, package) fee rate compared as exact fractions and the evict key "
              "lexicographically, both antisymmetric; container-level clauses of C11 are outside and not claimed.")
LEVEL_NOTE = "Partial claim (arithmetic/ordering kernels of the pool entries). Containers keyed by hashes, RBF candidate computation and eviction over the pool are outside."


def m6_score_key_transitive(S):
    """cmp is transitive for positive weights (needed for a sorted index to be well defined); nonlinear integer arithmetic, no bound on the values"""
    ob = "C11.m6"
    ctx = S.ctx()
    a, ka = key(ctx, "a"); b, kb = key(ctx, "b"); c, kc = key(ctx, "c")
    def cm(x, y):
        ps = S.run(ctx, "AncestorsScoreSortKey::cmp", [ctx.ref_to(x), ctx.ref_to(y)], trait="Ord")
        return merged(ps, lambda v: v.disc)
    pos = [T.gt(k[f], 0) for k in (ka, kb, kc) for f in ("weight", "ancestors_weight")]
    S.prove(ctx, ob, "cmp_transitive_le", pos, T.implies(T.and_(T.le(cm(a, b), 0), T.le(cm(b, c), 0)), T.le(cm(a, c), 0)), timeout_s=600)




def pool_map(ctx, name="pm"):
    order = struct_fields("tx-pool/src/component/pool_map.rs", "PoolMap")
    ints = {"pending_count": "usize", "gap_count": "usize", "proposed_count": "usize", "total_tx_size": "usize", "total_tx_cycles": "u64", "max_ancestors_count": "usize"}
    vals, terms = [], {}
    for f in order:
        if f in ints:
            iv = ctx.int(f"{name}.{f}", ints[f])
            terms[f] = iv.t
            vals.append(iv)
        else:
            vals.append(OpaqueV(f"{name}.{f}", "?"))
    missing = [f for f in ints if f not in order]
    if missing:
        raise Inconclusive(f"PoolMap layout changed: missing {missing}")
    return AggV(tuple(vals), "PoolMap"), terms, order


def post_fields(ctx, ps, ref, order, names):
    """per field: the ite-merge over the returning paths of the value in the `&mut self` cell at the end of the path"""
    from mir2smt.exec import post_value
    rs = returns(ps)
    if not rs:
        raise Inconclusive("no returning path")
    out = {}
    for i, f in enumerate(order):
        if f not in names:
            continue
        t = as_int(post_value(ctx, rs[-1], ref).fields[i])
        for p in reversed(rs[:-1]):
            t = T.ite(p.cond(), as_int(post_value(ctx, p, ref).fields[i]), t)
        out[f] = t
    return out


def m7_counters(S):
    """per-status counters and pool totals: track_entry_statics moves exactly the named status counters by one and asserts that
    they sum to the number of entries; update_stat_for_add_tx / remove_tx move the totals by exactly the entry's size and cycles"""
    ob = "C11.m7"
    # enum Status { Pending, Gap, Proposed }: discriminants from the source order
    import re, os
    src = open(os.path.join("/repo", "tx-pool/src/component/pool_map.rs")).read()
    m = re.search(r"pub enum Status\s*\{([^}]*)\}", src)
    variants = [v.strip() for v in re.sub(r"//[^\n]*", "", m.group(1)).split(",") if v.strip()]
    if sorted(variants) != ["Gap", "Pending", "Proposed"]:
        raise Inconclusive(f"Status variants changed: {variants}")
    idx = {v: i for i, v in enumerate(variants)}
    ctx = S.ctx()
    pm, pt, order = pool_map(ctx)
    n_entries = ctx.int("entries_len", "usize")
    ctx.env = [(E.rx(r"MultiIndexPoolEntryMap::len$"), lambda ex, c, a, d: n_entries)] + E.LOGGING_OFF
    rm_some = ctx.bool("rm_some"); rm = ctx.int("rm", "u8"); add_some = ctx.bool("add_some"); ad = ctx.int("ad", "u8")
    ctx.add_side(T.and_(T.le(rm.t, 2), T.le(ad.t, 2)))
    ref = ctx.ref_to(pm)
    a_rm = EnumV(T.ite(rm_some.t, 1, 0), ((1, (EnumV(rm.t, (), "Status"),)),), "Option<Status>")
    a_ad = EnumV(T.ite(add_some.t, 1, 0), ((1, (EnumV(ad.t, (), "Status"),)),), "Option<Status>")
    ps = S.run(ctx, "PoolMap::track_entry_statics", [ref, a_rm, a_ad])
    cnt = {"Pending": pt["pending_count"], "Gap": pt["gap_count"], "Proposed": pt["proposed_count"]}
    want = {}
    for v in variants:
        dec = T.and_(rm_some.t, T.eq(rm.t, idx[v]))
        inc = T.and_(add_some.t, T.eq(ad.t, idx[v]))
        want[v] = T.add(T.sub(cnt[v], T.ite(dec, 1, 0)), T.ite(inc, 1, 0))
    total = T.add(T.add(want["Pending"], want["Gap"]), want["Proposed"])
    under = T.or_(*[T.and_(rm_some.t, T.eq(rm.t, idx[v]), T.eq(cnt[v], 0)) for v in variants])
    fits = T.and_(*[T.le(want[v], U64) for v in variants], T.le(total, U64))
    # returns exactly when nothing underflows and the counters sum to the number of entries
    S.prove(ctx, ob, "track_returns_iff_consistent", [fits], T.iff(cond_of(returns(ps)), T.and_(T.not_(under), T.eq(total, n_entries.t))))
    got = post_fields(ctx, ps, ref, order, pt)
    for v, fld in (("Pending", "pending_count"), ("Gap", "gap_count"), ("Proposed", "proposed_count")):
        S.prove(ctx, ob, f"track_{fld}", [cond_of(returns(ps))], T.eq(got[fld], want[v]))
    S.prove(ctx, ob, "track_leaves_totals", [cond_of(returns(ps))], T.and_(T.eq(got["total_tx_size"], pt["total_tx_size"]), T.eq(got["total_tx_cycles"], pt["total_tx_cycles"])))
    S.witness(ctx, ob, "track_reach", [cond_of(returns(ps))], T.and_(rm_some.t, add_some.t, T.ne(rm.t, ad.t)))
    # totals
    for nm, f in (("add", lambda a, b, mx: T.ite(T.le(T.add(a, b), mx), T.add(a, b), a)), ("remove", lambda a, b, mx: T.ite(T.ge(a, b), T.sub(a, b), 0))):
        ctx = S.ctx()
        ctx.env = list(E.LOGGING_OFF)
        pm, pt, order = pool_map(ctx)
        size = ctx.int("size", "usize"); cyc = ctx.int("cyc", "u64")
        ref = ctx.ref_to(pm)
        ps = S.run(ctx, f"PoolMap::update_stat_for_{nm}_tx", [ref, size, cyc])
        S.prove(ctx, ob, f"stat_{nm}_no_panic", [], T.not_(cond_of(panics(ps))))
        got = post_fields(ctx, ps, ref, order, pt)
        S.prove(ctx, ob, f"stat_{nm}_totals", [], T.and_(
            T.eq(got["total_tx_size"], f(pt["total_tx_size"], size.t, U64)), T.eq(got["total_tx_cycles"], f(pt["total_tx_cycles"], cyc.t, U64)),
            T.eq(got["pending_count"], pt["pending_count"]), T.eq(got["gap_count"], pt["gap_count"]), T.eq(got["proposed_count"], pt["proposed_count"])))
        S.witness(ctx, ob, f"stat_{nm}_reach", [], T.and_(T.gt(size.t, 2), T.gt(cyc.t, 2), T.ne(got["total_tx_size"], pt["total_tx_size"]), T.ne(got["total_tx_cycles"], pt["total_tx_cycles"])))


def m8_links_recorded_for_a_new_entry(S):
    """`PoolMap::record_entry_descendants` (run for every entry that enters the pool; children exist when a parent is (re-)added after its dependants, e.g. a transaction detached by
    a reorganisation): for each output of the new entry BOTH the pooled transactions that read it as a cell dep AND the pooled transaction that consumes it become children
    (one output, reader / consumer presence symbolic); every child gets the new entry as parent, the entry's own children set receives them all, and the aggregates are propagated:
    descendants learn the new ancestor (`update_descendants_index_key(.., Add)`) iff there are children, ancestors always learn the new descendant.
    `update_ancestors_index_key` / `update_descendants_index_key`: every ancestor (descendant) returned by the link closure is moved by exactly the entry's own weight via
    add_descendant_weight / add_ancestor_weight (Remove: the sub_ variants) -- the per-entry steps of C11.m1."""
    from mir2smt.exec import ListV
    ob = "C11.m8"
    f = [x for x in S.prog.funcs if x.kind == "fn" and x.short == "record_entry_descendants" and "component/pool_map.rs" in x.name and "{closure" not in x.name]
    if len(f) != 1:
        raise Inconclusive(f"record_entry_descendants: {len(f)} candidates")
    ctx = S.ctx(unwind=8)
    ctx.uninterpreted_unknown_calls = True
    has_reader = ctx.bool("output0_is_read_as_cell_dep_by_a_pooled_tx")
    has_consumer = ctx.bool("output0_is_consumed_by_a_pooled_tx")
    log = []

    def nmv(ex, v):
        v = deref(ex, v)
        if isinstance(v, ListV):
            return "{" + ",".join(sorted(nmv(ex, x) for x in v.items)) + "}"
        return getattr(v, "name", None) or type(v).__name__

    def lg(tag, ret=None):
        def h(ex, c, a, d):
            log.append((tag, [nmv(ex, x) for x in a[1:]], list(ex.pc)))
            return ret(ex, a, d) if ret else UNIT
        return h
    from mir2smt.builtins import _wr

    def set_extend(ex, c, a, d):
        s_, o = deref(ex, a[0]), deref(ex, a[1])
        if not isinstance(s_, ListV) or not isinstance(o, ListV):
            raise Stop("extend of an unmodelled set")
        _wr(ex, a[0], ListV(tuple(s_.items) + tuple(x for x in o.items if x not in s_.items), s_.ty))
        if s_.ty == "links_children":
            log.append(("entry_children_extend", [nmv(ex, a[1])], list(ex.pc)))
        return UNIT

    def set_insert(ex, c, a, d):
        s_ = deref(ex, a[0])
        x = deref(ex, a[1])
        if not isinstance(s_, ListV):
            raise Stop("insert into an unmodelled set")
        new_ = x not in s_.items
        if new_:
            _wr(ex, a[0], ListV(tuple(s_.items) + (x,), s_.ty))
        return BoolV(new_)
    ctx.env = list(E.LOGGING_OFF) + [
        (E.rx(r"TxEntry::proposal_short_id$"), lambda ex, c, a, d: OpaqueV("this_id", d)),
        (E.rx(r"TxEntry::transaction$"), lambda ex, c, a, d: ex.ctx.ref_to(OpaqueV("this_tx", "TransactionView"))),
        (E.rx(r"TransactionView::output_pts$"), lambda ex, c, a, d: ListV((OpaqueV("out0", "OutPoint"),), "Vec<OutPoint>")),
        (E.rx(r"HashSet::<[\w:]*ProposalShortId(, [\w:]+)?>::new$"), lambda ex, c, a, d: ListV((), "children")),
        (E.rx(r"Edges::get_deps_ref$"), lambda ex, c, a, d: mk_option(has_reader.t, ex.ctx.ref_to(ListV((OpaqueV("reader", "ProposalShortId"),), "deps")), d)),
        (E.rx(r"Edges::get_input_ref$"), lambda ex, c, a, d: mk_option(has_consumer.t, ex.ctx.ref_to(OpaqueV("consumer", "ProposalShortId")), d)),
        (E.rx(r"Option::<&HashSet<.*>>::cloned$|Option::<&[\w:]*ProposalShortId>::cloned$"), lambda ex, c, a, d: (lambda o: EnumV(o.disc, tuple((k, tuple(deref(ex, x) for x in fs)) for k, fs in o.payloads), d))(deref(ex, a[0]))),
        (E.rx(r"<HashSet<[\w:]*ProposalShortId(, [\w:]+)?> as Extend<.*>>::extend"), set_extend),
        (E.rx(r"HashSet::<[\w:]*ProposalShortId(, [\w:]+)?>::insert$"), set_insert),
        (E.rx(r"HashSet::<[\w:]*ProposalShortId(, [\w:]+)?>::is_empty$"), lambda ex, c, a, d: BoolV(len(deref(ex, a[0]).items) == 0)),
        (E.rx(r"<&HashSet<[\w:]*ProposalShortId(, [\w:]+)?> as IntoIterator>::into_iter$"), lambda ex, c, a, d: AggV((deref(ex, a[0]), IntV(0, "usize")), "ListIterRef")),
        (E.rx(r"ProposalShortId as Clone>::clone$"), lambda ex, c, a, d: deref(ex, a[0])),
        (E.rx(r"TxLinksMap::add_parent$"), lg("add_parent", lambda ex, a, d: mk_option(True, BoolV(True), d))),
        (E.rx(r"HashMap::<[\w:]*ProposalShortId, [\w:]*TxLinks(, [\w:]+)?>::get_mut"), lambda ex, c, a, d: (log.append(("links_of", [nmv(ex, a[1])], list(ex.pc))), mk_option(True, ex.ctx.ref_to(AggV((OpaqueV("own_parents", "?"), ListV((), "links_children")), "TxLinks")), d))[1]),
        (E.rx(r"PoolMap::update_descendants_index_key$"), lg("update_descendants")),
        (E.rx(r"PoolMap::update_ancestors_index_key$"), lg("update_ancestors")),
    ] + list(E.LIST_ADAPTORS)
    lf = struct_fields("tx-pool/src/component/links.rs", "TxLinks")
    if lf != ["parents", "children"]:
        raise Inconclusive(f"TxLinks layout: {lf}")
    pm = OpaqueV("pm", "PoolMap")
    ps = S.run(ctx, f[0], [ctx.ref_to(pm), ctx.ref_to(OpaqueV("entry", "TxEntry"))])
    S.prove(ctx, ob, "record_no_panic", [], T.not_(cond_of(panics(ps))))

    def when(tag, pred=lambda a: True):
        return T.or_(*[T.and_(*pc) for t, a, pc in log if t == tag and pred(a)])
    S.prove(ctx, ob, "dep_reader_becomes_a_child_iff_it_reads_the_output", [], T.iff(when("add_parent", lambda a: a[0] == "reader"), has_reader.t))
    S.prove(ctx, ob, "consumer_becomes_a_child_iff_it_spends_the_output_even_when_a_reader_exists", [], T.iff(when("add_parent", lambda a: a[0] == "consumer"), has_consumer.t))
    S.prove(ctx, ob, "every_child_gets_this_entry_as_parent", [], bool(all(a[1] == "this_id" for t, a, _ in log if t == "add_parent")))
    both = T.and_(has_reader.t, has_consumer.t)
    S.prove(ctx, ob, "own_children_set_receives_all_children", [], T.and_(
        T.implies(both, when("entry_children_extend", lambda a: a[0] == "{consumer,reader}")),
        T.implies(T.and_(has_reader.t, T.not_(has_consumer.t)), when("entry_children_extend", lambda a: a[0] == "{reader}")),
        T.implies(T.and_(T.not_(has_reader.t), has_consumer.t), when("entry_children_extend", lambda a: a[0] == "{consumer}"))))
    S.prove(ctx, ob, "own_links_are_looked_up_under_this_id", [], bool(all(a[0] == "this_id" for t, a, _ in log if t == "links_of")))
    S.prove(ctx, ob, "descendants_learn_the_new_ancestor_iff_there_are_children", [], T.iff(when("update_descendants", lambda a: a[0] == "entry"), T.or_(has_reader.t, has_consumer.t)))
    anc_all = when("update_ancestors", lambda a: a[0] == "entry")
    S.prove(ctx, ob, "ancestors_always_learn_the_new_descendant_on_every_returning_path", [], T.iff(anc_all, T.or_(*[p.cond() for p in returns(ps)])))
    S.witness(ctx, ob, "reach_both_kinds_of_children", [], T.and_(both, anc_all))


def m9_aggregates_after_a_late_parent(S):
    """One `record_entry_descendants` step from a valid pool state in which the new entry P has a pooled ancestor G (linked by check_and_record_ancestors) and a pooled child C that
    was inserted BEFORE it (P was detached by a reorganisation and is re-added while C, which spends its output, stayed): the real update_descendants_index_key /
    update_ancestors_index_key / add_*_weight code is executed over a three-entry model of the entry table.  Afterwards every aggregate must equal a recomputation from the
    contents G -> P -> C: P.descendants = P + C, G.descendants = G + P + C, C.ancestors = C + P + G (counts and sizes)."""
    from mir2smt.exec import ListV
    ob = "C11.m9"
    f = [x for x in S.prog.funcs if x.kind == "fn" and x.short == "record_entry_descendants" and "component/pool_map.rs" in x.name and "{closure" not in x.name]
    if len(f) != 1:
        raise Inconclusive(f"record_entry_descendants: {len(f)} candidates")
    ctx = S.ctx(unwind=8)
    ctx.uninterpreted_unknown_calls = True
    pe = struct_fields("tx-pool/src/component/pool_map.rs", "PoolEntry")
    ents, terms = {}, {}
    for nm_ in ("G", "P", "C"):
        v, t, order = entry(ctx, nm_)
        ents[nm_] = AggV(tuple(v if fld == "inner" else OpaqueV(f"{nm_}.{fld}", "?") for fld in pe), "PoolEntry")
        terms[nm_] = t
    small = 1 << 32
    pre = []
    for nm_ in ("G", "P", "C"):
        t = terms[nm_]
        pre += [T.le(t["size"], small), T.le(t["cycles"], small), T.le(t["fee"], small)]
    own = lambda n, k: terms[n][k]
    # valid state before the step (see docstring): G and C stand alone, P already knows its ancestor G
    for n, anc, desc in (("G", ["G"], ["G"]), ("C", ["C"], ["C"]), ("P", ["P", "G"], ["P"])):
        t = terms[n]
        for kind, members in (("ancestors", anc), ("descendants", desc)):
            pre.append(T.eq(t[f"{kind}_count"], len(members)))
            for k in ("size", "cycles", "fee"):
                tot = 0
                for m_ in members:
                    tot = T.add(tot, own(m_, k))
                pre.append(T.eq(t[f"{kind}_{k}"], tot))

    def nmv(ex, v):
        v = deref(ex, v)
        return getattr(v, "name", None) or type(v).__name__
    ids = {"idG": "G", "idP": "P", "idC": "C"}

    def cur_entry(ex, n):
        val = ents[n]
        for e in ex.log:
            if e[0] == "entry_set" and e[2][0] == n:
                val = e[2][1]
        return val

    def modify_by_id(ex, c, a, d):
        n = ids.get(nmv(ex, a[1]))
        if n is None:
            raise Stop("modify_by_id of an unknown id " + nmv(ex, a[1]))
        cell = ex.ctx.ref_to(cur_entry(ex, n))
        ex.call_value(ex.top_frame, a[2], [cell], "()")
        ex.log.append(("entry_set", c, [n, deref(ex, cell)], list(ex.pc)))
        return mk_option(True, cell, d)

    def linked(ex):
        return any(e[0] == "link" and e[2] == ["idC", "idP"] for e in ex.log)
    ctx.env = list(E.LOGGING_OFF) + [
        (E.rx(r"TxEntry::proposal_short_id$"), lambda ex, c, a, d: OpaqueV("idP", d)),
        (E.rx(r"TxEntry::transaction$"), lambda ex, c, a, d: ex.ctx.ref_to(OpaqueV("txP", "TransactionView"))),
        (E.rx(r"TransactionView::output_pts$"), lambda ex, c, a, d: ListV((OpaqueV("P.out0", "OutPoint"),), "Vec<OutPoint>")),
        (E.rx(r"HashSet::<[\w:]*ProposalShortId(, [\w:]+)?>::new$"), lambda ex, c, a, d: ListV((), "children")),
        (E.rx(r"Edges::get_deps_ref$"), lambda ex, c, a, d: mk_option(False, None, d)),
        (E.rx(r"Edges::get_input_ref$"), lambda ex, c, a, d: mk_option(True, ex.ctx.ref_to(OpaqueV("idC", "ProposalShortId")), d)),
        (E.rx(r"Option::<&HashSet<.*>>::cloned$|Option::<&[\w:]*ProposalShortId>::cloned$"), lambda ex, c, a, d: (lambda o: EnumV(o.disc, tuple((k, tuple(deref(ex, x) for x in fs)) for k, fs in o.payloads), d))(deref(ex, a[0]))),
        (E.rx(r"HashSet::<[\w:]*ProposalShortId(, [\w:]+)?>::insert$"), lambda ex, c, a, d: (__import__("mir2smt.builtins", fromlist=["_wr"])._wr(ex, a[0], ListV(tuple(deref(ex, a[0]).items) + (deref(ex, a[1]),), "children")), BoolV(True))[1]),
        (E.rx(r"<HashSet<[\w:]*ProposalShortId(, [\w:]+)?> as Extend<.*>>::extend"), lambda ex, c, a, d: UNIT),
        (E.rx(r"HashSet::<[\w:]*ProposalShortId(, [\w:]+)?>::is_empty$"), lambda ex, c, a, d: BoolV(len(deref(ex, a[0]).items) == 0)),
        (E.rx(r"<&HashSet<[\w:]*ProposalShortId(, [\w:]+)?> as IntoIterator>::into_iter$"), lambda ex, c, a, d: AggV((deref(ex, a[0]), IntV(0, "usize")), "ListIterRef")),
        (E.rx(r"ProposalShortId as Clone>::clone$"), lambda ex, c, a, d: deref(ex, a[0])),
        (E.rx(r"TxLinksMap::add_parent$"), lambda ex, c, a, d: (ex.log.append(("link", c, [nmv(ex, a[1]), nmv(ex, a[2])], list(ex.pc))), mk_option(True, BoolV(True), d))[1]),
        (E.rx(r"HashMap::<[\w:]*ProposalShortId, [\w:]*TxLinks(, [\w:]+)?>::get_mut"), lambda ex, c, a, d: mk_option(True, ex.ctx.ref_to(AggV((OpaqueV("own_parents", "?"), ListV((), "links_children")), "TxLinks")), d)),
        (E.rx(r"TxLinksMap::calc_descendants$"), lambda ex, c, a, d: ListV((OpaqueV("idC", "ProposalShortId"),) if linked(ex) else (), "set")),
        (E.rx(r"TxLinksMap::calc_ancestors$"), lambda ex, c, a, d: ListV((OpaqueV("idG", "ProposalShortId"),), "set")),
        (E.rx(r"MultiIndexPoolEntryMap::modify_by_id::<"), modify_by_id),
        (E.rx(r"TxEntry::as_evict_key$|TxEntry::as_score_key$"), E.opaque_call()),
        (E.rx(r"get_transaction_weight$"), lambda ex, c, a, d: ex.ctx.fresh_of_type("w", d)),
    ] + list(E.LIST_ADAPTORS)
    pm = OpaqueV("pm", "PoolMap")
    pentry = ents["P"].fields[pe.index("inner")]
    ps = S.run(ctx, f[0], [ctx.ref_to(pm), ctx.ref_to(pentry)])
    S.prove(ctx, ob, "step_no_panic", pre, T.not_(cond_of(panics(ps))))
    rs = returns(ps)
    if len(rs) != 1:
        raise Inconclusive(f"late parent step: {len(rs)} returning paths")
    order = struct_fields(ENTRY_RS, "TxEntry")

    def final(n, fld):
        val = ents[n]
        for e in rs[0].log:
            if e[0] == "entry_set" and e[2][0] == n:
                val = e[2][1]
        return as_int(val.fields[pe.index("inner")].fields[order.index(fld)])
    S.prove(ctx, ob, "child_is_linked_to_the_late_parent", [], bool(any(e[0] == "link" and e[2] == ["idC", "idP"] for e in rs[0].log)))
    S.prove(ctx, ob, "child_learns_the_late_parent_as_ancestor", pre, T.ge(final("C", "ancestors_count"), 2))
    S.prove(ctx, ob, "ancestor_learns_the_late_parent_as_descendant", pre, T.ge(final("G", "descendants_count"), 2))
    S.prove(ctx, ob, "late_parent_descendant_aggregates_equal_recomputation", pre,
            T.and_(T.eq(final("P", "descendants_count"), 2), T.eq(final("P", "descendants_size"), T.add(own("P", "size"), own("C", "size")))))
    S.prove(ctx, ob, "ancestor_descendant_aggregates_equal_recomputation", pre,
            T.and_(T.eq(final("G", "descendants_count"), 3), T.eq(final("G", "descendants_size"), T.add(T.add(own("G", "size"), own("P", "size")), own("C", "size")))))
    S.prove(ctx, ob, "child_ancestor_aggregates_equal_recomputation", pre,
            T.and_(T.eq(final("C", "ancestors_count"), 3), T.eq(final("C", "ancestors_size"), T.add(T.add(own("G", "size"), own("P", "size")), own("C", "size")))))
    S.witness(ctx, ob, "reach", pre, T.gt(own("C", "size"), 1))


def m10_aggregates_after_removing_a_subtree(S):
    """One `PoolMap::remove_entry_and_descendants(root)` step (conflict resolution, eviction and RBF all remove a transaction together with its descendants) from a valid pool
    state, over a model of the entry table with the real remove_entry / update_*_index_key / sub_*_weight code, for two dependency graphs: the chain G -> P -> C (remove P) and
    the DIAMOND A -> B -> D <- C (remove B: D has a second, surviving parent C that is not an ancestor of B).  The removed transaction and its descendants leave the table and
    every SURVIVING entry reports aggregates equal to a recomputation from what is left."""
    _remove_subtree(S, "C11.m10", "", ("G", "P", "C"), {"G": [], "P": ["G"], "C": ["P", "G"]}, {"G": ["P", "C"], "P": ["C"], "C": []}, "P")
    _remove_subtree(S, "C11.m10", "diamond_", ("A", "B", "C", "D"), {"A": [], "B": ["A"], "C": [], "D": ["B", "A", "C"]}, {"A": ["B", "D"], "B": ["D"], "C": ["D"], "D": []}, "B")


def _remove_subtree(S, ob, tag, nodes, anc0, desc0, root):
    from mir2smt.exec import ListV
    from mir2smt.builtins import _wr
    f = [x for x in S.prog.funcs if x.kind == "fn" and x.short == "remove_entry_and_descendants" and "component/pool_map.rs" in x.name and "{closure" not in x.name]
    if len(f) != 1:
        raise Inconclusive(f"remove_entry_and_descendants: {len(f)} candidates")
    ctx = S.ctx(unwind=10)
    ctx.uninterpreted_unknown_calls = True
    ctx.max_paths = 200
    pe = struct_fields("tx-pool/src/component/pool_map.rs", "PoolEntry")
    order = struct_fields(ENTRY_RS, "TxEntry")
    ents, terms = {}, {}
    for nm_ in nodes:
        v, t, _ = entry(ctx, tag + nm_)
        ents[nm_] = AggV(tuple(v if fld == "inner" else OpaqueV(f"{nm_}.{fld}", "?") for fld in pe), "PoolEntry")
        terms[nm_] = t
    small = 1 << 32
    pre = []
    own = lambda n, k: terms[n][k]
    for nm_ in nodes:
        pre += [T.le(own(nm_, "size"), small), T.le(own(nm_, "cycles"), small), T.le(own(nm_, "fee"), small)]
    for n, anc, desc in [(n_, [n_] + anc0[n_], [n_] + desc0[n_]) for n_ in nodes]:
        for kind, members in (("ancestors", anc), ("descendants", desc)):
            pre.append(T.eq(terms[n][f"{kind}_count"], len(members)))
            for k in ("size", "cycles", "fee"):
                tot = 0
                for m_ in members:
                    tot = T.add(tot, own(m_, k))
                pre.append(T.eq(terms[n][f"{kind}_{k}"], tot))
    ids = {"id" + n_: n_ for n_ in nodes}

    def nmv(ex, v):
        v = deref(ex, v)
        return getattr(v, "name", None) or type(v).__name__

    def which(ex, v):
        n = ids.get(nmv(ex, v))
        if n is None:
            raise Stop("unknown id " + nmv(ex, v))
        return n

    def unlinked(ex):
        return {e[2][0] for e in ex.log if e[0] == "unlink"}

    def gone(ex):
        return {e[2][0] for e in ex.log if e[0] == "removed"}

    def cur_entry(ex, n):
        val = ents[n]
        for e in ex.log:
            if e[0] == "entry_set" and e[2][0] == n:
                val = e[2][1]
        return val

    def idv(n):
        return OpaqueV("id" + n, "ProposalShortId")

    def related(ex, n, table):
        u = unlinked(ex)
        if n in u:
            return []
        return [m_ for m_ in table[n] if m_ not in u]

    def modify_by_id(ex, c, a, d):
        n = which(ex, a[1])
        if n in gone(ex):
            return mk_option(False, None, d)
        cell = ex.ctx.ref_to(cur_entry(ex, n))
        ex.call_value(ex.top_frame, a[2], [cell], "()")
        ex.log.append(("entry_set", c, [n, deref(ex, cell)], list(ex.pc)))
        return mk_option(True, cell, d)

    def remove_by_id(ex, c, a, d):
        n = which(ex, a[1])
        if n in gone(ex):
            return mk_option(False, None, d)
        val = cur_entry(ex, n)
        ex.log.append(("removed", c, [n], list(ex.pc)))
        return mk_option(True, val, d)

    def get_by_id(ex, c, a, d):
        n = which(ex, a[1])
        if n in gone(ex):
            return mk_option(False, None, d)
        return mk_option(True, ex.ctx.ref_to(cur_entry(ex, n)), d)

    def vec_extend(ex, c, a, d):
        v, o = deref(ex, a[0]), deref(ex, a[1])
        if not isinstance(v, ListV) or not isinstance(o, ListV):
            raise Stop(f"Vec::extend of unmodelled collections {type(v).__name__} {str(v)[:80]} / {type(o).__name__} {str(o)[:120]}")
        _wr(ex, a[0], ListV(tuple(v.items) + tuple(o.items), v.ty))
        return UNIT

    def unlink(ex, c, a, d):
        ex.log.append(("unlink", c, [which(ex, a[1])], list(ex.pc)))
        return UNIT
    ctx.env = list(E.LOGGING_OFF) + [
        (E.rx(r"TxEntry::proposal_short_id$"), lambda ex, c, a, d: idv(re.sub(r"\..*$", "", nmv(ex, deref(ex, a[0]).fields[order.index("rtx")]))[len(tag):])),
        (E.rx(r"PoolMap::calc_descendants$|TxLinksMap::calc_descendants$"), lambda ex, c, a, d: ListV(tuple(idv(m_) for m_ in related(ex, which(ex, a[1]), desc0)), "set")),
        (E.rx(r"PoolMap::calc_ancestors$|TxLinksMap::calc_ancestors$"), lambda ex, c, a, d: ListV(tuple(idv(m_) for m_ in related(ex, which(ex, a[1]), anc0)), "set")),
        (E.rx(r"<Vec<[\w:]*ProposalShortId> as Extend<.*>>::extend"), vec_extend),
        (E.rx(r"ProposalShortId as (ToOwned|Clone)>::(to_owned|clone)$"), lambda ex, c, a, d: deref(ex, a[0])),
        (E.rx(r"PoolMap::remove_entry_links$"), unlink),
        (E.rx(r"PoolMap::(remove_entry_edges|track_entry_statics|update_stat_for_remove_tx)$"), lambda ex, c, a, d: UNIT),
        (E.rx(r"MultiIndexPoolEntryMap::modify_by_id::<"), modify_by_id),
        (E.rx(r"MultiIndexPoolEntryMap::remove_by_id(::<.*>)?$"), remove_by_id),
        (E.rx(r"MultiIndexPoolEntryMap::get_by_id(::<.*>)?$"), get_by_id),
        (E.rx(r"HashSet::<[\w:]*ProposalShortId(, [\w:]+)?>::contains"), lambda ex, c, a, d: BoolV(nmv(ex, a[1]) in [nmv(ex, x) for x in deref(ex, a[0]).items])),
        (E.rx(r"<&HashSet<[\w:]*ProposalShortId(, [\w:]+)?> as IntoIterator>::into_iter$|<HashSet<[\w:]*ProposalShortId(, [\w:]+)?> as IntoIterator>::into_iter$"), lambda ex, c, a, d: AggV((deref(ex, a[0]), IntV(0, "usize")), "ListIterRef" if isinstance(a[0], RefV) else "ListIter")),
        (E.rx(r"as Iterator>::cloned::<|as Iterator>::copied::<"), lambda ex, c, a, d: (lambda it: AggV((ListV(tuple(deref(ex, x) for x in it.fields[0].items), "Vec<?>"), it.fields[1]), "ListIter"))(deref(ex, a[0]))),
        (E.rx(r"as Iterator>::collect::<.*HashSet"), lambda ex, c, a, d: (lambda it: ListV(tuple(it.fields[0].items[it.fields[1].t:]), "set"))(deref(ex, a[0]))),
        (E.rx(r"TxEntry as Clone>::clone$"), lambda ex, c, a, d: deref(ex, a[0])),
        (E.rx(r"TxEntry::as_evict_key$|TxEntry::as_score_key$|TxEntry::transaction$|TransactionView::hash$"), E.opaque_call()),
        (E.rx(r"get_transaction_weight$"), lambda ex, c, a, d: ex.ctx.fresh_of_type("w", d)),
    ] + list(E.LIST_ADAPTORS)
    ps = S.run(ctx, f[0], [ctx.ref_to(OpaqueV("pm", "PoolMap")), ctx.ref_to(idv(root))])
    S.prove(ctx, ob, tag + "step_no_panic", pre, T.not_(cond_of(panics(ps))))
    removed_want = {root} | set(desc0[root])
    survivors = [n_ for n_ in nodes if n_ not in removed_want]
    rs = returns(ps)
    if not rs:
        raise Inconclusive("remove subtree step: no returning path")
    bad_removed, bad_agg = [], []
    for p in rs:
        lg = p.log
        if {e[2][0] for e in lg if e[0] == "removed"} != removed_want:
            bad_removed.append(p.cond())

        def final(n, fld, lg=lg):
            val = ents[n]
            for e in lg:
                if e[0] == "entry_set" and e[2][0] == n:
                    val = e[2][1]
            return as_int(val.fields[pe.index("inner")].fields[order.index(fld)])
        oks = []
        for x_ in survivors:
            dl = [x_] + [m_ for m_ in desc0[x_] if m_ not in removed_want]
            al = [x_] + [m_ for m_ in anc0[x_] if m_ not in removed_want]
            oks += [T.eq(final(x_, "descendants_count"), len(dl)), T.eq(final(x_, "ancestors_count"), len(al))]
            for k_ in ("size", "cycles", "fee"):
                td, ta = 0, 0
                for m_ in dl:
                    td = T.add(td, own(m_, k_))
                for m_ in al:
                    ta = T.add(ta, own(m_, k_))
                oks += [T.eq(final(x_, f"descendants_{k_}"), td), T.eq(final(x_, f"ancestors_{k_}"), ta)]
        ok = T.and_(*oks)
        bad_agg.append(T.and_(p.cond(), T.not_(ok)))
        if os.environ.get("VERIF_DEBUG"):
            print("DEBUG m10 path", [(e[0], e[2][0]) for e in lg if e[0] in ("entry_set", "removed")], [str(c)[:160] for c in p.pc])
    S.prove(ctx, ob, tag + "the_transaction_and_its_descendant_leave_the_table", pre, T.not_(T.or_(*bad_removed)) if bad_removed else True)
    S.prove(ctx, ob, tag + "surviving_ancestor_aggregates_equal_recomputation", pre, T.not_(T.or_(*bad_agg)))
    S.prove(ctx, ob, tag + "every_valid_state_returns", pre, T.or_(*[p.cond() for p in rs]))
    S.witness(ctx, ob, tag + "reach", pre, T.gt(own(nodes[-1], "size"), 1))


def m11_detached_proposal_readds_parents_first(S):
    """`TxPool::remove_by_detached_proposal` (a reorganisation took a proposal out of the window): the non-pending transaction and its descendants are taken out and re-added as
    pending -- PARENTS BEFORE CHILDREN (ascending order of the ancestor count they had when they were removed), each with its statistics reset to its own values, so that
    add_pending rebuilds consistent aggregates.  Two removed entries in either input order, ancestor counts symbolic; a pending transaction is left alone."""
    from mir2smt.exec import ListV
    ob = "C11.m11"
    f = [x for x in S.prog.funcs if x.kind == "fn" and x.short == "remove_by_detached_proposal" and "tx-pool/src/pool.rs" in x.name and "{closure" not in x.name]
    if len(f) != 1:
        raise Inconclusive(f"remove_by_detached_proposal: {len(f)} candidates")
    src = open(os.path.join(os.environ.get("VERIF_REPO", "/repo"), "tx-pool/src/component/pool_map.rs")).read()
    m = re.search(r"pub enum Status\s*\{([^}]*)\}", src)
    variants = [v.strip() for v in re.sub(r"//[^\n]*", "", m.group(1)).split(",") if v.strip()]
    pe = struct_fields("tx-pool/src/component/pool_map.rs", "PoolEntry")
    order = struct_fields(ENTRY_RS, "TxEntry")
    ctx = S.ctx(unwind=8)
    ctx.uninterpreted_unknown_calls = True
    status = ctx.int("status", "u8")
    ctx.add_side(T.le(status.t, len(variants) - 1))
    ea, ta, _ = entry(ctx, "A")
    eb, tb, _ = entry(ctx, "B")
    readd = []

    def nmv(ex, v):
        v = deref(ex, v)
        return getattr(v, "name", None) or type(v).__name__

    def add_pending(ex, c, a, d):
        e = deref(ex, a[1])
        who = nmv(ex, e.fields[order.index("rtx")]).split(".")[0]
        readd.append((who, {k: as_int(e.fields[order.index(k)]) for k in ("ancestors_count", "ancestors_size", "descendants_count", "descendants_size", "size")}, list(ex.pc)))
        ex.log.append(("readd", c, [who], list(ex.pc)))
        return mk_result(True, BoolV(True), OpaqueV("reject", "Reject"), d)
    pentry = AggV(tuple(EnumV(status.t, (), "Status") if fld == "status" else OpaqueV("pe." + fld, "?") for fld in pe), "PoolEntry")
    ctx.env = list(E.LOGGING_OFF) + [
        (E.rx(r"PoolMap::get_by_id$"), lambda ex, c, a, d: mk_option(True, ex.ctx.ref_to(pentry), d)),
        (E.rx(r"PoolMap::remove_entry_and_descendants$"), lambda ex, c, a, d: ListV((ea, eb), "Vec<TxEntry>")),
        (E.rx(r"TxPool::add_pending$"), add_pending),
        (E.rx(r"TxEntry::transaction$|TransactionView::hash$"), E.opaque_call()),
        (E.rx(r"get_transaction_weight$"), lambda ex, c, a, d: ex.ctx.fresh_of_type("w", d)),
        (E.rx(r"as Iterator>::for_each::<"), lambda ex, c, a, d: ([ex.call_value(ex.top_frame, a[1], [x], "()") for x in E._rest(ex, deref(ex, a[0]))], UNIT)[1]),
        (E.rx(r"core::slice::<impl \[.*TxEntry\]>::iter_mut$"), lambda ex, c, a, d: _iter_mut_cells(ex, a[0])),
    ] + list(E.LIST_ADAPTORS)
    ids = E.list_source([OpaqueV("detached_id", "ProposalShortId")], owned=False)(None, "", [], "")
    ps = S.run(ctx, f[0], [ctx.ref_to(OpaqueV("pool", "TxPool")), ids])
    S.prove(ctx, ob, "no_panic", [], T.not_(cond_of(panics(ps))))
    pending = T.eq(status.t, variants.index("Pending"))
    any_readd = T.or_(*[T.and_(*pc) for _, _, pc in readd]) if readd else False
    S.prove(ctx, ob, "a_pending_transaction_is_left_alone", [pending], T.not_(any_readd))
    S.prove(ctx, ob, "a_gap_or_proposed_transaction_and_its_descendants_are_readded", [T.not_(pending)], T.and_(
        T.or_(*[T.and_(*pc) for w, _, pc in readd if w == "A"]) if readd else False, T.or_(*[T.and_(*pc) for w, _, pc in readd if w == "B"]) if readd else False))
    # order: on every path the entry re-added first had the smaller-or-equal ancestor count at removal time
    bad = []
    for p in returns(ps):
        seq = [e[2][0] for e in p.log if e[0] == "readd"]
        if seq == ["A", "B"]:
            bad.append(T.and_(p.cond(), T.gt(ta["ancestors_count"], tb["ancestors_count"])))
        elif seq == ["B", "A"]:
            bad.append(T.and_(p.cond(), T.gt(tb["ancestors_count"], ta["ancestors_count"])))
        elif seq:
            bad.append(p.cond())
    S.prove(ctx, ob, "readded_in_ascending_order_of_the_ancestor_count_at_removal_parents_first", [], T.not_(T.or_(*bad)) if bad else True)
    S.witness(ctx, ob, "reach_child_listed_first", [T.not_(pending), T.gt(ta["ancestors_count"], tb["ancestors_count"])], any_readd)
    resets = []
    for who, vals, pc in readd:
        resets.append(T.implies(T.and_(*pc), T.and_(T.eq(vals["ancestors_count"], 1), T.eq(vals["descendants_count"], 1), T.eq(vals["ancestors_size"], vals["size"]), T.eq(vals["descendants_size"], vals["size"]))))
    S.prove(ctx, ob, "each_readded_entry_has_its_statistics_reset_to_its_own_values", [], T.and_(*resets) if resets else False)


def _iter_mut_cells(ex, vec_ref):
    """`slice.iter_mut()` over a concrete-length list: an iterator of references into fresh cells; the cells are written back to the list when the iterator is consumed
    by `for_each` (handled by reading the cells afterwards is not needed: the closure writes through RefV into the list local itself)"""
    from mir2smt.exec import ListV
    lst = deref(ex, vec_ref)
    refs = []
    for i in range(len(lst.items)):
        refs.append(RefV(vec_ref.frame, vec_ref.local, tuple(vec_ref.proj) + (("cindex", i),)))
    return AggV((ListV(tuple(refs), "Vec<&mut TxEntry>"), IntV(0, "usize")), "ListIter")


def m12_rbf_pays_for_everything_it_replaces(S):
    """`TxPool::check_rbf` with one directly conflicting pooled transaction X that has one pooled descendant Y (everything `process_rbf` will evict): the minimum replacement fee is
    computed over ALL replaced transactions (X and Y, via calculate_min_replace_fee), the replacement is admitted only if its fee is at least that minimum and none of the
    structural rules fires (each rule's predicate is a symbolic boolean), and the set reported back is the set of direct conflicts."""
    from mir2smt.exec import ListV
    from mir2smt.builtins import _wr
    ob = "C11.m12"
    f = [x for x in S.prog.funcs if x.kind == "fn" and x.short == "check_rbf" and "tx-pool/src/pool.rs" in x.name and "{closure" not in x.name]
    if len(f) != 1:
        raise Inconclusive(f"check_rbf: {len(f)} candidates")
    pe = struct_fields("tx-pool/src/component/pool_map.rs", "PoolEntry")
    ctx = S.ctx(unwind=8)
    ctx.uninterpreted_unknown_calls = True
    ctx.max_paths = 4000
    new_entry, tn, order = entry(ctx, "N")
    minfee = ctx.int("min_replace_fee", "u64"); has_min = ctx.bool("min_replace_fee_computable")
    asked = []

    def nmv(ex, v):
        v = deref(ex, v)
        return getattr(v, "name", None) or type(v).__name__

    def pool_entry(n):
        return AggV(tuple(OpaqueV("id" + n, "ProposalShortId") if fld == "id" else OpaqueV(f"{n}.{fld}", "?") for fld in pe), "PoolEntry")
    pes = {"idX": pool_entry("X"), "idY": pool_entry("Y")}

    def get_pool_entry(ex, c, a, d):
        k = nmv(ex, a[1])
        if k not in pes:
            raise Stop("get_pool_entry of " + k)
        return mk_option(True, ex.ctx.ref_to(pes[k]), d)

    def any_(ex, c, a, d):
        k = len([e for e in ex.log if e[0] == "any"])
        ex.log.append(("any", c, [], list(ex.pc)))
        return ex.ctx.bool(f"rule_predicate_{k}")

    def min_fee(ex, c, a, d):
        lst = deref(ex, a[1])
        names = sorted(nmv(ex, deref(ex, x).fields[pe.index("id")]) for x in lst.items) if isinstance(lst, ListV) else None
        asked.append((names, list(ex.pc)))
        return mk_option(has_min.t, AggV((minfee,), "Capacity"), d)

    def vec_extend(ex, c, a, d):
        v, o = deref(ex, a[0]), deref(ex, a[1])
        if isinstance(v, ListV) and isinstance(o, ListV):
            _wr(ex, a[0], ListV(tuple(v.items) + tuple(o.items), v.ty))
            return UNIT
        return UNIT
    setlist = lambda *names: ListV(tuple(OpaqueV(n, "ProposalShortId") for n in names), "set")
    ctx.env = list(E.LOGGING_OFF) + [
        (E.rx(r"TxPool::enable_rbf$"), lambda ex, c, a, d: BoolV(True)),
        (E.rx(r"TxEntry::transaction$"), lambda ex, c, a, d: ex.ctx.ref_to(OpaqueV("tx_of." + nmv(ex, deref(ex, a[0]).fields[order.index("rtx")] if isinstance(deref(ex, a[0]), AggV) else a[0]), "TransactionView"))),
        (E.rx(r"TxEntry::proposal_short_id$"), lambda ex, c, a, d: OpaqueV("idN", d)),
        (E.rx(r"TransactionView::input_pts_iter$"), lambda ex, c, a, d: E.list_source([OpaqueV("in." + nmv(ex, a[0]), "OutPoint")])(ex, c, a, d)),
        (E.rx(r"TransactionView::cell_deps_iter$"), lambda ex, c, a, d: E.list_source([])(ex, c, a, d)),
        (E.rx(r"PoolMap::find_conflict_tx$"), lambda ex, c, a, d: setlist("idX")),
        (E.rx(r"PoolMap::calc_ancestors$"), lambda ex, c, a, d: setlist()),
        (E.rx(r"PoolMap::calc_descendants$"), lambda ex, c, a, d: setlist("idY") if nmv(ex, a[1]) == "idX" else setlist()),
        (E.rx(r"TxPool::get_pool_entry$"), get_pool_entry),
        (E.rx(r"HashSet::<[\w:]*ProposalShortId(, [\w:]+)?>::(is_empty|len)$"), lambda ex, c, a, d: BoolV(len(deref(ex, a[0]).items) == 0) if c.endswith("is_empty") else IntV(len(deref(ex, a[0]).items), "usize")),
        (E.rx(r"HashSet::<[\w:]*ProposalShortId(, [\w:]+)?>::iter$"), lambda ex, c, a, d: AggV((deref(ex, a[0]), IntV(0, "usize")), "ListIterRef")),
        (E.rx(r"HashSet::<[\w:]*ProposalShortId(, [\w:]+)?>::is_disjoint$"), lambda ex, c, a, d: ex.ctx.bool("descendants_disjoint_from_new_ancestors")),
        (E.rx(r"HashSet::<[\w:]*OutPoint(, [\w:]+)?>::new$"), lambda ex, c, a, d: OpaqueV("inputs_set", d)),
        (E.rx(r"<HashSet<[\w:]*OutPoint(, [\w:]+)?> as Extend<.*>>::extend"), lambda ex, c, a, d: UNIT),
        (E.rx(r"<Vec<&[\w:]*PoolEntry> as Extend<.*>>::extend"), vec_extend),
        (E.rx(r"as Iterator>::any::<"), any_),
        (E.rx(r"TxPool::calculate_min_replace_fee$"), min_fee),
        (E.rx(r"Reject::RBFRejected$"), lambda ex, c, a, d: OpaqueV("rbf_rejected", d)),
        (E.rx(r"fmt::|format|to_string$|ToString"), E.opaque_call()),
    ] + list(E.LIST_ADAPTORS)
    ps = S.run(ctx, f[0], [ctx.ref_to(OpaqueV("pool", "TxPool")), ctx.ref_to(OpaqueV("snapshot", "Snapshot")), ctx.ref_to(new_entry)])
    S.prove(ctx, ob, "no_panic", [], T.not_(cond_of(panics(ps))))
    S.prove(ctx, ob, "minimum_fee_is_computed_over_the_conflict_and_its_descendants", [], bool(asked and all(n == ["idX", "idY"] for n, _ in asked)), extra={"note": str([n for n, _ in asked][:3])})
    oks = [p for p in returns(ps) if isinstance(p.value, EnumV) and p.value.disc == 0]
    accept = T.or_(*[p.cond() for p in oks]) if oks else False
    reached = T.or_(*[T.and_(*pc) for _, pc in asked]) if asked else False
    S.prove(ctx, ob, "admitted_only_if_the_fee_covers_the_minimum_over_all_replaced", [], T.implies(accept, T.and_(reached, has_min.t, T.ge(tn["fee"], minfee.t))))
    S.prove(ctx, ob, "admitted_when_no_rule_fires_and_the_fee_covers_the_minimum", [reached, has_min.t, T.ge(tn["fee"], minfee.t)], accept)
    ret_sets = [sorted(nmv(None, x) for x in p.value.payload(0)[0].items) if isinstance(p.value.payload(0)[0], ListV) else None for p in oks]
    S.prove(ctx, ob, "reports_the_direct_conflicts", [], bool(ret_sets and all(r == ["idX"] for r in ret_sets)), extra={"note": str(ret_sets[:2])})
    S.witness(ctx, ob, "reach_accept", [], accept)


def m13_links_closure(S):
    """`TxLinksMap` (tx-pool/src/component/links.rs) with its hash containers as association lists with SYMBOLIC keys: n transactions are registered (`add_link`), m child links
    with symbolic end points are added (`add_child`; an end point may be any registered id, another symbol, or the source itself -- cycles and dangling targets included), then
    `calc_descendants(x)` for a symbolic x.  Decided for every aliasing of the ids: a link is recorded iff its source is registered; the answer is exactly the set of ids reachable
    from x over recorded links in one or more steps (the transitive closure the ancestor/descendant counts, eviction and replacement rely on), and the loop terminates also on cycles."""
    from mir2smt import symmap as SM
    from mir2smt.exec import Driver, ListV, EnumV
    ob = "C11.m13"
    imp = r"links::<impl at tx-pool/src/component/links.rs:\d+:1: \d+:16>::"
    fn = lambda short, np: [x for x in S.prog.funcs if x.kind == "fn" and re.search(imp + short + "$", x.name) and len(x.params) == np]
    f_add, f_child, f_desc = fn("add_link", 3), fn("add_child", 3), fn("calc_descendants", 2)
    if not (len(f_add) == len(f_child) == len(f_desc) == 1):
        raise Inconclusive("TxLinksMap functions not found")
    f_add, f_child, f_desc = f_add[0], f_child[0], f_desc[0]
    tl = struct_fields("tx-pool/src/component/links.rs", "TxLinks")
    for n, m in (((2, 2), (3, 2)) if S.tier == "quick" else ((2, 2), (3, 2), (3, 3))):
        ctx = S.ctx(unwind=2 * (n + m) + 8)
        ctx.uninterpreted_unknown_calls = True
        ctx.prune_with_solver = True
        ctx.max_paths = 80000
        ids = [ctx.int(f"id!tx{i}", "u64").t for i in range(n)]
        src = [ctx.int(f"id!src{k}", "u64").t for k in range(m)]
        dst = [ctx.int(f"id!dst{k}", "u64").t for k in range(m)]
        x = ctx.int("id!x", "u64").t
        for i in range(n):
            for j in range(i):
                ctx.add_side(T.ne(ids[i], ids[j]))        # registered transactions are different transactions
        links = ctx.ref_to(AggV((SM.MapV((), "HashMap<ProposalShortId, TxLinks>"),), "TxLinksMap"))
        ctx.env = list(E.LOGGING_OFF) + [
            (E.rx(r"<ProposalShortId as Clone>::clone$"), lambda ex, c, a, d: deref(ex, a[0])),
        ] + SM.handlers(r"(ckb_types::packed::)?ProposalShortId") + SM.EXTRAS + list(E.LIST_ADAPTORS)
        oid = lambda name: OpaqueV(name, "ProposalShortId")

        def body(ex):
            for i in range(n):
                ex.call_function(f_add, [links, oid(f"tx{i}"), AggV(tuple(SM.MapV((), "HashSet<ProposalShortId>", True) for _ in tl), "TxLinks")])
            rec = []
            for k in range(m):
                r_ = ex.call_function(f_child, [links, ex.ctx.ref_to(oid(f"src{k}")), oid(f"dst{k}")])
                rec.append(r_.disc if isinstance(r_, EnumV) and isinstance(r_.disc, int) else None)
            out = ex.call_function(f_desc, [links, ex.ctx.ref_to(oid("x"))])
            return rec, [it_[0] for it_ in out.items] if isinstance(out, SM.MapV) else None
        ps = S.run(ctx, Driver(f"links_{n}_txs_{m}_links_then_descendants", body), [])
        tag = f"{n}_txs_{m}_links"
        S.prove(ctx, ob, f"{tag}_no_panic_and_the_closure_loop_terminates", [], T.not_(cond_of(panics(ps))))
        reg = lambda t: T.or_(*[T.eq(t, i_) for i_ in ids])
        live = [reg(src[k]) for k in range(m)]
        # reachable from x in >= 1 steps over the recorded links (m rounds suffice for m links)
        R = [T.and_(live[k], T.eq(src[k], x)) for k in range(m)]          # R[k]: dst_k is reached through link k
        for _ in range(m):
            R = [T.and_(live[k], T.or_(T.eq(src[k], x), *[T.and_(R[j], T.eq(dst[j], src[k])) for j in range(m) if j != k])) for k in range(m)]
        g_rec, g_set = [], []
        for pth in returns(ps):
            rec, items = pth.value
            c = pth.cond()
            g_rec.append(T.implies(c, T.and_(*[T.iff(bool(rec[k] == 1), live[k]) if rec[k] is not None else False for k in range(m)])))
            if items is None:
                g_set.append(T.not_(c))
                continue
            g_set.append(T.implies(c, T.and_(*[T.iff(T.or_(*[T.and_(R[j], T.eq(dst[j], dst[k])) for j in range(m)]), T.or_(*[T.eq(t, dst[k]) for t in items]) if items else False) for k in range(m)],
                                             *[T.or_(*[T.and_(R[k], T.eq(t, dst[k])) for k in range(m)]) for t in items],
                                             *[T.ne(items[a_], items[b_]) for a_ in range(len(items)) for b_ in range(a_)])))
        S.prove(ctx, ob, f"{tag}_a_child_link_is_recorded_iff_its_source_is_a_pooled_transaction", [], T.and_(*g_rec))
        S.prove(ctx, ob, f"{tag}_descendants_are_exactly_the_ids_reachable_over_recorded_links", [], T.and_(*g_set))
        S.witness(ctx, ob, f"{tag}_reach_two_step_chain", [], T.and_(T.eq(src[0], x), T.eq(dst[0], src[1]), live[0], live[1], T.ne(dst[1], dst[0])))
        S.witness(ctx, ob, f"{tag}_reach_cycle", [], T.and_(T.eq(src[0], x), T.eq(dst[0], src[1]), T.eq(dst[1], src[0]), live[0], live[1]))


OBLIGATIONS = [m1_aggregate_steps, m2_initial_and_reset, m3_score_key, m4_evict_key, m5_reported_info, m6_score_key_transitive, m7_counters, m8_links_recorded_for_a_new_entry, m9_aggregates_after_a_late_parent, m10_aggregates_after_removing_a_subtree, m11_detached_proposal_readds_parents_first, m12_rbf_pays_for_everything_it_replaces, m13_links_closure]
TECHNIQUE = "symbolic execution of rustc MIR -> integer-theory SMT (cvc5 + z3); counterexamples replayed in a native build of the same source files"
DESIGN_REF = "DESIGN.md section 4 (C11)"

# ---- extended claim (session 3)
BOUNDS = dict(BOUNDS, m8="record_entry_descendants: one output, reader / consumer presence symbolic", m9_m10="one step from the three-entry state G -> P -> C (entry table modelled by three symbolic entries, link closure as environment); all sizes/cycles/fees below 2^32")
LEVEL_TEXT = LEVEL_TEXT + " m8: links recorded for a new entry (dep readers AND consumer become children, parents/children sets, which propagation runs). m9/m10: one-step aggregate consistency of add_entry with already pooled descendants and of remove_entry_and_descendants, executing the real update_*_index_key / add_*/sub_*_weight code over a three-entry model (m9: known finding; m10: defect repaired)."
LEVEL_NOTE = "Partial claim (entry-level kernels, link recording, two one-step aggregate scenarios). The multi-index container, edges/links maps themselves, RBF candidate sets and eviction over the whole pool: outside."

# ---- extended claim (session 4)
LEVEL_TEXT = LEVEL_TEXT + " m13: the link map's descendant closure equals reachability over recorded links for every graph over symbolic ids (<= 3 transactions, <= 3 links, cycles included)."
LEVEL_NOTE = LEVEL_NOTE + ' Link closure: bounded number of links, containers modelled as association lists with symbolic keys.'


def m14_resolve_conflict(S):
    """`PoolMap::resolve_conflict(committed tx)` with the real `Edges` (input index: out-point -> spender, dep index: out-point -> readers) as containers with SYMBOLIC out-points:
    pooled A spends oA, pooled B and C read oD as a cell dep; a committed transaction with two inputs i0, i1.  Decided for every coincidence of the out-points: A is removed (with
    its descendants) iff oA is one of the committed inputs, B and C iff oD is; each removed entry is reported `Dead(i)` for the committed input i that equals the index key; the index
    rows of the consumed out-points are gone afterwards and no other row is touched -- so no pooled transaction keeps spending or reading a cell the new chain consumed"""
    from mir2smt import symmap as SM
    from mir2smt.exec import ListV
    from mir2smt.srcinfo import field_index
    ob = "C11.m14"
    f = [x for x in S.prog.funcs if x.kind == "fn" and x.short == "resolve_conflict" and "component/pool_map.rs" in x.name and "{closure" not in x.name and len(x.params) == 2]
    if len(f) != 1:
        raise Inconclusive(f"PoolMap::resolve_conflict: {len(f)} candidates")
    PM = field_index("tx-pool/src/component/pool_map.rs", "PoolMap")
    ED = field_index("tx-pool/src/component/edges.rs", "Edges")
    ctx = S.ctx(unwind=14)
    ctx.uninterpreted_unknown_calls = True
    ctx.prune_with_solver = True
    ctx.max_paths = 8000
    idt = lambda n_: ctx.int("id!" + n_, "u64").t
    ctx.add_side(T.ne(idt("oA"), idt("oD")))          # keys of one map are different out-points; a cell can be spent by A and read by B/C at once only under different keys
    for x_, y_ in (("A", "B"), ("A", "C"), ("B", "C")):
        ctx.add_side(T.ne(idt(x_), idt(y_)))
    op = lambda n_: OpaqueV(n_, "OutPoint")
    pid = lambda n_: OpaqueV(n_, "ProposalShortId")
    inputs = SM.MapV(((idt("oA"), ctx.ref_to(pid("A")), op("oA")),), "HashMap<OutPoint, ProposalShortId>")
    readers = SM.MapV(((idt("B"), None, pid("B")), (idt("C"), None, pid("C"))), "HashSet<ProposalShortId>", True)
    deps = SM.MapV(((idt("oD"), ctx.ref_to(readers), op("oD")),), "HashMap<OutPoint, HashSet<ProposalShortId>>")
    edges = AggV(tuple({"inputs": inputs, "deps": deps}.get(k, OpaqueV("edges." + k, "?")) for k, _ in sorted(ED.items(), key=lambda kv: kv[1])), "Edges")
    pm = ctx.ref_to(AggV(tuple((edges if k == "edges" else OpaqueV("pm." + k, "?")) for k, _ in sorted(PM.items(), key=lambda kv: kv[1])), "PoolMap"))

    def nm(ex, v):
        v = deref(ex, v) if ex is not None else v
        return getattr(v, "name", None) or type(v).__name__

    def remove(ex, c, a, d):
        t = nm(ex, a[1])
        ex.log.append(("removed", c, [t], list(ex.pc)))
        return ListV((OpaqueV("entry_" + t, "TxEntry"), OpaqueV("child_of_" + t, "TxEntry")), "Vec<TxEntry>")
    ctx.env = list(E.LOGGING_OFF) + [
        (E.rx(r"TransactionView::input_pts_iter$"), E.list_source([op("i0"), op("i1")])),
        (E.rx(r"PoolMap::remove_entry_and_descendants$"), remove),
        (E.rx(r"<(ckb_types::packed::)?(OutPoint|ProposalShortId) as Clone>::clone$"), lambda ex, c, a, d: deref(ex, a[0])),
        (E.rx(r"repeat_n::<"), lambda ex, c, a, d: E._owned([a[0]] * deref(ex, a[1]).t)),
    ] + SM.handlers(r"(ckb_types::packed::)?(OutPoint|ProposalShortId)") + SM.EXTRAS + list(E.LIST_ADAPTORS)
    ps = S.run(ctx, f[0], [pm, ctx.ref_to(OpaqueV("committed_tx", "TransactionView"))])
    S.prove(ctx, ob, "no_panic", [], T.not_(cond_of(panics(ps))))
    spent = lambda o_: T.or_(T.eq(idt(o_), idt("i0")), T.eq(idt(o_), idt("i1")))
    rs = returns(ps)
    for who, key in (("A", "oA"), ("B", "oD"), ("C", "oD")):
        when = T.or_(*[p.cond() for p in rs if who in [e[2][0] for e in p.log if e[0] == "removed"]])
        S.prove(ctx, ob, f"{who}_is_removed_iff_the_committed_transaction_consumes_the_cell_it_{'spends' if who == 'A' else 'reads'}", [], T.iff(when, spent(key)))
    goals = []
    from mir2smt.exec import post_value
    for p in rs:
        rem = [e[2][0] for e in p.log if e[0] == "removed"]
        v = p.value
        ok = isinstance(v, ListV) and len(v.items) == 2 * len(rem) and len(set(rem)) == len(rem)
        terms = []
        if ok:
            for k, t in enumerate(rem):
                for j, whoe in enumerate((f"entry_{t}", f"child_of_{t}")):
                    ent, rej = v.items[2 * k + j].fields
                    ok = ok and getattr(ent, "name", None) == whoe
                    leaf = _leaf_name11(rej)
                    ok = ok and leaf in ("i0", "i1")
                    if leaf in ("i0", "i1"):
                        terms.append(T.eq(idt(leaf), idt("oA" if t == "A" else "oD")))
        # index rows afterwards
        post = post_value(ctx, p, pm)
        e_ = post.fields[PM["edges"]]
        ins, dps = e_.fields[ED["inputs"]], e_.fields[ED["deps"]]
        terms.append(T.iff(bool(len(ins.items) == 1), T.not_(spent("oA"))))
        terms.append(T.iff(bool(len(dps.items) == 1), T.not_(spent("oD"))))
        ok = ok and len(ins.items) <= 1 and len(dps.items) <= 1
        goals.append(T.implies(p.cond(), T.and_(bool(ok), *terms)))
    S.prove(ctx, ob, "removed_entries_and_descendants_are_reported_dead_for_the_consumed_out_point_and_its_index_rows_are_gone", [], T.and_(*goals) if goals else False)
    S.witness(ctx, ob, "reach_both_consumed_by_different_inputs", [], T.and_(T.eq(idt("oA"), idt("i0")), T.eq(idt("oD"), idt("i1"))))


def _leaf_name11(v):
    seen = []

    def walk(x):
        if isinstance(x, OpaqueV):
            seen.append(x.name)
        elif isinstance(x, EnumV):
            for _, pl in x.payloads:
                for y in pl:
                    walk(y)
        elif isinstance(x, AggV):
            for y in x.fields:
                walk(y)
    walk(v)
    return seen[0] if len(seen) == 1 else None


OBLIGATIONS = OBLIGATIONS + [m14_resolve_conflict]
