"""C18 — the indexer's rows follow the chain (engine M, partial: append / rollback of one block on the key-value rows).

Claimed (partial): `Indexer::append` and `Indexer::rollback` (util/indexer/src/indexer.rs, generic over the store) are executed from their MIR on block scenarios
with the key-value store as an environment: `get` answers from a scenario state, every `put_kv` / `delete` of the batch is logged with the *structured* key (variant and
fields of `Key`, before byte encoding) and value. Decided:

 m1  append writes, for every output, the live-cell row (OutPoint -> Cell(block, tx index, output, data)), the lock (and type, when present) rows of the cell index and of the
     transaction index under (script, block, tx index, output index); for every input of a non-cellbase transaction whose cell is indexed it deletes the live-cell rows under the
     coordinates of the block that CREATED the cell, adds the transaction-index rows under this block's coordinates, and keeps the consumed cell (ConsumedOutPoint) for undo;
     a TxHash row and a Header row record what rollback needs;
 m2  rollback after append restores the state: every row except the ConsumedOutPoint undo records equals the state before the append (cells consumed from earlier blocks, a
     cell created and consumed inside the block, typed and untyped cells) -- "rolling back the last appended block restores every answer".

 m4  `IndexerHandle::get_transactions` (service.rs) on two index rows under the searched prefix: the scan runs over the transaction index of the searched script kind; the script
     filter is looked up in the transaction index of the OTHER kind under the coordinates and cell type decoded from the row at hand; the answer is exactly the rows that are under the
     prefix, have the exact key length in exact mode, pass the filter and lie in the block range, in scan order, at most `limit`; grouped answers join consecutive rows of one transaction.

 m5  `IndexerHandle::get_cells` on two rows of the live-cell index, one filter at a time: the cell is loaded by the out-point (row value = tx hash, last 4 key bytes = index) of the
     row at hand; script prefix / script length filters look at the cell's OTHER script (a cell without type script fails a type prefix filter and has length 0); data prefix /
     exact / partial, data length, capacity and block ranges are half-open; the answer is exactly the passing rows under the prefix in scan order, at most `limit`, each item with
     that row's cell, out-point, coordinates, and the data iff asked.
 m6  `IndexerHandle::get_cells_capacity`: same scan and filters; the capacity answered is the sum over exactly the rows get_cells would list (found: the script length range was
     end-inclusive here and end-exclusive in get_cells -- repaired), with the hash and number decoded from the newest header row; without a header row there is no answer.
 m7  `TryInto<FilterOptions> for IndexerSearchKey`: each option comes from the same-named JSON field only (ranges as [start, end] of their own range, output data with the given
     mode or Prefix, `with_data` default true); too long filter script args are refused.
 m8  `build_query_options`: prefix = table byte of the searched script kind ++ raw searched script; start key, direction and skip for ascending / descending order with and
     without a cursor.

Outside: the byte encodings of keys and values (`From<Key> for Vec<u8>`, `parse_cell_value`; modelled as injective records),  custom filters, prune, the pool, the rich indexer (SQL).
"""
import os
import re
from mir2smt.ob import *
from mir2smt import terms as T
from mir2smt.exec import StrV, OpaqueV, IntV, BoolV, AggV, EnumV, RefV, ListV, UNIT, Stop, mk_option, mk_result
from mir2smt import envlib as E
from mir2smt.builtins import deref

CRATES = ["ckb-indexer"]

KEY_VARIANTS = ["OutPoint", "ConsumedOutPoint", "CellLockScript", "CellTypeScript", "TxLockScript", "TxTypeScript", "TxHash", "Header"]
VALUE_VARIANTS = ["Cell", "TxHash", "TransactionInputs", "Transactions"]


def _variants(name):
    """variant names of an enum of indexer.rs in declaration order (read from the source, so a reordering is followed)"""
    s = open(os.path.join(os.environ.get("VERIF_REPO", "/repo"), "util/indexer/src/indexer.rs")).read()
    m = re.search(r"pub enum " + name + r"(?:<'a>)? \{(.*?)\n\}", s, re.S)
    if not m:
        raise Inconclusive(f"enum {name} not found")
    out = []
    for line in m.group(1).split("\n"):
        line = line.strip()
        mm = re.match(r"([A-Z]\w*)\s*(\(|,|=|$)", line)
        if mm and not line.startswith("//"):
            out.append(mm.group(1))
    return out


class World:
    """scenario: transactions of the block, out-points, cells; the key-value state as python dict key -> record"""

    def __init__(self, number, txs, known):
        self.number = number            # block number (concrete)
        self.txs = txs                  # list of dict(inputs=[out-point names], outputs=[(cell name, typed?)])
        self.known = known              # out-point name -> record ("Cell", gen block, gen tx index, cell name, data name) for cells already indexed
        self.state = {}
        self.handles = {}               # Vec<u8> handle name -> record
        self.ops = []
        self.n = 0
        for op, rec in known.items():
            self.state[("OutPoint", op)] = rec
            cell = rec[3]
            self.state[("CellLockScript", f"lock({cell})", rec[1], rec[2], self.op_index(op))] = ("TxHash", self.op_txhash(op))
            if self.typed(cell):
                self.state[("CellTypeScript", f"type({cell})", rec[1], rec[2], self.op_index(op))] = ("TxHash", self.op_txhash(op))

    # out-points are named "op(<tx hash name>,<index>)"
    @staticmethod
    def op_txhash(op):
        return re.fullmatch(r"op\((.*),(\d+)\)", op).group(1)

    @staticmethod
    def op_index(op):
        return int(re.fullmatch(r"op\((.*),(\d+)\)", op).group(2))

    def typed(self, cell):
        return cell.endswith("T")

    def handle(self, rec):
        self.n += 1
        h = f"bytes#{self.n}"
        self.handles[h] = rec
        return OpaqueV(h, "Vec<u8>")

    def apply(self):
        for op in self.ops:
            if op[0] == "put":
                self.state[op[1]] = op[2]
            else:
                self.state.pop(op[1], None)
        self.ops = []


def nm(ex, v):
    v = deref(ex, v) if ex is not None else v
    if isinstance(v, IntV):
        return v.t if isinstance(v.t, int) else (v.t[2] if isinstance(v.t, tuple) and v.t[0] == "var" else str(v.t))
    if isinstance(v, BoolV):
        return v.t if isinstance(v.t, bool) else str(v.t)
    if isinstance(v, EnumV):
        return ("enum", v.disc) + tuple(nm(ex, x) for x in (v.payload(v.disc) if isinstance(v.disc, int) and v.payloads else ()))
    if isinstance(v, ListV):
        return tuple(nm(ex, x) for x in v.items)
    if isinstance(v, AggV):
        return tuple(nm(ex, x) for x in v.fields)
    return getattr(v, "name", None) or type(v).__name__


def _env(W, keyv, valv):
    def key_of(ex, v):
        v = deref(ex, v)
        if isinstance(v, OpaqueV) and v.name in W.handles:
            return W.handles[v.name]
        if not isinstance(v, EnumV) or not isinstance(v.disc, int):
            raise Stop(f"key is not a concrete Key variant: {str(v)[:80]}")
        f = [nm(ex, x) for x in v.payload(v.disc)] if v.payloads else []
        f = [(("Input", "Output")[x[1]] if isinstance(x, tuple) and x and x[0] == "enum" else x) for x in f]
        return (keyv[v.disc],) + tuple(f)

    def val_of(ex, v):
        v = deref(ex, v)
        if isinstance(v, OpaqueV) and v.name in W.handles:
            return W.handles[v.name]
        if isinstance(v, ListV) and not v.items:
            return ("Empty",)
        if not isinstance(v, EnumV) or not isinstance(v.disc, int):
            raise Stop(f"value is not a concrete Value variant: {str(v)[:80]}")
        return (valv[v.disc],) + tuple(nm(ex, x) for x in v.payload(v.disc))

    def put_kv(ex, c, a, d):
        W.ops.append(("put", key_of(ex, a[1]), val_of(ex, a[2])))
        return mk_result(True, UNIT, OpaqueV("err", "Error"), d)

    def delete(ex, c, a, d):
        W.ops.append(("del", key_of(ex, a[1])))
        return mk_result(True, UNIT, OpaqueV("err", "Error"), d)

    def into_vec(ex, c, a, d):
        return W.handle(key_of(ex, a[0]))

    def value_into(ex, c, a, d):
        return W.handle(val_of(ex, a[0]))

    def get(ex, c, a, d):
        k = key_of(ex, a[1])
        # reads see the committed state only (the batch is not visible before commit)
        rec = W.state.get(k)
        return mk_result(True, mk_option(rec is not None, W.handle(rec) if rec is not None else None, "Option<Vec<u8>>"), OpaqueV("err", "Error"), d)

    def parse_cell_value(ex, c, a, d):
        rec = val_of(ex, a[0])
        if rec[0] != "Cell":
            raise Stop(f"parse_cell_value of {rec}")
        return AggV((IntV(rec[1], "u64"), IntV(rec[2], "u32"), OpaqueV(rec[3], "CellOutput"), OpaqueV(rec[4], "Bytes")), "(u64, u32, CellOutput, Bytes)")

    def txno(ex, v):
        m = re.fullmatch(r"tx(\d+)", nm(ex, v))
        if not m:
            raise Stop(f"not a block transaction: {nm(ex, v)}")
        return int(m.group(1))

    def outputs(ex, c, a, d):
        return ListV(tuple(OpaqueV(o, "CellOutput") for o in W.txs[txno(ex, a[0])]["outputs"]), "CellOutputVec")

    def outputs_data(ex, c, a, d):
        return ListV(tuple(OpaqueV("data_" + o, "Bytes") for o in W.txs[txno(ex, a[0])]["outputs"]), "BytesVec")

    def inputs(ex, c, a, d):
        k = txno(ex, a[0])
        return ListV(tuple(OpaqueV(f"in{k}_{j}", "CellInput") for j in range(len(W.txs[k]["inputs"]))), "CellInputVec")

    def previous_output(ex, c, a, d):
        m = re.fullmatch(r"in(\d+)_(\d+)", nm(ex, a[0]))
        return OpaqueV(W.txs[int(m.group(1))]["inputs"][int(m.group(2))], "OutPoint")

    def vec_into_iter(ex, c, a, d):
        v = deref(ex, a[0])
        if isinstance(v, ListV):
            return AggV((v, IntV(0, "usize")), "ListIter")
        from mir2smt.exec import ENV_PASS
        return ENV_PASS

    def vec_len(ex, c, a, d):
        return IntV(len(deref(ex, a[0]).items), "usize")

    def vec_get(ex, c, a, d):
        v, i = deref(ex, a[0]), deref(ex, a[1])
        if not isinstance(i.t, int):
            raise Stop("symbolic index")
        return mk_option(i.t < len(v.items), v.items[i.t] if i.t < len(v.items) else None, d)

    def to_opt(ex, c, a, d):
        n = nm(ex, a[0])
        m = re.fullmatch(r"typeopt\((.*)\)", n)
        cell = m.group(1)
        return mk_option(W.typed(cell), OpaqueV(f"type({cell})", "Script") if W.typed(cell) else None, d)

    def op_new(ex, c, a, d):
        return OpaqueV(f"op({nm(ex, a[0])},{nm(ex, a[1])})", d)

    def op_tx_hash(ex, c, a, d):
        return OpaqueV(W.op_txhash(nm(ex, a[0])), d)

    def op_index(ex, c, a, d):
        return IntV(W.op_index(nm(ex, a[0])), "u32")

    def b32_eq(ex, c, a, d):
        return BoolV(nm(ex, a[0]) == nm(ex, a[1]))

    def header_row(ex, c, a, d):
        """`iter.next().map(|(key, value)| parse header key/value)`: the newest Header row of the committed state"""
        rows = [(k, v) for k, v in W.state.items() if k[0] == "Header"]
        if not rows:
            return mk_option(False, None, d)
        k, v = max(rows, key=lambda kv: kv[0][1])
        if v[0] == "Empty":
            txs = ()
        else:
            txs = v[1]
        lst = ListV(tuple(AggV((OpaqueV(h, "Byte32"), IntV(n, "u32"), mk_option(i is not None and i != ("enum", 0), IntV(i[2] if isinstance(i, tuple) else 0, "u32") if (i is not None and i != ("enum", 0)) else None, "Option<u32>")),
                               "(Byte32, u32, Option<u32>)") for h, n, i in txs), "Vec<(Byte32, u32, Option<u32>)>")
        return mk_option(True, AggV((IntV(k[1], "u64"), OpaqueV(k[2], "Byte32"), BoolV(bool(k[3])), lst), "(u64, Byte32, bool, Vec)"), d)

    def chunks_exact(ex, c, a, d):
        rec = val_of(ex, a[0])
        if rec[0] == "Empty":
            return E._owned([])
        if rec[0] != "TransactionInputs":
            raise Stop(f"chunks_exact of {rec}")
        return E._owned([OpaqueV(x, "&[u8]") for x in rec[1]])

    def passthru(ex, c, a, d):
        v = deref(ex, a[0])
        if isinstance(v, OpaqueV):
            return OpaqueV(v.name, d)
        return a[0]
    call = lambda tag: (lambda ex, c, a, d: OpaqueV(tag + "(" + ",".join(str(nm(ex, x)) for x in a) + ")", d))
    return list(E.LOGGING_OFF) + [
        (E.rx(r"Batch as Batch>::put_kv::<"), put_kv),
        (E.rx(r"Batch as Batch>::delete::<"), delete),
        (E.rx(r"Batch as Batch>::commit$"), lambda ex, c, a, d: mk_result(True, UNIT, OpaqueV("err", "Error"), d)),
        (E.rx(r"<S as Store>::batch$"), lambda ex, c, a, d: mk_result(True, OpaqueV("batch", "Batch"), OpaqueV("err", "Error"), d)),
        (E.rx(r"<S as Store>::get::<"), get),
        (E.rx(r"<S as Store>::iter::<"), lambda ex, c, a, d: mk_result(True, OpaqueV("dbiter", "StoreIterOpaque"), OpaqueV("err", "Error"), d)),
        (E.rx(r"^<Box<dyn Iterator<Item = \(Box<\[u8\]>, Box<\[u8\]>\)>> as Iterator>::next$"), lambda ex, c, a, d: mk_option(True, OpaqueV("rawrow", "(Box<[u8]>, Box<[u8]>)"), d)),
        (E.rx(r"Option::<\(Box<\[u8\]>, Box<\[u8\]>\)>::map::<"), header_row),
        (E.rx(r"Key::<'_>::into_vec$"), into_vec),
        (E.rx(r"<Value<'_> as Into<Vec<u8>>>::into$|<Vec<u8> as From<Value<'_>>>::from$"), value_into),
        (E.rx(r"Value::<'_>::parse_cell_value$"), parse_cell_value),
        (E.rx(r"CustomFilters::is_(block|cell)_filter_match$"), E.const_bool(True)),
        (E.rx(r"::is_multiple_of$"), E.const_bool(False)),
        (E.rx(r"Indexer::<S>::prune$"), lambda ex, c, a, d: mk_result(True, UNIT, OpaqueV("err", "Error"), d)),
        (E.rx(r"Option::<Arc<(std::sync::)?RwLock<(ckb_indexer_sync::)?Pool>>>::as_ref$"), lambda ex, c, a, d: mk_option(False, None, d)),
        (E.rx(r"BlockView::transactions$"), lambda ex, c, a, d: ListV(tuple(OpaqueV(f"tx{k}", "TransactionView") for k in range(len(W.txs))), "Vec<TransactionView>")),
        (E.rx(r"BlockView::number$"), lambda ex, c, a, d: IntV(W.number, "u64")),
        (E.rx(r"BlockView::hash$"), lambda ex, c, a, d: OpaqueV(f"blockhash{W.number}", d)),
        (E.rx(r"TransactionView::hash$"), lambda ex, c, a, d: OpaqueV("hash(" + str(nm(ex, a[0])) + ")" + (f"@{W.number}" if getattr(W, "block_tag", False) else ""), d)),
        (E.rx(r"TransactionView::outputs$"), outputs),
        (E.rx(r"TransactionView::outputs_data$"), outputs_data),
        (E.rx(r"TransactionView::inputs$"), inputs),
        (E.rx(r"CellInput::previous_output$"), previous_output),
        (E.rx(r"<(CellOutputVec|CellInputVec|BytesVec) as IntoIterator>::into_iter$"), vec_into_iter),
        (E.rx(r"(CellOutputVec|CellInputVec|BytesVec)::len$"), vec_len),
        (E.rx(r"(CellOutputVec|CellInputVec|BytesVec)::get$"), vec_get),
        (E.rx(r"CellOutput::lock$"), call("lock")),
        (E.rx(r"CellOutput::type_$"), call("typeopt")),
        (E.rx(r"ScriptOpt::to_opt$"), to_opt),
        (E.rx(r"shortcut::<impl (ckb_types::packed::)?OutPoint>::new$"), op_new),
        (E.rx(r"OutPoint::tx_hash$"), op_tx_hash),
        (E.rx(r"OutPoint::index$"), op_index),
        (E.rx(r"<Uint32 as Into<u(32|size)>>::into$"), lambda ex, c, a, d: IntV(deref(ex, a[0]).t, "usize" if "usize" in c else "u32")),
        (E.rx(r"Byte32 as PartialEq>::eq$"), b32_eq),
        (E.rx(r"core::slice::<impl \[u8\]>::chunks_exact$"), chunks_exact),
        (E.rx(r"OutPoint as (ckb_types::prelude::)?Entity>::from_slice$|OutPoint::from_slice$"), lambda ex, c, a, d: mk_result(True, OpaqueV(nm(ex, a[0]), "OutPoint"), OpaqueV("verr", "VerificationError"), d)),
        (E.rx(r"as Deref>::deref$|as Clone>::clone$|::as_slice$|::as_ref$|as Borrow<.*>>::borrow$"), passthru),
    ] + list(E.LIST_ADAPTORS)


def _fn(S, short):
    f = [x for x in S.prog.funcs if x.kind == "fn" and x.short == short and "util/indexer/src/indexer.rs:312" in x.name and len(x.params) == (2 if short == "append" else 1)]
    if len(f) != 1:
        raise Inconclusive(f"Indexer::{short}: {len(f)} candidates")
    return f[0]


def _run(S, W, short, keyv, valv):
    ctx = S.ctx(unwind=16)
    ctx.uninterpreted_unknown_calls = True
    ctx.env = _env(W, keyv, valv)
    args = [ctx.ref_to(OpaqueV("indexer", "Indexer<S>"))]
    if short == "append":
        args.append(ctx.ref_to(OpaqueV("block", "BlockView")))
    W.ops = []
    ps = S.run(ctx, _fn(S, short), args)
    return ctx, ps


def _ok(ps):
    return bool(len(ps) == 1 and ps[0].outcome == "return" and isinstance(ps[0].value, EnumV) and ps[0].value.disc == 0)


def _scenarios():
    """(name, block number, transactions, indexed cells). Cell names ending in T carry a type script."""
    old = lambda op, bn, ti, cell: (op, ("Cell", bn, ti, cell, "data_" + cell))
    return [
        ("cellbase_only", 7, [dict(inputs=["op(null,4294967295)"], outputs=["c0"])], {}),
        ("spend_one_untyped_cell", 7, [dict(inputs=["op(null,4294967295)"], outputs=["c0"]), dict(inputs=["op(A,0)"], outputs=["c1"])], dict([old("op(A,0)", 3, 2, "pa")])),
        ("spend_typed_cell_created_at_other_tx_index", 7, [dict(inputs=["op(null,4294967295)"], outputs=["c0"]), dict(inputs=["op(A,1)"], outputs=["c1T", "c2"])], dict([old("op(A,1)", 3, 2, "paT")])),
        ("created_and_spent_in_the_block", 7, [dict(inputs=["op(null,4294967295)"], outputs=["c0"]), dict(inputs=["op(A,0)"], outputs=["c1T"]), dict(inputs=["op(hash(tx1),0)"], outputs=["c2"])],
         dict([old("op(A,0)", 5, 0, "pa")])),
        ("two_inputs_one_not_indexed", 9, [dict(inputs=["op(null,4294967295)"], outputs=["c0T"]), dict(inputs=["op(A,0)", "op(B,3)"], outputs=[])], dict([old("op(A,0)", 3, 1, "paT")])),
    ]


def m1_m2_append_then_rollback(S):
    keyv, valv = _variants("Key"), _variants("Value")
    S.prove(S.ctx(), "C18.m1", "key_and_value_variants_as_documented", [], bool(keyv == KEY_VARIANTS and valv == VALUE_VARIANTS), extra={"note": f"{keyv} {valv}"})
    for name, number, txs, known in _scenarios():
        W = World(number, txs, known)
        before = dict(W.state)
        # ---------------- append
        ctx, ps = _run(S, W, "append", keyv, valv)
        ob = "C18.m1"
        S.prove(ctx, ob, f"{name}_append_single_path_ok", [], _ok(ps), extra={"note": str([(p.outcome, str(p.value)[:80]) for p in ps])[:400]})
        ops = list(W.ops)
        want = []
        bh = f"blockhash{number}"
        created = {}
        for k, tx in enumerate(txs):
            th = f"hash(tx{k})"
            if k > 0:
                for j, op in enumerate(tx["inputs"]):
                    rec = known.get(op) or created.get(op)
                    if rec is None:
                        continue
                    cell = rec[3]
                    want.append(("del", ("CellLockScript", f"lock({cell})", rec[1], rec[2], W.op_index(op))))
                    want.append(("put", ("TxLockScript", f"lock({cell})", number, k, j, "Input"), ("TxHash", th)))
                    if W.typed(cell):
                        want.append(("del", ("CellTypeScript", f"type({cell})", rec[1], rec[2], W.op_index(op))))
                        want.append(("put", ("TxTypeScript", f"type({cell})", number, k, j, "Input"), ("TxHash", th)))
                    want.append(("del", ("OutPoint", op)))
                    want.append(("put", ("ConsumedOutPoint", number, op), rec))
            for j, cell in enumerate(tx["outputs"]):
                want.append(("put", ("CellLockScript", f"lock({cell})", number, k, j), ("TxHash", th)))
                want.append(("put", ("TxLockScript", f"lock({cell})", number, k, j, "Output"), ("TxHash", th)))
                if W.typed(cell):
                    want.append(("put", ("CellTypeScript", f"type({cell})", number, k, j), ("TxHash", th)))
                    want.append(("put", ("TxTypeScript", f"type({cell})", number, k, j, "Output"), ("TxHash", th)))
                rec = ("Cell", number, k, cell, "data_" + cell)
                want.append(("put", ("OutPoint", f"op({th},{j})"), rec))
                created[f"op({th},{j})"] = rec
            want.append(("put", ("TxHash", th), ("TransactionInputs", tuple(tx["inputs"]))))
        want.append(("put", ("Header", number, bh, False), ("Transactions", tuple((f"hash(tx{k})", len(tx["outputs"]), ("enum", 0)) for k, tx in enumerate(txs)))))
        S.prove(ctx, ob, f"{name}_append_writes_exactly_the_rows_of_the_block_in_order", [], bool(ops == want),
                extra={"note": ("extra " + str([x for x in ops if x not in want]) + " missing " + str([x for x in want if x not in ops]))[:1500]})
        W.apply()
        after_append = dict(W.state)
        # ---------------- rollback
        ob = "C18.m2"
        ctx, ps = _run(S, W, "rollback", keyv, valv)
        S.prove(ctx, ob, f"{name}_rollback_single_path_ok", [], _ok(ps), extra={"note": str([(p.outcome, str(p.value)[:80]) for p in ps])[:400]})
        W.apply()
        strip = lambda st: {k: v for k, v in st.items() if k[0] != "ConsumedOutPoint"}
        diff = {k: (strip(before).get(k), strip(W.state).get(k)) for k in set(strip(before)) | set(strip(W.state)) if strip(before).get(k) != strip(W.state).get(k)}
        S.prove(ctx, ob, f"{name}_rollback_restores_every_row_of_the_state_before_the_append", [], bool(not diff and after_append != before), extra={"note": str(diff)[:1500]})


def m3_two_blocks_then_two_rollbacks(S):
    """histories of two appends: the state the second block is applied to is produced by the real append of the first one (not by the scenario model); after one rollback
    the rows equal those after the first append, after two rollbacks the empty index"""
    ob = "C18.m3"
    keyv, valv = _variants("Key"), _variants("Value")
    cb = lambda: dict(inputs=["op(null,4294967295)"], outputs=["cb"])
    hist = [
        ("create_then_spend_in_next_block", [(7, [dict(inputs=["op(null,4294967295)"], outputs=["k0"]), dict(inputs=["op(X,0)"], outputs=["a0", "a1T"])]),
                                             (8, [dict(inputs=["op(null,4294967295)"], outputs=["k1T"]), dict(inputs=["op(hash(tx1)@7,1)", "op(hash(tx0)@7,0)"], outputs=["b0"])])]),
        ("spend_cellbase_output_of_previous_block_at_other_index", [(7, [dict(inputs=["op(null,4294967295)"], outputs=["k0T"])]),
                                                                    (8, [dict(inputs=["op(null,4294967295)"], outputs=["k1"]), dict(inputs=["op(Y,2)"], outputs=[]), dict(inputs=["op(hash(tx0)@7,0)"], outputs=["b0T"])])]),
    ]
    strip = lambda st: {k: v for k, v in st.items() if k[0] != "ConsumedOutPoint"}
    for name, blocks in hist:
        W = World(blocks[0][0], blocks[0][1], {})
        W.block_tag = True
        states = [dict(W.state)]
        for number, txs in blocks:
            W.number, W.txs = number, txs
            ctx, ps = _run(S, W, "append", keyv, valv)
            S.prove(ctx, ob, f"{name}_append_{number}_single_path_ok", [], _ok(ps), extra={"note": str([(p.outcome, str(p.value)[:80]) for p in ps])[:400]})
            W.apply()
            states.append(dict(W.state))
        S.prove(S.ctx(), ob, f"{name}_second_block_consumed_cells_of_the_first", [], bool(any(k[0] == "ConsumedOutPoint" and k[1] == blocks[1][0] for k in states[2])), extra={"note": str([k for k in states[2] if k[0] == "ConsumedOutPoint"])})
        for back, want in ((1, states[1]), (2, states[0])):
            ctx, ps = _run(S, W, "rollback", keyv, valv)
            S.prove(ctx, ob, f"{name}_rollback_{back}_single_path_ok", [], _ok(ps), extra={"note": str([(p.outcome, str(p.value)[:80]) for p in ps])[:400]})
            W.apply()
            diff = {k: (strip(want).get(k), strip(W.state).get(k)) for k in set(strip(want)) | set(strip(W.state)) if strip(want).get(k) != strip(W.state).get(k)}
            S.prove(ctx, ob, f"{name}_after_{back}_rollbacks_rows_equal_the_state_{2 - back}_blocks_in", [], bool(not diff), extra={"note": str(diff)[:1500]})


from obligations.indexer_query import m4_get_transactions, m5_get_cells, m6_get_cells_capacity, m7_filter_options, m8_build_query_options     # noqa: E402  (query side: the `get_transactions` / `get_cells` RPCs over two index rows)

OBLIGATIONS = [m1_m2_append_then_rollback, m3_two_blocks_then_two_rollbacks, m4_get_transactions, m5_get_cells, m6_get_cells_capacity, m7_filter_options, m8_build_query_options]

ENGINE = "M"
LEVEL = "other"
EXPLANATION = ("Indexer::append and Indexer::rollback are executed symbolically from their (generic) MIR on block scenarios; the store is an environment whose reads answer from the "
               "scenario state and whose batch operations are logged with structured keys; the logged rows are compared with the definition of the index and rollback is checked to "
               "restore the state before the append. The get_transactions query is executed on two symbolic index rows under the searched prefix (membership in the prefix, coordinates, "
               "filter-row existence and transaction identity symbolic), the database iterator and point lookups as environment.")
BOUNDS = {"scenarios": "5 block shapes (cellbase only; spending an untyped / typed cell of an earlier block; a cell created and spent inside the block; an input unknown to the index), <= 3 transactions, <= 2 inputs/outputs",
          "query": "get_transactions: 2 rows (thorough: 3 in the ungrouped branch) following the start key, limit 1 and 2, Lock/Type search, grouped/ungrouped, exact/prefix mode, script filter present, block range present or not",
          "query_capacity": "get_cells_capacity: 2 rows (thorough: 3), Lock/Type search, one filter at a time (9 kinds), exact and prefix mode, newest header row present or not",
          "query_cells": "get_cells: 2 rows (thorough: 3) following the start key, Lock/Type search, one filter at a time (9 kinds incl. none), exact mode limit 2 (limit 1 for two filters), prefix mode, with and without data; with a pool attached (cells consumed by pool transactions are hidden); one row with ALL filters and the pool at once",
          "query_options": "FilterOptions conversion: 4 search keys (all filter fields given, no output-data mode, no filter, with_data false); build_query_options: Lock/Type x Asc/Desc x with/without cursor, byte strings as lists of segments",
          "outside": "byte encodings of keys and values, combinations of several filters on more than one row, custom filters, prune, rich indexer"}
ASSUMPTIONS = ["key and value byte encodings are injective (modelled as records)", "store reads see the committed state, batch writes become visible at commit", "no custom filter; append/rollback without pool, queries with and without pool (the pool's answer per out-point is an environment symbol)",
               "query: the iterator yields the rows in key order; every transaction-index key ends with 17 bytes of coordinates (storage invariant established by append, m1); the request is within the request limit and does not time out"]
TRUSTED = []
LEVEL_TEXT = ("Decided on the real MIR of Indexer::append / rollback for bounded block scenarios: the rows written for a block are exactly the definition of the index (live cells by script, "
              "transactions by script, consumed cells kept for undo), and rollback restores every row of the state before the append. get_transactions answers exactly the scanned rows under the searched prefix that pass the script filter (looked up in the transaction index of the other script kind under "
              "the row's own coordinates), the exact-length test and the block range, in scan order, grouped by transaction when asked, never more than the limit. get_cells answers exactly the scanned live-cell rows under the prefix that pass the (single) filter "
              "-- script prefix / length of the cell's other script, output data prefix / exact / partial, data length, capacity, block range, each a half-open range -- with the cell loaded by the row's own out-point; get_cells_capacity sums the capacities of exactly those rows and reports the newest header row. "
              "byte encodings, prune and histories longer than one append/rollback are outside and not claimed.")
LEVEL_NOTE = "Partial claim (row-level append/rollback on bounded scenarios; get_transactions, get_cells and get_cells_capacity over two rows, one filter at a time). Filter combinations over several rows, encodings, prune, RocksDB, SQL back end: outside."
TECHNIQUE = "symbolic execution of rustc MIR (scenario store as environment, logged batch operations), decided by the executor + SMT (cvc5 + z3) for path feasibility"
DESIGN_REF = "DESIGN.md section 4 (C18)"
